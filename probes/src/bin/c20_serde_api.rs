//! C20: serialization and deserialization are available for both container flavours under every
//! strategy that can be default-constructed.
#![allow(deprecated)]
use std::sync::Arc;

use arc_swap::strategy::test_strategies::FillFastSlots;
use arc_swap::strategy::DefaultStrategy;
use arc_swap::ArcSwapAny;
use serde::{de::DeserializeOwned, Serialize};

fn both<T: Serialize + DeserializeOwned>() {}

fn main() {
    both::<ArcSwapAny<Arc<u64>, DefaultStrategy>>();
    both::<ArcSwapAny<Option<Arc<u64>>, DefaultStrategy>>();
    both::<ArcSwapAny<Arc<u64>, FillFastSlots>>();
    both::<ArcSwapAny<Option<Arc<u64>>, FillFastSlots>>();
    both::<ArcSwapAny<Arc<u64>, std::sync::RwLock<()>>>();
    both::<ArcSwapAny<Option<Arc<u64>>, std::sync::RwLock<()>>>();
    // and it round-trips there
    let a: ArcSwapAny<Arc<u64>, std::sync::RwLock<()>> = serde_json::from_str("7").unwrap();
    assert_eq!(serde_json::to_string(&a).unwrap(), "7");
    let b: ArcSwapAny<Option<Arc<u64>>, FillFastSlots> = serde_json::from_str("null").unwrap();
    assert_eq!(serde_json::to_string(&b).unwrap(), "null");
}
