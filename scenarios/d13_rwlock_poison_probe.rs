#![cfg(feature = "internal-test-strategies")]
#![allow(deprecated)]
use arc_swap::ArcSwapAny;
use std::panic::{catch_unwind, AssertUnwindSafe};
use std::sync::atomic::{AtomicBool, Ordering};
use std::sync::{Arc, RwLock};

struct P(&'static AtomicBool);
impl Drop for P { fn drop(&mut self) { if self.0.load(Ordering::SeqCst) { panic!("injected"); } } }
static ARM: AtomicBool = AtomicBool::new(false);

#[test]
fn rejected_new_destructor_panics_under_the_lock() {
    let a = Arc::new(P(&ARM));
    let b = Arc::new(P(&ARM));
    let c = ArcSwapAny::<Arc<P>, RwLock<()>>::with_strategy(Arc::clone(&a), RwLock::new(()));
    let new = Arc::new(P(&ARM));
    ARM.store(true, Ordering::SeqCst);
    let r = catch_unwind(AssertUnwindSafe(|| { let _ = c.compare_and_swap(&b, new); }));
    ARM.store(false, Ordering::SeqCst);
    assert!(r.is_err(), "the destructor panic did not come out");
    let r2 = catch_unwind(AssertUnwindSafe(|| { let g = c.load(); assert!(Arc::ptr_eq(&*g, &a)); }));
    assert!(r2.is_ok(), "load after the panic panics itself (lock poisoned)");
    c.store(Arc::clone(&b));
    assert!(Arc::ptr_eq(&c.load(), &b));
    drop(c);
    assert_eq!(Arc::strong_count(&a), 1);
    assert_eq!(Arc::strong_count(&b), 1);
}
