// Observation (DESIGN.md §13.3), not raised by any registered check: `rcu` leaks the value it
// replaced when the *destructor of the closure itself* panics as `rcu` returns (the closure is a
// by-value parameter, released after the result is in the return slot; rustc does not drop the
// return slot when a parameter's destructor unwinds — the behaviour behind D9).
// Put into <crate>/tests/ and run `cargo test --offline --test obs_rcu_closure_destructor_probe`:
// fails on the pinned crate (count 2, expected 1).
use arc_swap::ArcSwap;
use std::panic::{catch_unwind, AssertUnwindSafe};
use std::sync::Arc;

struct Bomb;
impl Drop for Bomb { fn drop(&mut self) { if !std::thread::panicking() { panic!("closure destructor"); } } }

#[test]
fn rcu_closure_destructor_panics() {
    let a = Arc::new(1usize);
    let c = ArcSwap::new(Arc::clone(&a));
    let bomb = Bomb;
    let r = catch_unwind(AssertUnwindSafe(|| { let _ = c.rcu(move |v| { let _b = &bomb; Arc::new(**v + 1) }); }));
    assert!(r.is_err());
    assert_eq!(**c.load(), 2, "the exchange happened");
    assert_eq!(Arc::strong_count(&a), 1, "the replaced value is still counted by somebody");
}
