#!/bin/bash
# usage: run_all_seeded.sh — applies every seeded change (patch.rebased.diff if present, else patch.diff) to /repo in
# turn, runs the check of its property (quick tier), undoes it; one line per change in .scratch/seeded_all.log.
# Committed evidence is restored after each run.
cd /verif
[ -n "$APPEND" ] || : > .scratch/seeded_all.log
for d in ${BATCHES:-seeded seeded3 seeded4 seeded5 seeded6 seeded7}; do
  for id in $(ls $d); do
    f=$d/$id/patch.diff; [ -f $d/$id/patch.rebased.diff ] && f=$d/$id/patch.rebased.diff
    [ -f $f ] || continue
    if ! git -C /repo diff --quiet; then echo "/repo has uncommitted changes; refusing"; exit 2; fi
    git -C /repo apply /verif/$f || { echo "$d/$id: patch does not apply" | tee -a .scratch/seeded_all.log; continue; }
    cp evidence/$id.json .scratch/evidence_keep_$id.json
    start=$(date +%s); out=$(./check $id 2>&1); rc=$?
    cp evidence/$id.json $d/$id/evidence_with_change.json; cp .scratch/evidence_keep_$id.json evidence/$id.json
    git -C /repo checkout -- .
    echo "$out" | grep -E '^(problem|violation|VIOLATION|KNOWN)' | cut -c1-400 > $d/$id/check_output.txt
    echo "$d/$id rc=$rc $(( $(date +%s) - start ))s :: $(echo "$out" | grep -E '^VIOLATION' | head -1)" | tee -a .scratch/seeded_all.log
  done
done
./rs2lean/target/release/rs2lean /repo/src ArcSwapModel/ArcSwapModel/Generated > /dev/null
