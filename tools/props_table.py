"""Per-property configuration of /verif/check."""
CONC_TRUST = ['M is hand-written: its shape is tied to the source by the per-function skeleton/site obligations and its behaviour by the trace correspondence on the sampled schedules',
              'theorems about M hold for sequentially consistent interleavings']
PROPS = {
 'C08': dict(module='ArcSwapModel.Props.C08', conc=True, families=['steps', 'uaf', 'nofast', 'guards'],
             search_families=['steps'], kinds=['wait-freedom'], load_bound=25,
             quick_count=400, thorough_count=20000, trusted=CONC_TRUST,
             assumptions=['one atomic RMW and one RefCnt inc/dec is a bounded number of machine steps',
                          'hypotheses of the bound: the thread owns a node, and the call does not wrap the transaction counter']),
 'C15': dict(module='ArcSwapModel.Props.C15', harness_modes=['kinds'], extra=['extra_kinds'],
             trusted=['std\'s Arc/Rc/Weak count behaviour and allocator addresses are parameters of the Kinds model, validated by running the real impls (not proved)'],
             assumptions=['std: into_raw/from_raw/ptr::read+forget touch no count; clone/drop add/remove exactly one; Weak::new() is the dangling sentinel']),
 'C19': dict(module='ArcSwapModel.Props.C19', modules=['ArcSwapModel.Props.C19', 'ArcSwapModel.Tie.AutoTraitsTable'],
             harness_modes=['rlib'], extra=['extra_autotraits'],
             trusted=['the auto-trait rules (AutoTraits.auto) are a model of rustc, validated against rustc for every table cell on every run', 'parametricity of auto traits in the pointee type'],
             assumptions=['all other type parameters (closures, accesses) are instantiated with Send + Sync types']),
 'C20': dict(module='ArcSwapModel.Props.C20', harness_modes=['serde'], extra=['extra_serde'],
             trusted=['the serde framework (that real Serializers see what SerdeM.ser describes) and serde\'s rc feature (a pointer serializes as its target)'],
             assumptions=['Serialize goes through load(), which for the serializing thread returns the current value (C03)']),
 'C16': dict(module='ArcSwapModel.Props.C16', harness_modes=['cache'], extra=['extra_cache'],
             trusted=['load_full is one atomic event of CacheM (its linearizability is C03); the relaxed pointer peek is modelled as reading the current value (SC)'],
             assumptions=['None is an address like any other (null is never freed)', 'weak-memory: a stale relaxed peek that equals the cached address returns the cached value, one that differs triggers a reload; not modelled globally']),
}
