"""C16 correspondence: the real Cache (environment injected at both touch points of revalidate,
addresses reused) vs the Lean CacheM, event by event; plus model-independent oracles."""
import os, subprocess
def run(pid, tier, seed, ROOT, REPO, WORK):
    out = {'coverage': {}, 'problems': [], 'violations': [], 'samples': []}
    h = os.path.join(ROOT, 'harness', 'target', 'debug', 'harness')
    d = os.path.join(ROOT, 'ArcSwapModel', '.lake', 'build', 'bin', 'driver')
    count = 500 if tier == 'quick' else 30000
    impl = os.path.join(WORK, 'cache_impl.txt'); model = os.path.join(WORK, 'cache_model.txt')
    p = subprocess.run([h, 'cache', '--seed', str(seed), '--count', str(count)], stdout=open(impl, 'w'), stderr=subprocess.PIPE, text=True)
    if p.returncode != 0:
        out['violations'].append(('cache: the harness died: ' + p.stderr[-300:], impl)); return out
    subprocess.run([d, 'cache', impl], stdout=open(model, 'w'))
    def execs(path, is_impl):
        res = {}; cur = None
        for l in open(path):
            l = l.rstrip('\n')
            if l.startswith('exec '): cur = int(l.split()[1]); res[cur] = {'ev': [], 'obs': [], 'viol': []}
            elif cur is None: continue
            elif l.startswith('ev '):
                a, b = l[3:].split(' | '); res[cur]['ev'].append(a); res[cur]['obs'].append(b)
            elif l.startswith('violation '): res[cur]['viol'].append(l[10:])
            elif l == 'endexec': cur = None
            elif not is_impl: res[cur]['obs'].append(l)
        return res
    I = execs(impl, True); M = execs(model, False)
    dis = []; viol = []; events = 0; distinct = set(); reloads = 0; reuse = 0
    for k, e in I.items():
        events += len(e['ev']); distinct.add(' ; '.join(e['ev']))
        addrs = [x.split()[1] for x in e['ev'] if x.startswith('new ')]
        if len(set(addrs)) < len(addrs): reuse += 1
        m = M.get(k, {'obs': []})['obs']
        for i, o in enumerate(e['obs']):
            mo = m[i] if i < len(m) else '<missing>'
            if mo != o: dis.append(f'exec {k} event {i} `{e["ev"][i]}`: impl `{o}` vs model `{mo}`'); break
        for v in e['viol']: viol.append((k, v))
    out['coverage'] = {'evaluations': len(I), 'distinct_nontrivial': len(distinct), 'traces_validated_against_impl': len(I) - len(dis),
                       'events_compared': events, 'executions_with_address_reuse': reuse,
                       'rule': 'random scripts: environment events (store of a new value at a pooled, reused address; store of an old value again: A-B-A; other owners cloning/dropping) before each Cache::load and between its pointer peek and its load_full (injected through the Deref handle the cache holds); distinct = distinct event scripts'}
    out['samples'] = [{'cache_script': I[k]['ev'][:10], 'observed': I[k]['obs'][:10]} for k in list(I)[:1]]
    if dis: out['problems'].append(('correspondence', 'CacheM disagrees with the real Cache: ' + dis[0]))
    if viol:
        path = os.path.join(ROOT, 'replays'); os.makedirs(path, exist_ok=True)
        path = os.path.join(path, f'{pid}-cache-{viol[0][0]}.txt')
        k = viol[0][0]
        open(path, 'w').write(f'harness cache --seed {seed} --count {count}, execution {k}\n' + '\n'.join(f'ev {a} | {b}' for a, b in zip(I[k]['ev'], I[k]['obs'])) + '\n' + '\n'.join(I[k]['viol']) + '\n')
        out['violations'].append((viol[0][1][:300], path))
    return out
