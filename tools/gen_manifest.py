#!/usr/bin/env python3
"""Writes /verif/MANIFEST.json from tools/props_table.py + tools/manifest_text.py."""
import json, os, sys
ROOT = os.path.dirname(os.path.dirname(os.path.abspath(__file__)))
sys.path.insert(0, os.path.join(ROOT, 'tools'))
from props_table import PROPS
from manifest_text import TEXT, NOT_YET
ALL = [f'C{k:02d}' for k in range(1, 21)]
checks = []
for pid in ALL:
    if pid not in PROPS: continue
    t = TEXT[pid]
    checks.append({
        'property_id': pid,
        'quick_cmd': f'./check {pid} --tier quick',
        'thorough_cmd': f'./check {pid} --tier thorough',
        'evidence_file': f'/verif/evidence/{pid}.json',
        'replay_cmd_template': f'./check {pid} --replay {{path}}',
        'engine': 'lean+harness',
        'level_claimed': {'category': t.get('category', 'proof'), 'text': t['text'], 'design_ref': t['design_ref']},
        'level_note': t['note'],
        'technique': t['technique'],
    })
m = {
    'version': 1,
    'setup_cmd': './setup.sh',
    'hooks': {
        'guard': 'arc_swap_verif',
        'enable': 'RUSTFLAGS="--cfg arc_swap_verif" (set in /verif/harness/.cargo/config.toml; the harness depends on /repo by path)',
        'baseline_off_cmd': 'cd /repo && cargo test --workspace --no-fail-fast --offline',
        'source_commits': ['3d8f2a2', '57d1c79', 'f882319'],
        'add_only': True,
    },
    'engines': [
        {'name': 'lean', 'path': '/verif/ArcSwapModel', 'serves_properties': [c['property_id'] for c in checks], 'kind_free_text': 'Lean 4 library: models (M, periphery), theorems (Props/), tie obligations (Tie/), generated trees (Generated/, rebuilt from /repo on every run)'},
        {'name': 'rs2lean', 'path': '/verif/rs2lean', 'serves_properties': [c['property_id'] for c in checks], 'kind_free_text': 'translator: syn parser printing every non-test item of /repo/src as S-expressions for Lean'},
        {'name': 'harness', 'path': '/verif/harness', 'serves_properties': [c['property_id'] for c in checks], 'kind_free_text': 'correspondence + oracles: real crate under --cfg arc_swap_verif with a deterministic scheduler; traces diffed against the Lean machine'},
    ],
    'checks': checks,
    'not_applicable': [{'property_id': pid, 'reason': NOT_YET} for pid in ALL if pid not in PROPS],
    'notes': 'All checks share one entry point (/verif/check). Findings: /verif/known_findings.json. Seeded changes used to test the checks: /verif/seeded/.',
}
json.dump(m, open(os.path.join(ROOT, 'MANIFEST.json'), 'w'), indent=1)
print('MANIFEST.json:', len(checks), 'checks,', len(m['not_applicable']), 'not claimed')
