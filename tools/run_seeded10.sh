#!/bin/bash
# usage: run_seeded10.sh <ID>  — tenth batch: takes the sub-agent's deliverables from /tmp/m10_<ID>, stores them in
# /verif/seeded10/<ID>/, applies the change to /repo, runs ./check <ID>, undoes it (committed evidence is kept).
cd /verif
for id in "$@"; do
  mkdir -p seeded10/$id
  [ -f /tmp/m10_$id/MUTANT.diff ] && cp /tmp/m10_$id/MUTANT.diff seeded10/$id/patch.diff && cp /tmp/m10_$id/MUTANT.md seeded10/$id/notes.md && cp /tmp/m10_$id/tests/mutant_demo.rs seeded10/$id/ 2>/dev/null
  if ! git -C /repo diff --quiet; then echo "/repo has uncommitted changes; refusing"; exit 2; fi
  git -C /repo apply /verif/seeded10/$id/patch.diff || { echo "$id: patch does not apply"; continue; }
  cp evidence/$id.json .scratch/evidence_keep_$id.json
  start=$(date +%s); out=$(./check $id 2>&1); rc=$?
  cp evidence/$id.json seeded10/$id/evidence_with_change.json; cp .scratch/evidence_keep_$id.json evidence/$id.json
  git -C /repo checkout -- . ; git -C /repo status --short | grep -v '^??' | head -2
  echo "== $id rc=$rc ($(( $(date +%s) - start )) s)"
  echo "$out" | grep -E '^(problem|violation|VIOLATION|KNOWN)' | cut -c1-400 | tee seeded10/$id/check_output.txt
done
./rs2lean/target/release/rs2lean /repo/src ArcSwapModel/ArcSwapModel/Generated > /dev/null
