"""C17 correspondence: guards through the real Access machinery vs the Lean AccessM prediction."""
import os, subprocess
def run(pid, tier, seed, ROOT, REPO, WORK):
    out = {'coverage': {}, 'problems': [], 'violations': [], 'samples': []}
    h = os.path.join(ROOT, 'harness', 'target', 'debug', 'harness')
    d = os.path.join(ROOT, 'ArcSwapModel', '.lake', 'build', 'bin', 'driver')
    count = 600 if tier == 'quick' else 40000
    impl = os.path.join(WORK, 'access_impl.txt'); model = os.path.join(WORK, 'access_model.txt')
    p = subprocess.run([h, 'access', '--seed', str(seed), '--count', str(count)], stdout=open(impl, 'w'), stderr=subprocess.PIPE, text=True)
    died = None
    if p.returncode != 0:
        last = [l for l in p.stderr.splitlines() if l.startswith('try ')]
        died = f'the process died (signal/abort, exit status {p.returncode}) while dereferencing a guard of the observation `{last[-1] if last else "?"}` (shapes by index: see harness/src/access_mode.rs)'
    subprocess.run([d, 'access', impl], stdout=open(model, 'w'))
    a = [l.rstrip('\n') for l in open(impl)]; b = [l.rstrip('\n') for l in open(model)]
    bad = []; shapes = {}
    for k, x in enumerate(a):
        y = b[k] if k < len(b) else '<missing>'
        shapes[x.split()[0]] = shapes.get(x.split()[0], 0) + 1
        if not x.startswith(y): bad.append(f'guard does not denote the projection of its one snapshot: observed `{x}`; one-snapshot semantics gives `{y}`')
        if 'alive_while_guarded=0' in x or 'released_after=0' in x: bad.append('snapshot not kept alive by the guard / not released with it: ' + x)
    out['coverage'] = {'evaluations': len(a), 'distinct_nontrivial': len(set(a)), 'traces_validated_against_impl': len(a) - len(bad), 'shapes': shapes,
                       'rule': 'random observations over 21 access shapes (container, &, Arc, Map depth 1-2, Box/Arc<dyn DynAccess>, dyn over Map over dyn over Map, AccessConvert, Constant, Map (depth 1-2, static and dyn) over Constant and over the container viewed as Access<Arc<T>> with projections into what the inner guard holds inline, guard moved to another thread, keep-alive, keep-alive of a guard that outlives its loading thread whose bookkeeping a newcomer has taken over); every guard is boxed (moved) and the stack below it overwritten between creation and each deref, 0-3 stores between guard creation and each later deref; distinct = distinct observation lines; non-trivial: all (each checks stability and freshness)'}
    out['samples'] = [{'access_observation': x} for x in a[:3]]
    if died: bad.append(died)
    if bad:
        path = os.path.join(ROOT, 'replays'); os.makedirs(path, exist_ok=True)
        path = os.path.join(path, f'{pid}-access.txt'); open(path, 'w').write('\n'.join(bad[:50]) + f'\n\nreplay: harness access --seed {seed} --count {count}\n')
        out['violations'].append((bad[0][:300], path))
    return out
