#!/bin/bash
# usage: run_seeded11.sh <ID>  — eleventh batch: takes the sub-agent's deliverables from /tmp/m11_<ID>, stores them in
# /verif/seeded11/<ID>/, applies the change to /repo, runs ./check <ID>, undoes it (committed evidence is kept).
cd /verif
for id in "$@"; do
  mkdir -p seeded11/$id
  [ -f /tmp/m11_$id/MUTANT.diff ] && cp /tmp/m11_$id/MUTANT.diff seeded11/$id/patch.diff && cp /tmp/m11_$id/MUTANT.md seeded11/$id/notes.md && cp /tmp/m11_$id/tests/mutant_demo.rs seeded11/$id/ 2>/dev/null
  if ! git -C /repo diff --quiet; then echo "/repo has uncommitted changes; refusing"; exit 2; fi
  git -C /repo apply /verif/seeded11/$id/patch.diff || { echo "$id: patch does not apply"; continue; }
  cp evidence/$id.json .scratch/evidence_keep_$id.json
  start=$(date +%s); out=$(./check $id 2>&1); rc=$?
  cp evidence/$id.json seeded11/$id/evidence_with_change.json; cp .scratch/evidence_keep_$id.json evidence/$id.json
  git -C /repo checkout -- . ; git -C /repo status --short | grep -v '^??' | head -2
  echo "== $id rc=$rc ($(( $(date +%s) - start )) s)"
  echo "$out" | grep -E '^(problem|violation|VIOLATION|KNOWN)' | cut -c1-400 | tee seeded11/$id/check_output.txt
done
./rs2lean/target/release/rs2lean /repo/src ArcSwapModel/ArcSwapModel/Generated > /dev/null
