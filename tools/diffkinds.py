#!/usr/bin/env python3
"""C15 correspondence: impl lines (with pointee=) vs model lines (without). exit 1 on disagreement."""
import sys, re, json
impl = [l.rstrip('\n') for l in open(sys.argv[1]) if l.startswith('kind=')]
model = {}
for l in open(sys.argv[2]):
    l = l.rstrip('\n')
    m = re.match(r'(kind=\S+ state=\S+ op=\S+) ?(.*)', l)
    if m: model[m.group(1)] = m.group(2)
bad = []; n = 0; keys = set()
for l in impl:
    pointee = re.search(r'pointee=(\S+)', l).group(1)
    k = re.sub(r' pointee=\S+', '', l)
    m = re.match(r'(kind=\S+ state=\S+ op=\S+) ?(.*)', k)
    n += 1; keys.add(m.group(1))
    if model.get(m.group(1)) != m.group(2):
        bad.append({'impl': l, 'model': model.get(m.group(1))})
missing = [k for k in model if k not in keys]
print(json.dumps({'observations': n, 'distinct_cases': len(keys), 'disagreements': bad[:10], 'n_disagreements': len(bad), 'model_cases_not_exercised': missing[:10], 'sample': impl[:3]}, indent=1))
sys.exit(1 if bad or missing else 0)
