#!/usr/bin/env python3
"""Compare the implementation's traces (harness output) with the model's (Lean driver output).
usage: difftrace.py impl.txt model.txt  -> prints JSON summary; exit 1 on any disagreement."""
import sys, json
def parse_impl(path):
    ex = {}; cur = None; intrace = False
    for l in open(path):
        l = l.rstrip('\n')
        if l.startswith('exec '):
            cur = int(l.split()[1]); ex[cur] = {'trace': [], 'viol': [], 'head': []}; intrace = False
        elif l == 'trace': intrace = True
        elif l == 'endtrace': intrace = False
        elif l == 'endexec': cur = None
        elif cur is not None:
            if intrace: ex[cur]['trace'].append(l)
            elif l.startswith('violation '): ex[cur]['viol'].append(l[10:])
            else: ex[cur]['head'].append(l)
    return ex
def parse_model(path):
    ex = {}; cur = None
    for l in open(path):
        l = l.rstrip('\n')
        if l.startswith('exec '):
            cur = int(l.split()[1]); ex[cur] = {'trace': [], 'fault': []}
        elif l == 'endexec': cur = None
        elif cur is not None:
            if l.startswith('fault '): ex[cur]['fault'].append(l[6:])
            else: ex[cur]['trace'].append(l)
    return ex
def main():
    impl = parse_impl(sys.argv[1]); model = parse_model(sys.argv[2])
    res = {'executions': len(impl), 'steps': 0, 'disagreements': [], 'impl_violations': [], 'model_faults': []}
    for k, e in impl.items():
        m = model.get(k)
        res['steps'] += len(e['trace'])
        if e['viol']:
            res['impl_violations'].append({'exec': k, 'violations': e['viol']})
        if m is None:
            res['disagreements'].append({'exec': k, 'at': 0, 'why': 'model produced no output'}); continue
        if m['fault']:
            res['model_faults'].append({'exec': k, 'faults': m['fault']})
        a, b = e['trace'], m['trace']
        n = min(len(a), len(b))
        bad = next((i for i in range(n) if a[i] != b[i]), None)
        if bad is None and len(a) != len(b): bad = n
        if bad is not None:
            res['disagreements'].append({'exec': k, 'at': bad,
                'impl': a[bad] if bad < len(a) else '<end>', 'model': b[bad] if bad < len(b) else '<end>',
                'context': a[max(0, bad-3):bad]})
    res['n_disagreements'] = len(res['disagreements']); res['disagreements'] = res['disagreements'][:5]
    res['impl_violations'] = res['impl_violations'][:20]; res['model_faults'] = res['model_faults'][:5]
    print(json.dumps(res, indent=1))
    sys.exit(1 if res['disagreements'] else 0)
main()
