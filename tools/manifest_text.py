NOT_YET = 'not claimed yet: the check for this property is still being built in this session (see DESIGN.md §7 for the plan); nothing is asserted about it'
TEXT = {
 'C08': dict(
   text='Lean theorem C08_load_wait_free over the machine M: from any state in which the thread owns a node, a load that does not wrap the transaction counter reaches its response within slotCnt+17 = 25 own steps against an adversary that may rewrite the entire shared state before each reader step (so for every schedule, every number of guards held, both read paths); C08_never_waits: no reader state can repeat. M is tied to the source by per-function skeleton/site obligations re-proved on every run and by a trace correspondence with the real crate; the harness also checks the measured step count of every load against the bound Lean computed.',
   design_ref='§7 C08, §3.3', technique='Lean 4 proof: decreasing measure on the reader\'s program counter, adversarial shared state; tie by regenerated skeletons + trace correspondence',
   note='Assumes one atomic RMW / one RefCnt inc/dec is a bounded number of machine steps. Excludes (as the documentation does) the first use of the crate on a thread and the call that wraps the counter: both go through Node::get, which is lock-free only. Trusted: Lean kernel, rs2lean, harness scheduler; M is hand-written (shape and behaviour checked, not derived).'),
}
