"""C14: every single-threaded program under the three strategies of the real crate vs `Spec` (Lean):
identities returned by every call and the count every live value has once borrowed references are
counted in (count + debt slots naming it), after every call; nothing alive at the end."""
import os, subprocess

def parse_impl(path):
    progs = []; cur = None; st = None
    for l in open(path):
        l = l.rstrip('\n')
        if l.startswith('prog '): cur = {'head': l, 'ops': '', 'st': {}}
        elif cur is None: continue
        elif l.startswith('ops '): cur['ops'] = l[4:]
        elif l.startswith('strategy '): st = int(l.split()[1]); cur['st'][st] = []
        elif l == 'endstrategy': st = None
        elif l == 'endprog': progs.append(cur); cur = None
        elif st is not None: cur['st'][st].append(l)
    return progs

def parse_spec(path):
    progs = []; cur = None
    for l in open(path):
        l = l.rstrip('\n')
        if l.startswith('prog '): cur = []
        elif l == 'endprog': progs.append(cur); cur = None
        elif cur is not None: cur.append(l)
    return progs

NAMES = {0: 'DefaultStrategy', 1: 'FillFastSlots (fallback only)', 2: 'RwLock'}

def compare(p, spec):
    """first disagreement of any strategy with the specification, or None"""
    for st, lines in sorted(p['st'].items()):
        body = [l for l in lines if not l.startswith('final ') and not l.startswith('violation ')]
        for i, s in enumerate(spec):
            got = body[i] if i < len(body) else '<missing>'
            if got != s:
                # the operation this line belongs to
                op = next((spec[j] for j in range(i, -1, -1) if spec[j].startswith('begin ')), '')
                return f'{NAMES[st]}: after `{op[6:]}` the crate gives `{got}`, a plain variable with exact ownership gives `{s}`'
        for l in lines:
            if l.startswith('final ') and l.strip() != 'final':
                return f'{NAMES[st]}: values still alive after everything was dropped: {l[6:]}'
            if l.startswith('violation '):
                return f'{NAMES[st]}: {l[10:]}'
    return None

def run_ops(h, d, WORK, ops_list, tag):
    f = os.path.join(WORK, f'seq_{tag}_ops.txt')
    open(f, 'w').write('\n'.join('ops ' + o for o in ops_list) + '\n')
    impl = os.path.join(WORK, f'seq_{tag}_impl.txt'); spec = os.path.join(WORK, f'seq_{tag}_spec.txt')
    p = subprocess.run([h, 'seq', '--ops-file', f], stdout=open(impl, 'w'), stderr=subprocess.PIPE, text=True)
    if p.returncode != 0: return None
    subprocess.run([d, 'spec', impl], stdout=open(spec, 'w'), timeout=1800)
    return parse_impl(impl), parse_spec(spec)

def shrink(h, d, WORK, ops):
    """greedy removal of operations while some strategy still disagrees with the specification"""
    cur = [o.strip() for o in ops.split(';') if o.strip()]
    changed = True; rounds = 0
    while changed and rounds < 6:
        changed = False; rounds += 1
        i = 0
        while i < len(cur):
            cand = cur[:i] + cur[i+1:]
            r = run_ops(h, d, WORK, [' ; '.join(cand)], 'shrink')
            if r and r[0] and r[1] and compare(r[0][0], r[1][0]):
                cur = cand; changed = True
            else:
                i += 1
    return cur

def run(pid, tier, seed, ROOT, REPO, WORK):
    """the differential run twice: with the harness binary the checks use everywhere (debug
    assertions on), then with the crate compiled without debug assertions (profile `nodebug`:
    what a release build executes - a `debug_assert!` must not carry a side effect)"""
    h = os.path.join(ROOT, 'harness', 'target', 'debug', 'harness')
    out = run_with(pid, tier, seed, ROOT, REPO, WORK, h, 600 if tier == 'quick' else 30000, '')
    if out['violations']: return out
    env = dict(os.environ, CARGO_NET_OFFLINE='true')
    b = subprocess.run(['cargo', 'build', '--offline', '--profile', 'nodebug'], cwd=os.path.join(ROOT, 'harness'),
                       stdout=subprocess.PIPE, stderr=subprocess.STDOUT, text=True, env=env)
    h2 = os.path.join(ROOT, 'harness', 'target', 'nodebug', 'harness')
    if b.returncode != 0 or not os.path.exists(h2):
        out['problems'].append(('correspondence', 'the harness does not build without debug assertions: ' + b.stdout[-300:])); return out
    out2 = run_with(pid, tier, seed + 1, ROOT, REPO, WORK, h2, 300 if tier == 'quick' else 10000, ' (crate built without debug assertions)')
    out['coverage']['without_debug_assertions'] = {k: out2['coverage'].get(k) for k in ('evaluations', 'traces_validated_against_impl', 'operations')}
    out['coverage']['evaluations'] = out['coverage'].get('evaluations', 0) + out2['coverage'].get('evaluations', 0)
    out['coverage']['traces_validated_against_impl'] = out['coverage'].get('traces_validated_against_impl', 0) + out2['coverage'].get('traces_validated_against_impl', 0)
    out['problems'] += out2['problems']; out['violations'] += out2['violations']
    return out

def run_with(pid, tier, seed, ROOT, REPO, WORK, h, count, note):
    out = {'coverage': {}, 'problems': [], 'violations': [], 'samples': []}
    d = os.path.join(ROOT, 'ArcSwapModel', '.lake', 'build', 'bin', 'driver')
    impl = os.path.join(WORK, 'seq_impl.txt'); spec = os.path.join(WORK, 'seq_spec.txt')
    # corpus first: minimized programs of past failures
    corpus = os.path.join(ROOT, 'scenarios', 'seq_corpus.txt')
    bad = []
    if os.path.exists(corpus):
        ops_list = [l[4:].strip() for l in open(corpus) if l.startswith('ops ')]
        r = run_ops(h, d, WORK, ops_list, 'corpus')
        if r is None:
            out['violations'].append(('seq: the harness died on the corpus' + note, corpus)); return out
        for p, s in zip(*r):
            m = compare(p, s)
            if m: bad.append((p, m))
    p = subprocess.run([h, 'seq', '--seed', str(seed), '--count', str(count)], stdout=open(impl, 'w'), stderr=subprocess.PIPE, text=True)
    if p.returncode != 0:
        out['violations'].append(('seq: the harness died (abort inside the crate?)' + note + ': ' + p.stderr[-300:], impl)); return out
    subprocess.run([d, 'spec', impl], stdout=open(spec, 'w'), timeout=1800)
    I = parse_impl(impl); S = parse_spec(spec)
    ops_hist = {}; nops = 0; lines = 0; cas_ok = 0; cas_fail = 0; fallback = 0; selfrep = 0
    for p_, s_ in zip(I, S):
        m = compare(p_, s_)
        if m: bad.append((p_, m))
        for o in p_['ops'].split(';'):
            o = o.strip()
            if not o: continue
            nops += 1; k = o.split()[0]; ops_hist[k] = ops_hist.get(k, 0) + 1
        lines += sum(len(v) for v in p_['st'].values())
        # distribution: outcomes of compare_and_swap in the specification, programs with > 8 guards at once
        held = 0; mx = 0
        for i, l in enumerate(s_):
            if l.startswith('begin cas '):
                cur_id = None
            if l.startswith('end g') and i > 0 and s_[i-1].startswith('begin cas '):
                pass
            if l.startswith('begin load ') or l.startswith('begin cas ') or l.startswith('begin gfrom '):
                if i + 1 < len(s_) and s_[i+1].startswith('end g'): held += 1; mx = max(mx, held)
            if (l.startswith('begin dropg ') or l.startswith('begin ginto ')) and i + 1 < len(s_) and not s_[i+1].startswith('end skip'):
                held -= 1
        if mx > 8: fallback += 1
    out['coverage'] = {'evaluations': len(I) * 3, 'distinct_nontrivial': len(set(p_['ops'] for p_ in I)),
                       'traces_validated_against_impl': (len(I) - len(bad)) * 3,
                       'operations': nops, 'lines_compared': lines, 'operation_kinds': ops_hist,
                       'programs_with_more_than_8_guards_held': fallback,
                       'rule': 'random single-threaded programs (8-40 operations + a final phase dropping every register in random order) over 1-3 containers, 10 handle and 14 guard registers: new/null/clone/drop, load, load_full, Guard::into_inner, Guard::from_inner, guard drop in any order, store, swap, compare_and_swap with current given as &T, &Guard (default strategy), *const, *mut, null, the stored value itself as new (self-replacement), rcu, into_inner, drop and re-creation of containers, the transaction counter preset near its wrap; each program run under DefaultStrategy, FillFastSlots and RwLock<()>; after every call the result identity and count+debts of every live value are compared with Spec'}
    out['samples'] = [{'program': I[0]['ops'][:400], 'spec_lines': S[0][:9]}] if I else []
    if bad:
        p_, m = bad[0]
        small = shrink(h, d, WORK, p_['ops'])
        r = run_ops(h, d, WORK, [' ; '.join(small)], 'min')
        msg = m
        if r and r[0] and r[1]:
            msg = compare(r[0][0], r[1][0]) or m
        path = os.path.join(ROOT, 'replays'); os.makedirs(path, exist_ok=True)
        path = os.path.join(path, f'{pid}-seq.txt')
        with open(path, 'w') as f:
            f.write(f'# {msg}\n# minimized from: {p_["head"]} ({len(bad)} of {len(I)} programs disagree)\n')
            f.write(f'# replay: {h} seq --ops-file <this file>  |  ArcSwapModel/.lake/build/bin/driver spec <its output>\n')
            f.write('ops ' + ' ; '.join(small) + '\n')
            f.write('# original program\n# ops ' + p_['ops'] + '\n')
            if r and r[0]:
                for st, ls in sorted(r[0][0]['st'].items()):
                    f.write(f'# --- {NAMES[st]}\n' + ''.join('# ' + l + '\n' for l in ls))
                f.write('# --- Spec\n' + ''.join('# ' + l + '\n' for l in r[1][0]))
        out['violations'].append(('seq' + note + ': ' + msg, path))
    return out
