"""C15: run every RefCnt method of the real impls and diff with the Lean Kinds model."""
import os, subprocess, json, sys
def run(pid, tier, seed, ROOT, REPO, WORK):
    h = os.path.join(ROOT, 'harness', 'target', 'debug', 'harness')
    d = os.path.join(ROOT, 'ArcSwapModel', '.lake', 'build', 'bin', 'driver')
    impl = os.path.join(WORK, 'kinds_impl.txt'); model = os.path.join(WORK, 'kinds_model.txt')
    out = {'coverage': {}, 'problems': [], 'violations': [], 'samples': []}
    p = subprocess.run([h, 'kinds'], stdout=open(impl, 'w'), stderr=subprocess.PIPE, text=True)
    if p.returncode != 0:
        out['problems'].append(('correspondence', 'harness kinds mode failed: ' + p.stderr[-300:])); return out
    subprocess.run([d, 'kinds'], stdout=open(model, 'w'))
    r = subprocess.run([sys.executable, os.path.join(ROOT, 'tools', 'diffkinds.py'), impl, model], stdout=subprocess.PIPE, text=True)
    try: j = json.loads(r.stdout)
    except Exception: out['problems'].append(('correspondence', 'diffkinds output unreadable')); return out
    out['coverage'] = {'evaluations': j['observations'], 'distinct_nontrivial': j['distinct_cases'],
                       'traces_validated_against_impl': j['observations'] - j['n_disagreements'],
                       'rule': 'every RefCnt method (round trip, as_ptr, inc, dec) of the real impls over 8 kinds x 4 pointee layouts (ZST, u8, align(64), String) x count states (unique, shared, outstanding weak, target dropped, dangling, None, Some(None)); distinct = distinct (kind, state, op); all are non-trivial'}
    out['samples'] = [{'kinds_observation': s} for s in j['sample']]
    if j['n_disagreements'] or j['model_cases_not_exercised']:
        path = os.path.join(ROOT, 'replays'); os.makedirs(path, exist_ok=True)
        path = os.path.join(path, f'{pid}-kinds.txt')
        open(path, 'w').write(json.dumps(j, indent=1))
        d0 = j['disagreements'][0] if j['disagreements'] else {'impl': None, 'model': j['model_cases_not_exercised'][0]}
        # a disagreement here is a concrete input on which a law fails (the model is the law)
        out['violations'].append((f'pointer-kind law fails on the real impl: {d0["impl"]} (the law gives: {d0["model"]})', path))
    return out
