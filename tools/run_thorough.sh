#!/bin/bash
# usage: run_thorough.sh [parallel] [ids...] — runs claimed checks in the thorough tier, up to N at a time
cd /verif
P=${1:-5}; shift
IDS="$@"
[ -z "$IDS" ] && IDS=$(python3 -c "import json; print(' '.join(c['property_id'] for c in json.load(open('MANIFEST.json'))['checks']))")
mkdir -p .scratch
echo $IDS | tr ' ' '\n' | \
  xargs -P $P -I{} bash -c 'start=$(date +%s); out=$(./check {} --tier thorough 2>&1); rc=$?; echo "{} rc=$rc $(( $(date +%s) - start ))s :: $(echo "$out" | grep -E "held|VIOLATION|KNOWN" | tail -1 | cut -c1-160)" | tee -a .scratch/thorough.log'
