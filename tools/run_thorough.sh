#!/bin/bash
# runs every claimed check in the thorough tier, up to $1 (default 5) at a time; one line each
cd /verif
P=${1:-5}
mkdir -p .scratch
python3 -c "import json; print('\n'.join(c['property_id'] for c in json.load(open('MANIFEST.json'))['checks']))" | \
  xargs -P $P -I{} bash -c 'start=$(date +%s); out=$(./check {} --tier thorough 2>&1); rc=$?; echo "{} rc=$rc $(( $(date +%s) - start ))s :: $(echo "$out" | grep -E "held|VIOLATION|KNOWN" | tail -1 | cut -c1-160)" | tee -a .scratch/thorough.log'
