#!/bin/bash
# usage: confirm_mutant.sh <ID>   — confirms a seeded change in its scratch worktree /tmp/mut_<ID>:
#  suite passes with the change; demo fails with it; demo passes without it. Writes /verif/seeded/<ID>/confirm.log
ID=$1; D=/tmp/mut_$ID; OUT=/verif/seeded/$ID/confirm.log
cd $D || exit 2
export CARGO_NET_OFFLINE=true
{
echo "== $ID: confirming in $D at $(date -u +%FT%TZ)"
git diff -- src > /tmp/confirm_$ID.diff
if ! diff -q /tmp/confirm_$ID.diff /verif/seeded/$ID/patch.diff >/dev/null; then echo "NOTE: working tree differs from patch.diff; re-applying"; git checkout -- src; git apply /verif/seeded/$ID/patch.diff || exit 3; fi
mkdir -p /tmp/confirm_hold_$ID; [ -f tests/mutant_demo.rs ] && mv tests/mutant_demo.rs /tmp/confirm_hold_$ID/
echo "-- existing suite WITH the change (default features)"
cargo test --offline 2>&1 | grep -E '^test result|FAILED|panicked' | head -8
echo "-- existing suite WITH the change (internal-test-strategies,weak,serde)"
cargo test --offline --features internal-test-strategies,weak,serde 2>&1 | grep -E '^test result|FAILED|panicked' | head -8
if [ -f /tmp/confirm_hold_$ID/mutant_demo.rs ]; then
  mv /tmp/confirm_hold_$ID/mutant_demo.rs tests/
  echo "-- demo WITH the change (expected: fails)"
  timeout 600 cargo test --offline --test mutant_demo 2>&1 | grep -E '^test result|^test .*(FAILED|ok)|panicked at' | head -12
  git apply -R /verif/seeded/$ID/patch.diff
  echo "-- demo WITHOUT the change (expected: passes)"
  timeout 900 cargo test --offline --test mutant_demo 2>&1 | grep -E '^test result|^test .*(FAILED|ok)|panicked at' | head -12
  git apply /verif/seeded/$ID/patch.diff
else
  echo "-- no tests/mutant_demo.rs (demo is a separate program; see notes.md)"
fi
echo "== done $(date -u +%FT%TZ)"
} > $OUT 2>&1
rmdir /tmp/confirm_hold_$ID 2>/dev/null
