"""C19 correspondence: the AutoTraits verdicts vs rustc itself, for every cell of the table."""
import os, subprocess, glob, re, json
PRELUDE = '''#![allow(deprecated, dead_code, unused)]
pub struct PSS(u8);
pub struct PSN(std::cell::Cell<u8>);
pub struct PNS(std::marker::PhantomData<*const u8>);
unsafe impl Sync for PNS {}
pub struct PNN(*const u8);
fn send<T: Send>() {}
fn sync<T: Sync>() {}
'''
def run(pid, tier, seed, ROOT, REPO, WORK):
    out = {'coverage': {}, 'problems': [], 'violations': [], 'samples': []}
    d = os.path.join(ROOT, 'ArcSwapModel', '.lake', 'build', 'bin', 'driver')
    lines = subprocess.run([d, 'autotraits'], stdout=subprocess.PIPE, text=True).stdout.strip().splitlines()
    deps = os.path.join(ROOT, 'harness', 'target', 'debug', 'deps')
    rlibs = sorted(glob.glob(os.path.join(deps, 'libarc_swap-*.rlib')), key=os.path.getmtime)
    if not rlibs:
        out['problems'].append(('correspondence', 'arc-swap rlib not found (harness not built)')); return out
    cases = []
    for l in lines:
        s, y, ty = l.split('|', 2)
        cases.append((ty, 'send', s == '1')); cases.append((ty, 'sync', y == '1'))
    wd = os.path.join(WORK, 'autotraits'); os.makedirs(wd, exist_ok=True)
    def compile(sel, name):
        path = os.path.join(wd, name + '.rs')
        with open(path, 'w') as f:
            f.write(PRELUDE)
            for k, (ty, tr, _) in sel:
                f.write(f'fn c{k}() {{ {tr}::<{ty}>(); }}\n')
        p = subprocess.run(['rustc', '--edition', '2021', '--crate-type', 'lib', '--emit', 'metadata', '-o', os.path.join(wd, name + '.rmeta'),
                            '-L', 'dependency=' + deps, '--extern', 'arc_swap=' + rlibs[-1], '--error-format', 'short', '--cap-lints', 'allow', path],
                           stdout=subprocess.PIPE, stderr=subprocess.STDOUT, text=True)
        bad_lines = set(int(m.group(1)) for m in re.finditer(re.escape(path) + r':(\d+):\d+: error', p.stdout))
        other = [l for l in p.stdout.splitlines() if 'error' in l and path not in l and 'aborting' not in l]
        base = PRELUDE.count('\n')
        rejected = {sel[i][0] for i in range(len(sel)) if base + i + 1 in bad_lines}
        return rejected, other, p.stdout
    idx = list(enumerate(cases))
    acc = [(k, c) for k, c in idx if c[2]]
    rej = [(k, c) for k, c in idx if not c[2]]
    r1, o1, log1 = compile(acc, 'expected_accept')
    r2, o2, log2 = compile(rej, 'expected_reject')
    wrong = [(cases[k], 'rustc rejects, model accepts') for k in sorted(r1)]
    wrong += [(cases[k], 'rustc accepts, model rejects') for k, c in rej if k not in r2]
    out['coverage'] = {'evaluations': len(cases), 'distinct_nontrivial': len(cases),
                       'traces_validated_against_impl': len(cases) - len(wrong),
                       'rustc_accepts': len(acc) - len(r1), 'rustc_rejects': len(r2),
                       'rule': 'one rustc trait-bound assertion (fn s<T: Send>() / fn y<T: Sync>()) per cell of the C19 table: 13 wrappers x 5 pointer kinds x 3 strategies x 4 pointee flag pairs x {Send, Sync}, compiled against the crate built from the current source; all cells are distinct'}
    out['samples'] = [{'assertion': f'{tr}::<{ty}>()', 'expected_accept': e} for ty, tr, e in cases[:2] + cases[-2:]]
    if (o1 or o2) and not wrong and (len(r2) == 0):
        out['problems'].append(('correspondence', 'rustc failed for another reason: ' + (o1 + o2)[0][:200]))
    if wrong:
        path = os.path.join(ROOT, 'replays'); os.makedirs(path, exist_ok=True)
        path = os.path.join(path, f'{pid}-autotraits.txt')
        with open(path, 'w') as f:
            for (ty, tr, e), why in wrong: f.write(f'{why}: {tr}::<{ty}>()\n')
            f.write('\nto replay: compile `fn s<T: Send>(){} fn y<T: Sync>(){}` with the assertion against the crate\n')
        unsound = [w for w in wrong if w[1].startswith('rustc accepts')]
        (ty, tr, e), why = (unsound or wrong)[0]
        what = (f'rustc accepts `{ty}: {tr.capitalize()}` although the pointer it stores is not {tr.capitalize()} for this pointee (a wrapper may cross threads only if the stored pointer may)'
                if why.startswith('rustc accepts') else f'rustc rejects `{ty}: {tr.capitalize()}` although the stored pointer is thread-safe and the wrapper is not the deliberately non-Send one')
        out['violations'].append((f'thread-safety marker: {what}', path))
    return out
