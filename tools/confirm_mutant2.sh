#!/bin/bash
# usage: confirm_mutant.sh <ID>   — confirms a seeded change in its scratch worktree /tmp/mut_<ID>:
#  suite passes with the change; demo fails with it; demo passes without it. Writes /verif/seeded/<ID>/confirm.log
ID=$1; D=${MUTDIR:-/tmp/mut_$ID}; SD=${SEEDED:-/verif/seeded}; OUT=$SD/$ID/confirm.log
cd $D || exit 2
export CARGO_NET_OFFLINE=true
{
echo "== $ID: confirming in $D at $(date -u +%FT%TZ)"
# confirm against the tree the checks run on: /repo's current HEAD
HEAD=$(git -C /repo rev-parse --short HEAD)
git checkout -q -- src; git checkout -q --detach $HEAD || exit 3
echo "base: /repo HEAD $HEAD"
git apply $SD/$ID/patch.diff || { echo "patch does not apply to $HEAD"; exit 3; }
mkdir -p /tmp/confirm_hold_$ID; [ -f tests/mutant_demo.rs ] && mv tests/mutant_demo.rs /tmp/confirm_hold_$ID/
echo "-- existing suite WITH the change (default features)"
cargo test --offline 2>&1 | grep -E '^test result|FAILED|panicked' | head -8
echo "-- existing suite WITH the change (internal-test-strategies,weak,serde)"
cargo test --offline --features internal-test-strategies,weak,serde 2>&1 | grep -E '^test result|FAILED|panicked' | head -8
if [ -f /tmp/confirm_hold_$ID/mutant_demo.rs ]; then
  mv /tmp/confirm_hold_$ID/mutant_demo.rs tests/
  echo "-- demo WITH the change (expected: fails)"
  timeout 600 cargo test --offline $DEMOFEAT --test mutant_demo 2>&1 | grep -E '^test result|^test .*(FAILED|ok)|panicked at' | head -12
  git apply -R $SD/$ID/patch.diff
  echo "-- demo WITHOUT the change (expected: passes)"
  timeout 900 cargo test --offline $DEMOFEAT --test mutant_demo 2>&1 | grep -E '^test result|^test .*(FAILED|ok)|panicked at' | head -12
  git apply $SD/$ID/patch.diff
else
  echo "-- no tests/mutant_demo.rs (demo is a separate program; see notes.md)"
fi
echo "== done $(date -u +%FT%TZ)"
} > $OUT 2>&1
rmdir /tmp/confirm_hold_$ID 2>/dev/null
