"""C20 correspondence: real Serialize/Deserialize impls vs the pointee and vs the Lean SerdeM model."""
import os, subprocess, json
def run(pid, tier, seed, ROOT, REPO, WORK):
    out = {'coverage': {}, 'problems': [], 'violations': [], 'samples': []}
    h = os.path.join(ROOT, 'harness', 'target', 'debug', 'harness')
    d = os.path.join(ROOT, 'ArcSwapModel', '.lake', 'build', 'bin', 'driver')
    count = 400 if tier == 'quick' else 20000
    impl = os.path.join(WORK, 'serde_impl.txt'); model = os.path.join(WORK, 'serde_model.txt')
    p = subprocess.run([h, 'serde', '--seed', str(seed), '--count', str(count)], stdout=open(impl, 'w'), stderr=subprocess.PIPE, text=True)
    if p.returncode != 0:
        path = os.path.join(ROOT, 'replays'); os.makedirs(path, exist_ok=True)
        path = os.path.join(path, f'{pid}-serde-died.txt'); open(path, 'w').write(open(impl).read()[-4000:] + '\n' + p.stderr[-3000:] + f'\n\nreplay: harness serde --seed {seed} --count {count}\n')
        out['violations'].append(('serde: the harness died (panic in serialize/deserialize?): ' + p.stderr[-300:].replace('\n', ' '), path)); return out
    subprocess.run([d, 'serde', impl], stdout=open(model, 'w'))
    il = [l.rstrip('\n') for l in open(impl)]
    cases = [l for l in il if l.startswith('case ')]
    typed = [l for l in il if l.startswith('typed ')]
    ml = [l.rstrip('\n') for l in open(model) if l.startswith('case ')]
    bad = []; modelbad = []; distinct = set(); kinds = {}
    for k, l in enumerate(cases):
        parts = l[5:].split('|')
        pref, pointee, a, b, c, dd, e = parts[0], parts[1], parts[2], parts[3], parts[4], parts[5], parts[6]
        distinct.add(pref); kinds[pref.split()[0]] = kinds.get(pref.split()[0], 0) + 1
        if not (a == pointee and b == pointee and c == pointee and dd == pointee and e == 'null'):
            bad.append(f'container serializes differently from its value: value {pref} -> pointee {pointee}; ArcSwap {a}; FillFastSlots {b}; ArcSwapOption(Some) {c}; RwLock {dd}; ArcSwapOption(None) {e}')
        m = ml[k].split('|') if k < len(ml) else ['<missing>']
        if m[0][5:] != pointee or (len(m) > 2 and m[2] != '1'):
            modelbad.append(f'model json {m[0][5:]} vs serde_json {pointee} for {pref}')
    for l in typed:
        if l != 'typed same_as_pointee=1 roundtrip_equal=1 strong=1 option_flavour_equal=1 option_strong=1 null_is_none=1':
            bad.append('typed round trip: ' + l)
    # a store into the container from inside the pointee's own serialize: the stream must be that of
    # the one snapshot taken (id 1, tag "first"), which must not have been destroyed meanwhile
    reent = [l for l in il if l.startswith('reentrant ')]
    for l in reent:
        if 'json=[1,0,"first"]' not in l:
            bad.append('a write during serialization: the value being serialized was destroyed or replaced under the serializer: ' + l)
    shut = [l for l in il if l.startswith('shutdown ')]
    for l in shut:
        if l != 'shutdown ok=1 json=[7,"x"]|{"field0":5,"field1":"FOO","field2":null}':
            bad.append('serialization from a thread-local destructor after the crate\'s thread-local is gone: ' + l)
    if len(shut) != 1:
        bad.append(f'shutdown serialization case: {len(shut)} of 1 ran')
    if len(reent) != 6:
        bad.append(f'reentrant serialization cases: {len(reent)} of 6 ran')
    out['coverage'] = {'evaluations': len(cases) + len(typed), 'distinct_nontrivial': len([p for p in distinct if ' ' in p]) + 1,
                       'traces_validated_against_impl': len(cases) - len(modelbad),
                       'value_shapes': kinds,
                       'rule': 'values generated from VERIF_SEED over the grammar u64/str (incl. empty and non-ASCII)/unit/none/some/pair (depth <= 4), each stored in ArcSwap, ArcSwapOption (Some and None) and under DefaultStrategy, FillFastSlots, RwLock; plus typed round trips of a struct; distinct = distinct values; non-trivial = compound values'}
    out['samples'] = [{'serde_case': c} for c in cases[:2]] + [{'typed': typed[0]}] if typed else []
    if modelbad: out['problems'].append(('correspondence', 'SerdeM disagrees with serde_json: ' + modelbad[0]))
    if bad:
        path = os.path.join(ROOT, 'replays'); os.makedirs(path, exist_ok=True)
        path = os.path.join(path, f'{pid}-serde.txt'); open(path, 'w').write('\n'.join(bad) + f'\n\nreplay: harness serde --seed {seed} --count {count}\n')
        out['violations'].append(('serde: ' + bad[0], path))
    return out
