"""Container-level laws for every pointer kind (harness mode `kindscont`): the same short program
over ArcSwapAny<K> for each kind x pointee layout x count state, checked against the counts the
statement demands, with a black-box probe of the borrow slots; and the strong+weak containers of
one allocation scenario (D11).  No model: the oracle is the statement."""
import os, subprocess

TAKES = {'C02': ('slots:', 'count:'), 'C15': ('identity:', 'count:', 'slots:'), 'C12': ('cross-kind:',), 'C09': (), 'C14': ('identity:', 'count:')}
# C09 takes no line of a finished run: for it only a call that never returns counts (the program hangs)

def run(pid, tier, seed, ROOT, REPO, WORK):
    out = {'coverage': {}, 'problems': [], 'violations': [], 'samples': []}
    h = os.path.join(ROOT, 'harness', 'target', 'debug', 'harness')
    f = os.path.join(WORK, 'kindscont.txt')
    try:
        p = subprocess.run([h, 'kindscont'], stdout=open(f, 'w'), stderr=subprocess.PIPE, text=True, timeout=120)
    except subprocess.TimeoutExpired:
        lines = [l.rstrip('\n') for l in open(f)]
        path = os.path.join(ROOT, 'replays'); os.makedirs(path, exist_ok=True)
        path = os.path.join(path, f'{pid}-kindscont.txt')
        open(path, 'w').write('\n'.join(lines) + '\n\nthe program did not finish within 120 s (it takes well under a second): a call never returned\nreplay: harness/target/debug/harness kindscont\n')
        out['violations'].append(('hang: the container-level program over the pointer kinds does not finish: a call on a container of some kind never returns, running alone (single-threaded; see the replay for the lines printed before)', path))
        return out
    lines = [l.rstrip('\n') for l in open(f)]
    if p.returncode != 0 or not any(l.startswith('kindscont: ') for l in lines):
        path = os.path.join(ROOT, 'replays'); os.makedirs(path, exist_ok=True)
        path = os.path.join(path, f'{pid}-kindscont.txt')
        open(path, 'w').write('\n'.join(lines) + '\n' + p.stderr[-3000:] + '\n\nreplay: harness/target/debug/harness kindscont\n')
        out['violations'].append((f'count: the container-level program over the pointer kinds died (exit status {p.returncode}): {p.stderr.strip().splitlines()[-1][:200] if p.stderr.strip() else ""}', path))
        return out
    mine = [l for l in lines if l.startswith(TAKES.get(pid, ()))] if TAKES.get(pid) else []
    out['coverage'] = {'kinds_container_programs': 237, 'kinds_container_violations_seen': len([l for l in lines if not l.startswith('kindscont: ')]),
                       'kinds_container_rule': 'one program (1/3/8 guards taken and dropped, load_full, Guard::into_inner, store and swap with guards held, compare_and_swap, rcu, into_inner) over ArcSwapAny<K, S> for the three strategies S (default, fallback-only, lock-based) and K in Arc, Rc, Option of either, Weak, rc::Weak x pointee layouts x count states (unique, shared, outstanding weaks, target dropped, dangling, None); after each phase the counts are what they were and eight probe guards of an unrelated container are all borrowed (no borrow slot stays occupied); plus a strong and a weak container of one allocation'}
    if mine:
        path = os.path.join(ROOT, 'replays'); os.makedirs(path, exist_ok=True)
        path = os.path.join(path, f'{pid}-kindscont.txt')
        open(path, 'w').write('\n'.join(mine) + '\n\nreplay: harness/target/debug/harness kindscont\n')
        out['violations'].append((mine[0][:400], path))
    return out
