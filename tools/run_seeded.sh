#!/bin/bash
# usage: run_seeded.sh <ID>...   — applies seeded/<ID>/patch.diff to /repo, runs ./check <ID>, undoes it.
cd /verif
for id in "$@"; do
  if ! git -C /repo diff --quiet; then echo "/repo has uncommitted changes; refusing"; exit 2; fi
  git -C /repo apply /verif/seeded/$id/patch.diff || { echo "$id: patch does not apply"; continue; }
  start=$(date +%s)
  cp evidence/$id.json /tmp/evidence_keep_$id.json 2>/dev/null
  out=$(./check $id 2>&1); rc=$?
  # the evidence file committed must describe the unchanged tree, not this run
  cp evidence/$id.json seeded/$id/evidence_with_change.json 2>/dev/null
  cp /tmp/evidence_keep_$id.json evidence/$id.json 2>/dev/null
  git -C /repo checkout -- . ; git -C /repo status --short | grep -v '^??' | head -2
  echo "== $id rc=$rc ($(( $(date +%s) - start )) s)"
  echo "$out" | grep -E '^(problem|violation|VIOLATION|KNOWN|.*held)' | cut -c1-260 | head -8
  echo "$out" | grep -E '^(problem|violation|VIOLATION)' | cut -c1-400 > /verif/seeded/$id/check_output.txt
done
# leave Generated in line with the restored source
./rs2lean/target/release/rs2lean /repo/src ArcSwapModel/ArcSwapModel/Generated > /dev/null
