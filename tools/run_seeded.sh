#!/bin/bash
# usage: run_seeded.sh <ID>...   — applies seeded/<ID>/patch.diff to /repo, runs ./check <ID>, undoes it.
cd /verif
for id in "$@"; do
  if ! git -C /repo diff --quiet; then echo "/repo has uncommitted changes; refusing"; exit 2; fi
  git -C /repo apply /verif/seeded/$id/patch.diff || { echo "$id: patch does not apply"; continue; }
  start=$(date +%s)
  out=$(./check $id 2>&1); rc=$?
  git -C /repo checkout -- . ; git -C /repo status --short | grep -v '^??' | head -2
  echo "== $id rc=$rc ($(( $(date +%s) - start )) s)"
  echo "$out" | grep -E '^(problem|violation|VIOLATION|KNOWN|.*held)' | cut -c1-260 | head -8
  echo "$out" | grep -E '^(problem|violation|VIOLATION)' | cut -c1-400 > /verif/seeded/$id/check_output.txt
done
# leave Generated in line with the restored source
./rs2lean/target/release/rs2lean /repo/src ArcSwapModel/ArcSwapModel/Generated > /dev/null
