#!/usr/bin/env python3
"""Write seeded<k>/<id>/meta.json for batches 5-10 from what is on disk: the patch (files touched), my
confirmation log (suite with the change, demo with / without), the output of the check against it."""
import json, os, re, sys
ROOT = os.path.dirname(os.path.dirname(os.path.abspath(__file__)))
CHANGE = {
 ('seeded5','C01'): ("Debt::pay_all skips debt nodes that no thread owns at the moment", "a guard that outlives the thread that loaded it (node in cooldown), then a write by a thread that already owns a node"),
 ('seeded5','C10'): ("Debt::pay_all skips debt nodes that are not claimed (Node::is_claimed)", "a guard in one of the eight fast slots moved out of its (exited) creator thread, then a write while the node is unowned"),
 ('seeded5','C02'): ("RefCnt::as_ptr for Weak / rc::Weak no longer maps the dangling Weak::new() to null (into_ptr still does)", "an ArcSwapWeak holding Weak::new(): guard drop cannot pay its debt back (slot stays occupied); compare_and_swap never returns"),
 ('seeded5','C03'): ("`let _ = node.reserve_writer()` in pay_all: the writer reservation is dropped at once", "a writer stalled between producing its replacement and the exchange on the reader's control word, the reader's node given up and re-claimed, the new owner's fallback load with the same generation"),
 ('seeded5','C15'): ("rc::Weak: the empty case decided by weak_count() == 0 (also true when the target is dead)", "an rc::Weak whose target has been dropped"),
 ('seeded5','C17'): ("Node::get resets the fast slots of a node it re-claims", "a projection guard moved out of its loading thread, the thread exits, a newcomer claims its node, then a store"),
 ('seeded5','C19'): ("unsafe impl Send/Sync for DynGuard<T: ?Sized + Sync>", "a DynGuard over a non-thread-safe pointer (Rc, Arc of a !Send/!Sync pointee) with a Sync target"),
 ('seeded5','C20'): ("Serialize reads the raw pointer (ManuallyDrop::new(T::from_ptr(..))) instead of load()", "a store into the container while its serialize is running (other thread, or re-entrantly from the pointee's Serialize)"),
 ('seeded6','C04'): ("hybrid compare_and_swap: a non-spurious failed exchange is answered by a fresh load without comparing again", "the content turns back into `current` between the failed exchange and the fresh load (A-B-A / None again)"),
 ('seeded6','C06'): ("RwLock compare_and_swap: load + compare + plain store under the write lock instead of compare_exchange", "an rcu/compare_and_swap racing with swap/store under the RwLock strategy (swap does not take the lock first)"),
 ('seeded6','C08'): ("fast::Slots::get_debt rewritten without the modulo: no exit when offset == 0 and all eight slots are taken", "a thread that inherits a node whose eight fast slots are occupied, having taken a node without taking a fast slot"),
 ('seeded6','C11'): ("the temporary node of the TLS-destroyed path is handed back as NODE_UNUSED directly", "container operations from a thread-local destructor after the crate's thread-local is gone, on the fallback path, with a writer inside the node"),
 ('seeded6','C12'): ("LocalNode::drop hands the node back as NODE_UNUSED directly (no cooldown)", "a helping writer delayed before its exchange, the reader's thread exits, a new thread claims the node and loads another container with the same generation"),
 ('seeded6','C14'): ("debug_assert_eq!(Debt::NONE, self.slot.0.swap(ptr, SeqCst)) in helping::confirm: the swap vanishes without debug assertions", "a build without debug assertions and a load on the fallback path"),
 ('seeded6','C16'): ("RwLock load: the read lock covers only the pointer read, not from_ptr + inc", "Cache over the RwLock strategy reloading while another thread's store completes between the unlock and the increment"),
 ('seeded6','C18'): ("ArcSwapAny::compare_and_swap passes current.as_raw() to the strategy and drops `current` after the result is built", "compare_and_swap with a Guard by value that is the last owner of a value whose destructor panics"),
 ('seeded7','C05'): ("compare_and_swap wrapper turns `current` into its raw address through a by-value helper: a Guard given by value is dropped before the exchange", "another writer frees the value and a fresh value takes its address between the guard's drop and the internal load"),
 ('seeded7','C13'): ("impl Default for LocalNode (node: None) used at all three construction sites, including the temporary node of the TLS-destroyed path", "any container operation from a thread-local destructor that runs after the crate's own"),
 ('seeded7','C16'): ("Cache keeps the address peeked (cached_ptr = shared_ptr) instead of the address of the value load_full returned", "a store between the peek and the reload, then a later value allocated at the peeked address"),
 ('seeded7','C17'): ("Debt::pay_all skips nodes no thread owns (Node::is_owned)", "a projection guard that outlives its loading thread's ownership of the node, then a store"),
 ('seeded7','C19'): ("unsafe impl Sync for ArcSwapAny<T, S> with bounds on T::Base instead of T", "a container of Rc / rc::Weak with a thread-safe pointee shared by reference between threads"),
 ('seeded7','C20'): ("#[derive(Default)] for LocalNode replacing the three struct literals (the TLS-destroyed path loses its node)", "serialization / deserialization from a thread-local destructor after the crate's thread-local is gone"),
 ('seeded9','C02'): ("Slots::help loads their_space and my_space before it produces the replacement (a full load on the same thread, which can itself be helped: the envelope read earlier is then stale)", "writers holding 8+ guards (their helping load takes the fallback) helped by another writer while helping a reader: two nodes come to share one envelope"),
 ('seeded9','C05'): ("HybridStrategy::compare_and_swap takes the raw address out of `current` before the loop and drops it (a Guard given by value no longer keeps the compared object alive during the call)", "compare_and_swap with a Guard by value under contention: the object is freed and its address reused between the drop and the exchange"),
 ('seeded9','C07'): ("Debt::pay_all: a Relaxed load of the slot before Debt::pay, skipping the compare-exchange when the slot does not hold the pointer", "a reader that has already given its borrowed guard back: the writer no longer acquires the reader's release, so the destruction is not ordered after the reader's accesses (Miri; the vector-clock detector)"),
 ('seeded9','C11'): ("check_cooldown leaves a node in the CHECKING state when a writer is inside (no way back to COOLDOWN)", "a starting thread inspects a given-up node while a writer holds a reservation on it: the node is lost, the list grows with the number of threads ever created"),
 ('seeded9','C12'): ("helping::get_debt publishes the generation (control.swap) before it records the address (active_addr.store)", "a thread on the fallback path reading container A right after container B, a writer of B in between the two steps: A.load() is handed B's value"),
 ('seeded9','C13'): ("`let _ = node.reserve_writer()` in pay_all: the reservation is dropped at once", "a writer stalled inside help while the reader's transaction counter wraps and comes round to the same generation on the same node"),
 ('seeded9','C16'): ("impl Access for Cache: `self.cached.deref()` instead of `self.load().deref()` (no revalidation through the trait)", "a Cache used through the cache::Access trait after a store"),
 ('seeded9','C17'): ("Node::get sets `node.next = head` once before the prepend loop: a failed compare-exchange retries with a stale next, dropping a concurrently inserted node from the list", "two threads whose first operations collide: the guards (plain, Map, DynGuard) of the thread whose node was lost protect nothing"),
 ('seeded10','C01'): ("Node::get resets the fast slots of a node it claims", "a guard moved out of its loading thread, the thread exits, a later thread claims its node: the next write destroys the value under the guard"),
 ('seeded10','C03'): ("Slots::help loads the two space offers before producing the replacement (same as 9/C02, found independently)", "at least two writers and threads holding 8+ guards: a load returns a value of another container"),
 ('seeded10','C09'): ("Slots::help: with the reader on another storage address it re-reads the control and `continue`s instead of leaving when the control is unchanged", "a reader suspended inside its fallback window on container x while a writer of another container y walks past its node: the writer never finishes"),
 ('seeded10','C15'): ("RefCnt::into_ptr for Weak / rc::Weak reuses `Self::as_ptr` (the inherent Weak::as_ptr): Weak::new() converts to std's sentinel, not to null", "a dangling Weak::new(): as_ptr and into_ptr disagree; compare_and_swap / rcu on an empty ArcSwapWeak never return"),
 ('seeded10','C19'): ("unsafe impl Sync for Guard<T, S> where T::Base: Sync (the bound belongs on the pointer T)", "Guard<Rc<U>> or Guard<Arc<U>> with U: Sync + !Send shared by reference between threads"),
 ('seeded11','C01'): ("Debt::pay_all pays the fast slots only: the helping slot is left to `help()` (which looks at the control word alone)", "a reader on the fallback path between the end of its window and its own increment while a writer replaces the value: the value is destroyed under the reader"),
 ('seeded11','C02'): ("Slots::help loads the two space offers once, before its loop (same idea as 9/C02 and 10/C03, found independently a third time)", "five threads on the fallback path: a helper whose own replacement load is helped, or a reader helped twice: two nodes share an envelope, a handed-over count is lost or released twice"),
 ('seeded11','C04'): ("hybrid compare_and_swap: strong exchange without the retry loop; after a failed exchange it returns a fresh load", "A-B-A by another writer between the failed exchange and the second load: the call reports success for a value it never stored"),
 ('seeded11','C05'): ("hybrid compare_and_swap: on a non-spurious failure of the exchange it drops everything and returns a fresh load instead of retrying", "A-B-A inside the call: returns `current` although `new` was rejected and destroyed; rcu loses an update"),
 ('seeded11','C08'): ("HybridProtection::fallback retries the whole fallback when its own pay-off finds the debt already paid", "a writer storing after every confirming swap of a reader that holds 8 guards: the reader's steps grow with the number of writes"),
 ('seeded11','C18'): ("ArcSwapAny::compare_and_swap hands only the raw address of `current` to the strategy; a by-value guard is released as a parameter of the wrapper", "a guard given by value that is the last owner of a value whose destructor panics: the returned guard leaks with its slot"),
 ('seeded10','C20'): ("Serialize for ArcSwapAny reads the raw pointer (Acquire) and serializes through ManuallyDrop without a guard", "a store into the container while it is being serialized (from another thread or from the pointee's own Serialize)"),
 ('seeded8','C01'): ("HybridProtection::into_inner pays the debt back first and takes its own reference only if that succeeded (was: increment, then pay, decrement if already paid)", "a writer whose walk passes the just-emptied slot and drops the last reference before the reader's increment (load_full / Guard::into_inner racing with a store)"),
 ('seeded8','C03'): ("Slots::help keeps the replacement it loaded when its offer fails and offers the same (possibly stale) value on the next round", "two writers and a reader on the fallback path: the reader finishes one load and starts the next between the helper's load and its second offer"),
 ('seeded8','C04'): ("hybrid compare_and_swap without the retry loop: a failed (strong) exchange is answered by a fresh load, not compared with `current`", "the same pointer comes back into the container (A, B, A) between the failed exchange and the fresh load"),
 ('seeded8','C06'): ("hybrid compare_and_swap without the retry loop: after a failed exchange it returns a fresh load", "rcu on an ArcSwapOption going empty, non-empty, empty (or the same Arc stored again) under contention"),
 ('seeded8','C08'): ("HybridProtection::attempt calls itself again when it finds its debt already paid (was: give the reference back and go to the fallback)", "a writer that replaces the value and pays the reader's slot between the slot write and the confirming read, again and again"),
 ('seeded8','C10'): ("Debt::pay_all skips nodes no thread owns at the moment (Node::is_owned)", "guards handed out of a thread that then exits; a later store, container drop or into_inner by a thread that already has a node"),
 ('seeded8','C14'): ("RefCnt::as_ptr for Weak / rc::Weak no longer maps the dangling Weak::new() to null", "single-threaded compare_and_swap / rcu on an ArcSwapWeak that holds Weak::new(), any strategy"),
 ('seeded8','C18'): ("hybrid compare_and_swap converts `new` with into_ptr before the loop (as rw_lock.rs does): inside the loop it is no longer an owning local", "a panic of a pointee destructor that unwinds out of the loop (the last owner of the replaced value released inside a retry)"),
 ('seeded7','C07'): ("Debt::pay_all skips nodes that are not owned at the moment (Node::is_owned: in_use == NODE_USED), argued with a correct SeqCst ordering for later owners", "a guard whose node was handed back before the guard is dropped (a load from a thread-local destructor after the crate's own: temporary node), then a store"),
 ('seeded7','C09'): ("RefCnt::as_ptr for Weak / rc::Weak no longer maps the dangling Weak::new() to null (into_ptr/from_ptr still do)", "compare_and_swap or rcu on an ArcSwapWeak that holds Weak::new(): the comparison never succeeds, the loop never ends, running alone"),
}
def main():
    for (d, pid), (change, needs) in sorted(CHANGE.items()):
        dd = os.path.join(ROOT, d, pid)
        if not os.path.isdir(dd) or not change: continue
        patch = os.path.join(dd, 'patch.diff')
        files = sorted(set(re.findall(r'^\+\+\+ b/(\S+)', open(patch).read(), re.M))) if os.path.exists(patch) else []
        conf = open(os.path.join(dd, 'confirm.log')).read() if os.path.exists(os.path.join(dd, 'confirm.log')) else ''
        def section(title):
            m = re.search(re.escape(title) + r'.*?\n(.*?)(?=\n-- |\n== |\Z)', conf, re.S)
            return m.group(1).strip().splitlines() if m else []
        suite = section('-- existing suite WITH the change (default features)') + section('-- existing suite WITH the change (internal-test-strategies,weak,serde)')
        with_c = section('-- demo WITH the change'); without = section('-- demo WITHOUT the change')
        out = open(os.path.join(dd, 'check_output.txt')).read().splitlines() if os.path.exists(os.path.join(dd, 'check_output.txt')) else []
        viol = next((l for l in out if l.startswith('VIOLATION')), '')
        meta = {
          'property': pid, 'batch': int(d[len('seeded'):]), 'change': change, 'needs_to_manifest': needs, 'files': files,
          'source': 'independent sub-agent given only the property text and a scratch worktree',
          'applies_as': 'patch.rebased.diff (same change on the current HEAD; the original no longer applies after a later hook/fix commit)' if os.path.exists(os.path.join(dd, 'patch.rebased.diff')) else 'patch.diff',
          'confirmed_by_me': {
             'how': 'tools/confirm_mutant2.sh in the scratch worktree at /repo HEAD: existing suite with the change (default features and internal-test-strategies,weak,serde), demonstration with and without the change; log in confirm.log',
             'suite_with_change': 'all pass' if suite and all('ok.' in l for l in suite if l.startswith('test result')) else 'see confirm.log',
             'demo_with_change': 'fails' if any('FAILED' in l or 'panicked' in l for l in with_c) else 'see confirm.log',
             'demo_without_change': 'passes' if any(l.startswith('test result: ok') for l in without) else 'see confirm.log'},
          'caught_by': {'check': f'./check {pid}',
             'broken_obligations': [l for l in out if l.startswith('problem')][:3],
             'concrete_failing_input': next((l[len('violation: '):] for l in out if l.startswith('violation:')), ''),
             'violation_line': viol},
        }
        json.dump(meta, open(os.path.join(dd, 'meta.json'), 'w'), indent=1)
        print(d, pid, 'concrete' if viol and 'no-failing-input-found' not in viol else ('abstract' if viol else 'NOT CAUGHT'))
main()
