#!/bin/bash
# runs every claimed check (quick tier) on the current tree, sequentially; prints one line each
cd /verif
for id in $(python3 -c "import json; print(' '.join(c['property_id'] for c in json.load(open('MANIFEST.json'))['checks']))"); do
  start=$(date +%s); out=$(./check $id 2>&1); rc=$?
  echo "$id rc=$rc $(( $(date +%s) - start ))s :: $(echo "$out" | grep -E 'held|VIOLATION' | tail -1 | cut -c1-160)"
done
