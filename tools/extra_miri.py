"""Weak-memory replays on the real crate under Miri (C07): the tests that exhibited D3 and D7 before
their repair. Run in the thorough tier as regressions, and (search) whenever the proof obligations
of the property no longer check and the harness found no failing input: Miri explores stale reads
the deterministic (sequentially consistent) scheduler cannot produce."""
import os, subprocess, re, time
TESTS = [('d7_fallback_stale_candidate.rs', 'fallback candidate read vs a writer that already walked past the reader'),
         ('d3_borrowed_read_vs_last_drop.rs', 'read through a borrowed guard vs the last reference dropped after the writer walked')]

def one(ROOT, REPO, test, seeds, timeout):
    p = subprocess.run([os.path.join(ROOT, 'miri', 'run.sh'), os.path.join(ROOT, 'miri', test), seeds, REPO],
                       stdout=subprocess.PIPE, stderr=subprocess.STDOUT, text=True, timeout=timeout)
    out = p.stdout
    bad = ('Undefined Behavior' in out) or ('Data race' in out) or ('data race' in out) or ('FAILED' in out and 'panicked' in out)
    passed = p.returncode == 0
    return bad, passed, out

def run(pid, tier, seed, ROOT, REPO, WORK):
    out = {'coverage': {}, 'problems': [], 'violations': [], 'samples': []}
    if tier != 'thorough': return out
    return explore(pid, ROOT, REPO, '0..32', out)

def search(pid, tier, seed, ROOT, REPO, WORK):
    out = {'coverage': {}, 'problems': [], 'violations': [], 'samples': []}
    return explore(pid, ROOT, REPO, '0..24' if tier == 'quick' else '0..96', out)

def explore(pid, ROOT, REPO, seeds, out):
    res = {}
    for test, what in TESTS:
        t0 = time.time()
        try:
            bad, passed, log = one(ROOT, REPO, test, seeds, 3000)
        except subprocess.TimeoutExpired:
            res[test] = 'timeout'; continue
        res[test] = {'seeds': seeds, 'undefined_behaviour': bad, 'passed': passed, 'wall_s': round(time.time() - t0)}
        if bad:
            path = os.path.join(ROOT, 'replays'); os.makedirs(path, exist_ok=True)
            path = os.path.join(path, f'{pid}-miri-{test}.txt')
            m = re.search(r'(error: Undefined Behavior.*|error: .*[Dd]ata race.*)', log)
            open(path, 'w').write(f'# miri/run.sh miri/{test} {seeds} /repo\n# {what}\n' + log[-6000:])
            out['violations'].append((f'miri: {what}: ' + (m.group(1)[:200] if m else 'undefined behaviour'), path))
            break
        elif not passed:
            out['coverage'].setdefault('notes', []).append(f'miri: {test} did not run to completion')
    out['coverage']['miri'] = res
    return out
