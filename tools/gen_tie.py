#!/usr/bin/env python3
"""(Re)generate the per-function tie modules ArcSwapModel/Tie/<Name>.lean from the CURRENT source.

Run only when the model has been brought in line with a deliberate change of the source (a fix:
commit); the generated files are committed. Each module states, for one function of the crate, the
skeleton and the (operation, orderings) list of its atomic call sites that the model transcribes,
as a theorem about `Extract.fnSkel`/`Extract.fnSites` evaluated on the generated trees — so on a
later run, against a changed source, the kernel either re-proves it or the module fails to build,
and exactly the property modules that import it fail with it."""
import subprocess, re, os, sys, json
ROOT = os.path.dirname(os.path.dirname(os.path.abspath(__file__)))
LEAN = os.path.join(ROOT, 'ArcSwapModel')
FNS = [
 ("HybridNew", "strategy/hybrid.rs","HybridProtection<T>::new"),
 ("HybridAttempt", "strategy/hybrid.rs","HybridProtection<T>::attempt"),
 ("HybridFallback", "strategy/hybrid.rs","HybridProtection<T>::fallback"),
 ("HybridDrop", "strategy/hybrid.rs","<HybridProtection<T> as Drop>::drop"),
 ("HybridFromInner", "strategy/hybrid.rs","<HybridProtection<T> as Protected<T>>::from_inner"),
 ("HybridIntoInner", "strategy/hybrid.rs","<HybridProtection<T> as Protected<T>>::into_inner"),
 ("HybridLoad", "strategy/hybrid.rs","<HybridStrategy<Cfg> as InnerStrategy<T>>::load"),
 ("HybridWaitForReaders", "strategy/hybrid.rs","<HybridStrategy<Cfg> as InnerStrategy<T>>::wait_for_readers"),
 ("HybridCas", "strategy/hybrid.rs","<HybridStrategy<Cfg> as CaS<T>>::compare_and_swap"),
 ("DebtPay", "debt/mod.rs","Debt::pay"),
 ("DebtPayAll", "debt/mod.rs","Debt::pay_all"),
 ("FastGetDebt", "debt/fast.rs","Slots::get_debt"),
 ("HelpingWrapsNext", "debt/helping.rs","Local::wraps_next"),
 ("HelpingGetDebt", "debt/helping.rs","Slots::get_debt"),
 ("HelpingHelp", "debt/helping.rs","Slots::help"),
 ("HelpingConfirm", "debt/helping.rs","Slots::confirm"),
 ("HelpingInit", "debt/helping.rs","Slots::init"),
 ("ListReservationDrop", "debt/list.rs","<NodeReservation<'_> as Drop>::drop"),
 ("ListTraverse", "debt/list.rs","Node::traverse"),
 ("ListStartCooldown", "debt/list.rs","Node::start_cooldown"),
 ("ListCheckCooldown", "debt/list.rs","Node::check_cooldown"),
 ("ListReserveWriter", "debt/list.rs","Node::reserve_writer"),
 ("ListNodeGet", "debt/list.rs","Node::get"),
 ("ListWith", "debt/list.rs","LocalNode::with"),
 ("ListNewFast", "debt/list.rs","LocalNode::new_fast"),
 ("ListNewHelping", "debt/list.rs","LocalNode::new_helping"),
 ("ListConfirmHelping", "debt/list.rs","LocalNode::confirm_helping"),
 ("ListHelp", "debt/list.rs","LocalNode::help"),
 ("ListLocalNodeDrop", "debt/list.rs","<LocalNode as Drop>::drop"),
 ("LibDrop", "lib.rs","<ArcSwapAny<T,S> as Drop>::drop"),
 ("LibWithStrategy", "lib.rs","ArcSwapAny<T,S>::with_strategy"),
 ("LibIntoInner", "lib.rs","ArcSwapAny<T,S>::into_inner"),
 ("LibLoadFull", "lib.rs","ArcSwapAny<T,S>::load_full"),
 ("LibLoad", "lib.rs","ArcSwapAny<T,S>::load"),
 ("LibStore", "lib.rs","ArcSwapAny<T,S>::store"),
 ("LibSwap", "lib.rs","ArcSwapAny<T,S>::swap"),
 ("LibCas", "lib.rs","ArcSwapAny<T,S>::compare_and_swap"),
 ("LibRcu", "lib.rs","ArcSwapAny<T,S>::rcu"),
 ("LibGuardIntoInner", "lib.rs","Guard<T,S>::into_inner"),
 ("LibGuardFromInner", "lib.rs","Guard<T,S>::from_inner"),
 ("LibPtrEq", "lib.rs","ptr_eq"),
 ("RefCntInc", "ref_cnt.rs","RefCnt::inc"),
 ("RefCntDec", "ref_cnt.rs","RefCnt::dec"),
 ("CacheNew", "cache.rs","Cache<A,T>::new"),
 ("CacheLoad", "cache.rs","Cache<A,T>::load"),
 ("CacheLoadNoRevalidate", "cache.rs","Cache<A,T>::load_no_revalidate"),
 ("CacheRevalidate", "cache.rs","Cache<A,T>::revalidate"),
 ("CacheMap", "cache.rs","Cache<A,T>::map"),
 ("CacheMapCacheLoad", "cache.rs","<MapCache<A,T,F> as Access<U>>::load"),
 ("CacheAccessLoad", "cache.rs","<Cache<A,T> as Access<T::Target>>::load"),
 ("RcArcIntoPtr", "ref_cnt.rs", "<Arc<T> as RefCnt>::into_ptr"),
 ("RcArcAsPtr", "ref_cnt.rs", "<Arc<T> as RefCnt>::as_ptr"),
 ("RcArcFromPtr", "ref_cnt.rs", "<Arc<T> as RefCnt>::from_ptr"),
 ("RcRcIntoPtr", "ref_cnt.rs", "<Rc<T> as RefCnt>::into_ptr"),
 ("RcRcAsPtr", "ref_cnt.rs", "<Rc<T> as RefCnt>::as_ptr"),
 ("RcRcFromPtr", "ref_cnt.rs", "<Rc<T> as RefCnt>::from_ptr"),
 ("RcOptIntoPtr", "ref_cnt.rs", "<Option<T> as RefCnt>::into_ptr"),
 ("RcOptAsPtr", "ref_cnt.rs", "<Option<T> as RefCnt>::as_ptr"),
 ("RcOptFromPtr", "ref_cnt.rs", "<Option<T> as RefCnt>::from_ptr"),
 ("WeakAsPtr", "weak.rs", "<Weak<T> as RefCnt>::as_ptr"),
 ("WeakIntoPtr", "weak.rs", "<Weak<T> as RefCnt>::into_ptr"),
 ("WeakFromPtr", "weak.rs", "<Weak<T> as RefCnt>::from_ptr"),
 ("RcWeakAsPtr", "weak.rs", "<RcWeak<T> as RefCnt>::as_ptr"),
 ("RcWeakIntoPtr", "weak.rs", "<RcWeak<T> as RefCnt>::into_ptr"),
 ("RcWeakFromPtr", "weak.rs", "<RcWeak<T> as RefCnt>::from_ptr"),
 ("AsRawRef", "as_raw.rs", "<&'aT as AsRaw<T::Base>>::as_raw"),
 ("AsRawRefGuard", "as_raw.rs", "<&'aGuard<T> as AsRaw<T::Base>>::as_raw"),
 ("AsRawGuard", "as_raw.rs", "<Guard<T> as AsRaw<T::Base>>::as_raw"),
 ("AsRawMutPtr", "as_raw.rs", "<*mutT as AsRaw<T>>::as_raw"),
 ("AsRawConstPtr", "as_raw.rs", "<*constT as AsRaw<T>>::as_raw"),
 ("SerdeSerialize", "serde.rs", "<ArcSwapAny<T,S> as Serialize>::serialize"),
 ("SerdeDeserialize", "serde.rs", "<ArcSwapAny<T,S> as Deserialize<'de>>::deserialize"),
 ("LibFrom", "lib.rs", "<ArcSwapAny<T,S> as From<T>>::from"),
 ("LibNew", "lib.rs", "ArcSwapAny<T,S>::new"),
 ("AccDerefLoad", "access.rs", "<P as Access<T>>::load"),
 ("AccDyn1Load", "access.rs", "<dynDynAccess<T>+'_ as Access<T>>::load"),
 ("AccDyn2Load", "access.rs", "<dynDynAccess<T>+'_+Send as Access<T>>::load"),
 ("AccDyn3Load", "access.rs", "<dynDynAccess<T>+'_+Sync+Send as Access<T>>::load"),
 ("AccArcSwapLoad", "access.rs", "<ArcSwapAny<T,S> as Access<T>>::load"),
 ("AccDirectArcDeref", "access.rs", "<DirectDeref<Arc<T>,S> as Deref>::deref"),
 ("AccDirectArcLoad", "access.rs", "<ArcSwapAny<Arc<T>,S> as Access<T>>::load"),
 ("AccDirectRcDeref", "access.rs", "<DirectDeref<Rc<T>,S> as Deref>::deref"),
 ("AccDirectRcLoad", "access.rs", "<ArcSwapAny<Rc<T>,S> as Access<T>>::load"),
 ("AccDynGuardDeref", "access.rs", "<DynGuard<T> as Deref>::deref"),
 ("AccDynAccessLoad", "access.rs", "<A as DynAccess<T>>::load"),
 ("AccConvertLoad", "access.rs", "<AccessConvert<D> as Access<T>>::load"),
 ("AccMapGuardDeref", "access.rs", "<MapGuard<G,F,T,R> as Deref>::deref"),
 ("AccMapNew", "access.rs", "Map<A,T,F>::new"),
 ("AccMapLoad", "access.rs", "<Map<A,T,F> as Access<R>>::load"),
 ("AccConstantDeref", "access.rs", "<ConstantDeref<T> as Deref>::deref"),
 ("AccConstantLoad", "access.rs", "<Constant<T> as Access<T>>::load"),
 ("LibMap", "lib.rs", "ArcSwapAny<T,S>::map"),
 ("LibGuardDeref", "lib.rs", "<Guard<T,S> as Deref>::deref"),
 ("RwFromInner", "strategy/rw_lock.rs", "<T as Protected<T>>::from_inner"),
 ("RwIntoInner", "strategy/rw_lock.rs", "<T as Protected<T>>::into_inner"),
 ("RwLoad", "strategy/rw_lock.rs", "<RwLock<()> as InnerStrategy<T>>::load"),
 ("RwWaitForReaders", "strategy/rw_lock.rs", "<RwLock<()> as InnerStrategy<T>>::wait_for_readers"),
 ("RwCas", "strategy/rw_lock.rs", "<RwLock<()> as CaS<T>>::compare_and_swap"),
]
def main():
    # the query reads the compiled trees: rebuild them first (rs2lean must have been run on the current source)
    subprocess.run(['lake', 'build', 'ArcSwapModel.Extract'], cwd=LEAN, capture_output=True, text=True)
    q = os.path.join('/tmp', 'gen_tie_query.lean')
    with open(q, 'w') as f:
        f.write('import ArcSwapModel.Extract\nopen Extract\ndef main : IO Unit := do\n')
        for name, file, fn in FNS:
            f.write(f'  IO.println ("{name}\\t" ++ toString (repr (fnSkel "{file}" "{fn}")) ++ "\\t" ++ toString (repr ((fnSites "{file}" "{fn}").map (fun s => (s.op, s.ords)))))\n')
        f.write('#eval main\n')
    out = subprocess.run(['lake', 'env', 'lean', q], cwd=LEAN, capture_output=True, text=True)
    if out.returncode != 0:
        print(out.stdout, out.stderr); sys.exit(1)
    rows = {}
    cur = None
    # repr may wrap lines: rejoin by name prefix
    buf = out.stdout.replace('\n', ' ')
    names = [n for n, _, _ in FNS]
    pos = [(buf.find(n + '\t'), n) for n in names]
    pos = sorted([p for p in pos if p[0] >= 0])
    for i, (p, n) in enumerate(pos):
        seg = buf[p:pos[i+1][0]] if i + 1 < len(pos) else buf[p:]
        parts = seg.split('\t')
        rows[n] = (re.sub(r'\s+', ' ', parts[1]).strip(), re.sub(r'\s+', ' ', parts[2]).strip())
    missing = [n for n, _, _ in FNS if n not in rows or '<missing>' in rows[n][0]]
    if missing:
        print('functions not found in the source:', missing); sys.exit(1)
    os.makedirs(os.path.join(LEAN, 'ArcSwapModel', 'Tie'), exist_ok=True)
    for name, file, fn in FNS:
        sk, sites = rows[name]
        sites = sites.replace('Extract.Ord.', '.')
        body = f'''import ArcSwapModel.Extract
/-! Tie obligation for `{fn}` (src/{file}) — generated by tools/gen_tie.py from the source
revision the model transcribes; re-proved by the kernel against the current source on every run. -/
namespace Tie.{name}
open Extract
def file : String := "{file}"
def fn : String := "{fn}"
def expectedSkel : List String := {sk}
def expectedSites : List (String × List Ord) := {sites}
/-- current source: same operations at the same places, orderings at least as strong -/
def sitesOk : Bool :=
  let cur := (fnSites file fn).map (fun s => (s.op, s.ords))
  cur.length == expectedSites.length &&
  (List.zip cur expectedSites).all (fun p => p.1.1 == p.2.1 && p.1.2.length == p.2.2.length &&
    (List.zip p.1.2 p.2.2).all (fun o => o.1.ge o.2))
theorem skeleton : fnSkel file fn = expectedSkel := by decide
theorem sites : sitesOk = true := by decide
end Tie.{name}
'''
        path = os.path.join(LEAN, 'ArcSwapModel', 'Tie', name + '.lean')
        if not os.path.exists(path) or open(path).read() != body:
            open(path, 'w').write(body)
    json.dump([{'name': n, 'file': f, 'fn': fn} for n, f, fn in FNS], open(os.path.join(ROOT, 'tools', 'tie_functions.json'), 'w'), indent=1)
    print('generated', len(FNS), 'tie modules')
main()
