//! Concurrent executions of the real crate under the deterministic scheduler, with
//! implementation-vs-specification oracles (independent of the Lean machine) and a canonical
//! trace for the model-vs-implementation comparison.

use std::collections::HashMap;
use std::panic::{catch_unwind, AssertUnwindSafe};
use std::sync::atomic::Ordering::SeqCst;
use std::sync::{Arc, Mutex};
use std::time::{Duration, Instant};

use arc_swap::strategy::{CaS, Strategy};
use arc_swap::verif::{self, Event, Op as AOp};
use arc_swap::{ArcSwapAny, Guard};

use crate::prog::{Cur, Op, Program};
use crate::rng::Rng;
use crate::sched::{self, emit, point, Ctl, Pending, CTL, CV};
use crate::varc::{self, name_of, violation, VArc};

pub type T = Option<VArc<0>>;
/// a second pointee type, allocated from the same pool of addresses
pub type T1 = Option<VArc<1>>;

fn ident(v: &T) -> String {
    match v {
        None => "null".into(),
        Some(a) => a.ident(),
    }
}

/// read the pointee through the handle just obtained (a plain access: checked by the race detector)
fn touch(v: &T) {
    if let Some(a) = v {
        let _ = a.get();
    }
}

fn ident_of_addr(addr: usize) -> String {
    match varc::index_of(addr) {
        Some(k) => varc::ident(&varc::ENTRIES[k - 1]),
        None => name_of(addr),
    }
}

#[derive(Clone, Copy, Debug, PartialEq, Eq)]
enum Field {
    Fast(usize),
    Control,
    HSlot,
    ActiveAddr,
    Handover,
    SpaceOffer,
    InUse,
    Writers,
}

/// Global state the hooks need (they are plain `fn`s).
#[derive(Default)]
pub struct Names {
    sites: HashMap<(String, u32, u32), String>,
    cells: HashMap<usize, usize>,
    nodes: Vec<usize>,
    fields: HashMap<usize, (usize, Field)>,
    head: usize,
    /// per container: identities in write order
    hist: HashMap<usize, Vec<String>>,
    /// per worker: the last cell write it performed in the current API call:
    /// (container, index appended, identity replaced, content replaced, content installed)
    last_write: HashMap<usize, (usize, usize, String, u64, u64)>,
    /// per worker: the current API call went through the node list (first use of the crate on
    /// this thread, or the call that wraps the transaction counter): lock-free only
    list_path: HashMap<usize, bool>,
    /// node index → worker that owns it (claimed or allocated it and has not sent it to cooldown)
    owner: HashMap<usize, usize>,
    /// workers that are using the crate: from their first atomic access to the end of their exit
    alive: std::collections::HashSet<usize>,
    exiting: std::collections::HashSet<usize>,
    /// peak number of such workers
    peak_owners: usize,
    /// per worker: its current Node::get walk saw a writer inside a node in cooldown
    saw_writer: HashMap<usize, bool>,
    /// allocations made by a walk that saw a writer inside a node in cooldown
    lockstep_allocs: usize,
    allocs: usize,
    /// (worker, node) → writer reservations currently held (its fetch_add / fetch_sub on active_writers)
    reserved: HashMap<(usize, usize), i64>,
    /// running number of atomic accesses; when a (worker, node) reservation began; when a node was
    /// last given up by its owner
    evno: u64,
    res_since: HashMap<(usize, usize), u64>,
    released_at: HashMap<usize, u64>,
    /// (worker, node) → when its check_cooldown looked at active_writers; node → was it released
    /// from cooldown on the strength of a look that predates that cooldown's start
    chk_at: HashMap<(usize, usize), u64>,
    /// node -> the thread that holds it in the checking state (between the two exchanges of check_cooldown)
    checking: HashMap<usize, usize>,
    stale_release: HashMap<usize, bool>,
    /// per worker: the API call it is in, and its last atomic access (for oracle messages)
    cur_api: HashMap<usize, String>,
    last_site: HashMap<usize, String>,
    /// values whose writer's debt walk was aborted by an injected destructor panic: identity of
    /// the value it had taken out of the storage → (worker, operation, last atomic access)
    aborted_walks: HashMap<String, (usize, String, String)>,
}

/// where the calling worker is: `(t<w> in `<api call>`, last atomic access <site> [fail])`
pub fn context() -> String {
    match sched::me() {
        None => String::new(),
        Some(w) => names(|n| {
            format!(
                " (t{} in `{}`, last atomic access {})",
                w,
                n.cur_api.get(&w).cloned().unwrap_or_default(),
                n.last_site.get(&w).cloned().unwrap_or_default()
            )
        }),
    }
}

pub static NAMES: Mutex<Option<Names>> = Mutex::new(None);

fn names<R>(f: impl FnOnce(&mut Names) -> R) -> R {
    let mut g = NAMES.lock().unwrap_or_else(|e| e.into_inner());
    f(g.get_or_insert_with(Names::default))
}

pub fn load_sites(path: &str) {
    let text = std::fs::read_to_string(path).expect("sites.json");
    let v: serde_json::Value = serde_json::from_str(&text).expect("sites.json parses");
    names(|n| {
        n.sites.clear();
        for r in v.as_array().unwrap() {
            let file = r["file"].as_str().unwrap().to_string();
            let short = file.rsplit('/').next().unwrap().to_string();
            n.sites.insert(
                (file, r["line"].as_u64().unwrap() as u32, r["col"].as_u64().unwrap() as u32),
                format!("{}:{}#{}", short, r["fn"].as_str().unwrap(), r["idx"].as_u64().unwrap()),
            );
        }
    });
}

fn site_label(n: &Names, e: &Event) -> String {
    // e.file is the path the compiler saw, e.g. /repo/src/debt/list.rs
    let rel = e.file.rsplit_once("/src/").map(|x| x.1).unwrap_or(e.file);
    n.sites
        .get(&(rel.to_string(), e.line, e.col))
        .cloned()
        .unwrap_or_else(|| format!("?{}:{}:{}", rel, e.line, e.col))
}

fn refresh_nodes(n: &mut Names) {
    for s in verif::nodes() {
        let j = match n.nodes.iter().position(|a| *a == s.addr) {
            Some(j) => j,
            None => {
                n.nodes.push(s.addr);
                n.nodes.len() - 1
            }
        };
        for (i, (a, _)) in s.fast.iter().enumerate() {
            n.fields.insert(*a, (j, Field::Fast(i)));
        }
        n.fields.insert(s.control.0, (j, Field::Control));
        n.fields.insert(s.slot.0, (j, Field::HSlot));
        n.fields.insert(s.active_addr.0, (j, Field::ActiveAddr));
        n.fields.insert(s.handover.0, (j, Field::Handover));
        n.fields.insert(s.space_offer.0, (j, Field::SpaceOffer));
        n.fields.insert(s.in_use.0, (j, Field::InUse));
        n.fields.insert(s.active_writers.0, (j, Field::Writers));
    }
}

#[derive(Clone, Copy, PartialEq, Eq)]
enum Kind {
    Cell(usize),
    Head,
    F(usize, Field),
    Unknown,
}

fn classify(n: &mut Names, addr: usize) -> Kind {
    if let Some(c) = n.cells.get(&addr) {
        return Kind::Cell(*c);
    }
    if addr == n.head {
        return Kind::Head;
    }
    if let Some((j, f)) = n.fields.get(&addr) {
        return Kind::F(*j, *f);
    }
    refresh_nodes(n);
    if let Some((j, f)) = n.fields.get(&addr) {
        return Kind::F(*j, *f);
    }
    Kind::Unknown
}

fn loc_name(k: Kind, addr: usize) -> String {
    match k {
        Kind::Cell(c) => format!("c{}", c),
        Kind::Head => "head".into(),
        Kind::F(j, Field::Fast(i)) => format!("n{}.fast{}", j, i),
        Kind::F(j, Field::Control) => format!("n{}.control", j),
        Kind::F(j, Field::HSlot) => format!("n{}.hslot", j),
        Kind::F(j, Field::ActiveAddr) => format!("n{}.active_addr", j),
        Kind::F(j, Field::Handover) => format!("e{}", j),
        Kind::F(j, Field::SpaceOffer) => format!("n{}.space_offer", j),
        Kind::F(j, Field::InUse) => format!("n{}.in_use", j),
        Kind::F(j, Field::Writers) => format!("n{}.writers", j),
        Kind::Unknown => format!("?{:x}", addr),
    }
}

fn node_name(n: &mut Names, addr: usize) -> String {
    if addr == 0 {
        return "null".into();
    }
    match n.nodes.iter().position(|a| *a == addr) {
        Some(j) => format!("n{}", j),
        None => {
            n.nodes.push(addr);
            format!("n{}", n.nodes.len() - 1)
        }
    }
}

fn val_name(n: &mut Names, k: Kind, v: usize) -> String {
    match k {
        Kind::Cell(_) | Kind::F(_, Field::Fast(_)) | Kind::F(_, Field::HSlot) | Kind::F(_, Field::Handover) => name_of(v),
        Kind::F(_, Field::Control) => match v & 3 {
            0 if v == 0 => "idle".into(),
            2 => format!("gen{}", v & !3),
            1 => match classify(n, v & !3) {
                Kind::F(j, Field::Handover) => format!("env{}", j),
                _ => format!("env?{:x}", v),
            },
            _ => format!("?{:x}", v),
        },
        Kind::F(_, Field::ActiveAddr) => match n.cells.get(&v) {
            Some(c) => format!("c{}", c),
            None => format!("{}", v),
        },
        Kind::F(_, Field::SpaceOffer) => {
            if v == 0 {
                "null".into()
            } else {
                match classify(n, v) {
                    Kind::F(j, Field::Handover) => format!("e{}", j),
                    _ => format!("?{:x}", v),
                }
            }
        }
        Kind::F(_, Field::InUse) | Kind::F(_, Field::Writers) => format!("{}", v),
        Kind::Head => node_name(n, v),
        Kind::Unknown => format!("{}", v),
    }
}

fn before_hook(e: &Event) -> bool {
    if sched::me().is_none() {
        return false;
    }
    let site = names(|n| site_label(n, e));
    point(Pending { site, weak_cas: e.op == AOp::CompareExchangeWeak, api: String::new() })
}

fn after_hook(e: &Event, val: usize, ok: bool) {
    let w = match sched::me() {
        Some(w) => w,
        None => return,
    };
    {
        use crate::race::Kind as RK;
        let kind = match e.op {
            AOp::Load => RK::Load,
            AOp::Store => RK::Store,
            AOp::Swap | AOp::FetchAdd | AOp::FetchSub => RK::Rmw,
            AOp::CompareExchange | AOp::CompareExchangeWeak => if ok { RK::Rmw } else { RK::FailedCas },
            // the lock of the lock-based strategy: taking it acquires, releasing it releases (and
            // continues the release sequence, so that a writer learns of every reader before it)
            AOp::LockRead | AOp::LockWrite => if ok { RK::Rmw } else { RK::FailedCas },
            AOp::Unlock => RK::Rmw,
        };
        crate::race::atomic(e.addr, kind, e.ord, e.ord_fail);
    }
    let line = names(|n| {
        n.evno += 1;
        let site = site_label(n, e);
        n.last_site.insert(w, format!("{}{}", site, if ok { "" } else { " fail" }));
        if site.starts_with("list.rs:Node::") {
            n.list_path.insert(w, true);
        }
        // a node that is being linked is named at first sight
        if e.addr == n.head && matches!(e.op, AOp::CompareExchange | AOp::CompareExchangeWeak) {
            node_name(n, e.arg2);
        }
        let k = classify(n, e.addr);
        let loc = loc_name(k, e.addr);
        // node ownership and churn bookkeeping (C11)
        if n.alive.insert(w) {
            n.peak_owners = n.peak_owners.max(n.alive.len());
        }
        if n.exiting.contains(&w) && site.ends_with("as Drop>::drop#0") {
            n.alive.remove(&w);
        }
        if site.ends_with("Node::traverse#0") && !site.contains("pay_all") {
            n.saw_writer.insert(w, false);
        }
        // a node that another newcomer holds for its check cannot be claimed either: the same
        // cause of an allocation beyond the peak (a released node exists but is not available)
        // a thread that moves on to anything but the rest of its check has left the check
        if !site.ends_with("Node::check_cooldown#1") && !site.ends_with("Node::check_cooldown#2") {
            n.checking.retain(|_, t| *t != w);
        }
        if let Kind::F(j, Field::InUse) = k {
            if site.ends_with("Node::check_cooldown#0") && ok {
                n.checking.insert(j, w);
            }
            if site.ends_with("Node::check_cooldown#2") {
                n.checking.remove(&j);
            }
            if site.ends_with("Node::check_cooldown#0") && !ok && val == 3 {
                n.saw_writer.insert(w, true);
                if !n.checking.contains_key(&j) {
                    crate::varc::violation(format!(
                        "cooldown-protocol: t{} finds node n{} in the checking state although no thread is checking it: the node is lost to reuse",
                        w, j
                    ));
                }
            }
        }
        if let Kind::F(j, Field::Writers) = k {
            if site.ends_with("Node::check_cooldown#1") && val > 0 {
                n.saw_writer.insert(w, true);
            }
            if site.ends_with("Node::check_cooldown#1") {
                let ev = n.evno;
                n.chk_at.insert((w, j), ev);
            }
        }
        match k {
            Kind::F(j, Field::Writers) => {
                if e.op == AOp::FetchAdd {
                    let c = n.reserved.entry((w, j)).or_insert(0);
                    *c += 1;
                    if *c == 1 {
                        let ev = n.evno;
                        n.res_since.insert((w, j), ev);
                    }
                }
                if e.op == AOp::FetchSub {
                    let c = n.reserved.entry((w, j)).or_insert(0);
                    *c -= 1;
                    if *c <= 0 {
                        n.res_since.remove(&(w, j));
                    }
                }
            }
            // the helping words of a node are touched only by its owner, or by a writer that is
            // counted in active_writers while it digs through the node (cooldown / ABA protection)
            Kind::F(j, Field::Control) | Kind::F(j, Field::ActiveAddr) | Kind::F(j, Field::SpaceOffer) => {
                let counted = n.reserved.get(&(w, j)).copied().unwrap_or(0) > 0;
                if n.owner.get(&j) != Some(&w) && !counted {
                    crate::varc::violation(format!(
                        "cooldown-protocol: t{} accesses {} at {} without owning n{} and without being counted in its active_writers",
                        w, loc, site, j
                    ));
                }
            }
            _ => {}
        }
        if let Kind::F(j, Field::InUse) = k {
            let claim = site.ends_with("Node::get#0") && ok;
            if claim {
                if let Some(o) = n.owner.get(&j) {
                    crate::varc::violation(format!("ownership: node n{} claimed by t{} while owned by t{}", j, w, o));
                }
                // the cooldown exists so that no writer that entered the node under its previous
                // owner is still inside when the next owner starts using it
                if let Some(rel) = n.released_at.get(&j).copied() {
                    for ((w2, j2), since) in n.res_since.iter() {
                        if *j2 == j && *w2 != w && *since < rel {
                            let how = if n.stale_release.get(&j).copied().unwrap_or(false) {
                                "released from cooldown by a check_cooldown whose look at active_writers predates that cooldown (ABA on in_use)"
                            } else {
                                "no cooldown"
                            };
                            crate::varc::violation(format!(
                                "ownership: node n{} is claimed by t{} while writer t{}, which entered it under its previous owner, is still inside (used by two threads at a time: {})",
                                j, w, w2, how
                            ));
                        }
                    }
                }
                n.owner.insert(j, w);
            }
            if site.ends_with("Node::check_cooldown#2") && ok {
                let looked = n.chk_at.get(&(w, j)).copied().unwrap_or(0);
                let rel = n.released_at.get(&j).copied().unwrap_or(0);
                n.stale_release.insert(j, looked < rel);
            }
            if site.ends_with("Node::start_cooldown#0") {
                if n.owner.get(&j) != Some(&w) {
                    crate::varc::violation(format!("ownership: t{} sends node n{} to cooldown but does not own it", w, j));
                }
                n.owner.remove(&j);
                let ev = n.evno;
                n.released_at.insert(j, ev);
            } else if !claim && n.owner.get(&j) == Some(&w) && (matches!(e.op, AOp::Store | AOp::Swap) || (ok && matches!(e.op, AOp::CompareExchange | AOp::CompareExchangeWeak))) {
                // the owner gives the node up in some other way
                n.owner.remove(&j);
                let ev = n.evno;
                n.released_at.insert(j, ev);
            }
        }
        if k == Kind::Head && matches!(e.op, AOp::CompareExchange | AOp::CompareExchangeWeak) && ok {
            let j = n.nodes.iter().position(|a| *a == e.arg2).unwrap_or(usize::MAX);
            n.owner.insert(j, w);
            n.allocs += 1;
            if n.saw_writer.get(&w).copied().unwrap_or(false) {
                n.lockstep_allocs += 1;
            }
        }
        // history of cell writes, for the linearizability oracles
        if let Kind::Cell(c) = k {
            let wrote = match e.op {
                AOp::Swap => Some(e.arg),
                AOp::CompareExchange | AOp::CompareExchangeWeak if ok => Some(e.arg2),
                _ => None,
            };
            if let Some(newp) = wrote {
                let content = |p: usize| varc::index_of(p).map(|k| varc::ENTRIES[k - 1].val.load(SeqCst)).unwrap_or(0);
                let h = n.hist.entry(c).or_default();
                let replaced = h.last().cloned().unwrap_or_default();
                h.push(ident_of_addr(newp));
                let idx = h.len() - 1;
                n.last_write.insert(w, (c, idx, replaced, content(val), content(newp)));
            }
        }
        match e.op {
            AOp::Load => format!("{} load {} -> {}", site, loc, val_name(n, k, val)),
            AOp::Store => format!("{} store {} {}", site, loc, val_name(n, k, e.arg)),
            AOp::Swap => format!("{} swap {} new={} -> {}", site, loc, val_name(n, k, e.arg), val_name(n, k, val)),
            AOp::CompareExchange | AOp::CompareExchangeWeak => format!(
                "{} cas {} exp={} new={} -> {} {}",
                site,
                loc,
                val_name(n, k, e.arg),
                val_name(n, k, e.arg2),
                val_name(n, k, val),
                if ok { "ok" } else { "fail" }
            ),
            AOp::FetchAdd => format!("{} fadd {} -> {}", site, loc, val),
            AOp::FetchSub => format!("{} fsub {} -> {}", site, loc, val),
            AOp::LockRead => format!("{} lock-read {}", site, if ok { "taken" } else { "busy" }),
            AOp::LockWrite => format!("{} lock-write {}", site, if ok { "taken" } else { "busy" }),
            AOp::Unlock => format!("{} unlock", site),
        }
    });
    emit(line);
}

/// Registers shared by all workers of one execution.
pub struct Regs<S: Strategy<T>> {
    h: Vec<Option<T>>,
    g: Vec<Option<(Guard<T, S>, String)>>,
    c: Vec<Option<Arc<ArcSwapAny<T, S>>>>,
    /// container → number of workers currently inside an operation on it
    busy: Vec<usize>,
}

pub struct Outcome {
    pub trace: Vec<String>,
    pub taken: Vec<(usize, bool)>,
    pub violations: Vec<String>,
    pub stats: HashMap<String, u64>,
    pub hung: bool,
}

pub enum Policy {
    Random { rng: Rng, stick: u64, burst: Option<(usize, usize)> },
    /// Random for `after` steps; then everybody but `who` is frozen until `who` has finished the
    /// API call it is in (C09: no operation waits for another thread); then random again.
    Solo { rng: Rng, stick: u64, after: usize, who: usize, steps: usize, solo_steps: usize, done: bool },
    Replay { sched: Vec<(usize, bool)>, pos: usize },
    /// Hand-written scenario: `(t, pat)` = keep granting thread `t` until it is parked right
    /// before a point whose label (site, or `begin <op>`) contains `pat`, or until it has finished.
    /// `pat = "+N"` grants exactly N steps. The schedule actually taken is recorded as usual.
    Script { script: Vec<(usize, String)>, pos: usize, left: Option<usize> },
}

fn is_writer_api(api: &str) -> bool {
    api.starts_with("store") || api.starts_with("swap") || api.starts_with("cas") || api.starts_with("rcu")
        || api.starts_with("dropc") || api.starts_with("cinto")
}

impl Policy {
    fn next(&mut self, parked: &HashMap<usize, Pending>, apis: &HashMap<usize, String>, last: Option<usize>) -> Option<(usize, bool)> {
        let mut ids: Vec<usize> = parked.keys().copied().collect();
        ids.sort();
        match self {
            Policy::Replay { sched, pos } => {
                while *pos < sched.len() {
                    let (t, s) = sched[*pos];
                    *pos += 1;
                    if parked.contains_key(&t) {
                        return Some((t, s));
                    }
                }
                // schedule exhausted: finish deterministically, lowest id first
                ids.first().map(|t| (*t, false))
            }
            Policy::Script { script, pos, left } => {
                while *pos < script.len() {
                    let (t, pat) = script[*pos].clone();
                    let label = |p: &Pending| if p.site == "begin" { format!("begin {}", p.api) } else { p.site.clone() };
                    let arrived = match parked.get(&t) {
                        None => true,
                        Some(p) => {
                            if let Some(n) = pat.strip_prefix('+') {
                                let l = left.get_or_insert(n.parse().unwrap());
                                if *l == 0 { true } else { *l -= 1; false }
                            } else {
                                label(p).contains(pat.as_str())
                            }
                        }
                    };
                    if arrived {
                        *pos += 1;
                        *left = None;
                        continue;
                    }
                    return Some((t, false));
                }
                ids.first().map(|t| (*t, false))
            }
            Policy::Solo { rng, stick, after, who, steps, solo_steps, done } => {
                *steps += 1;
                if *steps > *after && !*done {
                    if *solo_steps == 0 {
                        // choose the moment and the thread: preferably while some writer is parked
                        // in the middle of its walk (inside a node), and preferably a thread that
                        // has not used the crate yet (it will have to find a node)
                        let mid_walk = ids.iter().any(|t| {
                            let s = &parked[t].site;
                            is_writer_api(apis.get(t).map(|x| x.as_str()).unwrap_or(""))
                                && (s.contains("Slots::help#") || s.contains("Debt::pay#0") || s.contains("NodeReservation"))
                        });
                        if mid_walk || *steps > *after + 200 {
                            let fresh: Vec<usize> = ids.iter().copied().filter(|t| parked[t].site == "begin" && !apis.contains_key(t)).collect();
                            *who = if !fresh.is_empty() && rng.chance(2, 3) { fresh[rng.range(0, fresh.len())] } else { ids[rng.range(0, ids.len())] };
                        } else {
                            *steps += 0;
                            let mut inner = Policy::Random { rng: rng.clone(), stick: *stick, burst: None };
                            let r = inner.next(parked, apis, last);
                            if let Policy::Random { rng: r2, .. } = inner {
                                *rng = r2;
                            }
                            return r;
                        }
                    }
                    match parked.get(who) {
                        Some(p) if p.site != "begin" && p.site != "exit" => {
                            *solo_steps += 1;
                            return Some((*who, false));
                        }
                        // it has not started an operation yet: let it start one, then freeze the rest
                        Some(p) if *solo_steps == 0 && p.site == "begin" => {
                            *solo_steps += 1;
                            return Some((*who, false));
                        }
                        _ => *done = true,
                    }
                }
                let mut inner = Policy::Random { rng: rng.clone(), stick: *stick, burst: None };
                let r = inner.next(parked, apis, last);
                if let Policy::Random { rng: r2, .. } = inner {
                    *rng = r2;
                }
                r
            }
            Policy::Random { rng, stick, burst } => {
                // a helper about to offer its replacement (compare-exchange on the reader's control
                // word): let it go while some reader has its generation published and has not yet
                // confirmed; otherwise hold it back for a while, so that readers come and go
                let offering: Vec<usize> = ids
                    .iter()
                    .copied()
                    .filter(|t| {
                        let s = &parked[t].site;
                        s.contains("Slots::help#4") || s.contains("Slots::help#5") || s.contains("Slots::help#6") || s.contains("Slots::help#7")
                    })
                    .collect();
                if !offering.is_empty() {
                    let in_window = ids.iter().any(|t| {
                        let s = &parked[t].site;
                        !offering.contains(t) && (s.contains("fallback#0") || s.contains("Slots::confirm#0") || s.contains("Slots::confirm#1"))
                    });
                    if in_window && rng.chance(7, 8) {
                        *burst = None;
                        let t = offering[rng.range(0, offering.len())];
                        return Some((t, false));
                    }
                    if !in_window && ids.len() > offering.len() && rng.chance(3, 4) {
                        let rest: Vec<usize> = ids.iter().copied().filter(|t| !offering.contains(t)).collect();
                        let t = match burst {
                            Some((bt, left)) if *left > 0 && rest.contains(bt) => {
                                *left -= 1;
                                *bt
                            }
                            _ => rest[rng.range(0, rest.len())],
                        };
                        let spur = parked[&t].weak_cas && rng.chance(1, 10);
                        return Some((t, spur));
                    }
                }
                if let Some((bt, left)) = burst {
                    if *left > 0 && parked.contains_key(bt) {
                        *left -= 1;
                        let spur = false;
                        return Some((*bt, spur));
                    }
                    *burst = None;
                }
                let t = if let (Some(l), true) = (last, rng.chance(*stick, 100)) {
                    if parked.contains_key(&l) { l } else { ids[rng.range(0, ids.len())] }
                } else {
                    // window bias: when a reader sits between its first read and its confirmation,
                    // or inside the fallback's read-intent window, prefer a writer half the time
                    let reader_in_window = ids.iter().any(|t| {
                        let s = &parked[t].site;
                        !is_writer_api(apis.get(t).map(|x| x.as_str()).unwrap_or(""))
                            && (s.contains("attempt#1") || s.contains("fast.rs:Slots::get_debt") || s.contains("fallback#0")
                                || s.contains("helping.rs:Slots::confirm") || s.contains("helping.rs:Slots::get_debt#1")
                                || s == "varc" || s.contains("Debt::pay#0"))
                    });
                    let writers: Vec<usize> = ids
                        .iter()
                        .copied()
                        .filter(|t| is_writer_api(apis.get(t).map(|x| x.as_str()).unwrap_or("")))
                        .collect();
                    // compare-and-swap window: a cas/rcu caller sits between its internal read and
                    // its exchange (or just after a failed exchange): let another writer do a
                    // whole write (or two) there
                    let cas_waiters: Vec<usize> = ids
                        .iter()
                        .copied()
                        .filter(|t| {
                            let api = apis.get(t).map(|x| x.as_str()).unwrap_or("");
                            let s = &parked[t].site;
                            (api.starts_with("cas") || api.starts_with("rcu"))
                                && (s.contains("compare_and_swap#0") || s.contains("attempt#0") || s.contains("attempt#1") || s.contains("fallback#0"))
                        })
                        .collect();
                    // hand-over window: a helper sits between reading the reader's address and its
                    // compare-exchange on the reader's control word: let readers finish a load and
                    // start the next one there
                    let helper_waiting = ids.iter().any(|t| {
                        let s = &parked[t].site;
                        s.contains("Slots::help#3") || s.contains("Slots::help#4") || s.contains("Slots::help#5")
                            || s.contains("Slots::help#6") || s.contains("Slots::help#7")
                    });
                    let readers: Vec<usize> = ids
                        .iter()
                        .copied()
                        .filter(|t| !is_writer_api(apis.get(t).map(|x| x.as_str()).unwrap_or("")))
                        .collect();
                    if helper_waiting && !readers.is_empty() && rng.chance(1, 2) {
                        let rt = readers[rng.range(0, readers.len())];
                        if rng.chance(2, 3) {
                            *burst = Some((rt, rng.range(15, 90)));
                        }
                        let spur = parked[&rt].weak_cas && rng.chance(1, 10);
                        return Some((rt, spur));
                    }
                    let others: Vec<usize> = writers.iter().copied().filter(|t| !cas_waiters.contains(t)).collect();
                    if !cas_waiters.is_empty() && !others.is_empty() && rng.chance(1, 2) {
                        let wt = others[rng.range(0, others.len())];
                        if rng.chance(1, 2) {
                            *burst = Some((wt, rng.range(20, 160)));
                        }
                        wt
                    } else if reader_in_window && !writers.is_empty() && rng.chance(1, 2) {
                        let wt = writers[rng.range(0, writers.len())];
                        if rng.chance(1, 3) {
                            // let that writer complete (most of) a whole write inside the window
                            *burst = Some((wt, rng.range(10, 120)));
                        }
                        wt
                    } else {
                        ids[rng.range(0, ids.len())]
                    }
                };
                let spur = parked[&t].weak_cas && rng.chance(1, 10);
                Some((t, spur))
            }
        }
    }
}

fn lock<X>(m: &Mutex<X>) -> std::sync::MutexGuard<'_, X> {
    m.lock().unwrap_or_else(|e| e.into_inner())
}

struct Shared<S: Strategy<T>> {
    regs: Mutex<Regs<S>>,
    /// handles and containers of the second pointee type
    h1: Mutex<Vec<Option<T1>>>,
    c1: Mutex<Vec<Option<Arc<dyn Store1>>>>,
    /// per worker: (container, i0) of the load-like call in progress, and its per-container
    /// monotonic index
    mono: Mutex<HashMap<(usize, usize), usize>>,
    stats: Mutex<HashMap<String, u64>>,
    load_bound: usize,
}

/// a container of the second pointee type, behind a trait object so that `Shared` need not name
/// the strategy's bound for that type
trait Store1: Send + Sync {
    fn store1(&self, v: T1);
}
impl<S: Strategy<T1> + Send + Sync> Store1 for ArcSwapAny<T1, S> {
    fn store1(&self, v: T1) {
        self.store(v)
    }
}

fn stat<S: Strategy<T>>(sh: &Shared<S>, k: &str, v: u64, max: bool) {
    let mut s = lock(&sh.stats);
    let e = s.entry(k.to_string()).or_insert(0);
    if max {
        *e = (*e).max(v)
    } else {
        *e += v
    }
}

/// The value a load-like call returned must have been current at some instant of the call, and
/// this thread's successive reads of one container must not go backwards.
fn check_window<S: Strategy<T>>(sh: &Shared<S>, w: usize, c: usize, i0: usize, got: &str, what: &str) {
    let hist = names(|n| n.hist.get(&c).cloned().unwrap_or_default());
    let mut mono = lock(&sh.mono);
    let prev = mono.get(&(w, c)).copied().unwrap_or(0);
    let lo = i0.max(prev);
    let cand = (lo..hist.len()).find(|&k| hist[k] == got);
    match cand {
        Some(k) => {
            mono.insert((w, c), k);
        }
        None => {
            let in_window = (i0..hist.len()).any(|k| hist[k] == got);
            let anywhere = hist.iter().any(|x| x == got);
            violation(format!(
                "linearizability: {} on c{} by t{} returned {} — {}; window = {:?}",
                what,
                c,
                w,
                got,
                if in_window {
                    "moves backwards relative to this thread's earlier read"
                } else if anywhere {
                    "a value that was not current at any instant of the call"
                } else {
                    "a value never stored in this container"
                },
                &hist[i0.min(hist.len())..]
            ));
        }
    }
}

/// `compare_and_swap(current: Guard<T>, ..)` (the guard by value) exists for the default strategy
/// only; elsewhere the guard is passed by reference and dropped right after the call
pub trait ByValue: Strategy<T> + CaS<T> + Sized {
    fn cas_guard_by_value(a: &ArcSwapAny<T, Self>, cur: Guard<T, Self>, new: T) -> Guard<T, Self> {
        let r = a.compare_and_swap(&*cur, new);
        drop(cur);
        r
    }
}
impl ByValue for arc_swap::strategy::DefaultStrategy {
    fn cas_guard_by_value(a: &ArcSwapAny<T, Self>, cur: Guard<T, Self>, new: T) -> Guard<T, Self> {
        a.compare_and_swap(cur, new)
    }
}
#[allow(deprecated)]
impl ByValue for arc_swap::strategy::test_strategies::FillFastSlots {}
impl ByValue for std::sync::RwLock<()> {}

fn exec_op<S>(sh: &Shared<S>, w: usize, op: &Op) -> String
where
    S: Strategy<T> + CaS<T> + ByValue + Strategy<T1> + Default + Send + Sync + 'static,
{
    // Helpers to take / put registers without holding the lock across scheduling points.
    macro_rules! take_h { ($i:expr) => {{ let mut r = lock(&sh.regs); if $i < r.h.len() { let x = r.h[$i].take(); if x.is_some() { crate::race::reg_take(b'h', $i); } x } else { None } }}; }
    macro_rules! put_h { ($i:expr, $v:expr) => {{ let mut r = lock(&sh.regs); if r.h.len() <= $i { r.h.resize_with($i + 1, || None); } r.h[$i] = Some($v); crate::race::reg_put(b'h', $i); }}; }
    macro_rules! h_free { ($i:expr) => {{ let r = lock(&sh.regs); $i >= r.h.len() || r.h[$i].is_none() }}; }
    macro_rules! g_free { ($i:expr) => {{ let r = lock(&sh.regs); $i >= r.g.len() || r.g[$i].is_none() }}; }
    macro_rules! take_g { ($i:expr) => {{ let mut r = lock(&sh.regs); if $i < r.g.len() { let x = r.g[$i].take(); if x.is_some() { crate::race::reg_take(b'g', $i); } x } else { None } }}; }
    macro_rules! put_g { ($i:expr, $v:expr) => {{ let mut r = lock(&sh.regs); if r.g.len() <= $i { r.g.resize_with($i + 1, || None); } r.g[$i] = Some($v); crate::race::reg_put(b'g', $i); }}; }
    macro_rules! cont { ($i:expr) => {{ let mut r = lock(&sh.regs); let x = if $i < r.c.len() { r.c[$i].clone() } else { None }; if x.is_some() { r.busy[$i] += 1; crate::race::reg_take(b'c', $i); } x }}; }
    macro_rules! done { ($i:expr) => {{ let mut r = lock(&sh.regs); r.busy[$i] -= 1; crate::race::reg_release(b'c', $i); }}; }
    let i0_of = |c: usize| names(|n| n.hist.get(&c).map(|h| h.len().saturating_sub(1)).unwrap_or(0));
    names(|n| n.list_path.insert(w, false));
    let load_steps = |what: &str| {
        let s = sched::api_steps();
        if names(|n| n.list_path.get(&w).copied().unwrap_or(false)) {
            stat(sh, "loads_via_node_list", 1, false);
            return;
        }
        stat(sh, &format!("max_steps_{}", what), s as u64, true);
        stat(sh, "loads_checked_against_bound", 1, false);
        if s > sh.load_bound {
            violation(format!("wait-freedom: {} took {} steps of its own (bound {})", what, s, sh.load_bound));
        }
    };
    match op {
        Op::Late => "skip".into(),
        Op::New { h, val } => {
            if !h_free!(*h) {
                return "skip".into();
            }
            let v = Some(VArc::<0>::new(*val));
            let id = ident(&v);
            put_h!(*h, v);
            format!("h{}={}", h, id)
        }
        Op::NewP { h, val } => {
            if !h_free!(*h) {
                return "skip".into();
            }
            let v = VArc::<0>::new(*val);
            v.entry().drop_panics.store(true, SeqCst);
            let v = Some(v);
            let id = ident(&v);
            put_h!(*h, v);
            format!("h{}={}", h, id)
        }
        Op::RcuPanic { c, at } => {
            let a = match cont!(*c) {
                None => return "skip".into(),
                Some(a) => a,
            };
            let before = names(|n| n.hist.get(c).map(|h| h.len()).unwrap_or(0));
            names(|n| n.last_write.remove(&w));
            let mut tries = 0;
            let r = catch_unwind(AssertUnwindSafe(|| {
                a.rcu(|cur: &T| {
                    tries += 1;
                    if tries == *at {
                        panic!("injected: rcu closure panics on attempt {}", tries);
                    }
                    let v = cur.as_ref().map(|x| x.get()).unwrap_or(0);
                    Some(VArc::<0>::new(v + 1))
                })
            }));
            done!(*c);
            match r {
                Ok(old) => {
                    // fewer attempts than `at`: it simply succeeded
                    drop(old);
                    format!("rcu-succeeded tries={}", tries)
                }
                Err(p) => {
                    if tries != *at {
                        // not the closure: a pointee destructor panicked inside the call (the
                        // exchange may well have happened already) — classified by `run_one`
                        std::panic::resume_unwind(p);
                    }
                    // a panic in the closure changes nothing: this call wrote nothing
                    if names(|n| n.last_write.get(&w).is_some()) {
                        violation(format!("panic-consistency: rcu on c{} by t{} wrote although its closure panicked", c, w));
                    }
                    let _ = before;
                    format!("rcu-panicked tries={}", tries)
                }
            }
        }
        Op::NullH { h } => {
            if !h_free!(*h) {
                return "skip".into();
            }
            put_h!(*h, None);
            format!("h{}=null", h)
        }
        Op::CloneH { h, h2 } => {
            if !h_free!(*h2) {
                return "skip".into();
            }
            match take_h!(*h) {
                None => "skip".into(),
                Some(v) => {
                    let v2 = v.clone();
                    let id = ident(&v);
                    put_h!(*h, v);
                    put_h!(*h2, v2);
                    format!("h{}={}", h2, id)
                }
            }
        }
        Op::DropH { h } => match take_h!(*h) {
            None => "skip".into(),
            Some(v) => {
                drop(v);
                "ok".into()
            }
        },
        Op::Mk { c, h } => {
            let v = match take_h!(*h) {
                None => return "skip".into(),
                Some(v) => v,
            };
            let id = ident(&v);
            let a = Arc::new(ArcSwapAny::<T, S>::with_strategy(v, S::default()));
            let addr = a.verif_storage_addr();
            names(|n| {
                n.cells.insert(addr, *c);
                n.hist.insert(*c, vec![id.clone()]);
            });
            let mut r = lock(&sh.regs);
            if r.c.len() <= *c {
                r.c.resize_with(*c + 1, || None);
                r.busy.resize(*c + 1, 0);
            }
            r.c[*c] = Some(a);
            crate::race::reg_put(b'c', *c);
            format!("c{}={}", c, id)
        }
        Op::Load { c, g } => {
            if !g_free!(*g) {
                return "skip".into();
            }
            let a = match cont!(*c) {
                None => return "skip".into(),
                Some(a) => a,
            };
            let i0 = i0_of(*c);
            let guard = a.load();
            load_steps("load");
            touch(&guard);
            let id = ident(&guard);
            check_window(sh, w, *c, i0, &id, "load");
            put_g!(*g, (guard, id.clone()));
            done!(*c);
            format!("g{}={}", g, id)
        }
        Op::LoadFull { c, h } => {
            if !h_free!(*h) {
                return "skip".into();
            }
            let a = match cont!(*c) {
                None => return "skip".into(),
                Some(a) => a,
            };
            let i0 = i0_of(*c);
            let v = a.load_full();
            load_steps("load_full");
            touch(&v);
            let id = ident(&v);
            check_window(sh, w, *c, i0, &id, "load_full");
            put_h!(*h, v);
            done!(*c);
            format!("h{}={}", h, id)
        }
        Op::DropG { g } => match take_g!(*g) {
            None => "skip".into(),
            Some((guard, _)) => {
                drop(guard);
                "ok".into()
            }
        },
        Op::GInto { g, h } => {
            if !h_free!(*h) {
                return "skip".into();
            }
            match take_g!(*g) {
                None => "skip".into(),
                Some((guard, _)) => {
                    let v = Guard::into_inner(guard);
                    let id = ident(&v);
                    put_h!(*h, v);
                    format!("h{}={}", h, id)
                }
            }
        }
        Op::GFrom { h, g } => {
            if !g_free!(*g) {
                return "skip".into();
            }
            match take_h!(*h) {
                None => "skip".into(),
                Some(v) => {
                    let id = ident(&v);
                    put_g!(*g, (Guard::from_inner(v), id.clone()));
                    format!("g{}={}", g, id)
                }
            }
        }
        Op::GDeref { g } => match take_g!(*g) {
            None => "skip".into(),
            Some((guard, id0)) => {
                let now = ident(&guard);
                let val = guard.as_ref().map(|a| a.get()).unwrap_or(0);
                if now != id0 {
                    violation(format!("snapshot: guard g{} was created for {} and now denotes {}", g, id0, now));
                }
                put_g!(*g, (guard, id0));
                format!("{} val={}", now, val)
            }
        },
        Op::Store { c, h } => {
            let a = match cont!(*c) {
                None => return "skip".into(),
                Some(a) => a,
            };
            let v = match take_h!(*h) {
                None => {
                    done!(*c);
                    return "skip".into();
                }
                Some(v) => v,
            };
            a.store(v);
            done!(*c);
            "ok".into()
        }
        Op::Swap { c, h, out } => {
            let a = match cont!(*c) {
                None => return "skip".into(),
                Some(a) => a,
            };
            let v = match take_h!(*h) {
                None => {
                    done!(*c);
                    return "skip".into();
                }
                Some(v) => v,
            };
            if !h_free!(*out) {
                put_h!(*h, v);
                done!(*c);
                return "skip".into();
            }
            names(|n| n.last_write.remove(&w));
            let old = a.swap(v);
            touch(&old);
            let id = ident(&old);
            if let Some((_, _, replaced, _, _)) = names(|n| n.last_write.get(&w).cloned()) {
                if replaced != id {
                    violation(format!("write-order: swap on c{} by t{} returned {} but replaced {}", c, w, id, replaced));
                }
            }
            put_h!(*out, old);
            done!(*c);
            format!("h{}={}", out, id)
        }
        Op::Cas { c, cur, new, g } => {
            if !g_free!(*g) {
                return "skip".into();
            }
            let a = match cont!(*c) {
                None => return "skip".into(),
                Some(a) => a,
            };
            let newv = match take_h!(*new) {
                None => {
                    done!(*c);
                    return "skip".into();
                }
                Some(v) => v,
            };
            let i0 = i0_of(*c);
            names(|n| n.last_write.remove(&w));
            let new_id = ident(&newv);
            // the three accepted forms of `current`
            let (res, cur_id) = match cur {
                Cur::Null => (a.compare_and_swap(std::ptr::null_mut::<varc::Entry>(), newv), "null".to_string()),
                Cur::H(hc) => match take_h!(*hc) {
                    None => {
                        put_h!(*new, newv);
                        done!(*c);
                        return "skip".into();
                    }
                    Some(cv) => {
                        let id = ident(&cv);
                        let r = a.compare_and_swap(&cv, newv);
                        put_h!(*hc, cv);
                        (r, id)
                    }
                },
                Cur::G(gc) => match take_g!(*gc) {
                    None => {
                        put_h!(*new, newv);
                        done!(*c);
                        return "skip".into();
                    }
                    Some((cg, id0)) => {
                        let r = a.compare_and_swap(&*cg, newv);
                        let id = ident(&cg);
                        put_g!(*gc, (cg, id0));
                        (r, id)
                    }
                },
            };
            touch(&res);
            let id = ident(&res);
            let same_ptr = id.split('#').next() == cur_id.split('#').next();
            match names(|n| n.last_write.get(&w).cloned()) {
                Some((_, _, replaced, _, _)) => {
                    // this call wrote: it must report the value it replaced, which must be `current`
                    if replaced != id || !same_ptr {
                        violation(format!(
                            "cas: on c{} by t{} installed {} over {} but returned {} (current = {})",
                            c, w, new_id, replaced, id, cur_id
                        ));
                    } else if cur_id != "null" && replaced != cur_id {
                        violation(format!(
                            "cas: on c{} by t{} replaced {} although current denoted {} — another object at the same address",
                            c, w, replaced, cur_id
                        ));
                    }
                    stat(sh, "cas_success", 1, false);
                }
                None => {
                    if same_ptr {
                        violation(format!("cas: on c{} by t{} returned current ({}) without having written", c, w, id));
                    }
                    check_window(sh, w, *c, i0, &id, "compare_and_swap (failed)");
                    stat(sh, "cas_failure", 1, false);
                }
            }
            put_g!(*g, (res, id.clone()));
            done!(*c);
            format!("g{}={}", g, id)
        }
        Op::CasV { c, cur, new, g } => {
            if !g_free!(*g) && *g != *cur {
                return "skip".into();
            }
            let a = match cont!(*c) {
                None => return "skip".into(),
                Some(a) => a,
            };
            let newv = match take_h!(*new) {
                None => {
                    done!(*c);
                    return "skip".into();
                }
                Some(v) => v,
            };
            let (cg, _) = match take_g!(*cur) {
                None => {
                    put_h!(*new, newv);
                    done!(*c);
                    return "skip".into();
                }
                Some(x) => x,
            };
            // `current` moves into the call: its destructor (possibly the last reference of a value
            // whose destructor panics) runs inside compare_and_swap
            let i0 = i0_of(*c);
            names(|n| n.last_write.remove(&w));
            let new_id = ident(&newv);
            let cur_id = ident(&cg);
            let res = S::cas_guard_by_value(&a, cg, newv);
            touch(&res);
            let id = ident(&res);
            // the same verdicts as for the by-reference forms; and the object replaced must be the
            // very object `current` denoted (not another one that came to live at its address)
            let same_ptr = id.split('#').next() == cur_id.split('#').next();
            match names(|n| n.last_write.get(&w).cloned()) {
                Some((_, _, replaced, _, _)) => {
                    if replaced != id || !same_ptr {
                        violation(format!(
                            "cas: on c{} by t{} installed {} over {} but returned {} (current = {})",
                            c, w, new_id, replaced, id, cur_id
                        ));
                    } else if replaced != cur_id {
                        violation(format!(
                            "cas: on c{} by t{} (current given as a guard by value) replaced {} although current denoted {} — another object at the same address",
                            c, w, replaced, cur_id
                        ));
                    }
                    stat(sh, "cas_success", 1, false);
                }
                None => {
                    if same_ptr {
                        violation(format!("cas: on c{} by t{} returned current ({}) without having written", c, w, id));
                    }
                    check_window(sh, w, *c, i0, &id, "compare_and_swap (failed)");
                    stat(sh, "cas_failure", 1, false);
                }
            }
            put_g!(*g, (res, id.clone()));
            done!(*c);
            format!("g{}={}", g, id)
        }
        Op::Rcu { c, out } => {
            if !h_free!(*out) {
                return "skip".into();
            }
            let a = match cont!(*c) {
                None => return "skip".into(),
                Some(a) => a,
            };
            names(|n| n.last_write.remove(&w));
            let mut tries = 0;
            let old = a.rcu(|cur: &T| {
                tries += 1;
                let v = cur.as_ref().map(|x| x.get()).unwrap_or(0);
                Some(VArc::<0>::new(v + 1))
            });
            touch(&old);
            let id = ident(&old);
            match names(|n| n.last_write.get(&w).cloned()) {
                Some((_, _, replaced, old_val, new_val)) => {
                    if replaced != id {
                        violation(format!("rcu: on c{} by t{} returned {} but replaced {}", c, w, id, replaced));
                    }
                    if new_val != old_val + 1 {
                        violation(format!(
                            "rcu: lost update on c{} by t{}: installed content {} on top of content {}",
                            c, w, new_val, old_val
                        ));
                    }
                }
                None => violation(format!("rcu: on c{} by t{} returned without writing", c, w)),
            }
            stat(sh, "rcu_retries", (tries as u64).saturating_sub(1), false);
            put_h!(*out, old);
            done!(*c);
            format!("h{}={} tries={}", out, id, tries)
        }
        Op::CInto { .. } | Op::DropC { .. } => {
            let (c, h) = match op {
                Op::CInto { c, h } => (*c, Some(*h)),
                Op::DropC { c } => (*c, None),
                _ => unreachable!(),
            };
            if let Some(h) = h {
                if !h_free!(h) {
                    return "skip".into();
                }
            }
            let a = {
                let mut r = lock(&sh.regs);
                if c >= r.c.len() || r.c[c].is_none() || r.busy[c] > 0 {
                    return "skip".into();
                }
                crate::race::reg_take(b'c', c);
                r.c[c].take().unwrap()
            };
            let a = match Arc::try_unwrap(a) {
                Ok(a) => a,
                Err(_) => unreachable!("busy count says nobody else holds the container"),
            };
            let last = names(|n| n.hist.get(&c).and_then(|h| h.last().cloned()).unwrap_or_default());
            match h {
                Some(h) => {
                    let v = a.into_inner();
                    touch(&v);
                    let id = ident(&v);
                    if id != last {
                        violation(format!("into_inner: c{} returned {} but last stored {}", c, id, last));
                    }
                    put_h!(h, v);
                    format!("h{}={}", h, id)
                }
                None => {
                    drop(a);
                    "ok".into()
                }
            }
        }
        Op::New1 { h, val } => {
            let v = Some(VArc::<1>::new(*val));
            let id = v.as_ref().unwrap().ident();
            let mut r = lock(&sh.h1);
            if r.len() <= *h {
                r.resize_with(*h + 1, || None);
            }
            if r[*h].is_some() {
                return "skip".into();
            }
            r[*h] = Some(v);
            format!("k{}={}", h, id)
        }
        Op::Mk1 { c, h } => {
            let v = { let mut r = lock(&sh.h1); if *h < r.len() { r[*h].take() } else { None } };
            let v = match v { None => return "skip".into(), Some(v) => v };
            let id = v.as_ref().map(|a| a.ident()).unwrap_or_else(|| "null".into());
            let a = Arc::new(ArcSwapAny::<T1, S>::with_strategy(v, S::default()));
            let addr = a.verif_storage_addr();
            names(|n| {
                n.cells.insert(addr, 100 + *c);
                n.hist.insert(100 + *c, vec![id.clone()]);
            });
            let mut r = lock(&sh.c1);
            if r.len() <= *c {
                r.resize_with(*c + 1, || None);
            }
            r[*c] = Some(a);
            format!("d{}={}", c, id)
        }
        Op::Store1 { c, h } => {
            let a = { let r = lock(&sh.c1); if *c < r.len() { r[*c].clone() } else { None } };
            let a = match a { None => return "skip".into(), Some(a) => a };
            let v = { let mut r = lock(&sh.h1); if *h < r.len() { r[*h].take() } else { None } };
            match v {
                None => "skip".into(),
                Some(v) => {
                    a.store1(v);
                    "ok".into()
                }
            }
        }
        Op::DropH1 { h } => {
            let v = { let mut r = lock(&sh.h1); if *h < r.len() { r[*h].take() } else { None } };
            match v { None => "skip".into(), Some(v) => { drop(v); "ok".into() } }
        }
        Op::SetGen { v } => {
            // make sure the thread-local exists, then preset the counter
            verif::set_generation(*v as usize);
            "ok".into()
        }
    }
}

/// thread-local whose destructor runs the operations a program wants executed during thread
/// shutdown (after the crate's own thread-local storage has been destroyed)
pub struct Late(std::cell::RefCell<Option<Box<dyn FnOnce()>>>);
impl Drop for Late {
    fn drop(&mut self) {
        if let Some(f) = self.0.borrow_mut().take() {
            f();
        }
    }
}
thread_local! {
    static LATE: Late = Late(std::cell::RefCell::new(None));
}

/// one API call of a worker, with the scheduling point before it, the trace lines around it and
/// the classification of a panic coming out of it
fn run_one<S>(sh: &Arc<Shared<S>>, w: usize, op: &Op, apis: &Arc<Mutex<HashMap<usize, String>>>)
where
    S: Strategy<T> + CaS<T> + ByValue + Strategy<T1> + Default + Send + Sync + 'static,
    Guard<T, S>: Send,
{
    point(Pending { site: "begin".into(), weak_cas: false, api: op.text() });
    lock(apis).insert(w, op.text());
    names(|n| n.cur_api.insert(w, op.text()));
    emit(format!("begin {}", op.text()));
    sched::reset_api_steps();
    let r = catch_unwind(AssertUnwindSafe(|| exec_op(sh, w, op)));
    match r {
        Ok(s) => emit(format!("end {}", s)),
        Err(p) => {
            let msg = p
                .downcast_ref::<String>()
                .cloned()
                .or_else(|| p.downcast_ref::<&str>().map(|s| s.to_string()))
                .unwrap_or_default();
            if msg.starts_with("injected") {
                // a destructor panicked inside a writer's debt walk (after its
                // exchange): remember which value it had taken out
                names(|n| {
                    let site = n.last_site.get(&w).cloned().unwrap_or_default();
                    let in_walk = site.contains("Debt::pay") || site.contains("Slots::help") || site.contains("Node::traverse")
                        || site.contains("NodeReservation") || site.contains("reserve_writer") || site.contains("LocalNode::help")
                        || site.contains("attempt") || site.contains("fallback") || site.contains("Slots::confirm") || site.contains("Slots::get_debt");
                    if is_writer_api(&op.text()) && in_walk {
                        if let Some((_, _, replaced, _, _)) = n.last_write.get(&w).cloned() {
                            n.aborted_walks.insert(replaced, (w, op.text(), site));
                        }
                    }
                });
                emit("end panic-injected".to_string());
            } else {
                violation(format!("panic: t{} in `{}`: {}", w, op.text(), msg));
                emit("end panic".to_string());
            }
        }
    }
    lock(apis).insert(w, String::new());
}

pub struct RunCfg {
    pub max_steps: usize,
    pub load_bound: usize,
}

pub fn run<S>(prog: &Program, mut policy: Policy, cfg: &RunCfg) -> Outcome
where
    S: Strategy<T> + CaS<T> + ByValue + Strategy<T1> + Default + Send + Sync + 'static,
    Guard<T, S>: Send,
{
    verif::reset_list();
    varc::reset_pool();
    names(|n| {
        n.cells.clear();
        n.nodes.clear();
        n.fields.clear();
        n.hist.clear();
        n.last_write.clear();
        n.list_path.clear();
        n.owner.clear();
        n.alive.clear();
        n.exiting.clear();
        n.evno = 0;
        n.res_since.clear();
        n.released_at.clear();
        n.chk_at.clear();
        n.checking.clear();
        n.stale_release.clear();
        n.peak_owners = 0;
        n.saw_writer.clear();
        n.lockstep_allocs = 0;
        n.allocs = 0;
        n.reserved.clear();
        n.cur_api.clear();
        n.last_site.clear();
        n.aborted_walks.clear();
        n.head = verif::list_head_addr();
    });
    verif::set_hooks(Some(before_hook), Some(after_hook));
    let sh = Arc::new(Shared::<S> {
        regs: Mutex::new(Regs { h: vec![], g: vec![], c: vec![], busy: vec![] }),
        h1: Mutex::new(vec![]),
        c1: Mutex::new(vec![]),
        mono: Mutex::new(HashMap::new()),
        stats: Mutex::new(HashMap::new()),
        load_bound: cfg.load_bound,
    });
    *lock(&CTL) = Some(Ctl { active: false, ..Default::default() });
    crate::race::start(prog.threads.len());
    // setup runs on this thread, outside the scheduler
    varc::SCHED_POINTS.store(false, SeqCst);
    for op in &prog.setup {
        exec_op(&sh, usize::MAX, op);
    }
    varc::SCHED_POINTS.store(true, SeqCst);
    crate::race::spawn_all();
    lock(&CTL).as_mut().unwrap().active = true;

    let apis: Arc<Mutex<HashMap<usize, String>>> = Arc::new(Mutex::new(HashMap::new()));
    let mut handles = vec![];
    for (w, ops) in prog.threads.iter().enumerate() {
        let ops = ops.clone();
        let sh = sh.clone();
        let apis = apis.clone();
        handles.push(Some(
            std::thread::Builder::new()
                .name(format!("w{}", w))
                .spawn(move || {
                    sched::register(w);
                    sched::SENTINEL.with(|s| s.0.set(Some(w)));
                    let (now, late): (Vec<Op>, Vec<Op>) = match ops.iter().position(|o| *o == Op::Late) {
                        Some(k) => (ops[..k].to_vec(), ops[k + 1..].to_vec()),
                        None => (ops.clone(), vec![]),
                    };
                    if !late.is_empty() {
                        // registered before the crate is used on this thread, so destroyed after
                        // the crate's own thread-local (and before the sentinel)
                        let (sh2, apis2) = (sh.clone(), apis.clone());
                        LATE.with(|l| {
                            *l.0.borrow_mut() = Some(Box::new(move || {
                                for op in &late {
                                    run_one(&sh2, w, op, &apis2);
                                }
                            }))
                        });
                    }
                    for op in &now {
                        run_one(&sh, w, op, &apis);
                    }
                    point(Pending { site: "exit".into(), weak_cas: false, api: String::new() });
                    emit("exit".to_string());
                    names(|n| {
                        n.exiting.insert(w);
                        if !n.owner.values().any(|o| *o == w) {
                            n.alive.remove(&w); // no node to give back: nothing more happens
                        }
                    });
                    // thread-local destructors (the node goes to cooldown) run after this returns
                })
                .unwrap(),
        ));
    }

    let mut finished = vec![false; handles.len()];
    let mut last: Option<usize> = None;
    let mut steps = 0usize;
    let mut hung = false;
    let started = Instant::now();
    loop {
        // wait until no worker is running: every unfinished worker is parked
        let mut g = lock(&CTL);
        loop {
            {
                let c = g.as_mut().unwrap();
                for w in c.done.clone() {
                    finished[w] = true;
                    if c.turn == Some(w) {
                        c.turn = None;
                    }
                }
            }
            let c = g.as_ref().unwrap();
            let all_parked = (0..handles.len()).all(|w| finished[w] || c.parked.contains_key(&w));
            if c.turn.is_none() && all_parked {
                break;
            }
            if started.elapsed() > Duration::from_secs(60) {
                hung = true;
                break;
            }
            g = CV.wait_timeout(g, Duration::from_micros(200)).unwrap_or_else(|e| e.into_inner()).0;
        }
        if hung {
            break;
        }
        let c = g.as_mut().unwrap();
        if c.parked.is_empty() {
            break; // everyone finished
        }
        steps += 1;
        if steps > cfg.max_steps {
            hung = true;
            break;
        }
        let apis_now = lock(&apis).clone();
        let (t, spur) = policy.next(&c.parked, &apis_now, last).unwrap();
        c.parked.remove(&t);
        c.turn = Some(t);
        c.spurious = spur;
        c.taken.push((t, spur));
        last = Some(t);
        drop(g);
        CV.notify_all();
    }
    if hung {
        // who is stuck where: an unfinished load with more steps of its own than its bound is not
        // wait-free, whatever else is going on
        let apis_now = lock(&apis).clone();
        let own: HashMap<usize, usize> = lock(&CTL).as_ref().map(|c| c.api_steps.clone()).unwrap_or_default();
        let mut stuck: Vec<String> = vec![];
        for (w, api) in apis_now.iter() {
            if api.is_empty() {
                continue;
            }
            let n = own.get(w).copied().unwrap_or(0);
            stuck.push(format!("t{} in `{}` after {} steps of its own", w, api, n));
            if (api.starts_with("load ") || api.starts_with("loadfull ")) && n > cfg.load_bound {
                violation(format!("wait-freedom: {} by t{} has not finished after {} steps of its own (bound {})", api, w, n, cfg.load_bound));
            }
        }
        stuck.sort();
        violation(format!("hang: execution did not finish within {} steps / 60 s ({})", cfg.max_steps, stuck.join("; ")));
        // let everything run free so that the threads can end; they are not joined
        lock(&CTL).as_mut().unwrap().active = false;
        CV.notify_all();
        std::thread::sleep(Duration::from_millis(200));
    } else {
        for h in handles.iter_mut() {
            let _ = h.take().unwrap().join();
        }
    }
    let (trace, taken) = {
        let mut g = lock(&CTL);
        let c = g.as_mut().unwrap();
        c.active = false;
        (std::mem::take(&mut c.trace), std::mem::take(&mut c.taken))
    };
    verif::set_hooks(None, None);
    {
        let (reads, frees, edges) = crate::race::stop();
        let mut st = lock(&sh.stats);
        *st.entry("race_checked_reads".into()).or_insert(0) += reads;
        *st.entry("race_checked_destructions".into()).or_insert(0) += frees;
        *st.entry("race_sync_edges".into()).or_insert(0) += edges;
    }

    // Churn (C11): nodes allocated vs the peak number of threads that held one at the same time
    {
        let (allocs, peak, lockstep) = names(|n| (n.allocs, n.peak_owners, n.lockstep_allocs));
        let mut st = lock(&sh.stats);
        *st.entry("max_nodes".into()).or_insert(0) = (*st.get("max_nodes").unwrap_or(&0)).max(allocs as u64);
        *st.entry("max_peak_owners".into()).or_insert(0) = (*st.get("max_peak_owners").unwrap_or(&0)).max(peak as u64);
        drop(st);
        if allocs > peak {
            if lockstep > 0 {
                violation(format!(
                    "churn-lockstep: {} nodes allocated with at most {} threads using the crate at a time; {} allocation(s) by a Node::get that saw a writer inside a node in cooldown",
                    allocs, peak, lockstep
                ));
            } else {
                violation(format!("churn: {} nodes allocated with at most {} threads using the crate at a time", allocs, peak));
            }
        }
    }
    // Quiescence: release every register on a fresh thread (outside the scheduler), then nothing
    // may be alive and no slot may be occupied.
    varc::SCHED_POINTS.store(false, SeqCst);
    if !hung {
        let sh2 = sh.clone();
        let _ = std::thread::spawn(move || {
            let (gs, hs, cs) = {
                let mut r = lock(&sh2.regs);
                (std::mem::take(&mut r.g), std::mem::take(&mut r.h), std::mem::take(&mut r.c))
            };
            // every register is released on its own: a panic coming out of one release (an injected
            // destructor panic, or the library's own) must not meet a second one during cleanup
            fn drop_each<X>(v: Vec<X>, what: &str) {
                for x in v {
                    if let Err(p) = catch_unwind(AssertUnwindSafe(|| drop(x))) {
                        let msg = p
                            .downcast_ref::<String>()
                            .cloned()
                            .or_else(|| p.downcast_ref::<&str>().map(|s| s.to_string()))
                            .unwrap_or_default();
                        if !msg.starts_with("injected") {
                            violation(format!("panic: releasing a {} at the end of the execution: {}", what, msg));
                        }
                    }
                }
            }
            let _ = catch_unwind(AssertUnwindSafe(|| {
                // borrow slots must be free once the guards are gone, whoever else still owns things
                drop_each(gs, "guard");
                for s in verif::nodes() {
                    let occupied = s.fast.iter().filter(|(_, v)| *v != 3).count() + (s.slot.1 != 3) as usize;
                    if occupied != 0 || (s.control.1 != 0) || s.active_writers.1 != 0 {
                        violation(format!(
                            "slots: after all guards were dropped a node still has {} occupied slot(s), control={:x}, active_writers={}",
                            occupied, s.control.1, s.active_writers.1
                        ));
                    }
                }
                drop_each(cs, "container");
                drop_each(hs, "handle");
                drop_each(std::mem::take(&mut *lock(&sh2.c1)), "container");
                drop_each(std::mem::take(&mut *lock(&sh2.h1)), "handle");
            }));
        })
        .join();
        for (k, e) in varc::ENTRIES.iter().enumerate() {
            if e.live.load(SeqCst) {
                let id = format!("p{}#{}", k + 1, e.id.load(SeqCst));
                let cnt = e.cnt.load(SeqCst);
                match names(|n| n.aborted_walks.get(&id).cloned()) {
                    Some((w, op, site)) if cnt == 1 => violation(format!(
                        "leak-after-aborted-walk: {} keeps count 1 after every owner was dropped: a pointee destructor panicked inside the debt walk of the writer that had taken it out of the storage (t{} in `{}`, last atomic access {}), and the reference taken out is never released",
                        id, w, op, site
                    )),
                    _ => violation(format!("leak: {} still has count {} after every owner was dropped", id, cnt)),
                }
            }
        }
    }
    varc::SCHED_POINTS.store(true, SeqCst);
    if let Policy::Solo { solo_steps, who, done, .. } = &policy {
        let nodes = names(|n| n.nodes.len());
        let bound = 60 + 40 * (nodes + 1);
        let mut st = lock(&sh.stats);
        let e = st.entry("max_solo_steps".into()).or_insert(0);
        *e = (*e).max(*solo_steps as u64);
        *st.entry("solo_runs".into()).or_insert(0) += 1;
        drop(st);
        if *solo_steps > bound || (hung && !*done) {
            violation(format!(
                "blocked: t{} running alone (all other threads frozen) did not finish its operation within {} steps ({} nodes)",
                who, solo_steps, nodes
            ));
        }
    }
    let violations = lock(&varc::VIOLATIONS).clone();
    let stats = lock(&sh.stats).clone();
    Outcome { trace, taken, violations, stats, hung }
}
