//! Sequential mode (C14): one single-threaded program, run under every strategy of the crate
//! (default, fallback-only, lock-based), printing after every call what it returned (identities)
//! and the strong count every live value would have if each borrowing guard owned its reference
//! (count + debt slots naming the value). The specification (`Spec` in Lean) predicts both.
//!
//! No scheduler, no hooks: the calls run back to back on a fresh thread per execution.

use std::panic::{catch_unwind, AssertUnwindSafe};
use std::sync::atomic::Ordering::SeqCst;

use arc_swap::strategy::{CaS, Strategy};
use arc_swap::verif;
use arc_swap::{ArcSwapAny, Guard};

use crate::prog::{Cur, Op};
use crate::rng::Rng;
use crate::varc::{self, VArc};

type T = Option<VArc<0>>;

fn ident(v: &T) -> String {
    match v {
        None => "null".into(),
        Some(a) => a.ident(),
    }
}

struct Regs<S: Strategy<T>> {
    h: Vec<Option<T>>,
    g: Vec<Option<Guard<T, S>>>,
    c: Vec<Option<ArcSwapAny<T, S>>>,
}

fn counts() -> String {
    let mut debts = vec![0usize; varc::POOL + 1];
    for s in verif::nodes() {
        for (_, v) in s.fast.iter().chain(std::iter::once(&s.slot)) {
            if let Some(k) = varc::index_of(*v) {
                debts[k] += 1;
            }
        }
    }
    let mut out = vec![];
    for (k, e) in varc::ENTRIES.iter().enumerate() {
        if e.live.load(SeqCst) {
            out.push(format!("p{}={}", k + 1, e.cnt.load(SeqCst) + debts[k + 1]));
        }
    }
    out.join(" ")
}

/// `&Guard<T>` as `current` exists for the default strategy only
pub trait GuardForm: Strategy<T> + CaS<T> + Sized {
    fn cas_with_guard<'a>(
        _a: &'a ArcSwapAny<T, Self>,
        _g: &'a Guard<T, Self>,
        _form: usize,
    ) -> Option<Box<dyn FnOnce(T) -> Guard<T, Self> + 'a>> {
        None
    }
}
impl GuardForm for arc_swap::strategy::DefaultStrategy {
    fn cas_with_guard<'a>(
        a: &'a ArcSwapAny<T, Self>,
        g: &'a Guard<T, Self>,
        form: usize,
    ) -> Option<Box<dyn FnOnce(T) -> Guard<T, Self> + 'a>> {
        if form == 0 {
            Some(Box::new(move |newv| a.compare_and_swap(g, newv)))
        } else {
            None
        }
    }
}
#[allow(deprecated)]
impl GuardForm for arc_swap::strategy::test_strategies::FillFastSlots {}
impl GuardForm for std::sync::RwLock<()> {}

fn exec<S>(r: &mut Regs<S>, op: &Op) -> String
where
    S: GuardForm + Default,
{
    fn grow<X>(v: &mut Vec<Option<X>>, i: usize) {
        if v.len() <= i {
            v.resize_with(i + 1, || None);
        }
    }
    macro_rules! hfree { ($i:expr) => {{ grow(&mut r.h, $i); r.h[$i].is_none() }}; }
    macro_rules! gfree { ($i:expr) => {{ grow(&mut r.g, $i); r.g[$i].is_none() }}; }
    macro_rules! has_c { ($i:expr) => {{ grow(&mut r.c, $i); r.c[$i].is_some() }}; }
    match op {
        Op::Late => "skip".into(),
        Op::New { h, val } | Op::NewP { h, val } => {
            if !hfree!(*h) {
                return "skip".into();
            }
            let v = Some(VArc::<0>::new(*val));
            let id = ident(&v);
            r.h[*h] = Some(v);
            format!("h{}={}", h, id)
        }
        Op::NullH { h } => {
            if !hfree!(*h) {
                return "skip".into();
            }
            r.h[*h] = Some(None);
            format!("h{}=null", h)
        }
        Op::CloneH { h, h2 } => {
            if !hfree!(*h2) || hfree!(*h) {
                return "skip".into();
            }
            let v2 = r.h[*h].as_ref().unwrap().clone();
            let id = ident(&v2);
            r.h[*h2] = Some(v2);
            format!("h{}={}", h2, id)
        }
        Op::DropH { h } => {
            if hfree!(*h) {
                return "skip".into();
            }
            drop(r.h[*h].take());
            "ok".into()
        }
        Op::Mk { c, h } => {
            if hfree!(*h) {
                return "skip".into();
            }
            let v = r.h[*h].take().unwrap();
            let id = ident(&v);
            grow(&mut r.c, *c);
            // the several constructors: from a value with an explicit strategy
            r.c[*c] = Some(ArcSwapAny::<T, S>::with_strategy(v, S::default()));
            format!("c{}={}", c, id)
        }
        Op::Load { c, g } => {
            if !gfree!(*g) || !has_c!(*c) {
                return "skip".into();
            }
            let guard = r.c[*c].as_ref().unwrap().load();
            let id = ident(&guard);
            r.g[*g] = Some(guard);
            format!("g{}={}", g, id)
        }
        Op::LoadFull { c, h } => {
            if !hfree!(*h) || !has_c!(*c) {
                return "skip".into();
            }
            let v = r.c[*c].as_ref().unwrap().load_full();
            let id = ident(&v);
            r.h[*h] = Some(v);
            format!("h{}={}", h, id)
        }
        Op::DropG { g } => {
            if gfree!(*g) {
                return "skip".into();
            }
            drop(r.g[*g].take());
            "ok".into()
        }
        Op::GInto { g, h } => {
            if !hfree!(*h) || gfree!(*g) {
                return "skip".into();
            }
            let v = Guard::into_inner(r.g[*g].take().unwrap());
            let id = ident(&v);
            r.h[*h] = Some(v);
            format!("h{}={}", h, id)
        }
        Op::GFrom { h, g } => {
            if !gfree!(*g) || hfree!(*h) {
                return "skip".into();
            }
            let v = r.h[*h].take().unwrap();
            let id = ident(&v);
            r.g[*g] = Some(Guard::from_inner(v));
            format!("g{}={}", g, id)
        }
        Op::GDeref { g } => {
            if gfree!(*g) {
                return "skip".into();
            }
            let guard = r.g[*g].as_ref().unwrap();
            format!("{} val={}", ident(guard), guard.as_ref().map(|a| a.get()).unwrap_or(0))
        }
        Op::Store { c, h } => {
            if !has_c!(*c) || hfree!(*h) {
                return "skip".into();
            }
            let v = r.h[*h].take().unwrap();
            r.c[*c].as_ref().unwrap().store(v);
            "ok".into()
        }
        Op::Swap { c, h, out } => {
            if !has_c!(*c) || hfree!(*h) {
                return "skip".into();
            }
            if *out != *h && !hfree!(*out) {
                return "skip".into();
            }
            let v = r.h[*h].take().unwrap();
            let old = r.c[*c].as_ref().unwrap().swap(v);
            let id = ident(&old);
            grow(&mut r.h, *out);
            r.h[*out] = Some(old);
            format!("h{}={}", out, id)
        }
        Op::Cas { c, cur, new, g } => {
            if !gfree!(*g) || !has_c!(*c) || hfree!(*new) {
                return "skip".into();
            }
            match cur {
                Cur::H(i) if *i == *new || hfree!(*i) => return "skip".into(),
                Cur::G(i) if gfree!(*i) => return "skip".into(),
                _ => {}
            }
            let newv = r.h[*new].take().unwrap();
            let a = r.c[*c].as_ref().unwrap();
            // the accepted forms of `current`: `&T`, `&Guard<T>` (default strategy only), and raw
            // pointers `*const` / `*mut`; which one is a function of the operation, so that every
            // strategy sees the same program
            let form = (*c + *new + *g) % 3;
            let by_ref = |a: &ArcSwapAny<T, S>, t: &T, newv: T| match form {
                0 => a.compare_and_swap(t, newv),
                1 => a.compare_and_swap(<T as arc_swap::RefCnt>::as_ptr(t) as *const varc::Entry, newv),
                _ => a.compare_and_swap(<T as arc_swap::RefCnt>::as_ptr(t), newv),
            };
            let res = match cur {
                Cur::Null if form == 0 => a.compare_and_swap(&None::<VArc<0>>, newv),
                Cur::Null if form == 1 => a.compare_and_swap(std::ptr::null::<varc::Entry>(), newv),
                Cur::Null => a.compare_and_swap(std::ptr::null_mut::<varc::Entry>(), newv),
                Cur::H(i) => by_ref(a, r.h[*i].as_ref().unwrap(), newv),
                Cur::G(i) => match S::cas_with_guard(a, r.g[*i].as_ref().unwrap(), form) {
                    Some(f) => f(newv),
                    None => by_ref(a, r.g[*i].as_ref().unwrap(), newv),
                },
            };
            let id = ident(&res);
            r.g[*g] = Some(res);
            format!("g{}={}", g, id)
        }
        Op::Rcu { c, out } => {
            if !hfree!(*out) || !has_c!(*c) {
                return "skip".into();
            }
            let mut tries = 0;
            let old = r.c[*c].as_ref().unwrap().rcu(|cur: &T| {
                tries += 1;
                Some(VArc::<0>::new(cur.as_ref().map(|x| x.get()).unwrap_or(0) + 1))
            });
            let id = ident(&old);
            r.h[*out] = Some(old);
            format!("h{}={} tries={}", out, id, tries)
        }
        Op::CInto { c, h } => {
            if !hfree!(*h) || !has_c!(*c) {
                return "skip".into();
            }
            let v = r.c[*c].take().unwrap().into_inner();
            let id = ident(&v);
            r.h[*h] = Some(v);
            format!("h{}={}", h, id)
        }
        Op::DropC { c } => {
            if !has_c!(*c) {
                return "skip".into();
            }
            drop(r.c[*c].take());
            "ok".into()
        }
        Op::SetGen { v } => {
            verif::set_generation(*v as usize);
            "ok".into()
        }
        Op::RcuPanic { .. } | Op::CasV { .. } | Op::New1 { .. } | Op::Mk1 { .. } | Op::Store1 { .. } | Op::DropH1 { .. } => "skip".into(),
    }
}

pub fn run_prog<S>(ops: &[Op]) -> Vec<String>
where
    S: GuardForm + Default + 'static,
{
    verif::reset_list();
    varc::reset_pool();
    verif::set_hooks(None, None);
    varc::SCHED_POINTS.store(false, SeqCst);
    let ops = ops.to_vec();
    let lines = std::thread::spawn(move || {
        let mut r = Regs::<S> { h: vec![], g: vec![], c: vec![] };
        let mut out = vec![];
        for op in &ops {
            out.push(format!("begin {}", op.text()));
            match catch_unwind(AssertUnwindSafe(|| exec(&mut r, op))) {
                Ok(s) => out.push(format!("end {}", s)),
                Err(_) => out.push("end panic".into()),
            }
            out.push(format!("cnt {}", counts()));
        }
        // whatever is left goes away with the registers; nothing may stay alive
        let _ = catch_unwind(AssertUnwindSafe(move || drop(r)));
        out
    })
    .join()
    .unwrap_or_else(|_| vec!["end thread-panicked".into()]);
    let mut lines = lines;
    let leaked: Vec<String> = varc::ENTRIES
        .iter()
        .enumerate()
        .filter(|(_, e)| e.live.load(SeqCst))
        .map(|(k, e)| format!("p{}={}", k + 1, e.cnt.load(SeqCst)))
        .collect();
    lines.push(format!("final {}", leaked.join(" ")));
    for v in varc::VIOLATIONS.lock().unwrap_or_else(|e| e.into_inner()).iter() {
        lines.push(format!("violation {}", v));
    }
    varc::SCHED_POINTS.store(true, SeqCst);
    lines
}

/// Random single-threaded programs: every operation of the API, guards held across writes,
/// all three forms of `current`, self-replacement, `None`, several containers, containers that go
/// away and come back, and a final phase that drops everything in random order.
pub fn generate(rng: &mut Rng) -> Vec<Op> {
    const NH: usize = 10;
    const NG: usize = 14;
    let nc = rng.range(1, 4);
    let mut ops = vec![];
    let mut hf = [false; NH];
    let mut gf = [false; NG];
    let mut cf = vec![false; nc];
    let mut val = 100u64;
    for c in 0..nc {
        if rng.chance(1, 5) {
            ops.push(Op::NullH { h: 0 });
        } else {
            ops.push(Op::New { h: 0, val });
            val += 100;
        }
        ops.push(Op::Mk { c, h: 0 });
        cf[c] = true;
    }
    if rng.chance(1, 6) {
        ops.push(Op::SetGen { v: 0u64.wrapping_sub(4 * rng.range(0, 5) as u64) });
    }
    // sometimes start with many guards held, so that later loads use the fallback path
    if rng.chance(1, 3) {
        for g in 0..rng.range(6, 11) {
            ops.push(Op::Load { c: rng.range(0, nc), g });
            gf[g] = true;
        }
    }
    let n = rng.range(8, 40);
    for _ in 0..n {
        let c = rng.range(0, nc);
        let free_h = |hf: &[bool; NH], rng: &mut Rng| {
            let v: Vec<usize> = (0..NH).filter(|i| !hf[*i]).collect();
            if v.is_empty() { None } else { Some(v[rng.range(0, v.len())]) }
        };
        let full_h = |hf: &[bool; NH], rng: &mut Rng| {
            let v: Vec<usize> = (0..NH).filter(|i| hf[*i]).collect();
            if v.is_empty() { None } else { Some(v[rng.range(0, v.len())]) }
        };
        let free_g = |gf: &[bool; NG], rng: &mut Rng| {
            let v: Vec<usize> = (0..NG).filter(|i| !gf[*i]).collect();
            if v.is_empty() { None } else { Some(v[rng.range(0, v.len())]) }
        };
        let full_g = |gf: &[bool; NG], rng: &mut Rng| {
            let v: Vec<usize> = (0..NG).filter(|i| gf[*i]).collect();
            if v.is_empty() { None } else { Some(v[rng.range(0, v.len())]) }
        };
        // a value to write into a container, in a handle register: fresh, null, a clone of a
        // handle we hold, or the very value the container holds now (self-replacement)
        let mut value = |ops: &mut Vec<Op>, hf: &mut [bool; NH], rng: &mut Rng, val: &mut u64| -> Option<usize> {
            let i = free_h(hf, rng)?;
            match rng.range(0, 10) {
                0 => ops.push(Op::NullH { h: i }),
                1 | 2 => match full_h(hf, rng) {
                    Some(j) => ops.push(Op::CloneH { h: j, h2: i }),
                    None => {
                        ops.push(Op::New { h: i, val: *val });
                        *val += 100;
                    }
                },
                3 | 4 => ops.push(Op::LoadFull { c, h: i }),
                _ => {
                    ops.push(Op::New { h: i, val: *val });
                    *val += 100;
                }
            }
            hf[i] = true;
            Some(i)
        };
        match rng.range(0, 30) {
            0..=5 => {
                if let Some(g) = free_g(&gf, rng) {
                    ops.push(Op::Load { c, g });
                    gf[g] = true;
                }
            }
            6 | 7 => {
                if let Some(h) = free_h(&hf, rng) {
                    ops.push(Op::LoadFull { c, h });
                    hf[h] = true;
                }
            }
            8..=10 => {
                if let Some(g) = full_g(&gf, rng) {
                    ops.push(Op::DropG { g });
                    gf[g] = false;
                }
            }
            11 => {
                if let (Some(g), Some(h)) = (full_g(&gf, rng), free_h(&hf, rng)) {
                    ops.push(Op::GInto { g, h });
                    gf[g] = false;
                    hf[h] = true;
                }
            }
            12 => {
                if let (Some(h), Some(g)) = (full_h(&hf, rng), free_g(&gf, rng)) {
                    ops.push(Op::GFrom { h, g });
                    hf[h] = false;
                    gf[g] = true;
                }
            }
            13..=15 => {
                if let Some(h) = value(&mut ops, &mut hf, rng, &mut val) {
                    ops.push(Op::Store { c, h });
                    hf[h] = false;
                }
            }
            16 | 17 => {
                if let Some(h) = value(&mut ops, &mut hf, rng, &mut val) {
                    ops.push(Op::Swap { c, h, out: h });
                }
            }
            18..=22 => {
                if let Some(g) = free_g(&gf, rng) {
                    // `current`: a guard (often one just loaded from this container, so that the
                    // exchange succeeds), a handle, or null
                    let cur = match rng.range(0, 6) {
                        0 | 1 => {
                            if let Some(g2) = (0..NG).find(|i| !gf[*i] && *i != g) {
                                ops.push(Op::Load { c, g: g2 });
                                gf[g2] = true;
                                Cur::G(g2)
                            } else {
                                Cur::Null
                            }
                        }
                        2 => full_g(&gf, rng).map(Cur::G).unwrap_or(Cur::Null),
                        3 => {
                            if let Some(h) = free_h(&hf, rng) {
                                ops.push(Op::LoadFull { c, h });
                                hf[h] = true;
                                Cur::H(h)
                            } else {
                                Cur::Null
                            }
                        }
                        4 => full_h(&hf, rng).map(Cur::H).unwrap_or(Cur::Null),
                        _ => Cur::Null,
                    };
                    if let Some(h) = value(&mut ops, &mut hf, rng, &mut val) {
                        if cur != Cur::H(h) {
                            ops.push(Op::Cas { c, cur, new: h, g });
                            hf[h] = false;
                            gf[g] = true;
                        }
                    }
                }
            }
            23 | 24 => {
                if let Some(h) = free_h(&hf, rng) {
                    ops.push(Op::Rcu { c, out: h });
                    hf[h] = true;
                }
            }
            25 => {
                if let Some(g) = full_g(&gf, rng) {
                    ops.push(Op::GDeref { g });
                }
            }
            26 => {
                if let Some(h) = full_h(&hf, rng) {
                    ops.push(Op::DropH { h });
                    hf[h] = false;
                }
            }
            27 => {
                if let (Some(h), Some(h2)) = (full_h(&hf, rng), free_h(&hf, rng)) {
                    ops.push(Op::CloneH { h, h2 });
                    hf[h2] = true;
                }
            }
            _ => {
                // the container goes away (dropped, or turned back into its value) and is
                // created again from something
                if cf[c] {
                    if rng.chance(1, 2) {
                        ops.push(Op::DropC { c });
                    } else if let Some(h) = free_h(&hf, rng) {
                        ops.push(Op::CInto { c, h });
                        hf[h] = true;
                    } else {
                        continue;
                    }
                    if let Some(h) = value(&mut ops, &mut hf, rng, &mut val) {
                        // `value` may have tried to load from the container that is gone: then the
                        // register stays empty and this `mk` is skipped by everyone alike
                        ops.push(Op::Mk { c, h });
                        hf[h] = false;
                    }
                }
            }
        }
    }
    // drop everything, in random order
    let mut rest: Vec<Op> = vec![];
    for g in 0..NG {
        rest.push(Op::DropG { g });
    }
    for h in 0..NH {
        rest.push(Op::DropH { h });
    }
    for c in 0..nc {
        rest.push(Op::DropC { c });
    }
    while !rest.is_empty() {
        let i = rng.range(0, rest.len());
        ops.push(rest.swap_remove(i));
    }
    ops
}
