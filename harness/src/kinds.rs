//! C15 correspondence: every `RefCnt` method of the real impls, over kinds × pointee layouts ×
//! count states, one line per observation, to be diffed against the Lean `Kinds` model.
use arc_swap::RefCnt;
use std::rc::{Rc, Weak as RcWeak};
use std::sync::{Arc, Weak};

#[derive(Default)]
pub struct Zst;
#[derive(Default)]
#[repr(align(64))]
pub struct Align64(#[allow(dead_code)] u8);

/// Observer of an allocation's counts that does not hold a strong reference.
pub trait Witness {
    fn counts(&self) -> (usize, Option<usize>);
}
impl<P> Witness for Weak<P> {
    fn counts(&self) -> (usize, Option<usize>) {
        let s = self.strong_count();
        (s, if s == 0 { None } else { Some(self.weak_count() - 1) })
    }
}
impl<P> Witness for RcWeak<P> {
    fn counts(&self) -> (usize, Option<usize>) {
        let s = self.strong_count();
        (s, if s == 0 { None } else { Some(self.weak_count() - 1) })
    }
}

fn delta(a: (usize, Option<usize>), b: (usize, Option<usize>)) -> String {
    let ds = b.0 as i64 - a.0 as i64;
    match (a.1, b.1) {
        (Some(x), Some(y)) => format!("ds={} dw={}", ds, y as i64 - x as i64),
        _ => format!("ds={} dw=na", ds),
    }
}

/// Runs the five observations on one value. `lvl` describes the value for the model:
/// `full`, `dangling`, `nones<k>`.
fn observe<T: RefCnt>(out: &mut Vec<String>, head: &str, w: Option<&dyn Witness>, make: &dyn Fn() -> T, describe: &dyn Fn(&T) -> String) {
    let counts = || w.map(|w| w.counts()).unwrap_or((0, Some(0)));
    // into_ptr / from_ptr round trip
    {
        let v = make();
        let before = counts();
        let d0 = describe(&v);
        let p = T::into_ptr(v);
        let mid = counts();
        let back = unsafe { T::from_ptr(p) };
        let after = counts();
        out.push(format!("{} op=roundtrip null={} {} {} was={} back={}", head, p.is_null() as u8, delta(before, mid), delta(before, after), d0, describe(&back)));
        drop(back);
    }
    // as_ptr equals what into_ptr gives, counts untouched
    {
        let v = make();
        let before = counts();
        let a = T::as_ptr(&v);
        let mid = counts();
        let p = T::into_ptr(v);
        out.push(format!("{} op=as_ptr null={} {} same_addr={}", head, a.is_null() as u8, delta(before, mid), (a == p) as u8));
        drop(unsafe { T::from_ptr(p) });
    }
    // inc adds exactly one
    {
        let v = make();
        let before = counts();
        let p = T::inc(&v);
        let after = counts();
        out.push(format!("{} op=inc null={} {} same_addr={}", head, p.is_null() as u8, delta(before, after), (p == T::as_ptr(&v)) as u8));
        // dec removes exactly one
        let before = counts();
        unsafe { T::dec(p) };
        let after = counts();
        out.push(format!("{} op=dec {}", head, delta(before, after)));
        drop(v);
    }
}

macro_rules! strong_kind {
    ($out:ident, $ptr:ident, $weak:ident, $kname:expr, $pname:expr, $mk:expr) => {{
        for state in ["unique", "shared", "weakout"] {
            let master: $ptr<_> = $ptr::new($mk);
            let wit: $weak<_> = $ptr::downgrade(&master);
            let extra: Vec<$ptr<_>> = if state == "shared" { vec![master.clone(), master.clone()] } else { vec![] };
            let extraw: Vec<$weak<_>> = if state == "weakout" { vec![$ptr::downgrade(&master), $ptr::downgrade(&master)] } else { vec![] };
            let m2 = master.clone();
            drop(master);
            // plain
            observe::<$ptr<_>>(&mut $out, &format!("kind={} pointee={} state={}", $kname, $pname, state), Some(&wit), &|| m2.clone(), &|_| "full".to_string());
            // Option<..>
            observe::<Option<$ptr<_>>>(&mut $out, &format!("kind=opt-{} pointee={} state={}", $kname, $pname, state), Some(&wit), &|| Some(m2.clone()), &|v| if v.is_some() { "full".into() } else { "nones0".into() });
            // Option<Option<..>>
            observe::<Option<Option<$ptr<_>>>>(&mut $out, &format!("kind=opt-opt-{} pointee={} state={}", $kname, $pname, state), Some(&wit), &|| Some(Some(m2.clone())), &|v| match v { Some(Some(_)) => "full".into(), Some(None) => "nones1".into(), None => "nones0".into() });
            drop(extra);
            drop(extraw);
        }
        let none: Option<$ptr<u8>> = None;
        let _ = none;
        observe::<Option<$ptr<u8>>>(&mut $out, &format!("kind=opt-{} pointee={} state=none", $kname, $pname), None, &|| None, &|v| if v.is_some() { "full".into() } else { "nones0".into() });
        observe::<Option<Option<$ptr<u8>>>>(&mut $out, &format!("kind=opt-opt-{} pointee={} state=none", $kname, $pname), None, &|| None, &|v| match v { Some(Some(_)) => "full".into(), Some(None) => "nones1".into(), None => "nones0".into() });
        observe::<Option<Option<$ptr<u8>>>>(&mut $out, &format!("kind=opt-opt-{} pointee={} state=somenone", $kname, $pname), None, &|| Some(None), &|v| match v { Some(Some(_)) => "full".into(), Some(None) => "nones1".into(), None => "nones0".into() });
    }};
}

macro_rules! weak_kind {
    ($out:ident, $ptr:ident, $weak:ident, $kname:expr, $pname:expr, $mk:expr) => {{
        for state in ["live", "shared", "dropped"] {
            let master: $ptr<_> = $ptr::new($mk);
            let wit: $weak<_> = $ptr::downgrade(&master);
            let ours: $weak<_> = $ptr::downgrade(&master);
            let extra: Vec<$ptr<_>> = if state == "shared" { vec![master.clone()] } else { vec![] };
            let extraw: Vec<$weak<_>> = if state == "shared" { vec![$ptr::downgrade(&master), $ptr::downgrade(&master)] } else { vec![] };
            let keep = if state == "dropped" { None } else { Some(master.clone()) };
            drop(master);
            let desc = |v: &$weak<_>| if $weak::ptr_eq(v, &$weak::new()) { "dangling".to_string() } else { "full".to_string() };
            observe::<$weak<_>>(&mut $out, &format!("kind={} pointee={} state={}", $kname, $pname, state), Some(&wit), &|| ours.clone(), &desc);
            observe::<Option<$weak<_>>>(&mut $out, &format!("kind=opt-{} pointee={} state={}", $kname, $pname, state), Some(&wit), &|| Some(ours.clone()), &|v| match v { Some(w) => desc(w), None => "nones0".into() });
            drop(keep);
            drop(extra);
            drop(extraw);
        }
        let desc = |v: &$weak<u8>| if $weak::ptr_eq(v, &$weak::new()) { "dangling".to_string() } else { "full".to_string() };
        observe::<$weak<u8>>(&mut $out, &format!("kind={} pointee={} state=dangling", $kname, $pname), None, &|| $weak::new(), &desc);
        observe::<Option<$weak<u8>>>(&mut $out, &format!("kind=opt-{} pointee={} state=dangling", $kname, $pname), None, &|| Some($weak::new()), &|v| match v { Some(w) => desc(w), None => "nones0".into() });
        observe::<Option<$weak<u8>>>(&mut $out, &format!("kind=opt-{} pointee={} state=none", $kname, $pname), None, &|| None, &|v| match v { Some(w) => desc(w), None => "nones0".into() });
    }};
}

pub fn run() -> Vec<String> {
    let mut out = vec![];
    strong_kind!(out, Arc, Weak, "arc", "zst", Zst);
    strong_kind!(out, Arc, Weak, "arc", "u8", 7u8);
    strong_kind!(out, Arc, Weak, "arc", "align64", Align64(1));
    strong_kind!(out, Arc, Weak, "arc", "string", String::from("hello"));
    strong_kind!(out, Rc, RcWeak, "rc", "zst", Zst);
    strong_kind!(out, Rc, RcWeak, "rc", "u8", 7u8);
    strong_kind!(out, Rc, RcWeak, "rc", "align64", Align64(1));
    strong_kind!(out, Rc, RcWeak, "rc", "string", String::from("hello"));
    weak_kind!(out, Arc, Weak, "weakarc", "zst", Zst);
    weak_kind!(out, Arc, Weak, "weakarc", "u8", 7u8);
    weak_kind!(out, Arc, Weak, "weakarc", "align64", Align64(1));
    weak_kind!(out, Arc, Weak, "weakarc", "string", String::from("hello"));
    weak_kind!(out, Rc, RcWeak, "weakrc", "zst", Zst);
    weak_kind!(out, Rc, RcWeak, "weakrc", "u8", 7u8);
    weak_kind!(out, Rc, RcWeak, "weakrc", "align64", Align64(1));
    weak_kind!(out, Rc, RcWeak, "weakrc", "string", String::from("hello"));
    out
}
