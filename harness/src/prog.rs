//! Programs over the public API: one list of operations per worker thread.
//!
//! Registers are global (`h<i>` owned handles, `g<i>` guards, `c<i>` containers), so a guard loaded
//! by one thread can be dropped by another (moving a guard across threads). An operation whose
//! input register is empty, or whose output register is occupied, is a `skip` — the same rule in
//! the model.

use crate::rng::Rng;

#[derive(Clone, Debug, PartialEq, Eq)]
pub enum Cur {
    H(usize),
    G(usize),
    Null,
}

#[derive(Clone, Debug, PartialEq, Eq)]
pub enum Op {
    New { h: usize, val: u64 },
    NullH { h: usize },
    CloneH { h: usize, h2: usize },
    DropH { h: usize },
    Mk { c: usize, h: usize },
    Load { c: usize, g: usize },
    LoadFull { c: usize, h: usize },
    DropG { g: usize },
    GInto { g: usize, h: usize },
    GDeref { g: usize },
    /// `Guard::from_inner`: an owning guard made from a handle (sequential mode)
    GFrom { h: usize, g: usize },
    Store { c: usize, h: usize },
    Swap { c: usize, h: usize, out: usize },
    Cas { c: usize, cur: Cur, new: usize, g: usize },
    /// compare_and_swap with `current` given as a guard *by value* (consumed by the call); C18
    CasV { c: usize, cur: usize, new: usize, g: usize },
    /// rcu with the closure `|v| v + 1` on the content (a fresh allocation per attempt); the
    /// returned previous value goes to `out`.
    Rcu { c: usize, out: usize },
    /// rcu whose closure panics on its `at`-th attempt (1-based); C18
    RcuPanic { c: usize, at: usize },
    /// a fresh value whose destructor panics (once, when the value is destroyed); C18
    NewP { h: usize, val: u64 },
    CInto { c: usize, h: usize },
    DropC { c: usize },
    SetGen { v: u64 },
    /// the same, for a second pointee type sharing the pool of addresses (handles `k<i>`, containers `d<i>`)
    New1 { h: usize, val: u64 },
    Mk1 { c: usize, h: usize },
    Store1 { c: usize, h: usize },
    DropH1 { h: usize },
    /// marker: the operations after it run from a thread-local destructor, after the crate's own
    /// thread-local storage is gone (each one borrows a node for itself)
    Late,
}

impl Op {
    pub fn text(&self) -> String {
        use Op::*;
        match self {
            New { h, val } => format!("new h{} {}", h, val),
            NullH { h } => format!("nullh h{}", h),
            CloneH { h, h2 } => format!("cloneh h{} h{}", h, h2),
            DropH { h } => format!("droph h{}", h),
            Mk { c, h } => format!("mk c{} h{}", c, h),
            Load { c, g } => format!("load c{} g{}", c, g),
            LoadFull { c, h } => format!("loadfull c{} h{}", c, h),
            DropG { g } => format!("dropg g{}", g),
            GInto { g, h } => format!("ginto g{} h{}", g, h),
            GDeref { g } => format!("gderef g{}", g),
            GFrom { h, g } => format!("gfrom h{} g{}", h, g),
            Store { c, h } => format!("store c{} h{}", c, h),
            Swap { c, h, out } => format!("swap c{} h{} h{}", c, h, out),
            Cas { c, cur, new, g } => format!(
                "cas c{} {} h{} g{}",
                c,
                match cur {
                    Cur::H(h) => format!("h{}", h),
                    Cur::G(g) => format!("g{}", g),
                    Cur::Null => "null".to_string(),
                },
                new,
                g
            ),
            CasV { c, cur, new, g } => format!("casv c{} g{} h{} g{}", c, cur, new, g),
            Rcu { c, out } => format!("rcu c{} h{}", c, out),
            RcuPanic { c, at } => format!("rcupanic c{} {}", c, at),
            NewP { h, val } => format!("newp h{} {}", h, val),
            CInto { c, h } => format!("cinto c{} h{}", c, h),
            DropC { c } => format!("dropc c{}", c),
            SetGen { v } => format!("setgen {}", v),
            New1 { h, val } => format!("new1 k{} {}", h, val),
            Mk1 { c, h } => format!("mk1 d{} k{}", c, h),
            Store1 { c, h } => format!("store1 d{} k{}", c, h),
            DropH1 { h } => format!("droph1 k{}", h),
            Late => "late".to_string(),
        }
    }

    pub fn parse(s: &str) -> Option<Op> {
        let t: Vec<&str> = s.split_whitespace().collect();
        let r = |x: &str| x[1..].parse::<usize>().ok();
        Some(match t.as_slice() {
            ["new", h, v] => Op::New { h: r(h)?, val: v.parse().ok()? },
            ["nullh", h] => Op::NullH { h: r(h)? },
            ["cloneh", h, h2] => Op::CloneH { h: r(h)?, h2: r(h2)? },
            ["droph", h] => Op::DropH { h: r(h)? },
            ["mk", c, h] => Op::Mk { c: r(c)?, h: r(h)? },
            ["load", c, g] => Op::Load { c: r(c)?, g: r(g)? },
            ["loadfull", c, h] => Op::LoadFull { c: r(c)?, h: r(h)? },
            ["dropg", g] => Op::DropG { g: r(g)? },
            ["ginto", g, h] => Op::GInto { g: r(g)?, h: r(h)? },
            ["gderef", g] => Op::GDeref { g: r(g)? },
            ["gfrom", h, g] => Op::GFrom { h: r(h)?, g: r(g)? },
            ["store", c, h] => Op::Store { c: r(c)?, h: r(h)? },
            ["swap", c, h, o] => Op::Swap { c: r(c)?, h: r(h)?, out: r(o)? },
            ["cas", c, cur, new, g] => Op::Cas {
                c: r(c)?,
                cur: if *cur == "null" {
                    Cur::Null
                } else if cur.starts_with('h') {
                    Cur::H(r(cur)?)
                } else {
                    Cur::G(r(cur)?)
                },
                new: r(new)?,
                g: r(g)?,
            },
            ["casv", c, cur, new, g] => Op::CasV { c: r(c)?, cur: r(cur)?, new: r(new)?, g: r(g)? },
            ["rcu", c, o] => Op::Rcu { c: r(c)?, out: r(o)? },
            ["rcupanic", c, k] => Op::RcuPanic { c: r(c)?, at: k.parse().ok()? },
            ["newp", h, v] => Op::NewP { h: r(h)?, val: v.parse().ok()? },
            ["cinto", c, h] => Op::CInto { c: r(c)?, h: r(h)? },
            ["dropc", c] => Op::DropC { c: r(c)? },
            ["setgen", v] => Op::SetGen { v: v.parse().ok()? },
            ["new1", h, v] => Op::New1 { h: r(h)?, val: v.parse().ok()? },
            ["mk1", c, h] => Op::Mk1 { c: r(c)?, h: r(h)? },
            ["store1", c, h] => Op::Store1 { c: r(c)?, h: r(h)? },
            ["droph1", h] => Op::DropH1 { h: r(h)? },
            ["late"] => Op::Late,
            _ => return None,
        })
    }
}

#[derive(Clone, Debug)]
pub struct Program {
    /// 0 = DefaultStrategy, 1 = FillFastSlots (no fast slots), 2 = RwLock<()>
    pub strategy: usize,
    /// operations run by the controller before the workers start (setup: `new`/`mk`)
    pub setup: Vec<Op>,
    pub threads: Vec<Vec<Op>>,
}

impl Program {
    pub fn text(&self) -> String {
        let mut s = format!("strategy {}\n", self.strategy);
        s += &format!("setup {}\n", self.setup.iter().map(|o| o.text()).collect::<Vec<_>>().join(" ; "));
        for (k, t) in self.threads.iter().enumerate() {
            s += &format!("thread {} {}\n", k, t.iter().map(|o| o.text()).collect::<Vec<_>>().join(" ; "));
        }
        s
    }
    pub fn parse(lines: &[&str]) -> Option<Program> {
        let mut p = Program { strategy: 0, setup: vec![], threads: vec![] };
        for l in lines {
            let l = l.trim();
            if let Some(r) = l.strip_prefix("strategy ") {
                p.strategy = r.trim().parse().ok()?;
            } else if let Some(r) = l.strip_prefix("setup") {
                p.setup = r.split(';').filter(|x| !x.trim().is_empty()).map(Op::parse).collect::<Option<_>>()?;
            } else if let Some(r) = l.strip_prefix("thread ") {
                let r = r.trim_start();
                let rest = r.split_once(' ').map(|x| x.1).unwrap_or("");
                p.threads.push(rest.split(';').filter(|x| !x.trim().is_empty()).map(Op::parse).collect::<Option<_>>()?);
            }
        }
        Some(p)
    }
}

/// Parameters of the random program generator for one scenario family.
#[derive(Clone, Debug)]
pub struct GenCfg {
    pub threads: (usize, usize),
    pub containers: usize,
    pub ops: (usize, usize),
    /// weights: load, loadfull, dropg, ginto, store, swap, cas, rcu, gderef
    pub w: [u32; 9],
    /// guards a reader thread pre-loads and keeps (forces the fallback path when >= 8)
    pub hold: Vec<usize>,
    pub strategy: usize,
    pub with_null: bool,
    pub drop_containers: bool,
    pub setgen: Option<u64>,
    /// inject panics in user code (rcu closure, pointee destructor)
    pub panics: bool,
    /// a container of a second pointee type (same pool of addresses) written by some threads
    pub second_type: bool,
    /// directed A-B-A: thread 0 runs rcu/cas, the others keep a handle to the initial value and
    /// alternate storing a fresh value and storing that same pointer back
    pub aba: bool,
    /// directed hand-over across containers: thread 0 alternates loads of c0 and c1, the others
    /// keep storing into one of them
    pub alternate: bool,
    /// directed shutdown: thread 0 goes on loading (alternately from c0 and c1, keeping more than
    /// eight guards) from a thread-local destructor after the crate's thread-local is gone, the
    /// others keep storing
    pub late: bool,
    /// directed node reuse: short-lived readers doing exactly one load each (so that their
    /// transaction counters agree), alternating between two containers, against writers
    pub reuse: bool,
    /// directed inheritance: thread 0 takes eight guards and exits; the others start with a write
    /// (which takes a node but no fast slot) and then load
    pub inherit: bool,
    /// directed address reuse under a compare_and_swap whose `current` is a guard given by value:
    /// thread 0 loads and compare-and-swaps with that guard, the others keep storing fresh values
    /// (each store frees the value before, whose address the next fresh value takes)
    pub casv: bool,
}

/// Type-directed generation: registers are tracked abstractly per thread so that most operations
/// are valid; each thread owns a disjoint range of handle and guard registers, plus a few shared
/// guard registers used to move guards between threads.
pub fn generate(rng: &mut Rng, cfg: &GenCfg) -> Program {
    let nthreads = rng.range(cfg.threads.0, cfg.threads.1 + 1);
    let mut setup = vec![];
    let mut next_val = 1u64;
    for c in 0..cfg.containers {
        if cfg.with_null && rng.chance(1, 6) {
            setup.push(Op::NullH { h: 0 });
        } else {
            setup.push(Op::New { h: 0, val: next_val * 100 });
            next_val += 1;
        }
        setup.push(Op::Mk { c, h: 0 });
    }
    if cfg.second_type {
        setup.push(Op::New1 { h: 0, val: 5000 });
        setup.push(Op::Mk1 { c: 0, h: 0 });
    }
    const HPT: usize = 6; // handle registers per thread
    const GPT: usize = 14; // guard registers per thread
    let shared_g = nthreads * GPT; // two shared guard registers after the private ones
    let mut threads = vec![];
    for t in 0..nthreads {
        let mut ops = vec![];
        let hbase = 1 + t * HPT;
        let gbase = t * GPT;
        if cfg.reuse {
            if t < 2 {
                // writers: one per container, a few stores each
                for _ in 0..rng.range(2, 4) {
                    ops.push(Op::New { h: hbase + 1, val: next_val * 100 });
                    next_val += 1;
                    ops.push(Op::Store { c: t % 2, h: hbase + 1 });
                }
            } else {
                let c = rng.range(0, 2);
                if rng.chance(1, 2) {
                    ops.push(Op::Load { c, g: gbase });
                    ops.push(Op::DropG { g: gbase });
                } else {
                    ops.push(Op::LoadFull { c, h: hbase });
                    ops.push(Op::DropH { h: hbase });
                }
            }
            threads.push(ops);
            continue;
        }
        if cfg.casv {
            if t == 0 {
                for k in 0..rng.range(2, 5) {
                    ops.push(Op::Load { c: 0, g: gbase + k });
                    ops.push(Op::New { h: hbase + 3, val: next_val * 100 });
                    next_val += 1;
                    ops.push(Op::CasV { c: 0, cur: gbase + k, new: hbase + 3, g: gbase + 8 + k });
                    ops.push(Op::DropG { g: gbase + 8 + k });
                }
            } else {
                for _ in 0..rng.range(2, 5) {
                    ops.push(Op::New { h: hbase + 1, val: next_val * 100 });
                    next_val += 1;
                    ops.push(Op::Store { c: 0, h: hbase + 1 });
                }
            }
            threads.push(ops);
            continue;
        }
        if cfg.inherit {
            if t == 0 {
                for k in 0..8 {
                    ops.push(Op::Load { c: 0, g: gbase + k });
                }
            } else {
                ops.push(Op::New { h: hbase + 1, val: next_val * 100 });
                next_val += 1;
                ops.push(Op::Store { c: 1, h: hbase + 1 });
                ops.push(Op::Load { c: 0, g: gbase });
                ops.push(Op::LoadFull { c: 0, h: hbase });
                ops.push(Op::DropG { g: gbase });
            }
            threads.push(ops);
            continue;
        }
        if cfg.late {
            if t == 0 {
                ops.push(Op::LoadFull { c: 0, h: hbase });
                ops.push(Op::DropH { h: hbase });
                ops.push(Op::Late);
                let keep = rng.range(0, 11);
                for k in 0..keep.min(GPT - 2) {
                    ops.push(Op::Load { c: k % 2, g: gbase + k });
                }
                for k in 0..rng.range(2, 6) {
                    ops.push(Op::LoadFull { c: k % 2, h: hbase });
                    ops.push(Op::DropH { h: hbase });
                }
                // the kept guards are used and (every other one) given back: their debts sit in
                // nodes that were handed back when the call returned (no rng: the programs of the
                // other threads stay what they were)
                for k in 0..keep.min(GPT - 2) {
                    ops.push(Op::GDeref { g: gbase + k });
                    if k % 2 == 0 {
                        ops.push(Op::DropG { g: gbase + k });
                    }
                }
            } else {
                let c = (t + 1) % 2;
                for _ in 0..rng.range(2, 5) {
                    ops.push(Op::New { h: hbase + 1, val: next_val * 100 });
                    next_val += 1;
                    ops.push(Op::Store { c, h: hbase + 1 });
                }
            }
            threads.push(ops);
            continue;
        }
        if cfg.alternate {
            if t == 0 {
                for k in 0..rng.range(3, 7) {
                    ops.push(Op::LoadFull { c: k % 2, h: hbase });
                    ops.push(Op::DropH { h: hbase });
                }
            } else {
                let c = (t + 1) % 2;
                for _ in 0..rng.range(2, 5) {
                    ops.push(Op::New { h: hbase + 1, val: next_val * 100 });
                    next_val += 1;
                    ops.push(Op::Store { c, h: hbase + 1 });
                }
            }
            threads.push(ops);
            continue;
        }
        if cfg.aba {
            if t == 0 {
                for k in 0..rng.range(1, 4) {
                    if rng.chance(1, 3) {
                        // compare_and_swap against a guard of the current value
                        ops.push(Op::Load { c: 0, g: gbase + k });
                        ops.push(Op::New { h: hbase + 3, val: next_val * 100 });
                        next_val += 1;
                        ops.push(Op::Cas { c: 0, cur: Cur::G(gbase + k), new: hbase + 3, g: gbase + 8 + k });
                    } else {
                        ops.push(Op::Rcu { c: 0, out: hbase + k });
                    }
                }
            } else {
                ops.push(Op::LoadFull { c: 0, h: hbase });
                for _ in 0..rng.range(1, 4) {
                    ops.push(Op::New { h: hbase + 1, val: next_val * 100 });
                    next_val += 1;
                    ops.push(Op::Store { c: 0, h: hbase + 1 });
                    ops.push(Op::CloneH { h: hbase, h2: hbase + 2 });
                    ops.push(Op::Store { c: 0, h: hbase + 2 });
                }
            }
            threads.push(ops);
            continue;
        }
        let mut hfull = vec![false; HPT];
        let mut gfull = vec![false; GPT];
        if let Some(v) = cfg.setgen {
            if t == 0 || rng.chance(1, 3) {
                // multiples of 4 around the wrap
                let delta = 4 * rng.range(0, 6) as u64;
                ops.push(Op::SetGen { v: v.wrapping_sub(delta) });
            }
        }
        let hold = if cfg.hold.is_empty() { 0 } else { cfg.hold[rng.range(0, cfg.hold.len())] };
        for k in 0..hold.min(GPT - 2) {
            ops.push(Op::Load { c: rng.range(0, cfg.containers), g: gbase + k });
            gfull[k] = true;
        }
        let n = rng.range(cfg.ops.0, cfg.ops.1 + 1);
        let total: u32 = cfg.w.iter().sum();
        for _ in 0..n {
            if cfg.second_type && rng.chance(1, 3) {
                // a write to the container of the other pointee type (fresh value: addresses freed
                // by either type are reused by both)
                ops.push(Op::New1 { h: 1 + t, val: next_val * 100 + 7 });
                next_val += 1;
                ops.push(Op::Store1 { c: 0, h: 1 + t });
                continue;
            }
            let mut r = rng.range(0, total as usize) as u32;
            let mut kind = 0;
            for (k, w) in cfg.w.iter().enumerate() {
                if r < *w {
                    kind = k;
                    break;
                }
                r -= w;
            }
            let c = rng.range(0, cfg.containers);
            let free_h = (0..HPT).find(|&i| !hfull[i]);
            let free_g = (hold.min(GPT - 2)..GPT).find(|&i| !gfull[i]);
            let some_g: Vec<usize> = (hold.min(GPT - 2)..GPT).filter(|&i| gfull[i]).collect();
            let some_h: Vec<usize> = (0..HPT).filter(|&i| hfull[i]).collect();
            let mut fresh = |ops: &mut Vec<Op>, hfull: &mut Vec<bool>, rng: &mut Rng| -> Option<usize> {
                // a value to write: a fresh allocation, an existing handle, or null
                if !some_h.is_empty() && rng.chance(1, 3) {
                    let i = some_h[rng.range(0, some_h.len())];
                    // store a *clone* and keep the handle: the same pointer can be stored again
                    // later (A-B-A), and stays alive meanwhile
                    if let (true, Some(j)) = (rng.chance(2, 3), (0..HPT).find(|&j| !hfull[j])) {
                        ops.push(Op::CloneH { h: hbase + i, h2: hbase + j });
                        hfull[j] = true;
                        return Some(j);
                    }
                    return Some(i);
                }
                let i = (0..HPT).find(|&i| !hfull[i])?;
                if cfg.with_null && rng.chance(1, 8) {
                    ops.push(Op::NullH { h: hbase + i });
                } else if cfg.panics && rng.chance(1, 4) {
                    ops.push(Op::NewP { h: hbase + i, val: next_val * 100 });
                    next_val += 1;
                } else {
                    ops.push(Op::New { h: hbase + i, val: next_val * 100 });
                    next_val += 1;
                }
                hfull[i] = true;
                Some(i)
            };
            match kind {
                0 => {
                    if let Some(i) = free_g {
                        ops.push(Op::Load { c, g: gbase + i });
                        gfull[i] = true;
                    } else if let Some(&i) = some_g.first() {
                        ops.push(Op::DropG { g: gbase + i });
                        gfull[i] = false;
                    }
                }
                1 => {
                    if let Some(i) = free_h {
                        ops.push(Op::LoadFull { c, h: hbase + i });
                        hfull[i] = true;
                    } else if let Some(&i) = some_h.first() {
                        ops.push(Op::DropH { h: hbase + i });
                        hfull[i] = false;
                    }
                }
                2 => {
                    if !some_g.is_empty() {
                        let i = some_g[rng.range(0, some_g.len())];
                        if rng.chance(1, 8) && nthreads > 1 {
                            // hand the guard to whoever drops the shared register: modelled as a
                            // drop on another thread through a shared register is not expressible
                            // with moves, so the *other* thread simply drops this thread's register
                            // later; here we leave it alone.
                            let _ = shared_g;
                        }
                        ops.push(Op::DropG { g: gbase + i });
                        gfull[i] = false;
                    }
                }
                3 => {
                    if let (false, Some(j)) = (some_g.is_empty(), free_h) {
                        let i = some_g[rng.range(0, some_g.len())];
                        ops.push(Op::GInto { g: gbase + i, h: hbase + j });
                        gfull[i] = false;
                        hfull[j] = true;
                    }
                }
                4 => {
                    if let Some(i) = fresh(&mut ops, &mut hfull, rng) {
                        ops.push(Op::Store { c, h: hbase + i });
                        hfull[i] = false;
                    }
                }
                5 => {
                    if let Some(i) = fresh(&mut ops, &mut hfull, rng) {
                        // the result lands in the same register (it is empty once the input moved)
                        ops.push(Op::Swap { c, h: hbase + i, out: hbase + i });
                    }
                }
                6 => {
                    if let Some(gi) = free_g {
                        // current: a held guard, a held handle, or null
                        let cur = if !some_g.is_empty() && rng.chance(2, 3) {
                            Cur::G(gbase + some_g[rng.range(0, some_g.len())])
                        } else if !some_h.is_empty() && rng.chance(2, 3) {
                            Cur::H(hbase + some_h[rng.range(0, some_h.len())])
                        } else {
                            Cur::Null
                        };
                        if let Some(i) = fresh(&mut ops, &mut hfull, rng) {
                            if cur != Cur::H(hbase + i) {
                                match cur {
                                    Cur::G(gc) if cfg.panics && rng.chance(1, 2) => {
                                        // the guard itself is passed (by value) and consumed
                                        ops.push(Op::CasV { c, cur: gc, new: hbase + i, g: gbase + gi });
                                        gfull[gc - gbase] = false;
                                    }
                                    _ => ops.push(Op::Cas { c, cur, new: hbase + i, g: gbase + gi }),
                                }
                                hfull[i] = false;
                                gfull[gi] = true;
                            }
                        }
                    }
                }
                7 => {
                    if cfg.panics && rng.chance(1, 2) {
                        ops.push(Op::RcuPanic { c, at: rng.range(1, 4) });
                    } else if let Some(i) = free_h {
                        ops.push(Op::Rcu { c, out: hbase + i });
                        hfull[i] = true;
                    }
                }
                _ => {
                    if !some_g.is_empty() {
                        let i = some_g[rng.range(0, some_g.len())];
                        ops.push(Op::GDeref { g: gbase + i });
                    }
                }
            }
        }
        // occasionally drop a guard of another thread (guard dropped on a foreign thread)
        if nthreads > 1 && rng.chance(1, 2) {
            // use guards created by another thread (possibly after that thread has exited):
            // look through them, promote them, drop them
            let other = (t + 1 + rng.range(0, nthreads - 1)) % nthreads;
            for _ in 0..rng.range(1, 4) {
                let g = other * GPT + rng.range(0, GPT);
                match rng.range(0, 4) {
                    0 => ops.push(Op::DropG { g }),
                    1 => {
                        if let Some(i) = (0..HPT).find(|&i| !hfull[i]) {
                            ops.push(Op::GInto { g, h: hbase + i });
                            hfull[i] = true;
                        }
                    }
                    _ => ops.push(Op::GDeref { g }),
                }
            }
        }
        if cfg.drop_containers && t == 0 && rng.chance(1, 2) {
            let c = rng.range(0, cfg.containers);
            if rng.chance(1, 2) {
                ops.push(Op::DropC { c });
            } else if let Some(i) = (0..HPT).find(|&i| !hfull[i]) {
                ops.push(Op::CInto { c, h: hbase + i });
            }
        }
        threads.push(ops);
    }
    Program { strategy: cfg.strategy, setup, threads }
}
