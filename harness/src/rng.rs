//! One deterministic PRNG (splitmix64) — every random choice of the harness derives from it.
#[derive(Clone)]
pub struct Rng(pub u64);
impl Rng {
    pub fn new(seed: u64) -> Self {
        Rng(seed.wrapping_mul(0x9E37_79B9_7F4A_7C15) ^ 0xD1B5_4A32_D192_ED03)
    }
    pub fn next(&mut self) -> u64 {
        self.0 = self.0.wrapping_add(0x9E37_79B9_7F4A_7C15);
        let mut z = self.0;
        z = (z ^ (z >> 30)).wrapping_mul(0xBF58_476D_1CE4_E5B9);
        z = (z ^ (z >> 27)).wrapping_mul(0x94D0_49BB_1331_11EB);
        z ^ (z >> 31)
    }
    /// uniform in [lo, hi)
    pub fn range(&mut self, lo: usize, hi: usize) -> usize {
        if hi <= lo {
            return lo;
        }
        lo + (self.next() % (hi - lo) as u64) as usize
    }
    pub fn chance(&mut self, num: u64, den: u64) -> bool {
        self.next() % den < num
    }
}
