//! Happens-before detector for the pointee's plain data (C07).
//!
//! The scheduler serialises the execution, so every atomic access reads the newest value: the
//! execution is a sequentially consistent one, which the C11 model allows, and its happens-before
//! relation is exactly: program order, thread start, the harness's own hand-overs (registers are
//! moved under a mutex) and *synchronises-with* edges — an acquire (or stronger) read of a message
//! written by a release (or stronger) store, or reached from one through read-modify-writes only
//! (release sequence). `SeqCst` adds no happens-before edge beyond acquire+release (the crate uses
//! no fences). Vector clocks compute that relation; the pointee's initialisation, every read
//! through a handle and the destructor are plain accesses that must be ordered by it. A reported
//! race is a data race of an execution the memory model allows: never a false alarm, and missing
//! races that need a stale read to show is accepted (the theorems in Props/C07 cover those).

use std::collections::HashMap;
use std::sync::atomic::Ordering;
use std::sync::Mutex;

use crate::sched;
use crate::varc::{violation, POOL};

type Clock = Vec<u64>;

fn join(a: &mut Clock, b: &Clock) {
    for (x, y) in a.iter_mut().zip(b.iter()) {
        if *y > *x {
            *x = *y;
        }
    }
}

#[derive(Default)]
pub struct Race {
    on: bool,
    n: usize,
    vc: Vec<Clock>,
    /// per atomic location: the view carried by its newest message
    msg: HashMap<usize, Clock>,
    /// per pool entry: the view carried by the newest message of its reference count
    cnt: Vec<Clock>,
    init: Vec<Option<(usize, u64)>>,
    reads: Vec<Vec<(usize, u64)>>,
    regs: HashMap<(u8, usize), Clock>,
    pub checked_reads: u64,
    pub checked_frees: u64,
    pub sync_edges: u64,
}

pub static RACE: Mutex<Option<Race>> = Mutex::new(None);

fn with<R: Default>(f: impl FnOnce(&mut Race, usize) -> R) -> R {
    let me = sched::me();
    let mut g = RACE.lock().unwrap_or_else(|e| e.into_inner());
    match g.as_mut() {
        Some(r) if r.on => {
            // worker id, or the controller (last component) during setup
            let t = me.unwrap_or(r.n - 1);
            f(r, t)
        }
        _ => R::default(),
    }
}

pub fn start(workers: usize) {
    let n = workers + 1;
    let mut r = Race { on: true, n, ..Default::default() };
    r.vc = (0..n).map(|t| { let mut c = vec![0; n]; c[t] = 1; c }).collect();
    r.cnt = vec![vec![0; n]; POOL];
    r.init = vec![None; POOL];
    r.reads = vec![vec![]; POOL];
    *RACE.lock().unwrap_or_else(|e| e.into_inner()) = Some(r);
}

/// the workers start: everything the controller did (the setup) happens-before them
pub fn spawn_all() {
    with(|r, _| {
        let c = r.vc[r.n - 1].clone();
        for t in 0..r.n - 1 {
            join(&mut r.vc[t], &c);
        }
    })
}

pub fn stop() -> (u64, u64, u64) {
    let mut g = RACE.lock().unwrap_or_else(|e| e.into_inner());
    match g.as_mut() {
        Some(r) => {
            r.on = false;
            (r.checked_reads, r.checked_frees, r.sync_edges)
        }
        None => (0, 0, 0),
    }
}

fn acq(o: Ordering) -> bool {
    matches!(o, Ordering::Acquire | Ordering::AcqRel | Ordering::SeqCst)
}
fn rel(o: Ordering) -> bool {
    matches!(o, Ordering::Release | Ordering::AcqRel | Ordering::SeqCst)
}

#[derive(Clone, Copy, PartialEq, Eq)]
pub enum Kind {
    Load,
    Store,
    Rmw,
    /// failed compare-exchange: a load with the failure ordering
    FailedCas,
}

/// one atomic access of the crate, after it was performed
pub fn atomic(addr: usize, kind: Kind, ord: Ordering, ord_fail: Option<Ordering>) {
    with(|r, t| {
        let zero = vec![0; r.n];
        match kind {
            Kind::Load | Kind::FailedCas => {
                let o = if kind == Kind::FailedCas { ord_fail.unwrap_or(Ordering::Relaxed) } else { ord };
                if acq(o) {
                    if let Some(m) = r.msg.get(&addr).cloned() {
                        if m.iter().zip(r.vc[t].iter()).any(|(a, b)| a > b) {
                            r.sync_edges += 1;
                        }
                        join(&mut r.vc[t], &m);
                    }
                }
            }
            Kind::Store => {
                // a plain store starts a new release sequence (or none)
                let v = if rel(ord) { r.vc[t].clone() } else { zero };
                r.msg.insert(addr, v);
            }
            Kind::Rmw => {
                if acq(ord) {
                    if let Some(m) = r.msg.get(&addr).cloned() {
                        if m.iter().zip(r.vc[t].iter()).any(|(a, b)| a > b) {
                            r.sync_edges += 1;
                        }
                        join(&mut r.vc[t], &m);
                    }
                }
                // continues the release sequence; adds its own view if it releases
                let mine = r.vc[t].clone();
                let m = r.msg.entry(addr).or_insert(zero);
                if rel(ord) {
                    join(m, &mine);
                }
            }
        }
        r.vc[t][t] += 1;
    })
}

/// the pointee at pool index `k` (0-based) was initialised by the calling thread
pub fn init(k: usize) {
    with(|r, t| {
        r.init[k] = Some((t, r.vc[t][t]));
        r.reads[k].clear();
        let n = r.n;
        r.cnt[k] = vec![0; n];
        r.vc[t][t] += 1;
    })
}

fn name(r: &Race, t: usize) -> String {
    if t == r.n - 1 { "the setup thread".into() } else { format!("t{}", t) }
}

/// a read of the pointee's data through a handle
pub fn read(k: usize, ident: &str) {
    with(|r, t| {
        r.checked_reads += 1;
        if let Some((w, e)) = r.init[k] {
            if w != t && r.vc[t][w] < e {
                violation(format!(
                    "race: {} reads the content of {} without its initialisation by {} happening-before (publication)",
                    name(r, t), ident, name(r, w)
                ));
            }
        }
        let e = r.vc[t][t];
        r.reads[k].push((t, e));
        r.vc[t][t] += 1;
    })
}

/// the reference count of `k` was decremented (Release); `last`: this was the last reference
/// (Acquire, then the destructor writes the pointee)
pub fn dec(k: usize, last: bool, ident: &str) {
    with(|r, t| {
        let mine = r.vc[t].clone();
        join(&mut r.cnt[k], &mine);
        r.vc[t][t] += 1;
        if last {
            let m = r.cnt[k].clone();
            join(&mut r.vc[t], &m);
            r.checked_frees += 1;
            let mut bad: Option<String> = None;
            if let Some((w, e)) = r.init[k] {
                if w != t && r.vc[t][w] < e {
                    bad = Some(format!("its initialisation by {}", name(r, w)));
                }
            }
            for (w, e) in r.reads[k].iter() {
                if *w != t && r.vc[t][*w] < *e {
                    bad = Some(format!("a read through a handle by {}", name(r, *w)));
                }
            }
            if let Some(b) = bad {
                violation(format!("race: {} destroys {} without {} happening-before (destruction)", name(r, t), ident, b));
            }
        }
    })
}

/// a value is put into / taken from a register of the harness (moved under the harness's mutex)
pub fn reg_put(kind: u8, i: usize) {
    with(|r, t| {
        let c = r.vc[t].clone();
        r.regs.insert((kind, i), c);
        r.vc[t][t] += 1;
    })
}
pub fn reg_take(kind: u8, i: usize) {
    with(|r, t| {
        if let Some(c) = r.regs.get(&(kind, i)).cloned() {
            join(&mut r.vc[t], &c);
        }
    })
}
/// a worker is done with a container register (drops its clone of the `Arc`)
pub fn reg_release(kind: u8, i: usize) {
    with(|r, t| {
        let mine = r.vc[t].clone();
        let n = r.n;
        let c = r.regs.entry((kind, i)).or_insert_with(|| vec![0; n]);
        join(c, &mine);
        r.vc[t][t] += 1;
    })
}
