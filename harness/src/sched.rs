//! Deterministic scheduler: real OS threads, exactly one of which runs at a time.
//!
//! A worker parks at every *scheduling point* (before every atomic operation of the crate — the
//! shim's before-hook —, before every reference-count operation of the pointee, at the start of
//! every API call and before thread exit) until the controller grants it one step. An execution is
//! therefore fully determined by the programs and the list of granted thread ids (plus, for
//! `compare_exchange_weak`, whether it is made to fail spuriously).

use std::collections::HashMap;
use std::sync::{Condvar, Mutex};
use std::time::Duration;

extern "C" {
    fn pthread_self() -> usize;
}

/// What a parked thread is about to do.
#[derive(Clone, Debug, Default)]
pub struct Pending {
    /// site label (`file:fn#k`), or `varc`, `begin`, `exit`
    pub site: String,
    /// `true` if this is a compare_exchange_weak (may be failed spuriously)
    pub weak_cas: bool,
    /// the API operation this thread is inside of (text), for window-aware scheduling
    pub api: String,
}

#[derive(Default)]
pub struct Ctl {
    /// pthread id → worker id
    pub ids: HashMap<usize, usize>,
    /// worker allowed to run right now
    pub turn: Option<usize>,
    /// spurious-failure flag for the granted step
    pub spurious: bool,
    /// parked workers and what they are about to do
    pub parked: HashMap<usize, Pending>,
    /// the trace so far
    pub trace: Vec<String>,
    /// schedule actually taken
    pub taken: Vec<(usize, bool)>,
    /// steps taken by each worker inside its current API call
    pub api_steps: HashMap<usize, usize>,
    pub active: bool,
    /// workers whose thread-local destructors have all run (nothing more will happen on them)
    pub done: Vec<usize>,
}

pub static CTL: Mutex<Option<Ctl>> = Mutex::new(None);
pub static CV: Condvar = Condvar::new();

pub fn me() -> Option<usize> {
    let p = unsafe { pthread_self() };
    let g = CTL.lock().unwrap_or_else(|e| e.into_inner());
    g.as_ref().and_then(|c| if c.active { c.ids.get(&p).copied() } else { None })
}

pub fn register(worker: usize) {
    let p = unsafe { pthread_self() };
    let mut g = CTL.lock().unwrap_or_else(|e| e.into_inner());
    g.as_mut().unwrap().ids.insert(p, worker);
}

/// Park until granted. Returns the spurious-failure flag. No-op on non-worker threads.
pub fn point(pending: Pending) -> bool {
    let p = unsafe { pthread_self() };
    let mut g = CTL.lock().unwrap_or_else(|e| e.into_inner());
    let w = match g.as_ref().and_then(|c| if c.active { c.ids.get(&p).copied() } else { None }) {
        Some(w) => w,
        None => return false,
    };
    {
        let c = g.as_mut().unwrap();
        c.parked.insert(w, pending);
        if c.turn == Some(w) {
            c.turn = None;
        }
    }
    CV.notify_all();
    loop {
        let c = g.as_mut().unwrap();
        if !c.active {
            return false; // execution aborted: run free
        }
        if c.turn == Some(w) && !c.parked.contains_key(&w) {
            *c.api_steps.entry(w).or_insert(0) += 1;
            return c.spurious;
        }
        g = CV.wait_timeout(g, Duration::from_millis(50)).unwrap_or_else(|e| e.into_inner()).0;
    }
}

/// Append a trace line on behalf of the running worker.
pub fn emit(line: String) {
    let p = unsafe { pthread_self() };
    let mut g = CTL.lock().unwrap_or_else(|e| e.into_inner());
    if let Some(c) = g.as_mut() {
        if let Some(w) = c.ids.get(&p).copied() {
            c.trace.push(format!("{} {}", w, line));
        }
    }
}

pub fn reset_api_steps() -> usize {
    let p = unsafe { pthread_self() };
    let mut g = CTL.lock().unwrap_or_else(|e| e.into_inner());
    if let Some(c) = g.as_mut() {
        if let Some(w) = c.ids.get(&p).copied() {
            return c.api_steps.insert(w, 0).unwrap_or(0);
        }
    }
    0
}

pub fn api_steps() -> usize {
    let p = unsafe { pthread_self() };
    let g = CTL.lock().unwrap_or_else(|e| e.into_inner());
    if let Some(c) = g.as_ref() {
        if let Some(w) = c.ids.get(&p).copied() {
            return c.api_steps.get(&w).copied().unwrap_or(0);
        }
    }
    0
}

/// Registered (first use) before the crate's own thread-local, hence destroyed after it: its drop
/// is the last thing a worker does, after the node went to cooldown.
pub struct Sentinel(pub std::cell::Cell<Option<usize>>);

impl Drop for Sentinel {
    fn drop(&mut self) {
        if let Some(w) = self.0.get() {
            let mut g = CTL.lock().unwrap_or_else(|e| e.into_inner());
            if let Some(c) = g.as_mut() {
                c.done.push(w);
                if c.turn == Some(w) {
                    c.turn = None;
                }
            }
            drop(g);
            CV.notify_all();
        }
    }
}

thread_local! {
    pub static SENTINEL: Sentinel = Sentinel(std::cell::Cell::new(None));
}
