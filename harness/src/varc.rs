//! `VArc<K>`: the harness's own reference-counted pointer (implements `arc_swap::RefCnt`).
//!
//! Objects live in a static pool; a freed entry is poisoned and *reused by the next allocation*
//! (lowest free index first), so addresses repeat deterministically (ABA). Every count operation
//! is a scheduling point and is logged; touching a dead entry, or releasing the last reference
//! through a handle of another type tag `K`, is recorded as a violation instead of corrupting
//! memory.

use std::sync::atomic::{AtomicBool, AtomicU64, AtomicUsize, Ordering::SeqCst};
use std::sync::Mutex;

use arc_swap::RefCnt;

use crate::sched::{emit, point, Pending};

pub const POOL: usize = 48;

#[repr(align(16))]
pub struct Entry {
    pub cnt: AtomicUsize,
    pub live: AtomicBool,
    pub id: AtomicUsize,
    pub val: AtomicU64,
    pub ty: AtomicUsize,
    pub drop_panics: AtomicBool,
}

#[allow(clippy::declare_interior_mutable_const)]
const E: Entry = Entry {
    cnt: AtomicUsize::new(0),
    live: AtomicBool::new(false),
    id: AtomicUsize::new(0),
    val: AtomicU64::new(0),
    ty: AtomicUsize::new(0),
    drop_panics: AtomicBool::new(false),
};
pub static ENTRIES: [Entry; POOL] = [E; POOL];
pub static NEXT_ID: AtomicUsize = AtomicUsize::new(0);
pub static VIOLATIONS: Mutex<Vec<String>> = Mutex::new(Vec::new());
/// count operations are scheduling points only while this is set
pub static SCHED_POINTS: AtomicBool = AtomicBool::new(true);

pub fn violation(s: String) {
    VIOLATIONS.lock().unwrap_or_else(|e| e.into_inner()).push(s);
}

pub fn reset_pool() {
    for e in ENTRIES.iter() {
        e.cnt.store(0, SeqCst);
        e.live.store(false, SeqCst);
        e.id.store(0, SeqCst);
        e.val.store(0, SeqCst);
        e.drop_panics.store(false, SeqCst);
    }
    NEXT_ID.store(0, SeqCst);
    VIOLATIONS.lock().unwrap_or_else(|e| e.into_inner()).clear();
}

/// Pool index (1-based) of an address, if it is a pool entry.
pub fn index_of(addr: usize) -> Option<usize> {
    let base = ENTRIES.as_ptr() as usize;
    let sz = std::mem::size_of::<Entry>();
    if addr >= base && addr < base + POOL * sz && (addr - base) % sz == 0 {
        Some((addr - base) / sz + 1)
    } else {
        None
    }
}

pub fn name_of(addr: usize) -> String {
    match index_of(addr) {
        Some(k) => format!("p{}", k),
        None if addr == 0 => "null".into(),
        None if addr == 3 => "NONE".into(),
        None => format!("?{:x}", addr),
    }
}

/// `p<k>#<id>` of a live entry.
pub fn ident(e: &Entry) -> String {
    format!("p{}#{}", index_of(e as *const _ as usize).unwrap(), e.id.load(SeqCst))
}

pub struct VArc<const K: usize> {
    e: &'static Entry,
}

unsafe impl<const K: usize> Send for VArc<K> {}
unsafe impl<const K: usize> Sync for VArc<K> {}

impl<const K: usize> VArc<K> {
    /// Allocate: lowest free pool index.
    pub fn new(val: u64) -> Self {
        static ALLOC: Mutex<()> = Mutex::new(());
        let _g = ALLOC.lock().unwrap_or_else(|e| e.into_inner());
        for e in ENTRIES.iter() {
            if !e.live.load(SeqCst) {
                e.live.store(true, SeqCst);
                e.cnt.store(1, SeqCst);
                e.val.store(val, SeqCst);
                e.ty.store(K, SeqCst);
                e.drop_panics.store(false, SeqCst);
                e.id.store(NEXT_ID.fetch_add(1, SeqCst), SeqCst);
                emit(format!("varc alloc {} val={}", ident(e), val));
                crate::race::init(index_of(e as *const _ as usize).unwrap() - 1);
                return VArc { e };
            }
        }
        panic!("VArc pool exhausted");
    }
    pub fn entry(&self) -> &'static Entry {
        self.e
    }
    pub fn ident(&self) -> String {
        ident(self.e)
    }
    /// Dereference: read the content (checks liveness and type).
    pub fn get(&self) -> u64 {
        if !self.e.live.load(SeqCst) {
            violation(format!("uaf: deref of dead {}", name_of(self.e as *const _ as usize)));
        } else if self.e.ty.load(SeqCst) != K {
            violation(format!("type-confusion: deref of {} through handle of type {}", ident(self.e), K));
        } else {
            crate::race::read(index_of(self.e as *const _ as usize).unwrap() - 1, &ident(self.e));
        }
        self.e.val.load(SeqCst)
    }
    pub fn strong_count(&self) -> usize {
        self.e.cnt.load(SeqCst)
    }
}

impl<const K: usize> Clone for VArc<K> {
    fn clone(&self) -> Self {
        let addr = self.e as *const _ as usize;
        if SCHED_POINTS.load(SeqCst) {
            point(Pending { site: "varc".into(), weak_cas: false, api: String::new() });
        }
        if !self.e.live.load(SeqCst) {
            violation(format!("uaf: inc of dead {}", name_of(addr)));
        }
        let old = self.e.cnt.fetch_add(1, SeqCst);
        emit(format!("varc inc {} -> {}", name_of(addr), old));
        VArc { e: self.e }
    }
}

impl<const K: usize> Drop for VArc<K> {
    fn drop(&mut self) {
        let addr = self.e as *const _ as usize;
        if SCHED_POINTS.load(SeqCst) {
            point(Pending { site: "varc".into(), weak_cas: false, api: String::new() });
        }
        if !self.e.live.load(SeqCst) {
            violation(format!("uaf: dec of dead {}", name_of(addr)));
            emit(format!("varc dec {} -> dead", name_of(addr)));
            return;
        }
        let old = self.e.cnt.fetch_sub(1, SeqCst);
        crate::race::dec(index_of(addr).unwrap() - 1, old == 1, &ident(self.e));
        if old == 0 {
            violation(format!("double-free: count underflow on {}", name_of(addr)));
        }
        if old == 1 {
            if self.e.ty.load(SeqCst) != K {
                violation(format!(
                    "type-confusion: last reference of {} (type {}) released through handle of type {}{}",
                    ident(self.e),
                    self.e.ty.load(SeqCst),
                    K,
                    crate::conc::context()
                ));
            }
            let p = self.e.drop_panics.load(SeqCst);
            self.e.val.store(0xdead_dead, SeqCst);
            self.e.live.store(false, SeqCst);
            emit(format!("varc dec {} -> {} free", name_of(addr), old));
            if p && !std::thread::panicking() {
                self.e.drop_panics.store(false, SeqCst);
                panic!("injected: pointee destructor panics (requested by the program)");
            }
        } else {
            emit(format!("varc dec {} -> {}", name_of(addr), old));
        }
    }
}

unsafe impl<const K: usize> RefCnt for VArc<K> {
    type Base = Entry;
    fn into_ptr(me: Self) -> *mut Entry {
        let p = me.e as *const Entry as *mut Entry;
        std::mem::forget(me);
        p
    }
    fn as_ptr(me: &Self) -> *mut Entry {
        me.e as *const Entry as *mut Entry
    }
    unsafe fn from_ptr(ptr: *const Entry) -> Self {
        VArc { e: &*ptr }
    }
}
