//! Container-level laws for every pointer kind (C02 / C15 / C12): the same short program over an
//! `ArcSwapAny<K>` for each kind and count state, checked against what the counts must be, plus a
//! black-box probe of the borrow slots (a thread whose fast slots are all free can hold eight
//! guards of an unrelated `ArcSwap<Arc<_>>` without any of them taking a reference).
//!
//! One line per violation; no model involved (the oracle is the statement itself).
use crate::kinds::{Align64, Witness, Zst};
use arc_swap::strategy::{CaS, DefaultStrategy, Strategy};
use arc_swap::{ArcSwap, ArcSwapAny, RefCnt};
use std::rc::{Rc, Weak as RcWeak};
use std::sync::{Arc, Weak};

/// Are all eight fast slots of this thread's node free?  Eight simultaneous guards of a probe
/// container must all be borrowed (the strong count of the probe value stays put).
fn slots_free() -> Result<(), String> {
    let v = Arc::new(0u32);
    let probe = ArcSwap::new(Arc::clone(&v));
    let before = Arc::strong_count(&v);
    let gs: Vec<_> = (0..8).map(|_| probe.load()).collect();
    let during = Arc::strong_count(&v);
    drop(gs);
    let after = Arc::strong_count(&v);
    if during != before {
        return Err(format!("{} of 8 probe guards had to take a full reference", during - before));
    }
    if after != before {
        return Err(format!("probe value count {} -> {} after its guards were dropped", before, after));
    }
    Ok(())
}

fn counts(w: Option<&dyn Witness>) -> (usize, Option<usize>) {
    w.map(|w| w.counts()).unwrap_or((0, Some(0)))
}

/// The program, for one kind and state.  `make` produces handles denoting the same object (or the
/// same empty value) every time.
fn program<T: RefCnt, S: Strategy<T> + CaS<T> + Default>(out: &mut Vec<String>, head: &str, w: Option<&dyn Witness>, make: &dyn Fn() -> T, same: &dyn Fn(&T, &T) -> bool) {
    if let Err(e) = slots_free() {
        out.push(format!("slots: {}: before the program: {}", head, e));
        return;
    }
    let c0 = counts(w);
    let chk = |out: &mut Vec<String>, what: &str, expect: (usize, Option<usize>)| {
        let now = counts(w);
        if now != expect {
            out.push(format!("count: {}: {}: counts {:?}, expected {:?}", head, what, now, expect));
        }
    };
    {
        let c = ArcSwapAny::<T, S>::with_strategy(make(), S::default());
        let c1 = counts(w);
        // guards come and go: nothing changes, nothing stays behind
        for k in [1usize, 3, 8] {
            let gs: Vec<_> = (0..k).map(|_| c.load()).collect();
            for g in &gs {
                if !same(&*g, &make()) {
                    out.push(format!("identity: {}: load returned another value", head));
                }
            }
            drop(gs);
            chk(out, &format!("after {} guards were dropped", k), c1);
            if let Err(e) = slots_free() {
                out.push(format!("slots: {}: after {} guards were dropped: {}", head, k, e));
            }
        }
        // full load and promotion own a reference each; giving them back restores the count
        {
            let f = c.load_full();
            let p = arc_swap::Guard::into_inner(c.load());
            if !same(&f, &make()) || !same(&p, &make()) {
                out.push(format!("identity: {}: load_full / into_inner returned another value", head));
            }
            drop(f);
            drop(p);
            chk(out, "after load_full and Guard::into_inner results were dropped", c1);
        }
        // a guard held across a store of the same value, then of the value again
        {
            let g = c.load();
            c.store(make());
            let g2 = c.load();
            let prev = c.swap(make());
            drop(prev);
            drop(g);
            drop(g2);
            chk(out, "after store+swap with guards held", c1);
            if let Err(e) = slots_free() {
                out.push(format!("slots: {}: after store+swap with guards held: {}", head, e));
            }
        }
        // compare_and_swap: success (current = what is inside), then failure is impossible to set
        // up for the empty kinds (everything empty is equal), so only success is exercised
        {
            let cur = c.load();
            let prev = c.compare_and_swap(&*cur, make());
            if !same(&*prev, &make()) {
                out.push(format!("identity: {}: compare_and_swap returned another value", head));
            }
            drop(prev);
            drop(cur);
            chk(out, "after compare_and_swap", c1);
        }
        // rcu with the identity-preserving closure
        {
            let prev = c.rcu(|_| make());
            drop(prev);
            chk(out, "after rcu", c1);
        }
        let inner = c.into_inner();
        if !same(&inner, &make()) {
            out.push(format!("identity: {}: into_inner returned another value", head));
        }
        drop(inner);
    }
    chk(out, "after the container is gone", c0);
    if let Err(e) = slots_free() {
        out.push(format!("slots: {}: after the container is gone: {}", head, e));
    }
}

fn weak_same<P>(a: &Weak<P>, b: &Weak<P>) -> bool { Weak::ptr_eq(a, b) }
fn rcweak_same<P>(a: &RcWeak<P>, b: &RcWeak<P>) -> bool { RcWeak::ptr_eq(a, b) }

macro_rules! strong {
    ($out:ident, $S:ty, $sname:expr, $strong:ident, $weak:ident, $kname:expr, $pname:expr, $val:expr) => {{
        // unique / shared / with outstanding weak references
        for (state, extra_strong, extra_weak) in [("unique", 0usize, 0usize), ("shared", 2, 0), ("weaks", 0, 2)] {
            let v = $strong::new($val);
            let _s: Vec<_> = (0..extra_strong).map(|_| $strong::clone(&v)).collect();
            let _w: Vec<_> = (0..extra_weak).map(|_| $strong::downgrade(&v)).collect();
            let wit = $strong::downgrade(&v);
            program::<$strong<_>, $S>(&mut $out, &format!("strategy={} kind={} pointee={} state={}", $sname, $kname, $pname, state), Some(&wit), &|| $strong::clone(&v), &|a, b| $strong::ptr_eq(a, b));
            program::<Option<$strong<_>>, $S>(&mut $out, &format!("strategy={} kind=opt-{} pointee={} state={}", $sname, $kname, $pname, state), Some(&wit), &|| Some($strong::clone(&v)),
                &|a, b| match (a, b) { (Some(a), Some(b)) => $strong::ptr_eq(a, b), (None, None) => true, _ => false });
        }
        program::<Option<$strong<u8>>, $S>(&mut $out, &format!("strategy={} kind=opt-{} pointee={} state=none", $sname, $kname, $pname), None, &|| None, &|a, b| a.is_none() && b.is_none());
    }};
}

macro_rules! weak {
    ($out:ident, $S:ty, $sname:expr, $strong:ident, $weak:ident, $same:ident, $kname:expr, $pname:expr, $val:expr) => {{
        {
            let v = $strong::new($val);
            let wk = $strong::downgrade(&v);
            let wit = $strong::downgrade(&v);
            program::<$weak<_>, $S>(&mut $out, &format!("strategy={} kind={} pointee={} state=live", $sname, $kname, $pname), Some(&wit), &|| wk.clone(), &|a, b| $same(a, b));
        }
        {
            let v = $strong::new($val);
            let wk = $strong::downgrade(&v);
            drop(v);
            program::<$weak<_>, $S>(&mut $out, &format!("strategy={} kind={} pointee={} state=target-dropped", $sname, $kname, $pname), None, &|| wk.clone(), &|a, b| $same(a, b));
        }
        program::<$weak<u8>, $S>(&mut $out, &format!("strategy={} kind={} pointee={} state=dangling", $sname, $kname, $pname), None, &|| $weak::new(), &|a, b| $same(a, b));
    }};
}

/// D11: a strong and a weak container of one allocation.  The two kinds give the same raw address
/// (the address of the pointee), and debts are matched by address alone.
fn strong_and_weak_of_one_allocation(out: &mut Vec<String>) {
    let x = Arc::new(42usize);
    let _more: Vec<_> = (0..4).map(|_| Arc::clone(&x)).collect();
    let strong = ArcSwap::new(Arc::clone(&x));
    let weak = arc_swap::ArcSwapWeak::new(Arc::downgrade(&x));
    let (s0, w0) = (Arc::strong_count(&x), Arc::weak_count(&x));
    let g = strong.load();
    weak.store(Weak::new());
    drop(g);
    let (s1, w1) = (Arc::strong_count(&x), Arc::weak_count(&x));
    if (s1, w1) != (s0, w0 - 1) {
        out.push(format!(
            "cross-kind: a guard of ArcSwap<Arc<T>> dropped after a store into an ArcSwapWeak<T> of the same allocation: strong {} -> {} (expected {}), weak {} -> {} (expected {})",
            s0, s1, s0, w0, w1, w0 - 1
        ));
        // put the counts right again so that nothing is freed early in this process
        std::mem::forget(Arc::clone(&x));
    }
    if let Err(e) = slots_free() {
        out.push(format!("slots: cross-kind scenario: {}", e));
    }
}

macro_rules! all_kinds {
    ($out:ident, $S:ty, $sname:expr) => {{
        strong!($out, $S, $sname, Arc, Weak, "arc", "zst", Zst);
        strong!($out, $S, $sname, Arc, Weak, "arc", "u8", 7u8);
        strong!($out, $S, $sname, Arc, Weak, "arc", "align64", Align64::default());
        strong!($out, $S, $sname, Arc, Weak, "arc", "string", String::from("hello"));
        strong!($out, $S, $sname, Rc, RcWeak, "rc", "zst", Zst);
        strong!($out, $S, $sname, Rc, RcWeak, "rc", "u8", 7u8);
        strong!($out, $S, $sname, Rc, RcWeak, "rc", "string", String::from("hello"));
        weak!($out, $S, $sname, Arc, Weak, weak_same, "weakarc", "zst", Zst);
        weak!($out, $S, $sname, Arc, Weak, weak_same, "weakarc", "u8", 7u8);
        weak!($out, $S, $sname, Arc, Weak, weak_same, "weakarc", "string", String::from("hello"));
        weak!($out, $S, $sname, Rc, RcWeak, rcweak_same, "weakrc", "zst", Zst);
        weak!($out, $S, $sname, Rc, RcWeak, rcweak_same, "weakrc", "u8", 7u8);
        weak!($out, $S, $sname, Rc, RcWeak, rcweak_same, "weakrc", "string", String::from("hello"));
    }};
}

#[allow(deprecated)]
pub fn run() -> Vec<String> {
    let mut out = vec![];
    // every pointer kind under every strategy (C14: the three strategies agree with a plain variable)
    all_kinds!(out, DefaultStrategy, "default");
    all_kinds!(out, arc_swap::strategy::test_strategies::FillFastSlots, "fallback-only");
    all_kinds!(out, std::sync::RwLock<()>, "lock");
    strong_and_weak_of_one_allocation(&mut out);
    out
}
