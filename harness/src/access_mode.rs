//! C17 correspondence: guards obtained through the Access machinery (container, Map of depth 1–3,
//! through &, Arc, Box<dyn DynAccess>, AccessConvert, Constant) over a nested configuration struct;
//! stores between creation and every later deref of a guard; guards moved to another thread.
use std::sync::Arc;

use arc_swap::access::{Access, AccessConvert, Constant, DynAccess, Map};
use arc_swap::ArcSwap;

use crate::rng::Rng;

#[derive(Debug, Clone, PartialEq)]
pub struct Inner {
    x: u64,
    y: u64,
}
#[derive(Debug, Clone, PartialEq)]
pub struct Cfg {
    a: Inner,
    b: u64,
}
fn cfg(k: u64) -> Cfg {
    Cfg { a: Inner { x: 10 * k + 1, y: 10 * k + 2 }, b: 10 * k + 3 }
}
fn pa(c: &Cfg) -> &Inner {
    &c.a
}
fn pb(c: &Cfg) -> &u64 {
    &c.b
}
fn px(i: &Inner) -> &u64 {
    &i.x
}
fn py(i: &Inner) -> &u64 {
    &i.y
}
fn pid(x: &u64) -> &u64 {
    x
}
fn parc(a: &Arc<Cfg>) -> &Arc<Cfg> {
    a
}

/// one observation: the value seen through a guard at creation, after each of `n` later stores,
/// on another thread, and the value a fresh load sees afterwards
/// overwrite the stack below the caller (a guard must not depend on dead frames)
#[inline(never)]
fn clobber(seed: u64) -> u64 {
    let mut a = [0u64; 768];
    for (i, x) in a.iter_mut().enumerate() {
        *x = seed.wrapping_mul(0x9e37_79b9_7f4a_7c15).wrapping_add(i as u64) | 1;
    }
    std::hint::black_box(&mut a);
    a.iter().fold(0u64, |s, x| s.wrapping_add(*x))
}

fn observe<A, F>(out: &mut Vec<String>, shape: &str, chain: &str, shared: &Arc<ArcSwap<Cfg>>, acc: A, show: F, k0: u64, stores: u64)
where
    A: Access<F::In>,
    A::Guard: 'static,
    F: Show,
{
    let g = acc.load();
    std::hint::black_box(clobber(k0));
    // the guard is moved (boxed), as a caller may do
    let g = Box::new(g);
    std::hint::black_box(clobber(k0 + 1));
    let mut seen = vec![show.show(&*g)];
    for s in 1..=stores {
        shared.store(Arc::new(cfg(k0 + s)));
        std::hint::black_box(clobber(k0 + s));
        seen.push(show.show(&*g));
    }
    let fresh = {
        let g2 = acc.load();
        show.show(&g2)
    };
    drop(g);
    out.push(format!("shape={} chain={} k0={} stores={} seen={} fresh={}", shape, chain, k0, stores, seen.join(","), fresh));
}

pub trait Show {
    type In;
    fn show<G: std::ops::Deref<Target = Self::In>>(&self, g: &G) -> String;
}
struct ShowNum;
impl Show for ShowNum {
    type In = u64;
    fn show<G: std::ops::Deref<Target = u64>>(&self, g: &G) -> String {
        format!("{}", **g)
    }
}
struct ShowInner;
impl Show for ShowInner {
    type In = Inner;
    fn show<G: std::ops::Deref<Target = Inner>>(&self, g: &G) -> String {
        format!("({} {})", g.x, g.y)
    }
}
struct ShowCfg;
impl Show for ShowCfg {
    type In = Cfg;
    fn show<G: std::ops::Deref<Target = Cfg>>(&self, g: &G) -> String {
        format!("(({} {}) {})", g.a.x, g.a.y, g.b)
    }
}

struct ShowArcCfg;
impl Show for ShowArcCfg {
    type In = Arc<Cfg>;
    fn show<G: std::ops::Deref<Target = Arc<Cfg>>>(&self, g: &G) -> String {
        format!("(({} {}) {})", g.a.x, g.a.y, g.b)
    }
}

pub fn run(seed: u64, count: usize) -> Vec<String> {
    let mut rng = Rng::new(seed ^ 0xacce55);
    let mut out = vec![];
    for _ in 0..count {
        let k0 = rng.range(1, 1000) as u64;
        let stores = rng.range(0, 4) as u64;
        let shared = Arc::new(ArcSwap::from_pointee(cfg(k0)));
        let sh = &shared;
        let pick = rng.range(0, 21);
        // lines are printed as they are produced, and the attempt is announced first: a guard
        // that reads through a dangling pointer may take the process down
        for l in out.drain(..) {
            println!("{}", l);
        }
        eprintln!("try pick={} k0={} stores={}", pick, k0, stores);
        match pick {
            0 => observe(&mut out, "direct", "", sh, &**sh, ShowCfg, k0, stores),
            1 => observe(&mut out, "arc", "", sh, Arc::clone(sh), ShowCfg, k0, stores),
            2 => observe(&mut out, "map1", "fst", sh, Map::new(&**sh, pa as fn(&Cfg) -> &Inner), ShowInner, k0, stores),
            3 => observe(&mut out, "map1", "snd", sh, sh.map(pb as fn(&Cfg) -> &u64), ShowNum, k0, stores),
            4 => observe(&mut out, "map2", "fst.fst", sh, Map::new(Map::new(Arc::clone(sh), pa as fn(&Cfg) -> &Inner), px as fn(&Inner) -> &u64), ShowNum, k0, stores),
            5 => observe(&mut out, "map2", "fst.snd", sh, Map::new(Map::new(&**sh, pa as fn(&Cfg) -> &Inner), py as fn(&Inner) -> &u64), ShowNum, k0, stores),
            6 => {
                let d: Box<dyn DynAccess<Cfg>> = Box::new(Arc::clone(sh));
                observe(&mut out, "dyn", "", sh, d, ShowCfg, k0, stores)
            }
            7 => {
                let d: Box<dyn DynAccess<Inner>> = Box::new(Map::new(Arc::clone(sh), pa as fn(&Cfg) -> &Inner));
                observe(&mut out, "dyn-map1", "fst", sh, d, ShowInner, k0, stores)
            }
            8 => {
                let mid: Arc<dyn DynAccess<Inner>> = Arc::new(Map::new(Arc::clone(sh), pa as fn(&Cfg) -> &Inner));
                let inner: Arc<dyn DynAccess<u64>> = Arc::new(Map::new(mid, py as fn(&Inner) -> &u64));
                observe(&mut out, "dyn-map-dyn-map", "fst.snd", sh, inner, ShowNum, k0, stores)
            }
            9 => {
                let d: Arc<dyn DynAccess<u64>> = Arc::new(Map::new(Arc::clone(sh), pb as fn(&Cfg) -> &u64));
                observe(&mut out, "convert", "snd", sh, AccessConvert(d), ShowNum, k0, stores)
            }
            10 => observe(&mut out, "constant", "const", sh, Constant(k0), ShowNum, k0, stores),
            // projections into what the inner guard holds inline (a Constant's own copy, the Arc itself)
            14 => observe(&mut out, "map-const", "fst", sh, Map::new(Constant(cfg(k0)), pa as fn(&Cfg) -> &Inner), ShowInner, k0, stores),
            15 => observe(&mut out, "map-const", "snd", sh, Map::new(Constant(cfg(k0)), pb as fn(&Cfg) -> &u64), ShowNum, k0, stores),
            16 => observe(&mut out, "map-const", "id", sh, Map::new(Constant(k0), pid as fn(&u64) -> &u64), ShowNum, k0, stores),
            17 => observe(&mut out, "map2-const", "fst.snd", sh, Map::new(Map::new(Constant(cfg(k0)), pa as fn(&Cfg) -> &Inner), py as fn(&Inner) -> &u64), ShowNum, k0, stores),
            18 => {
                let d: Box<dyn DynAccess<Inner>> = Box::new(Map::new(Constant(cfg(k0)), pa as fn(&Cfg) -> &Inner));
                observe(&mut out, "dyn-map-const", "fst", sh, d, ShowInner, k0, stores)
            }
            19 => observe(&mut out, "map-arcself", "id", sh, Map::new(&**sh, parc as fn(&Arc<Cfg>) -> &Arc<Cfg>), ShowArcCfg, k0, stores),
            11 => {
                // a guard moved to and dereferenced on another thread, while stores go on here
                let m = Map::new(Arc::clone(sh), pa as fn(&Cfg) -> &Inner);
                let g = Access::load(&m);
                let first = format!("({} {})", g.x, g.y);
                for s in 1..=stores {
                    sh.store(Arc::new(cfg(k0 + s)));
                }
                let later = std::thread::spawn(move || format!("({} {})", g.x, g.y)).join().unwrap();
                let fresh = {
                    let g2 = Access::load(&m);
                    format!("({} {})", g2.x, g2.y)
                };
                let mut seen = vec![first];
                for _ in 0..stores {
                    seen.push(later.clone());
                }
                out.push(format!("shape=map1-other-thread chain=fst k0={} stores={} seen={} fresh={}", k0, stores, seen.join(","), fresh));
            }
            12 => {
                // the snapshot is kept alive by the guard and released with it
                let m = Map::new(Arc::clone(sh), pb as fn(&Cfg) -> &u64);
                let old = sh.load_full();
                let g = Access::load(&m);
                sh.store(Arc::new(cfg(k0 + 1)));
                let held = Arc::strong_count(&old); // us + the guard's snapshot
                let v = *g;
                drop(g);
                let after = Arc::strong_count(&old);
                out.push(format!("shape=keepalive chain=snd k0={} stores=1 seen={},{} fresh={} alive_while_guarded={} released_after={}", k0, v, v, *Access::load(&m), (held >= 2) as u8, (after == 1) as u8));
            }
            20 => {
                // a projection guard outlives the thread that loaded it, a newcomer takes over that
                // thread's bookkeeping and uses it, then the value is replaced: the guard still
                // keeps its snapshot alive, and releases it when dropped
                let old = sh.load_full();
                drop(ArcSwap::load(&**sh)); // this thread owns a node of its own before the others come and go
                let g = {
                    let m = Map::new(Arc::clone(sh), pb as fn(&Cfg) -> &u64);
                    std::thread::spawn(move || Access::load(&m)).join().unwrap()
                };
                {
                    let sh2 = Arc::clone(sh);
                    std::thread::spawn(move || {
                        let a = ArcSwap::load(&*sh2);
                        let b = ArcSwap::load_full(&*sh2);
                        drop(a);
                        drop(b);
                    })
                    .join()
                    .unwrap();
                }
                sh.store(Arc::new(cfg(k0 + 1)));
                let held = Arc::strong_count(&old); // us + the guard's snapshot
                // do not look through a guard whose snapshot is gone
                let v = if held >= 2 { *g } else { u64::MAX };
                if held >= 2 {
                    drop(g);
                } else {
                    std::mem::forget(g);
                }
                let after = Arc::strong_count(&old);
                let m = Map::new(Arc::clone(sh), pb as fn(&Cfg) -> &u64);
                out.push(format!("shape=keepalive-outlived chain=snd k0={} stores=1 seen={},{} fresh={} alive_while_guarded={} released_after={}", k0, v, v, *Access::load(&m), (held >= 2) as u8, (after == 1) as u8));
            }
            _ => observe(&mut out, "ref-arc", "", sh, &Arc::clone(sh), ShowCfg, k0, stores),
        }
    }
    out
}
