use arc_swap::verif::{set_hooks, Event};
use arc_swap::ArcSwap;
use std::sync::Arc;
fn b(e: &Event) -> bool { println!("{}:{}:{} {:?} {:?}", e.file, e.line, e.col, e.op, e.ord); false }
fn main() {
    set_hooks(Some(b), None);
    let a = ArcSwap::from_pointee(1);
    let g = a.load();
    a.store(Arc::new(2));
    drop(g);
}
