//! Correspondence / oracle harness for arc-swap (real crate, `--cfg arc_swap_verif`).
mod conc;
mod access_mode;
mod cache_mode;
mod kinds;
mod kinds_cont;
mod serde_mode;
mod seq_mode;
mod prog;
mod race;
mod rng;
mod sched;
mod varc;

use std::collections::HashMap;
use std::io::Write;

use arc_swap::strategy::DefaultStrategy;
#[allow(deprecated)]
use arc_swap::strategy::test_strategies::FillFastSlots;

use conc::{Outcome, Policy, RunCfg};
use prog::{GenCfg, Program};
use rng::Rng;

fn family(name: &str) -> GenCfg {
    // weights: load, loadfull, dropg, ginto, store, swap, cas, rcu, gderef
    let base = GenCfg {
        threads: (2, 3),
        containers: 1,
        ops: (3, 7),
        w: [6, 3, 4, 2, 5, 3, 2, 1, 2],
        hold: vec![0],
        strategy: 0,
        with_null: true,
        drop_containers: false,
        setgen: None,
        panics: false,
        second_type: false,
        aba: false,
        alternate: false,
        late: false,
        reuse: false,
        inherit: false,
        casv: false,
    };
    match name {
        "mixed" => base,
        "uaf" => GenCfg { threads: (2, 4), containers: 2, hold: vec![0, 0, 7, 8, 9], ..base },
        "count" => GenCfg { threads: (2, 3), containers: 2, w: [5, 3, 5, 4, 4, 3, 3, 2, 1], drop_containers: true, ..base },
        "lin" => GenCfg { threads: (3, 4), w: [8, 4, 4, 1, 5, 3, 1, 1, 1], hold: vec![0, 0, 8], with_null: false, ..base },
        "writes" => GenCfg { threads: (3, 4), w: [2, 1, 2, 0, 5, 6, 3, 3, 0], with_null: false, ..base },
        "cas" => GenCfg { threads: (2, 3), w: [3, 1, 2, 1, 2, 2, 10, 1, 1], ops: (3, 6), ..base },
        "rcu" => GenCfg { threads: (2, 4), w: [2, 1, 2, 0, 2, 2, 2, 8, 0], ops: (2, 4), with_null: false, ..base },
        "guards" => GenCfg { threads: (2, 3), w: [8, 1, 5, 3, 4, 1, 0, 0, 6], hold: vec![0, 3, 7, 8, 9, 10], drop_containers: true, ..base },
        "iso" => GenCfg { threads: (2, 4), containers: 3, hold: vec![0, 8, 8, 9], w: [6, 3, 4, 2, 6, 3, 2, 1, 1], ..base },
        "nofast" => GenCfg { strategy: 1, ..base },
        "wrap" => GenCfg { threads: (1, 3), hold: vec![8, 8, 9, 0], setgen: Some(0), ops: (2, 6), ..base },
        "steps" => GenCfg { threads: (2, 3), w: [8, 6, 3, 1, 6, 3, 1, 1, 0], hold: vec![0, 4, 7, 8, 12], ..base },
        "solo" => GenCfg { threads: (2, 4), containers: 2, hold: vec![0, 0, 8, 9], w: [5, 2, 3, 1, 6, 4, 3, 3, 1], ..base },
        "solochurn" => GenCfg { threads: (3, 5), ops: (1, 4), hold: vec![0, 0, 8], w: [5, 2, 3, 1, 6, 4, 2, 2, 1], ..base },
        "solonofast" => GenCfg { threads: (2, 4), strategy: 1, w: [5, 2, 3, 1, 6, 4, 3, 3, 1], ..base },
        "panic" => GenCfg { threads: (2, 3), w: [4, 2, 3, 1, 6, 3, 2, 6, 1], hold: vec![0, 0, 3, 8], panics: true, with_null: false, ..base },
        // the panic family on the fallback-only and on the lock-based strategy
        "panicnf" => GenCfg { threads: (2, 3), strategy: 1, w: [4, 2, 3, 1, 6, 3, 2, 6, 1], hold: vec![0, 0, 3, 8], panics: true, with_null: false, ..base },
        "panicrw" => GenCfg { threads: (2, 3), strategy: 2, w: [4, 2, 3, 1, 6, 3, 4, 6, 1], hold: vec![0, 0, 3], panics: true, with_null: false, ..base },
        "churn" => GenCfg { threads: (3, 5), ops: (1, 3), hold: vec![0, 0, 8], ..base },
        // every load on the fallback path (no fast slots), writers mostly rcu/cas: helpers abound
        "helprcu" => GenCfg { threads: (3, 4), strategy: 1, w: [9, 4, 4, 1, 3, 2, 3, 6, 1], ops: (3, 7), with_null: false, ..base },
        // short-lived threads that all take the fallback path, two containers, writers: a node changes
        // owner while a writer may still be inside it
        "helpchurn" => GenCfg { threads: (4, 6), containers: 2, strategy: 1, w: [9, 3, 3, 1, 6, 2, 1, 1, 1], ops: (1, 3), with_null: false, ..base },
        "helpiso" => GenCfg { threads: (3, 4), containers: 2, strategy: 1, w: [9, 4, 4, 1, 5, 3, 2, 3, 1], ops: (3, 7), ..base },
        // two pointee types sharing the pool of addresses: values die young so that addresses move
        // from one type to the other while readers hold stale addresses
        // one rcu/cas caller against writers that put the very same pointer back (A-B-A inside the call)
        "rcuaba" => GenCfg { threads: (2, 3), aba: true, with_null: false, ..base },
        // one reader alternating between two containers on the fallback path, writers on each
        // loads from a thread-local destructor after the crate's thread-local storage is gone
        // (each borrows a node of its own), against writers; nofast and default strategies
        "shutdown" => GenCfg { threads: (2, 3), containers: 2, strategy: 0, late: true, with_null: false, ..base },
        "shutdownnf" => GenCfg { threads: (2, 3), containers: 2, strategy: 1, late: true, with_null: false, ..base },
        // the lock-based strategy under the scheduler (its lock is taken cooperatively under the
        // verification flag): readers, writers, compare_and_swap and rcu callers
        "rwlock" => GenCfg { threads: (2, 4), strategy: 2, w: [6, 4, 4, 2, 5, 4, 4, 3, 2], with_null: true, ..base },
        "rwlockaba" => GenCfg { threads: (2, 3), strategy: 2, aba: true, with_null: false, ..base },
        // one load per short-lived reader on the fallback path (equal transaction counters), two
        // containers, a writer on each: a node that changes hands while a helper is inside it
        "reuse" => GenCfg { threads: (5, 7), containers: 2, strategy: 1, reuse: true, with_null: false, ..base },
        // a newcomer inherits a node whose eight fast slots are all taken
        "inherit" => GenCfg { threads: (2, 3), containers: 2, inherit: true, with_null: false, ..base },
        // compare_and_swap with the guard given by value against writers of fresh values (addresses recycle)
        "casaba" => GenCfg { threads: (2, 3), casv: true, with_null: false, ..base },
        "helpab" => GenCfg { threads: (2, 3), containers: 2, strategy: 1, alternate: true, with_null: false, ..base },
        "xtype" => GenCfg { threads: (3, 4), second_type: true, w: [9, 3, 4, 1, 7, 3, 1, 1, 1], ops: (3, 7), with_null: false, ..base },
        other => panic!("unknown family {}", other),
    }
}

fn run_one(p: &Program, policy: Policy, cfg: &RunCfg) -> Outcome {
    match p.strategy {
        0 => conc::run::<DefaultStrategy>(p, policy, cfg),
        #[allow(deprecated)]
        1 => conc::run::<FillFastSlots>(p, policy, cfg),
        2 => conc::run::<std::sync::RwLock<()>>(p, policy, cfg),
        _ => panic!("strategy not supported by the concurrent engine"),
    }
}

fn write_exec(out: &mut impl Write, idx: usize, seed: u64, p: &Program, o: &Outcome) {
    writeln!(out, "exec {} seed={}", idx, seed).unwrap();
    write!(out, "{}", p.text()).unwrap();
    writeln!(
        out,
        "sched {}",
        o.taken.iter().map(|(t, s)| format!("{}{}", t, if *s { "!" } else { "" })).collect::<Vec<_>>().join(" ")
    )
    .unwrap();
    writeln!(out, "trace").unwrap();
    for l in &o.trace {
        writeln!(out, "{}", l).unwrap();
    }
    writeln!(out, "endtrace").unwrap();
    for v in &o.violations {
        writeln!(out, "violation {}", v).unwrap();
    }
    writeln!(out, "endexec").unwrap();
}

fn parse_execs(text: &str) -> Vec<(usize, u64, Program, Vec<(usize, bool)>)> {
    let mut out = vec![];
    let mut cur: Option<(usize, u64, Vec<String>, Vec<(usize, bool)>)> = None;
    let mut in_trace = false;
    for l in text.lines() {
        if let Some(r) = l.strip_prefix("exec ") {
            let mut it = r.split_whitespace();
            let idx = it.next().unwrap().parse().unwrap();
            let seed = it.next().and_then(|s| s.strip_prefix("seed=")).and_then(|s| s.parse().ok()).unwrap_or(0);
            cur = Some((idx, seed, vec![], vec![]));
            in_trace = false;
        } else if l == "trace" {
            in_trace = true;
        } else if l == "endtrace" {
            in_trace = false;
        } else if l == "endexec" {
            if let Some((idx, seed, lines, sched)) = cur.take() {
                let refs: Vec<&str> = lines.iter().map(|s| s.as_str()).collect();
                out.push((idx, seed, Program::parse(&refs).expect("program parses"), sched));
            }
        } else if in_trace || l.starts_with("violation ") {
        } else if let Some(r) = l.strip_prefix("sched") {
            if let Some(c) = cur.as_mut() {
                c.3 = r
                    .split_whitespace()
                    .map(|t| (t.trim_end_matches('!').parse().unwrap(), t.ends_with('!')))
                    .collect();
            }
        } else if let Some(c) = cur.as_mut() {
            c.2.push(l.to_string());
        }
    }
    out
}

fn main() {
    // panics inside the crate under test are caught per operation and reported as violations
    if std::env::var_os("HARNESS_SHOW_PANICS").is_none() {
        std::panic::set_hook(Box::new(|_| {}));
    }
    let args: Vec<String> = std::env::args().collect();
    let get = |k: &str| args.iter().position(|a| a == k).and_then(|i| args.get(i + 1)).cloned();
    let mode = args.get(1).cloned().unwrap_or_default();
    match mode.as_str() {
        "conc" => {
            let sites = get("--sites").expect("--sites <sites.json>");
            conc::load_sites(&sites);
            let out_path = get("--out").expect("--out <file>");
            let mut out = std::io::BufWriter::new(std::fs::File::create(&out_path).unwrap());
            let cfg = RunCfg {
                max_steps: get("--max-steps").and_then(|s| s.parse().ok()).unwrap_or(20000),
                load_bound: get("--load-bound").and_then(|s| s.parse().ok()).unwrap_or(1000),
            };
            let mut nviol = 0usize;
            let mut stats: HashMap<String, u64> = HashMap::new();
            let mut n_exec = 0usize;
            let mut total_steps = 0usize;
            let mut merge = |o: &Outcome, stats: &mut HashMap<String, u64>| {
                for (k, v) in &o.stats {
                    let e = stats.entry(k.clone()).or_insert(0);
                    if k.starts_with("max_") {
                        *e = (*e).max(*v)
                    } else {
                        *e += *v
                    }
                }
            };
            if let Some(script) = get("--script") {
                // scenario file: program lines, then `script <t>:<pattern> <t>:<pattern> ...`
                let text = std::fs::read_to_string(&script).unwrap();
                let lines: Vec<&str> = text.lines().filter(|l| !l.trim_start().starts_with('#')).collect();
                let p = Program::parse(&lines).expect("scenario program parses");
                let sc: Vec<(usize, String)> = lines
                    .iter()
                    .filter_map(|l| l.strip_prefix("script "))
                    .flat_map(|l| l.split_whitespace())
                    .map(|x| {
                        let (t, pat) = x.split_once(':').unwrap();
                        (t.parse().unwrap(), pat.replace('~', " "))
                    })
                    .collect();
                let o = run_one(&p, Policy::Script { script: sc, pos: 0, left: None }, &cfg);
                nviol += o.violations.len();
                total_steps += o.taken.len();
                n_exec += 1;
                merge(&o, &mut stats);
                write_exec(&mut out, 0, 0, &p, &o);
            } else if let Some(replay) = get("--replay") {
                // re-run recorded executions with their recorded schedules
                let text = std::fs::read_to_string(&replay).unwrap();
                let only: Option<usize> = get("--exec").and_then(|s| s.parse().ok());
                for (idx, seed, p, sched) in parse_execs(&text) {
                    if only.map(|o| o != idx).unwrap_or(false) {
                        continue;
                    }
                    let o = run_one(&p, Policy::Replay { sched, pos: 0 }, &cfg);
                    nviol += o.violations.len();
                    total_steps += o.taken.len();
                    n_exec += 1;
                    merge(&o, &mut stats);
                    write_exec(&mut out, idx, seed, &p, &o);
                    if o.hung {
                        break;
                    }
                }
            } else {
                let seed: u64 = get("--seed").and_then(|s| s.parse().ok()).unwrap_or(1);
                let count: usize = get("--count").and_then(|s| s.parse().ok()).unwrap_or(10);
                let fams: Vec<String> = get("--family").unwrap_or_else(|| "mixed".into()).split(',').map(|s| s.to_string()).collect();
                for idx in 0..count {
                    let fam = &fams[idx % fams.len()];
                    let gcfg = family(fam);
                    let s = seed.wrapping_mul(1_000_003).wrapping_add(idx as u64);
                    let mut rng = Rng::new(s);
                    let p = prog::generate(&mut rng, &gcfg);
                    let stick = [0u64, 30, 60, 85][rng.range(0, 4)];
                    let pol = if fam.starts_with("solo") || get("--solo").is_some() {
                        Policy::Solo { rng: rng.clone(), stick, after: rng.range(0, 400), who: rng.range(0, p.threads.len()), steps: 0, solo_steps: 0, done: false }
                    } else {
                        Policy::Random { rng: rng.clone(), stick, burst: None }
                    };
                    let o = run_one(&p, pol, &cfg);
                    nviol += o.violations.len();
                    total_steps += o.taken.len();
                    n_exec += 1;
                    merge(&o, &mut stats);
                    write_exec(&mut out, idx, s, &p, &o);
                    if o.hung {
                        break; // threads may still be spinning: stop the batch here
                    }
                }
            }
            out.flush().unwrap();
            let mut keys: Vec<_> = stats.keys().cloned().collect();
            keys.sort();
            println!(
                "{{\"executions\":{},\"steps\":{},\"violations\":{},{}}}",
                n_exec,
                total_steps,
                nviol,
                keys.iter().map(|k| format!("\"{}\":{}", k, stats[k])).collect::<Vec<_>>().join(",")
            );
            // exit status is decided by the caller from the file; hung executions leave threads
            std::process::exit(0);
        }
        "serde" => {
            let seed: u64 = get("--seed").and_then(|s| s.parse().ok()).unwrap_or(1);
            let count: usize = get("--count").and_then(|s| s.parse().ok()).unwrap_or(200);
            for l in serde_mode::run(seed, count) {
                println!("{}", l);
            }
        }
        "access" => {
            let seed: u64 = get("--seed").and_then(|s| s.parse().ok()).unwrap_or(1);
            let count: usize = get("--count").and_then(|s| s.parse().ok()).unwrap_or(200);
            for l in access_mode::run(seed, count) {
                println!("{}", l);
            }
        }
        "cache" => {
            let seed: u64 = get("--seed").and_then(|s| s.parse().ok()).unwrap_or(1);
            let count: usize = get("--count").and_then(|s| s.parse().ok()).unwrap_or(200);
            for l in cache_mode::run(seed, count) {
                println!("{}", l);
            }
        }
        "seq" => {
            // every program under the three strategies; `--ops-file` replays given programs
            let seed: u64 = get("--seed").and_then(|s| s.parse().ok()).unwrap_or(1);
            let count: usize = get("--count").and_then(|s| s.parse().ok()).unwrap_or(200);
            let mut progs: Vec<(u64, Vec<prog::Op>)> = vec![];
            if let Some(f) = get("--ops-file") {
                for l in std::fs::read_to_string(&f).unwrap().lines() {
                    if let Some(r) = l.strip_prefix("ops ") {
                        progs.push((0, r.split(';').filter(|x| !x.trim().is_empty()).map(|x| prog::Op::parse(x).expect("op parses")).collect()));
                    }
                }
            } else {
                for k in 0..count {
                    let s = seed.wrapping_mul(1_000_003).wrapping_add(k as u64);
                    progs.push((s, seq_mode::generate(&mut Rng::new(s))));
                }
            }
            let stdout = std::io::stdout();
            let mut out = std::io::BufWriter::new(stdout.lock());
            for (k, (s, ops)) in progs.iter().enumerate() {
                writeln!(out, "prog {} seed={}", k, s).unwrap();
                writeln!(out, "ops {}", ops.iter().map(|o| o.text()).collect::<Vec<_>>().join(" ; ")).unwrap();
                for st in 0..3 {
                    writeln!(out, "strategy {}", st).unwrap();
                    let lines = match st {
                        0 => seq_mode::run_prog::<DefaultStrategy>(ops),
                        #[allow(deprecated)]
                        1 => seq_mode::run_prog::<FillFastSlots>(ops),
                        #[allow(deprecated)]
                        _ => seq_mode::run_prog::<std::sync::RwLock<()>>(ops),
                    };
                    for l in lines {
                        writeln!(out, "{}", l).unwrap();
                    }
                    writeln!(out, "endstrategy").unwrap();
                }
                writeln!(out, "endprog").unwrap();
            }
            out.flush().unwrap();
        }
        "kinds" => {
            for l in kinds::run() {
                println!("{}", l);
            }
        }
        "kindscont" => {
            // container-level laws for every pointer kind: one line per violation, then the tally
            let v = kinds_cont::run();
            for l in &v {
                println!("{}", l);
            }
            println!("kindscont: {} violation(s)", v.len());
        }
        _ => {
            eprintln!("usage: harness conc --sites <sites.json> --out <file> [--family f1,f2] [--seed n] [--count n] [--replay file [--exec k]]");
            std::process::exit(2);
        }
    }
}
