//! C20 correspondence: arbitrary values (from VERIF_SEED) stored in both container flavours and
//! under every default-constructible strategy; what the container serializes to vs what its
//! pointee serializes to, deserialization, round trip, strong count after deserialization.
use std::sync::Arc;

use arc_swap::strategy::DefaultStrategy;
#[allow(deprecated)]
use arc_swap::strategy::test_strategies::FillFastSlots;
use arc_swap::ArcSwapAny;
use serde::ser::{Serialize, SerializeTuple, Serializer};

use crate::rng::Rng;

#[derive(Clone, Debug, PartialEq)]
pub enum V {
    U(u64),
    S(String),
    Unit,
    None,
    Some(Box<V>),
    Pair(Box<V>, Box<V>),
}

impl Serialize for V {
    fn serialize<Sr: Serializer>(&self, s: Sr) -> Result<Sr::Ok, Sr::Error> {
        match self {
            V::U(n) => s.serialize_u64(*n),
            V::S(x) => s.serialize_str(x),
            V::Unit => s.serialize_unit(),
            V::None => s.serialize_none(),
            V::Some(v) => s.serialize_some(&**v),
            V::Pair(a, b) => {
                let mut t = s.serialize_tuple(2)?;
                t.serialize_element(&**a)?;
                t.serialize_element(&**b)?;
                t.end()
            }
        }
    }
}

fn prefix(v: &V, out: &mut Vec<String>) {
    match v {
        V::U(n) => out.push(format!("u {}", n)),
        V::S(x) => out.push(format!("s {}", if x.is_empty() { "\"\"".to_string() } else { x.clone() })),
        V::Unit => out.push("unit".into()),
        V::None => out.push("none".into()),
        V::Some(v) => {
            out.push("some".into());
            prefix(v, out)
        }
        V::Pair(a, b) => {
            out.push("pair".into());
            prefix(a, out);
            prefix(b, out)
        }
    }
}

fn gen(rng: &mut Rng, depth: usize) -> V {
    let k = if depth == 0 { rng.range(0, 4) } else { rng.range(0, 7) };
    match k {
        0 => V::U(match rng.range(0, 4) { 0 => 0, 1 => u64::MAX, _ => rng.next() >> rng.range(0, 60) }),
        1 => {
            let alphabet: Vec<char> = "abcXYZ019_-éжλ ".chars().collect();
            let n = rng.range(0, 9);
            V::S((0..n).map(|_| alphabet[rng.range(0, alphabet.len() - 1)]).collect())
        }
        2 => V::Unit,
        3 => V::None,
        4 => V::Some(Box::new(gen(rng, depth - 1))),
        _ => V::Pair(Box::new(gen(rng, depth - 1)), Box::new(gen(rng, depth - 1))),
    }
}

#[derive(Debug, PartialEq, serde::Serialize, serde::Deserialize)]
struct Foo {
    field0: u64,
    field1: String,
    field2: Option<(u8, String)>,
}

pub fn run(seed: u64, count: usize) -> Vec<String> {
    let mut rng = Rng::new(seed ^ 0x5e4de);
    let mut out = vec![];
    for _ in 0..count {
        let v = gen(&mut rng, 4);
        let mut p = vec![];
        prefix(&v, &mut p);
        let pointee = serde_json::to_string(&v).unwrap();
        let a: ArcSwapAny<Arc<V>, DefaultStrategy> = ArcSwapAny::from(Arc::new(v.clone()));
        #[allow(deprecated)]
        let b: ArcSwapAny<Arc<V>, FillFastSlots> = ArcSwapAny::from(Arc::new(v.clone()));
        let c: ArcSwapAny<Option<Arc<V>>, DefaultStrategy> = ArcSwapAny::from(Some(Arc::new(v.clone())));
        let d: ArcSwapAny<Arc<V>, std::sync::RwLock<()>> = ArcSwapAny::from(Arc::new(v.clone()));
        let e: ArcSwapAny<Option<Arc<V>>, DefaultStrategy> = ArcSwapAny::from(None);
        out.push(format!(
            "case {}|{}|{}|{}|{}|{}|{}",
            p.join(" "),
            pointee,
            serde_json::to_string(&a).unwrap(),
            serde_json::to_string(&b).unwrap(),
            serde_json::to_string(&c).unwrap(),
            serde_json::to_string(&d).unwrap(),
            serde_json::to_string(&e).unwrap()
        ));
    }
    // typed round trips (deserialize needs a typed target): value preserved, single reference
    for k in 0..count.min(200) {
        let foo = Foo {
            field0: rng.next() >> rng.range(0, 63),
            field1: format!("FOO_{}", k),
            field2: if rng.chance(1, 2) { None } else { Some((rng.range(0, 255) as u8, "x".repeat(rng.range(0, 5)))) },
        };
        let json = serde_json::to_string(&foo).unwrap();
        let a: ArcSwapAny<Arc<Foo>> = arc_swap::ArcSwap::from_pointee(Foo { field0: foo.field0, field1: foo.field1.clone(), field2: foo.field2.clone() });
        let ja = serde_json::to_string(&a).unwrap();
        let back: ArcSwapAny<Arc<Foo>> = serde_json::from_str(&ja).unwrap();
        let loaded = back.load_full();
        let cnt = Arc::strong_count(&loaded) - 1;
        #[allow(deprecated)]
        let back2: ArcSwapAny<Option<Arc<Foo>>, FillFastSlots> = serde_json::from_str(&ja).unwrap();
        let l2 = back2.load_full();
        let none: ArcSwapAny<Option<Arc<Foo>>> = serde_json::from_str("null").unwrap();
        out.push(format!(
            "typed same_as_pointee={} roundtrip_equal={} strong={} option_flavour_equal={} option_strong={} null_is_none={}",
            (ja == json) as u8,
            (*loaded == foo) as u8,
            cnt,
            (l2.as_deref() == Some(&foo)) as u8,
            l2.as_ref().map(|x| Arc::strong_count(x) - 1).unwrap_or(0),
            none.load().is_none() as u8
        ));
    }
    reentrant(&mut out);
    shutdown(&mut out);
    out
}

// ---- serialization and deserialization from a thread-local destructor that runs after the crate's
// own thread-local storage is gone (C20: transparent there too; C13: no panic) ----

struct LateSer(std::cell::RefCell<Option<Box<dyn FnOnce()>>>);
impl Drop for LateSer {
    fn drop(&mut self) {
        if let Some(f) = self.0.borrow_mut().take() {
            f();
        }
    }
}
thread_local! {
    static LATE_SER: LateSer = LateSer(std::cell::RefCell::new(None));
}

fn shutdown(out: &mut Vec<String>) {
    let res: Arc<std::sync::Mutex<Vec<String>>> = Arc::new(std::sync::Mutex::new(vec![]));
    let r2 = Arc::clone(&res);
    std::thread::spawn(move || {
        let shared: Arc<ArcSwapAny<Arc<V>>> = Arc::new(ArcSwapAny::from(Arc::new(V::Pair(Box::new(V::U(7)), Box::new(V::S("x".into()))))));
        let sh2 = Arc::clone(&shared);
        // one reference is never given back: the container is not destroyed on this thread (a
        // second panic while the first one unwinds would abort the process)
        std::mem::forget(Arc::clone(&shared));
        // registered before the crate is used on this thread: destroyed after the crate's own
        LATE_SER.with(|l| {
            *l.0.borrow_mut() = Some(Box::new(move || {
                let r = std::panic::catch_unwind(std::panic::AssertUnwindSafe(move || {
                    let sh2 = sh2; // dropped in here too (the last use of the container on this thread)
                    let a = serde_json::to_string(&*sh2).unwrap();
                    let back: ArcSwapAny<Arc<Foo>> = serde_json::from_str("{\"field0\":5,\"field1\":\"FOO\",\"field2\":null}").unwrap();
                    let b = serde_json::to_string(&back).unwrap();
                    format!("{}|{}", a, b)
                }));
                let line = match r {
                    Ok(s) => format!("shutdown ok=1 json={}", s),
                    Err(p) => format!(
                        "shutdown ok=0 panic={}",
                        p.downcast_ref::<String>().cloned().or_else(|| p.downcast_ref::<&str>().map(|s| s.to_string())).unwrap_or_default()
                    ),
                };
                r2.lock().unwrap().push(line);
            }))
        });
        // the crate's thread-local comes to life here
        let _ = shared.load();
    })
    .join()
    .unwrap();
    out.extend(res.lock().unwrap().drain(..));
}

// ---- a writer runs in the middle of a serialization (C20: the token stream is that of one snapshot,
// which stays alive until the serialization is over) ----

thread_local! {
    static HOOK: std::cell::RefCell<Option<Box<dyn Fn()>>> = const { std::cell::RefCell::new(None) };
}
static DROPPED: std::sync::atomic::AtomicUsize = std::sync::atomic::AtomicUsize::new(0);

pub struct Hooked {
    id: u64,
    tag: String,
}
impl Drop for Hooked {
    fn drop(&mut self) {
        if self.id == 1 {
            DROPPED.fetch_add(1, std::sync::atomic::Ordering::SeqCst);
        }
    }
}
impl Serialize for Hooked {
    fn serialize<Sr: Serializer>(&self, s: Sr) -> Result<Sr::Ok, Sr::Error> {
        let id = self.id;
        let mut t = s.serialize_tuple(3)?;
        t.serialize_element(&id)?;
        // between two fields: whatever the hook does (a store into the container being serialized)
        let h = HOOK.with(|h| h.borrow_mut().take());
        if let Some(h) = h {
            h();
        }
        // `self` must not be looked at again if it has been destroyed meanwhile
        let destroyed = if id == 1 { DROPPED.load(std::sync::atomic::Ordering::SeqCst) } else { 0 };
        t.serialize_element(&destroyed)?;
        if destroyed == 0 {
            t.serialize_element(&self.tag)?;
        } else {
            t.serialize_element("<destroyed while being serialized>")?;
        }
        t.end()
    }
}

fn reentrant_one<S>(out: &mut Vec<String>, name: &str, opt: bool)
where
    S: arc_swap::strategy::Strategy<Arc<Hooked>> + arc_swap::strategy::Strategy<Option<Arc<Hooked>>> + Default + 'static,
{
    DROPPED.store(0, std::sync::atomic::Ordering::SeqCst);
    let json = if opt {
        let c: Arc<ArcSwapAny<Option<Arc<Hooked>>, S>> = Arc::new(ArcSwapAny::from(Some(Arc::new(Hooked { id: 1, tag: "first".into() }))));
        let c2 = Arc::clone(&c);
        HOOK.with(|h| *h.borrow_mut() = Some(Box::new(move || c2.store(None))));
        serde_json::to_string(&*c).unwrap()
    } else {
        let c: Arc<ArcSwapAny<Arc<Hooked>, S>> = Arc::new(ArcSwapAny::from(Arc::new(Hooked { id: 1, tag: "first".into() })));
        let c2 = Arc::clone(&c);
        HOOK.with(|h| *h.borrow_mut() = Some(Box::new(move || c2.store(Arc::new(Hooked { id: 2, tag: "second".into() })))));
        serde_json::to_string(&*c).unwrap()
    };
    let after = DROPPED.load(std::sync::atomic::Ordering::SeqCst);
    out.push(format!("reentrant strategy={} option={} json={} destroyed_after={}", name, opt as u8, json, after));
}

fn reentrant(out: &mut Vec<String>) {
    reentrant_one::<DefaultStrategy>(out, "default", false);
    reentrant_one::<DefaultStrategy>(out, "default", true);
    #[allow(deprecated)]
    {
        reentrant_one::<FillFastSlots>(out, "fillfast", false);
        reentrant_one::<FillFastSlots>(out, "fillfast", true);
    }
    reentrant_one::<std::sync::RwLock<()>>(out, "rwlock", false);
    reentrant_one::<std::sync::RwLock<()>>(out, "rwlock", true);
}
