//! C16 correspondence: the real `Cache` driven through a `Deref` handle that lets the environment
//! act at the two instants `revalidate` touches the container (the pointer peek and the
//! `load_full`), with pooled addresses that are reused (A-B-A).  Prints the event script (for the
//! Lean `CacheM`) and, per event, what the real cache returned and every object's count.
use std::cell::RefCell;
use std::collections::VecDeque;
use std::ops::Deref;
use std::rc::Rc;
use std::sync::atomic::Ordering::SeqCst;
use std::sync::Arc;

use arc_swap::cache::Cache;
use arc_swap::ArcSwapAny;

use crate::rng::Rng;
use crate::varc::{self, VArc};

type T = Option<VArc<0>>;
type A = ArcSwapAny<T>;

#[derive(Clone, Debug)]
enum Env {
    New,
    Old(usize),
    Inc(usize),
    Dec(usize),
}

struct World {
    a: Arc<A>,
    /// handles the environment holds, by object id
    held: Vec<(usize, VArc<0>)>,
    script: Vec<String>,
    obs: Vec<String>,
    hist: Vec<usize>,
}

fn counts() -> String {
    // objects by id: count of the pool entry currently carrying that id, 0 if dead
    let n = varc::NEXT_ID.load(SeqCst);
    (0..n)
        .map(|id| {
            varc::ENTRIES
                .iter()
                .find(|e| e.live.load(SeqCst) && e.id.load(SeqCst) == id)
                .map(|e| e.cnt.load(SeqCst))
                .unwrap_or(0)
                .to_string()
        })
        .collect::<Vec<_>>()
        .join(",")
}

fn id_of(v: &T) -> usize {
    v.as_ref().map(|x| x.entry().id.load(SeqCst)).unwrap()
}

impl World {
    fn apply(&mut self, e: &Env) {
        match e {
            Env::New => {
                let v = VArc::<0>::new(0);
                let addr = varc::index_of(v.entry() as *const _ as usize).unwrap();
                self.script.push(format!("new {}", addr));
                self.hist.push(v.entry().id.load(SeqCst));
                self.a.store(Some(v));
            }
            Env::Old(k) => {
                if self.held.is_empty() {
                    return;
                }
                let (id, h) = &self.held[k % self.held.len()];
                self.script.push(format!("old {}", id));
                self.hist.push(*id);
                self.a.store(Some(h.clone()));
            }
            Env::Inc(_) => {
                // clone a reference to whatever is current (a live object)
                let cur = self.a.load_full().unwrap();
                let id = cur.entry().id.load(SeqCst);
                self.script.push(format!("inc {}", id));
                self.held.push((id, cur));
            }
            Env::Dec(k) => {
                if self.held.is_empty() {
                    return;
                }
                let k = k % self.held.len();
                let (id, h) = self.held.remove(k);
                self.script.push(format!("dec {}", id));
                drop(h);
            }
        }
        let cur = id_of(&self.a.load_full());
        self.obs.push(format!("ret=- cur={} owners={}", cur, counts()));
    }
}

/// The handle `Cache` holds: every `deref` first lets the environment run its next batch.
struct Handle {
    w: Rc<RefCell<World>>,
    batches: Rc<RefCell<VecDeque<Vec<Env>>>>,
    a: Arc<A>,
    /// which deref of the current `Cache::load` this is (0 = peek, 1 = load_full)
    phase: Rc<RefCell<usize>>,
}

impl Deref for Handle {
    type Target = A;
    fn deref(&self) -> &A {
        let batch = self.batches.borrow_mut().pop_front().unwrap_or_default();
        let mut w = self.w.borrow_mut();
        for e in &batch {
            w.apply(e);
        }
        let mut ph = self.phase.borrow_mut();
        if *ph == 0 {
            w.script.push("peek".into());
            let cur = id_of(&self.a.load_full());
            w.obs.push(format!("ret=- cur={} owners={}", cur, counts()));
        }
        *ph += 1;
        &self.a
    }
}

pub fn run(seed: u64, count: usize) -> Vec<String> {
    varc::SCHED_POINTS.store(false, SeqCst);
    let mut out = vec![];
    for k in 0..count {
        varc::reset_pool();
        let mut rng = Rng::new(seed.wrapping_mul(7919).wrapping_add(k as u64));
        let first = VArc::<0>::new(0);
        let a0 = varc::index_of(first.entry() as *const _ as usize).unwrap();
        let a: Arc<A> = Arc::new(ArcSwapAny::new(Some(first)));
        let w = Rc::new(RefCell::new(World { a: a.clone(), held: vec![], script: vec![], obs: vec![], hist: vec![0] }));
        let batches = Rc::new(RefCell::new(VecDeque::new()));
        let phase = Rc::new(RefCell::new(0usize));
        // `Cache::new` derefs once (for its load_full): an empty batch, and not a `peek`
        batches.borrow_mut().push_back(vec![]);
        *phase.borrow_mut() = 1;
        let mut cache = Cache::new(Handle { w: w.clone(), batches: batches.clone(), a: a.clone(), phase: phase.clone() });
        let mut violations = vec![];
        let mut last_idx = 0usize;
        let loads = rng.range(2, 7);
        for _ in 0..loads {
            let gen_batch = |rng: &mut Rng| -> Vec<Env> {
                (0..rng.range(0, 4))
                    .map(|_| match rng.range(0, 6) {
                        0 | 1 => Env::New,
                        2 => Env::Old(rng.range(0, 8)),
                        3 => Env::Inc(0),
                        _ => Env::Dec(rng.range(0, 8)),
                    })
                    .collect()
            };
            // environment events before the call, between peek and load_full, (and none after)
            let before = gen_batch(&mut rng);
            for e in &before {
                w.borrow_mut().apply(e);
            }
            let start_len = w.borrow().hist.len();
            batches.borrow_mut().push_back(vec![]); // at the peek itself: nothing more
            batches.borrow_mut().push_back(gen_batch(&mut rng));
            *phase.borrow_mut() = 0;
            let got = id_of(cache.load());
            // if no reload happened the second batch was not consumed: it simply did not happen
            batches.borrow_mut().clear();
            let mut wm = w.borrow_mut();
            wm.script.push("finish".into());
            let cur = id_of(&a.load_full());
            wm.obs.push(format!("ret={} cur={} owners={}", got, cur, counts()));
            // oracles, independent of the model
            let hist = wm.hist.clone();
            let cand = (last_idx.max(start_len - 1)..hist.len()).find(|&i| hist[i] == got);
            match cand {
                Some(i) => last_idx = i,
                None => violations.push(format!(
                    "cache: load returned #{} which is {}; history={:?}, call started at index {}, previous load's index {}",
                    got,
                    if hist.contains(&got) { "older than a store completed before the call, or than the previous load" } else { "a value never stored" },
                    hist, start_len - 1, last_idx
                )),
            }
        }
        let wm = w.borrow();
        out.push(format!("exec {} a0={}", k, a0));
        for (s, o) in wm.script.iter().zip(wm.obs.iter()) {
            out.push(format!("ev {} | {}", s, o));
        }
        for v in violations {
            out.push(format!("violation {}", v));
        }
        out.push("endexec".into());
        drop(wm);
        drop(cache);
    }
    // the trait forms: `cache::Access::load` of a plain `Cache` and of a `MapCache`
    let tv = trait_forms();
    out.push(format!("exec {} a0=0", count));
    for v in tv {
        out.push(format!("violation {}", v));
    }
    out.push("endexec".into());
    varc::SCHED_POINTS.store(true, SeqCst);
    out
}

/// `Cache` and `MapCache` used through the `cache::Access` trait (the way generic code holds a
/// cache): the same freshness and release as the inherent `Cache::load`
fn trait_forms() -> Vec<String> {
    use arc_swap::cache::Access as CacheAccess;
    use arc_swap::ArcSwap;
    fn through<C: CacheAccess<u64>>(c: &mut C) -> u64 {
        *c.load()
    }
    let mut v = vec![];
    let a = Arc::new(ArcSwap::from_pointee(1u64));
    let mut plain = Cache::new(Arc::clone(&a));
    let mut mapped = Cache::new(Arc::clone(&a)).map(|x: &Arc<u64>| -> &u64 { &**x });
    for k in 2..7u64 {
        let old = a.load_full();
        // both caches have seen `old`
        let (p0, m0) = (through(&mut plain), through(&mut mapped));
        if p0 != *old || m0 != *old {
            v.push(format!("cache: through the Access trait a load returned {} / {} while the container held {}", p0, m0, *old));
        }
        a.store(Arc::new(k));
        let (p1, m1) = (through(&mut plain), through(&mut mapped));
        if p1 != k {
            v.push(format!("cache: through the Access trait, Cache::load returned #{} which is older than a store (#{}) completed before the call", p1, k));
        }
        if m1 != k {
            v.push(format!("cache: through the Access trait, MapCache::load returned #{} which is older than a store (#{}) completed before the call", m1, k));
        }
        let held = Arc::strong_count(&old) - 1;
        if held != 0 {
            v.push(format!("cache: {} cache(s) still hold the value replaced by a store after loading through the Access trait (more than one old value retained)", held));
        }
    }
    v
}
