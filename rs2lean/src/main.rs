//! rs2lean: regenerates `Generated/*.lean` from the working tree of the crate.
//!
//! Every non-test item of every `src/**/*.rs` file is dumped as an S-expression (`S` in
//! `ArcSwapModel/Sexp.lean`): function bodies as structured trees (blocks, lets, ifs, matches,
//! loops, calls, method calls, closures, macros with parsed arguments), struct definitions with
//! field *type trees*, impl headers (including `unsafe impl` and negative impls), consts, statics,
//! type aliases. Everything else about the source that the Lean side needs (constants, the
//! ordering of every atomic call site, skeletons, panic sites, auto-trait structure, bodies of the
//! small trait impls) is computed *in Lean* from these trees, so this tool is only a parser and
//! a printer: it has no knowledge of what the model expects.
//!
//! usage: rs2lean <crate-src-dir> <out-dir>

use std::fmt::Write as _;
use std::path::{Path, PathBuf};

use quote::ToTokens;
use syn::punctuated::Punctuated;
use syn::{Expr, Item, Pat, Stmt, Token, Type};

#[derive(Clone, Debug)]
enum S {
    A(String),
    L(Vec<S>),
}

fn a<T: Into<String>>(s: T) -> S {
    S::A(s.into())
}
fn n(tag: &str, mut kids: Vec<S>) -> S {
    let mut v = vec![a(tag)];
    v.append(&mut kids);
    S::L(v)
}
fn toks<T: ToTokens>(t: &T) -> String {
    // canonical token text: quote's spacing, independent of source formatting and comments
    t.to_token_stream().to_string()
}

fn ty(t: &Type) -> S {
    match t {
        Type::Path(p) => {
            let mut segs = vec![];
            if let Some(q) = &p.qself {
                segs.push(n("qself", vec![ty(&q.ty)]));
            }
            for seg in &p.path.segments {
                let mut kids = vec![a(seg.ident.to_string())];
                match &seg.arguments {
                    syn::PathArguments::None => {}
                    syn::PathArguments::AngleBracketed(ab) => {
                        for arg in &ab.args {
                            match arg {
                                syn::GenericArgument::Type(t) => kids.push(ty(t)),
                                syn::GenericArgument::Lifetime(l) => {
                                    kids.push(n("lt", vec![a(l.ident.to_string())]))
                                }
                                syn::GenericArgument::AssocType(at) => kids.push(n(
                                    "assoc",
                                    vec![a(at.ident.to_string()), ty(&at.ty)],
                                )),
                                other => kids.push(n("garg", vec![a(toks(other))])),
                            }
                        }
                    }
                    syn::PathArguments::Parenthesized(pa) => {
                        let ins = pa.inputs.iter().map(ty).collect();
                        let out = match &pa.output {
                            syn::ReturnType::Default => n("unit", vec![]),
                            syn::ReturnType::Type(_, t) => ty(t),
                        };
                        kids.push(n("fnargs", vec![n("ins", ins), out]));
                    }
                }
                segs.push(n("seg", kids));
            }
            n("tpath", segs)
        }
        Type::Reference(r) => n(
            if r.mutability.is_some() { "tmutref" } else { "tref" },
            vec![
                a(r.lifetime.as_ref().map(|l| l.ident.to_string()).unwrap_or_default()),
                ty(&r.elem),
            ],
        ),
        Type::Ptr(p) => n(
            if p.mutability.is_some() { "tmutptr" } else { "tconstptr" },
            vec![ty(&p.elem)],
        ),
        Type::BareFn(f) => {
            let ins = f.inputs.iter().map(|i| ty(&i.ty)).collect();
            let out = match &f.output {
                syn::ReturnType::Default => n("unit", vec![]),
                syn::ReturnType::Type(_, t) => ty(t),
            };
            n("tfn", vec![n("ins", ins), out])
        }
        Type::TraitObject(o) => {
            let bounds = o
                .bounds
                .iter()
                .map(|b| match b {
                    syn::TypeParamBound::Trait(tb) => {
                        let t = Type::Path(syn::TypePath { qself: None, path: tb.path.clone() });
                        n("bound", vec![ty(&t)])
                    }
                    syn::TypeParamBound::Lifetime(l) => n("lt", vec![a(l.ident.to_string())]),
                    other => n("boundx", vec![a(toks(other))]),
                })
                .collect();
            n("tdyn", bounds)
        }
        Type::Tuple(t) => n("ttuple", t.elems.iter().map(ty).collect()),
        Type::Array(arr) => n("tarray", vec![ty(&arr.elem), a(toks(&arr.len))]),
        Type::Slice(s) => n("tslice", vec![ty(&s.elem)]),
        Type::Paren(p) => ty(&p.elem),
        Type::Group(g) => ty(&g.elem),
        Type::Never(_) => n("tnever", vec![]),
        other => n("tother", vec![a(toks(other))]),
    }
}

fn pat(p: &Pat) -> S {
    n("pat", vec![a(toks(p))])
}

/// Attributes of a statement (where syn keeps them: on the `let`, or on the expression).
fn stmt_attrs(s: &Stmt) -> &[syn::Attribute] {
    match s {
        Stmt::Local(l) => &l.attrs,
        Stmt::Expr(e, _) => match e {
            Expr::Call(x) => &x.attrs,
            Expr::MethodCall(x) => &x.attrs,
            Expr::Macro(x) => &x.attrs,
            Expr::Block(x) => &x.attrs,
            Expr::If(x) => &x.attrs,
            Expr::Assign(x) => &x.attrs,
            Expr::Unsafe(x) => &x.attrs,
            Expr::Path(x) => &x.attrs,
            _ => &[],
        },
        Stmt::Macro(m) => &m.attrs,
        Stmt::Item(_) => &[],
    }
}

/// Statements compiled only under the verification flag are scaffolding (the cooperative lock
/// shim): the model is of the crate as built without the flag, so they are left out; their
/// `cfg(not(arc_swap_verif))` twins are what is translated.
fn is_verif_only(s: &Stmt) -> bool {
    stmt_attrs(s).iter().any(|at| at.path().is_ident("cfg") && toks(&at.meta).replace(' ', "") == "cfg(arc_swap_verif)")
}

fn block(b: &syn::Block) -> S {
    n("block", b.stmts.iter().filter(|s| !is_verif_only(s)).map(stmt).collect())
}

fn stmt(s: &Stmt) -> S {
    match s {
        Stmt::Local(l) => {
            let mut kids = vec![pat(&l.pat)];
            if let Some(init) = &l.init {
                kids.push(expr(&init.expr));
                if let Some((_, d)) = &init.diverge {
                    kids.push(n("else", vec![expr(d)]));
                }
            }
            n("let", kids)
        }
        Stmt::Item(i) => n("item", item(i, "")),
        Stmt::Expr(e, semi) => {
            if semi.is_some() {
                n("semi", vec![expr(e)])
            } else {
                n("tail", vec![expr(e)])
            }
        }
        Stmt::Macro(m) => n("semi", vec![mac(&m.mac)]),
    }
}

fn mac(m: &syn::Macro) -> S {
    let name = toks(&m.path).replace(' ', "");
    let args = m
        .parse_body_with(Punctuated::<Expr, Token![,]>::parse_terminated)
        .map(|p| p.iter().map(expr).collect::<Vec<_>>())
        .unwrap_or_else(|_| vec![a(m.tokens.to_string())]);
    let mut kids = vec![a(name)];
    kids.extend(args);
    n("macro", kids)
}

fn expr(e: &Expr) -> S {
    match e {
        Expr::Block(b) => block(&b.block),
        Expr::Unsafe(u) => n("unsafe", vec![block(&u.block)]),
        Expr::If(i) => {
            let mut kids = vec![expr(&i.cond), block(&i.then_branch)];
            if let Some((_, els)) = &i.else_branch {
                kids.push(expr(els));
            }
            n("if", kids)
        }
        Expr::Let(l) => n("iflet", vec![pat(&l.pat), expr(&l.expr)]),
        Expr::Match(m) => {
            let mut kids = vec![expr(&m.expr)];
            for arm in &m.arms {
                let mut ak = vec![pat(&arm.pat)];
                if let Some((_, g)) = &arm.guard {
                    ak.push(n("guard", vec![expr(g)]));
                }
                ak.push(expr(&arm.body));
                kids.push(n("arm", ak));
            }
            n("match", kids)
        }
        Expr::Loop(l) => n("loop", vec![block(&l.body)]),
        Expr::While(w) => n("while", vec![expr(&w.cond), block(&w.body)]),
        Expr::ForLoop(f) => n("for", vec![pat(&f.pat), expr(&f.expr), block(&f.body)]),
        Expr::MethodCall(m) => {
            let mut kids = vec![a(m.method.to_string())];
            let lc = m.method.span().start();
            kids.push(n("pos", vec![a(lc.line.to_string()), a((lc.column + 1).to_string())]));
            if let Some(t) = &m.turbofish {
                kids.push(n("turbofish", vec![a(toks(t))]));
            }
            kids.push(expr(&m.receiver));
            kids.extend(m.args.iter().map(expr));
            n("mcall", kids)
        }
        Expr::Call(c) => {
            let mut kids = vec![expr(&c.func)];
            kids.extend(c.args.iter().map(expr));
            n("call", kids)
        }
        Expr::Closure(c) => {
            let params = c.inputs.iter().map(pat).collect();
            n("closure", vec![n("params", params), expr(&c.body)])
        }
        Expr::Return(r) => n("return", r.expr.iter().map(|e| expr(e)).collect()),
        Expr::Break(b) => n("break", b.expr.iter().map(|e| expr(e)).collect()),
        Expr::Continue(_) => n("continue", vec![]),
        Expr::Macro(m) => mac(&m.mac),
        Expr::Path(p) => n("path", vec![a(toks(p).replace(' ', ""))]),
        Expr::Field(f) => n("field", vec![expr(&f.base), a(toks(&f.member))]),
        Expr::Unary(u) => n("unary", vec![a(toks(&u.op)), expr(&u.expr)]),
        Expr::Binary(b) => n("binary", vec![a(toks(&b.op)), expr(&b.left), expr(&b.right)]),
        Expr::Reference(r) => n(
            if r.mutability.is_some() { "mutref" } else { "ref" },
            vec![expr(&r.expr)],
        ),
        Expr::Try(t) => n("try", vec![expr(&t.expr)]),
        Expr::Paren(p) => expr(&p.expr),
        Expr::Group(g) => expr(&g.expr),
        Expr::Assign(asg) => n("assign", vec![expr(&asg.left), expr(&asg.right)]),
        Expr::Struct(s) => {
            let mut kids = vec![a(toks(&s.path).replace(' ', ""))];
            for f in &s.fields {
                kids.push(n("fieldinit", vec![a(toks(&f.member)), expr(&f.expr)]));
            }
            if let Some(r) = &s.rest {
                kids.push(n("rest", vec![expr(r)]));
            }
            n("struct", kids)
        }
        Expr::Tuple(t) => n("tuple", t.elems.iter().map(expr).collect()),
        Expr::Cast(c) => n("cast", vec![expr(&c.expr), ty(&c.ty)]),
        Expr::Index(i) => n("index", vec![expr(&i.expr), expr(&i.index)]),
        Expr::Lit(l) => n("lit", vec![a(toks(l))]),
        Expr::Range(r) => n(
            "range",
            vec![
                r.start.as_ref().map(|e| expr(e)).unwrap_or_else(|| a("")),
                a(toks(&r.limits)),
                r.end.as_ref().map(|e| expr(e)).unwrap_or_else(|| a("")),
            ],
        ),
        Expr::Array(arr) => n("array", arr.elems.iter().map(expr).collect()),
        Expr::Repeat(r) => n("repeat", vec![expr(&r.expr), expr(&r.len)]),
        other => n("other", vec![a(toks(other))]),
    }
}

fn is_test_cfg(attrs: &[syn::Attribute]) -> bool {
    attrs.iter().any(|at| {
        at.path().is_ident("cfg") && {
            let t = toks(&at.meta).replace(' ', "");
            t == "cfg(test)" || t == "cfg(arc_swap_verif)"
        }
    })
}

fn attrs_of(attrs: &[syn::Attribute]) -> S {
    let v = attrs
        .iter()
        .filter(|at| !at.path().is_ident("doc"))
        .map(|at| a(toks(&at.meta).replace(' ', "")))
        .collect();
    n("attrs", v)
}

fn generics(g: &syn::Generics) -> S {
    let mut kids = vec![];
    for p in &g.params {
        match p {
            syn::GenericParam::Type(t) => {
                let bounds = t.bounds.iter().map(|b| a(toks(b))).collect();
                kids.push(n("tparam", vec![a(t.ident.to_string()), n("bounds", bounds)]));
            }
            syn::GenericParam::Lifetime(l) => {
                kids.push(n("ltparam", vec![a(l.lifetime.ident.to_string())]))
            }
            syn::GenericParam::Const(c) => kids.push(n("cparam", vec![a(c.ident.to_string())])),
        }
    }
    if let Some(w) = &g.where_clause {
        for p in &w.predicates {
            if let syn::WherePredicate::Type(pt) = p {
                let bounds = pt.bounds.iter().map(|b| a(toks(b))).collect();
                kids.push(n("where", vec![ty(&pt.bounded_ty), n("bounds", bounds)]));
            }
        }
    }
    n("generics", kids)
}

fn sig(s: &syn::Signature) -> S {
    let ins = s
        .inputs
        .iter()
        .map(|i| match i {
            syn::FnArg::Receiver(r) => n("self", vec![a(toks(r))]),
            syn::FnArg::Typed(t) => n("arg", vec![pat(&t.pat), ty(&t.ty)]),
        })
        .collect();
    let out = match &s.output {
        syn::ReturnType::Default => n("unit", vec![]),
        syn::ReturnType::Type(_, t) => ty(t),
    };
    n(
        "sig",
        vec![
            a(if s.unsafety.is_some() { "unsafe" } else { "safe" }),
            generics(&s.generics),
            n("ins", ins),
            out,
        ],
    )
}

/// Items of one scope. `owner` is the qualified prefix for function names.
fn item(i: &Item, owner: &str) -> Vec<S> {
    match i {
        Item::Fn(f) => {
            if is_test_cfg(&f.attrs) {
                return vec![];
            }
            vec![n(
                "fn",
                vec![
                    a(format!("{}{}", owner, f.sig.ident)),
                    attrs_of(&f.attrs),
                    sig(&f.sig),
                    block(&f.block),
                ],
            )]
        }
        Item::Impl(im) => {
            if is_test_cfg(&im.attrs) {
                return vec![];
            }
            let self_ty = toks(&im.self_ty).replace(' ', "");
            let (tr, neg) = match &im.trait_ {
                Some((bang, path, _)) => (toks(path).replace(' ', ""), bang.is_some()),
                None => (String::new(), false),
            };
            let mut out = vec![n(
                "impl",
                vec![
                    a(if im.unsafety.is_some() { "unsafe" } else { "safe" }),
                    a(if neg { "neg" } else { "pos" }),
                    a(tr.clone()),
                    ty(&im.self_ty),
                    generics(&im.generics),
                    attrs_of(&im.attrs),
                ],
            )];
            let prefix = if tr.is_empty() {
                format!("{}{}::", owner, self_ty)
            } else {
                format!("{}<{} as {}>::", owner, self_ty, tr)
            };
            for it in &im.items {
                match it {
                    syn::ImplItem::Fn(f) => {
                        if is_test_cfg(&f.attrs) {
                            continue;
                        }
                        out.push(n(
                            "fn",
                            vec![
                                a(format!("{}{}", prefix, f.sig.ident)),
                                attrs_of(&f.attrs),
                                sig(&f.sig),
                                block(&f.block),
                            ],
                        ));
                    }
                    syn::ImplItem::Const(c) => out.push(n(
                        "const",
                        vec![a(format!("{}{}", prefix, c.ident)), ty(&c.ty), expr(&c.expr)],
                    )),
                    syn::ImplItem::Type(t) => out.push(n(
                        "assoctype",
                        vec![a(format!("{}{}", prefix, t.ident)), ty(&t.ty)],
                    )),
                    _ => {}
                }
            }
            out
        }
        Item::Trait(t) => {
            let prefix = format!("{}{}::", owner, t.ident);
            let mut out = vec![n(
                "trait",
                vec![
                    a(format!("{}{}", owner, t.ident)),
                    a(if t.unsafety.is_some() { "unsafe" } else { "safe" }),
                    n("supers", t.supertraits.iter().map(|b| a(toks(b))).collect()),
                ],
            )];
            for it in &t.items {
                if let syn::TraitItem::Fn(f) = it {
                    if let Some(b) = &f.default {
                        out.push(n(
                            "fn",
                            vec![
                                a(format!("{}{}", prefix, f.sig.ident)),
                                attrs_of(&f.attrs),
                                sig(&f.sig),
                                block(b),
                            ],
                        ));
                    } else {
                        out.push(n(
                            "fndecl",
                            vec![a(format!("{}{}", prefix, f.sig.ident)), sig(&f.sig)],
                        ));
                    }
                }
                if let syn::TraitItem::Const(c) = it {
                    out.push(n("constdecl", vec![a(format!("{}{}", prefix, c.ident)), ty(&c.ty)]));
                }
            }
            out
        }
        Item::Struct(s) => {
            if is_test_cfg(&s.attrs) {
                return vec![];
            }
            let fields = s
                .fields
                .iter()
                .enumerate()
                .map(|(k, f)| {
                    n(
                        "fielddef",
                        vec![
                            a(f.ident.as_ref().map(|i| i.to_string()).unwrap_or(k.to_string())),
                            ty(&f.ty),
                        ],
                    )
                })
                .collect();
            vec![n(
                "structdef",
                vec![
                    a(format!("{}{}", owner, s.ident)),
                    generics(&s.generics),
                    attrs_of(&s.attrs),
                    n("fields", fields),
                ],
            )]
        }
        Item::Const(c) => vec![n(
            "const",
            vec![a(format!("{}{}", owner, c.ident)), ty(&c.ty), expr(&c.expr)],
        )],
        Item::Static(s) => vec![n(
            "static",
            vec![a(format!("{}{}", owner, s.ident)), ty(&s.ty), expr(&s.expr)],
        )],
        Item::Type(t) => vec![n(
            "typealias",
            vec![a(format!("{}{}", owner, t.ident)), generics(&t.generics), ty(&t.ty)],
        )],
        Item::Mod(m) => {
            if is_test_cfg(&m.attrs) {
                return vec![];
            }
            match &m.content {
                Some((_, items)) => {
                    let prefix = format!("{}{}::", owner, m.ident);
                    items.iter().flat_map(|i| item(i, &prefix)).collect()
                }
                None => vec![n("moddecl", vec![a(m.ident.to_string()), attrs_of(&m.attrs)])],
            }
        }
        Item::Macro(m) => {
            // thread_local! { static ... } and friends: keep name + raw tokens; macro_rules bodies
            // (the crate's are all test generators) are recorded by name only.
            let name = toks(&m.mac.path).replace(' ', "");
            if name == "macro_rules" {
                vec![n(
                    "macrorules",
                    vec![a(m.ident.as_ref().map(|i| i.to_string()).unwrap_or_default())],
                )]
            } else {
                vec![n("itemmacro", vec![a(name), attrs_of(&m.attrs), a(m.mac.tokens.to_string())])]
            }
        }
        Item::Use(_) | Item::ExternCrate(_) => vec![],
        other => vec![n("otheritem", vec![a(toks(other))])],
    }
}

fn lean_str(s: &str) -> String {
    let mut o = String::with_capacity(s.len() + 2);
    o.push('"');
    for c in s.chars() {
        match c {
            '"' => o.push_str("\\\""),
            '\\' => o.push_str("\\\\"),
            '\n' => o.push_str("\\n"),
            '\t' => o.push_str("\\t"),
            c if (c as u32) < 0x20 => write!(o, "\\x{:02x}", c as u32).unwrap(),
            c => o.push(c),
        }
    }
    o.push('"');
    o
}

fn emit(s: &S, out: &mut String, depth: usize) {
    match s {
        S::A(x) => {
            out.push_str("(.a ");
            out.push_str(&lean_str(x));
            out.push(')');
        }
        S::L(v) => {
            let tag = match &v[0] {
                S::A(t) => t.clone(),
                _ => unreachable!(),
            };
            out.push_str("(nd ");
            out.push_str(&lean_str(&tag));
            out.push_str(" [");
            let kids: Vec<&S> = v[1..]
                .iter()
                .filter(|x| !matches!(x, S::L(w) if matches!(&w[0], S::A(t) if t == "pos")))
                .collect();
            for (k, x) in kids.into_iter().enumerate() {
                if k > 0 {
                    out.push_str(", ");
                }
                if matches!(x, S::L(_)) && depth < 3 {
                    out.push('\n');
                    for _ in 0..=depth {
                        out.push_str("  ");
                    }
                }
                emit(x, out, depth + 1);
            }
            out.push_str("])");
        }
    }
}

const ATOMIC_OPS: &[&str] = &[
    "load", "store", "swap", "compare_exchange", "compare_exchange_weak", "fetch_add", "fetch_sub",
    "fetch_or", "fetch_and", "fetch_update", "fetch_max", "fetch_min", "fetch_xor", "fetch_nand",
];
const ORDS: &[&str] = &["SeqCst", "AcqRel", "Acquire", "Release", "Relaxed"];

fn tag_of(s: &S) -> Option<&str> {
    match s {
        S::L(v) => match &v[0] {
            S::A(t) => Some(t.as_str()),
            _ => None,
        },
        _ => None,
    }
}

/// Pre-order walk mirroring `Extract.sites` on the Lean side: an `mcall` whose method is an atomic
/// operation and which has at least one ordering argument. Pushes (line, col, op).
fn walk_sites(s: &S, out: &mut Vec<(String, String, String)>) {
    if let S::L(v) = s {
        if tag_of(s) == Some("mcall") {
            let name = match &v[1] {
                S::A(x) => x.clone(),
                _ => String::new(),
            };
            let mut pos = None;
            let mut has_ord = false;
            let mut seen_recv = false;
            for k in &v[2..] {
                match tag_of(k) {
                    Some("pos") => {
                        if let S::L(p) = k {
                            if let (S::A(l), S::A(c)) = (&p[1], &p[2]) {
                                pos = Some((l.clone(), c.clone()));
                            }
                        }
                    }
                    Some("turbofish") => {}
                    _ => {
                        if !seen_recv {
                            seen_recv = true; // the receiver is not an argument
                        } else if tag_of(k) == Some("path") {
                            if let S::L(p) = k {
                                if let S::A(t) = &p[1] {
                                    if ORDS.iter().any(|o| t.ends_with(o)) {
                                        has_ord = true;
                                    }
                                }
                            }
                        }
                    }
                }
            }
            if has_ord && ATOMIC_OPS.contains(&name.as_str()) {
                let (l, c) = pos.unwrap_or_default();
                out.push((l, c, name));
            }
        }
        for k in &v[1..] {
            walk_sites(k, out);
        }
    }
}

fn collect(dir: &Path, files: &mut Vec<PathBuf>) {
    let mut ents: Vec<_> = std::fs::read_dir(dir).unwrap().map(|e| e.unwrap().path()).collect();
    ents.sort();
    for p in ents {
        if p.is_dir() {
            collect(&p, files);
        } else if p.extension().map(|e| e == "rs").unwrap_or(false) {
            files.push(p);
        }
    }
}

fn main() {
    let args: Vec<String> = std::env::args().collect();
    if args.len() != 3 {
        eprintln!("usage: rs2lean <crate-src-dir> <out-dir>");
        std::process::exit(2);
    }
    let src = PathBuf::from(&args[1]);
    let out = PathBuf::from(&args[2]);
    std::fs::create_dir_all(&out).unwrap();
    let mut files = vec![];
    collect(&src, &mut files);
    let mut index = String::new();
    let mut mods = vec![];
    let mut failures = vec![];
    let mut site_rows: Vec<String> = vec![];
    for f in &files {
        let rel = f.strip_prefix(&src).unwrap().to_string_lossy().to_string();
        if rel.starts_with("docs/") || rel == "verif.rs" {
            continue; // documentation-only modules
        }
        let text = std::fs::read_to_string(f).unwrap();
        let modname: String = rel
            .trim_end_matches(".rs")
            .split(|c| c == '/' || c == '_')
            .map(|p| {
                let mut c = p.chars();
                c.next().map(|h| h.to_uppercase().collect::<String>() + c.as_str()).unwrap_or_default()
            })
            .collect();
        let modname = format!("Src{}", modname);
        let mut body = String::new();
        match syn::parse_file(&text) {
            Ok(file) => {
                let items: Vec<S> = file.items.iter().flat_map(|i| item(i, "")).collect();
                writeln!(body, "import ArcSwapModel.Sexp\n/-! GENERATED by rs2lean from src/{} — do not edit. -/", rel).unwrap();
                writeln!(body, "namespace Generated.{}\nopen S\nset_option maxRecDepth 100000", modname).unwrap();
                for it in &items {
                    if tag_of(it) == Some("fn") {
                        if let S::L(v) = it {
                            let fname = match &v[1] {
                                S::A(x) => x.clone(),
                                _ => String::new(),
                            };
                            let mut ss = vec![];
                            walk_sites(&v[4], &mut ss);
                            for (k, (l, c, op)) in ss.into_iter().enumerate() {
                                site_rows.push(format!(
                                    "{{\"file\":{},\"line\":{},\"col\":{},\"fn\":{},\"idx\":{},\"op\":{}}}",
                                    lean_str(&rel), l, c, lean_str(&fname), k, lean_str(&op)
                                ));
                            }
                        }
                    }
                }
                let mut names = vec![];
                for (k, it) in items.iter().enumerate() {
                    let mut s = String::new();
                    emit(it, &mut s, 0);
                    writeln!(body, "def item{} : S :=\n  {}", k, s).unwrap();
                    names.push(format!("item{}", k));
                }
                writeln!(body, "def file : String := {}", lean_str(&rel)).unwrap();
                writeln!(body, "def items : List S := [{}]", names.join(", ")).unwrap();
                writeln!(body, "end Generated.{}", modname).unwrap();
            }
            Err(e) => {
                failures.push(format!("{}: {}", rel, e));
                writeln!(body, "import ArcSwapModel.Sexp\nnamespace Generated.{}\ndef file : String := {}\ndef items : List S := []\nend Generated.{}", modname, lean_str(&rel), modname).unwrap();
            }
        }
        let path = out.join(format!("{}.lean", modname));
        // only rewrite when changed, so that lake's cache stays valid for untouched files
        if std::fs::read_to_string(&path).map(|old| old != body).unwrap_or(true) {
            std::fs::write(&path, body).unwrap();
        }
        mods.push((modname, rel));
    }
    for (m, _) in &mods {
        writeln!(index, "import ArcSwapModel.Generated.{}", m).unwrap();
    }
    writeln!(index, "/-! GENERATED by rs2lean — do not edit. -/\nnamespace Generated").unwrap();
    writeln!(
        index,
        "def files : List (String × List S) := [{}]",
        mods.iter().map(|(m, _)| format!("({}.file, {}.items)", m, m)).collect::<Vec<_>>().join(", ")
    )
    .unwrap();
    writeln!(
        index,
        "def parseFailures : List String := [{}]",
        failures.iter().map(|f| lean_str(f)).collect::<Vec<_>>().join(", ")
    )
    .unwrap();
    writeln!(index, "end Generated").unwrap();
    let path = out.join("All.lean");
    if std::fs::read_to_string(&path).map(|old| old != index).unwrap_or(true) {
        std::fs::write(&path, index).unwrap();
    }
    // remove stale generated modules (a deleted source file)
    for e in std::fs::read_dir(&out).unwrap() {
        let p = e.unwrap().path();
        let stem = p.file_stem().unwrap().to_string_lossy().to_string();
        if stem != "All" && stem != "sites" && !mods.iter().any(|(m, _)| *m == stem) {
            let _ = std::fs::remove_file(p);
        }
    }
    std::fs::write(out.join("sites.json"), format!("[\n{}\n]\n", site_rows.join(",\n"))).unwrap();
    println!("rs2lean: {} files, {} parse failures", mods.len(), failures.len());
}
