#!/bin/bash
# Build the framework from files on disk only (offline).
set -e
cd "$(dirname "$0")"
export CARGO_NET_OFFLINE=true
(cd rs2lean && cargo build --release --offline 2>&1 | tail -1)
./rs2lean/target/release/rs2lean /repo/src ArcSwapModel/ArcSwapModel/Generated
(cd ArcSwapModel && lake build ArcSwapModel driver 2>&1 | tail -2)
[ -f harness/Cargo.lock ] || cp /repo/Cargo.lock harness/Cargo.lock
(cd harness && cargo build --offline 2>&1 | tail -1)
mkdir -p work evidence replays
