// D3 (C07): data race between a read through a borrowed guard and the pointee's destructor.
// Safe Rust only; FLAG is Relaxed throughout, so it sequences the threads in time without
// creating happens-before.  Run by /verif/miri/run.sh under Miri with many seeds.
use std::sync::atomic::{AtomicUsize, Ordering::Relaxed};
use std::sync::Arc;
use arc_swap::ArcSwap;

static FLAG: AtomicUsize = AtomicUsize::new(0);
fn wait_for(v: usize) { while FLAG.load(Relaxed) < v { std::thread::yield_now(); } }

#[test]
fn borrowed_read_vs_last_drop() {
    let p = Arc::new(42usize);
    let shared: &'static ArcSwap<usize> = Box::leak(Box::new(ArcSwap::new(Arc::clone(&p))));
    let extra = p;                                   // E's clone
    let r = std::thread::spawn(move || {             // R: borrow, read, return the debt
        wait_for(10);
        let g = shared.load();
        let v = **g;                                 // (1) non-atomic read
        drop(g);
        FLAG.store(11, Relaxed);
        wait_for(13);                                // stay alive: no cooldown hand-over
        v
    });
    let d = std::thread::spawn(move || {             // D: writer, not the last owner
        drop(shared.load());                         // take a node before R does anything
        FLAG.store(10, Relaxed);
        wait_for(11);
        shared.store(Arc::new(0));                   // finds R's slot already empty
        FLAG.store(12, Relaxed);
    });
    let e = std::thread::spawn(move || {             // E: drops the last reference
        wait_for(12);
        drop(extra);                                 // (2) destructor: races with (1)
        FLAG.store(13, Relaxed);
    });
    e.join().unwrap(); d.join().unwrap();
    assert_eq!(r.join().unwrap(), 42);
}
