#!/bin/bash
# usage: run.sh <test-file.rs> <seeds e.g. 0..24> [repo-dir]
# Copies the crate to a scratch directory (never touches /repo), adds the test, runs Miri.
set -u
T="$1"; SEEDS="$2"; REPO="${3:-/repo}"
S=$(mktemp -d /tmp/miri_scratch.XXXXXX)
trap 'rm -rf "$S"' EXIT
rsync -a --exclude target --exclude .git "$REPO"/ "$S"/
cp "$T" "$S/tests/$(basename "$T")"
cd "$S"
NAME=$(basename "$T" .rs)
MIRIFLAGS="-Zmiri-ignore-leaks -Zmiri-many-seeds=$SEEDS" CARGO_NET_OFFLINE=true \
  cargo +nightly miri test --offline --test "$NAME" 2>&1 | tail -40
exit ${PIPESTATUS[0]}
