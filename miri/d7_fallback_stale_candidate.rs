// D7 (C01/C07, weak memory): use-after-free on the fallback read path under the C11 memory model.
// The reader holds 8 guards of an unrelated ArcSwap (fast slots full), so every load goes through
// HybridProtection::fallback, whose candidate read `storage.load(Acquire)` is not SeqCst: after the
// reader's SeqCst swap on `control` it may still return a pointer older than a writer's SeqCst swap
// that precedes the control swap in the SC order; that writer has already finished its walk (saw
// control IDLE and no debt), so the stale candidate is confirmed and then inc'ed after it was freed.
// Reported by an independent sub-agent while seeding a C07 fault; reproduced here.
// Run: miri/run.sh miri/d7_fallback_stale_candidate.rs 0..20
use std::sync::Arc;
use arc_swap::ArcSwap;

#[test]
fn fallback_candidate_is_not_stale() {
    let other: &'static ArcSwap<usize> = Box::leak(Box::new(ArcSwap::from_pointee(0)));
    let shared: &'static ArcSwap<[usize; 4]> = Box::leak(Box::new(ArcSwap::from_pointee([0; 4])));
    let r = std::thread::spawn(move || {
        let _held: Vec<_> = (0..8).map(|_| other.load()).collect();
        let mut last = 0;
        for _ in 0..40 {
            let g = shared.load();
            assert!(g[0] == g[3]);
            last = g[0];
            std::thread::yield_now();
        }
        last
    });
    let w = std::thread::spawn(move || {
        for i in 1..=12usize {
            shared.store(Arc::new([i; 4]));
            std::thread::yield_now();
        }
    });
    w.join().unwrap();
    r.join().unwrap();
}
