// Probe (C01, weak memory): the fast path relies on the writer *seeing* the reader's debt; the writer
// reads the slots through Debt::pay's compare_exchange, whose failing case is a plain (non-SeqCst)
// load.  Does the C11 model let it miss a debt published by the reader's SeqCst swap?
// Run: miri/run.sh miri/d8_fast_path_stale_slot.rs 0..20
use std::sync::Arc;
use arc_swap::ArcSwap;

#[test]
fn fast_path_debt_is_seen() {
    let shared: &'static ArcSwap<[usize; 4]> = Box::leak(Box::new(ArcSwap::from_pointee([0; 4])));
    let r = std::thread::spawn(move || {
        let mut last = 0;
        for _ in 0..60 {
            let g = shared.load();
            assert!(g[0] == g[3]);
            last = g[0];
            std::thread::yield_now();
        }
        last
    });
    let w = std::thread::spawn(move || {
        for i in 1..=16usize {
            shared.store(Arc::new([i; 4]));
            std::thread::yield_now();
        }
    });
    w.join().unwrap();
    r.join().unwrap();
}
