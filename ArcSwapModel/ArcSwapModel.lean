import ArcSwapModel.Sexp
import ArcSwapModel.Generated.All
