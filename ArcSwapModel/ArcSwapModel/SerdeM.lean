/-!
# `SerdeM`: the serde data model restricted to the shapes the property quantifies over, and the two
impl bodies of `src/serde.rs`

`Serialize for ArcSwapAny` is `self.load().serialize(serializer)`: the guard dereferences to the
stored pointer, and (serde's `rc` feature) a pointer serializes as its target, `Option` as
`none`/`some`.  `Deserialize` is `Ok(Self::from(T::deserialize(deserializer)?))`.
-/

namespace SerdeM

inductive Val where
  | u64 (n : Nat)
  | str (s : String)
  | unit
  | none
  | some (v : Val)
  | pair (a b : Val)          -- a 2-tuple / a struct of two fields; nesting gives any arity
  deriving DecidableEq, Repr, Inhabited

inductive Tok where
  | u64 (n : Nat) | str (s : String) | unit | none | some | open_ | close
  deriving DecidableEq, Repr, Inhabited

def ser : Val → List Tok
  | .u64 n => [.u64 n]
  | .str s => [.str s]
  | .unit => [.unit]
  | .none => [.none]
  | .some v => .some :: ser v
  | .pair a b => .open_ :: (ser a ++ ser b ++ [.close])

/-- a deserializer for the same grammar (fuel = an upper bound on the number of tokens) -/
def de : Nat → List Tok → Option (Val × List Tok)
  | 0, _ => Option.none
  | _ + 1, [] => Option.none
  | fuel + 1, t :: ts =>
    match t with
    | .u64 n => Option.some (.u64 n, ts)
    | .str s => Option.some (.str s, ts)
    | .unit => Option.some (.unit, ts)
    | .none => Option.some (.none, ts)
    | .some => (de fuel ts).map fun (v, r) => (.some v, r)
    | .open_ =>
      match de fuel ts with
      | Option.some (a, r1) =>
        match de fuel r1 with
        | Option.some (b, .close :: r2) => Option.some (.pair a b, r2)
        | _ => Option.none
      | Option.none => Option.none
    | .close => Option.none

/-- A container, as far as serde sees it: the value currently stored and its strong count. -/
structure Container where
  current : Val
  strong : Nat
  deriving DecidableEq, Repr

/-- `impl Serialize for ArcSwapAny`: `self.load().serialize(serializer)` — the load returns the
    current value (C03; for a quiescent container exactly it), the guard is dropped afterwards. -/
def serContainer (c : Container) : List Tok × Container := (ser c.current, c)

/-- `impl Deserialize for ArcSwapAny`: `Ok(Self::from(T::deserialize(deserializer)?))` — one fresh
    pointer (a single reference), moved into the new container. -/
def deContainer (fuel : Nat) (ts : List Tok) : Option (Container × List Tok) :=
  (de fuel ts).map fun (v, r) => ({ current := v, strong := 1 }, r)

/-! JSON rendering (what `serde_json` prints for these shapes), for the correspondence. -/

def jsonStr (s : String) : String :=
  "\"" ++ s ++ "\""      -- the generator only produces characters that need no escaping

def toJson : Val → String
  | .u64 n => toString n
  | .str s => jsonStr s
  | .unit => "null"
  | .none => "null"
  | .some v => toJson v
  | .pair a b => "[" ++ toJson a ++ "," ++ toJson b ++ "]"

end SerdeM

namespace SerdeM
/-- parser of the harness's prefix notation (`u 5`, `s abc`, `unit`, `none`, `some …`, `pair … …`) -/
def parsePrefix : Nat → List String → Option (Val × List String)
  | 0, _ => Option.none
  | _ + 1, [] => Option.none
  | fuel + 1, t :: ts =>
    match t, ts with
    | "u", n :: r => n.toNat?.map fun k => (Val.u64 k, r)
    | "s", x :: r => Option.some (Val.str (if x = "\"\"" then "" else x), r)
    | "unit", r => Option.some (Val.unit, r)
    | "none", r => Option.some (Val.none, r)
    | "some", r => (parsePrefix fuel r).map fun (v, r') => (Val.some v, r')
    | "pair", r =>
      match parsePrefix fuel r with
      | Option.some (a, r1) => (parsePrefix fuel r1).map fun (b, r2) => (Val.pair a b, r2)
      | Option.none => Option.none
    | _, _ => Option.none

def tokStr : Tok → String
  | .u64 n => s!"U64({n})" | .str s => s!"Str({s})" | .unit => "Unit" | .none => "None"
  | .some => "Some" | .open_ => "Tuple(" | .close => ")"

/-- one output line per `case` line of the harness: the JSON the model predicts, the token
    stream, and whether the model's deserializer inverts it -/
def caseLine (line : String) : String :=
  match (line.splitOn "|").head? with
  | Option.some h =>
    let toks := ((h.drop 5).toString.splitOn " ").filter (· ≠ "")
    match parsePrefix 64 toks with
    | Option.some (v, []) =>
      let ts := ser v
      let rt := de ts.length ts == Option.some (v, [])
      s!"case {toJson v}|{" ".intercalate (ts.map tokStr)}|{if rt then 1 else 0}"
    | _ => "case <unparsed>"
  | Option.none => "case <unparsed>"
end SerdeM
