/-!
# S-expressions: the target language of the translator `rs2lean`

`rs2lean` parses every `src/**/*.rs` of the crate and prints each non-test item as a value of
`S`.  All further extraction (constants, atomic call sites and their orderings, skeletons, panic
sites, struct field types, impl headers, bodies of small trait impls) is done by the total,
kernel-reducible functions below and in `Extract.lean`, so that an obligation such as
`Extract.orderingOf … = some .seqCst` is re-elaborated against the current source on every run.

`S` is deliberately *not* a nested inductive (`List S` inside `S`), so that `DecidableEq` can be
derived and `decide` works on obligations that compare trees.
-/

inductive S where
  | a (s : String)
  | nil
  | cons (h t : S)
  | n (tag : String) (kids : S)
  deriving DecidableEq, Repr, Inhabited

namespace S

def ofList : List S → S
  | [] => nil
  | x :: xs => cons x (ofList xs)

/-- Node constructor used by the generated files. -/
def nd (tag : String) (kids : List S) : S := n tag (ofList kids)

def toList : S → List S
  | cons h t => h :: toList t
  | _ => []

@[simp] theorem toList_ofList (l : List S) : toList (ofList l) = l := by
  induction l with
  | nil => rfl
  | cons x xs ih => simp [ofList, toList, ih]

def tag? : S → Option String
  | n t _ => some t
  | _ => none

def kids : S → List S
  | n _ k => toList k
  | _ => []

def atom? : S → Option String
  | a s => some s
  | _ => none

def isTag (s : S) (t : String) : Bool :=
  match s with
  | n t' _ => t' == t
  | _ => false

/-- `k`-th child of a node. -/
def kid (s : S) (k : Nat) : S := (kids s).getD k nil

/-- Pre-order traversal collecting `f x` for every sub-tree `x` (nodes, atoms, list cells are
    transparent). Structural, so the kernel can evaluate it. -/
def collect {α : Type} (f : S → Option α) : S → List α
  | a s => (f (a s)).toList
  | nil => []
  | cons h t => collect f h ++ collect f t
  | n tg k => (f (n tg k)).toList ++ collect f k

/-- All atoms of a tree, in order (a canonical "token text" of the tree). -/
def atoms : S → List String
  | a s => [s]
  | nil => []
  | cons h t => atoms h ++ atoms t
  | n tg k => tg :: atoms k

def size : S → Nat
  | a _ => 1
  | nil => 0
  | cons h t => size h + size t
  | n _ k => 1 + size k

end S
