import ArcSwapModel.Spec

/-! Line protocol for `Spec`: one `ops` line (operations separated by `;`) in, per operation the
lines `begin <op>`, `end <result>`, `cnt <p=owners ...>` out. -/

namespace Spec

def regIdx (s : String) : Option Nat := (s.drop 1).toNat?

def parseOp (s : String) : Option Op :=
  match (s.trimAscii.toString.splitOn " ").filter (· ≠ "") with
  | ["new", h, v] => do pure (.new (← regIdx h) (← v.toNat?))
  | ["nullh", h] => do pure (.nullh (← regIdx h))
  | ["cloneh", h, h2] => do pure (.cloneh (← regIdx h) (← regIdx h2))
  | ["droph", h] => do pure (.droph (← regIdx h))
  | ["mk", c, h] => do pure (.mk (← regIdx c) (← regIdx h))
  | ["load", c, g] => do pure (.load (← regIdx c) (← regIdx g))
  | ["loadfull", c, h] => do pure (.loadfull (← regIdx c) (← regIdx h))
  | ["dropg", g] => do pure (.dropg (← regIdx g))
  | ["ginto", g, h] => do pure (.ginto (← regIdx g) (← regIdx h))
  | ["gfrom", h, g] => do pure (.gfrom (← regIdx h) (← regIdx g))
  | ["gderef", g] => do pure (.gderef (← regIdx g))
  | ["store", c, h] => do pure (.store (← regIdx c) (← regIdx h))
  | ["swap", c, h, o] => do pure (.swap (← regIdx c) (← regIdx h) (← regIdx o))
  | ["cas", c, cur, n, g] => do
    let cr ← if cur = "null" then some Cur.null
             else if cur.startsWith "h" then (regIdx cur).map Cur.h
             else (regIdx cur).map Cur.g
    pure (.cas (← regIdx c) cr (← regIdx n) (← regIdx g))
  | ["rcu", c, o] => do pure (.rcu (← regIdx c) (← regIdx o))
  | ["cinto", c, h] => do pure (.cinto (← regIdx c) (← regIdx h))
  | ["dropc", c] => do pure (.dropc (← regIdx c))
  | ["setgen", v] => do pure (.setgen (← v.toNat?))
  | _ => none

def runLine (line : String) : List String :=
  let ops := (line.splitOn ";").filterMap fun x =>
    let x := x.trimAscii.toString
    if x = "" then none else some x
  let (_, out) := ops.foldl (fun (acc : State × List String) (x : String) =>
    match parseOp x with
    | none => (acc.1, acc.2 ++ [s!"begin {x}", "end bad-op"])
    | some o =>
      let (s', r) := step acc.1 o
      (s', acc.2 ++ [s!"begin {x}", s!"end {r}", s!"cnt {counts s' 64}"])) (({} : State), [])
  out

end Spec
