import ArcSwapModel.Extract

/-!
# Constants of the crate, read from the generated trees

The machine is *defined in terms of* these; the obligations at the end are re-checked by the
kernel against the current source on every run. A changed constant either still satisfies what
the proofs need (then nothing breaks) or an obligation here fails.
-/

namespace Consts
open Extract

def slotCnt : Nat := (constNat "debt/fast.rs" "DEBT_SLOT_CNT").getD 0
def debtNone : Nat := (constNat "debt/mod.rs" "Debt::NONE").getD 0
def replTag : Nat := (constNat "debt/helping.rs" "REPLACEMENT_TAG").getD 0
def genTag : Nat := (constNat "debt/helping.rs" "GEN_TAG").getD 0
def tagMask : Nat := (constNat "debt/helping.rs" "TAG_MASK").getD 0
def idle : Nat := (constNat "debt/helping.rs" "IDLE").getD 1
def nodeUnused : Nat := (constNat "debt/list.rs" "NODE_UNUSED").getD 99
def nodeUsed : Nat := (constNat "debt/list.rs" "NODE_USED").getD 99
def nodeCooldown : Nat := (constNat "debt/list.rs" "NODE_COOLDOWN").getD 99
def nodeChecking : Nat := (constNat "debt/list.rs" "NODE_CHECKING").getD 99

def useFastDefault : Bool :=
  (constBool "strategy/hybrid.rs" "<DefaultConfig as Config>::USE_FAST").getD false
def useFastNoFast : Bool :=
  (constBool "strategy/test_strategies.rs" "<NoFastSlots as Config>::USE_FAST").getD true

/-- literal argument of the first `.wrapping_add(<lit>)` in a function body -/
def wrappingAddLit (file fn : String) : Option Nat := do
  let b ← fnBody file fn
  let hits := b.collect fun s =>
    if s.isTag "mcall" && (s.kid 0).atom? == some "wrapping_add" then
      let arg := s.kid 2
      if arg.isTag "lit" then parseNatLit ((arg.kid 0).atom?.getD "") else none
    else none
  hits.head?

/-- the generation increment -/
def genStep : Nat := (wrappingAddLit "debt/helping.rs" "Slots::get_debt").getD 0
/-- the increment `wraps_next` anticipates must be the same one -/
def genStepPeek : Nat := (wrappingAddLit "debt/helping.rs" "Local::wraps_next").getD 0

/-- alignment of `Handover` (`#[repr(align(N))]`) -/
def handoverAlign : Nat :=
  match findItem "structdef" "debt/helping.rs" "Handover" with
  | some s =>
    let attrs := (s.kid 2).kids.filterMap S.atom?
    match attrs.filterMap (fun a =>
        match a.toList with
        | 'r'::'e'::'p'::'r'::'('::'a'::'l'::'i'::'g'::'n'::'('::rest => parseDigits 10 rest 0 false
        | _ => none) with
    | n :: _ => n
    | [] => 1
  | none => 1

/-! ## Obligations on the constants (what the model and the proofs rely on) -/

/-- The three kinds of `control` content are told apart by their two low bits, a generation never
    carries tag bits of its own, and an envelope address has them free. -/
theorem tags_ok :
    idle = 0 ∧ genTag ≠ replTag ∧ genTag ≠ 0 ∧ replTag ≠ 0 ∧
    genTag &&& tagMask = genTag ∧ replTag &&& tagMask = replTag ∧
    genStep &&& tagMask = 0 ∧ 0 < genStep ∧ genStep = genStepPeek ∧
    handoverAlign &&& tagMask = 0 ∧ tagMask < handoverAlign + 1 := by decide

/-- `Debt::NONE` is odd and not the null pointer, so it is neither null nor the address of a
    counted allocation (which is at least 2-aligned). -/
theorem debtNone_ok : debtNone % 2 = 1 ∧ debtNone ≠ 0 ∧ debtNone < 4096 := by decide

theorem node_states_distinct :
    nodeUnused ≠ nodeUsed ∧ nodeUsed ≠ nodeCooldown ∧ nodeUnused ≠ nodeCooldown := by decide

/-- the transient state of `check_cooldown` is none of the others -/
theorem node_checking_distinct :
    nodeChecking ≠ nodeUsed ∧ nodeChecking ≠ nodeUnused ∧ nodeChecking ≠ nodeCooldown := by decide

theorem slotCnt_pos : 0 < slotCnt := by decide

theorem strategies : useFastDefault = true ∧ useFastNoFast = false := by decide

end Consts
