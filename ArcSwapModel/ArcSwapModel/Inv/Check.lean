import ArcSwapModel.Inv.ListInv

/-!
# `check_cooldown` holds the node it checks

`Node::check_cooldown` takes a node out of the cooldown state (`NODE_COOLDOWN → NODE_CHECKING`),
looks at `active_writers`, and puts it to `NODE_UNUSED` or back to `NODE_COOLDOWN`.  `CheckInv`:
in every reachable state, a node whose check is in progress is in the checking state and is being
checked by exactly one thread — nobody claims it, nobody sends it to cooldown, nobody else checks
it.  So the exchange at the end of the check always finds `NODE_CHECKING` (the `debug_assert!`
there never fires), and between the look at the writers and the release the node cannot go through
another round of ownership (the defect D12).
-/

namespace M
open Consts

/-- `in_use` words are what they were -/
def USame (s s' : Shared) : Prop := ∀ m, (s'.nodes m).inUse = (s.nodes m).inUse

theorem USame.refl (s : Shared) : USame s s := fun _ => rfl
theorem USame.trans {s s' s'' : Shared} (h1 : USame s s') (h2 : USame s' s'') : USame s s'' :=
  fun m => (h2 m).trans (h1 m)
theorem USame.setNode (s : Shared) (n : Nat) (f : Node → Node) (hf : ∀ nd, (f nd).inUse = nd.inUse) :
    USame s (s.setNode n f) := fun m => setNode_inUse s n m f hf
theorem USame.setFault (s : Shared) (f : Fault) : USame s (s.setFault f) := fun _ => by simp
theorem USame.incObj (s : Shared) (a : Nat) : USame s (incObj s a).1 := fun _ => by simp
theorem USame.decObj (s : Shared) (a : Nat) : USame s (decObj s a).1 := fun _ => by simp
theorem USame.alloc (s : Shared) (v : Nat) : USame s (alloc s v).1 := fun _ => rfl
theorem USame.dbg (s : Shared) (n : Nat) (site : String) : USame s (dbgInUse s n site) := by
  unfold dbgInUse; split
  · exact USame.refl s
  · exact USame.setFault s _
theorem USame.ite_setFault (s : Shared) (c : Prop) [Decidable c] (f : Fault) :
    USame s (if c then s else s.setFault f) := by
  split
  · exact USame.refl s
  · exact USame.setFault s _
theorem USame.ite_setFault_of {s x : Shared} (h : USame s x) (c : Prop) [Decidable c] (f : Fault) :
    USame s (if c then x else x.setFault f) := by
  split
  · exact h
  · exact h.trans (USame.setFault x _)

macro "usame" : tactic =>
  `(tactic| (first
      | exact USame.refl _
      | (refine USame.setNode _ _ _ ?_; intro _; rfl)
      | (unfold USame; intro m; dsimp only; refine setNode_inUse _ _ _ _ ?_; intro _; rfl)
      | exact USame.setFault _ _
      | exact USame.incObj _ _
      | exact USame.decObj _ _
      | exact USame.alloc _ _
      | exact USame.dbg _ _ _
      | exact USame.ite_setFault _ _ _
      | (refine USame.ite_setFault_of ?_ _ _; refine USame.setNode _ _ _ ?_; intro _; rfl)
      | (refine USame.trans ?_ (USame.setFault _ _); refine USame.setNode _ _ _ ?_; intro _; rfl)
      | (refine USame.trans (USame.setFault _ _) ?_; exact USame.alloc _ _)
      | exact fun _ => rfl
      | exact fun _ => by simp [Shared.writeCell]))

theorem stepGD_usame (s : Shared) (gd : GD) : USame s (stepGD s gd).1 := by
  cases gd <;> simp only [stepGD] <;> (repeat' split) <;> usame
theorem stepGI_usame (s : Shared) (gi : GI) : USame s (stepGI s gi).1 := by
  cases gi <;> simp only [stepGI] <;> (repeat' split) <;> usame

/-- the node a `Node::get` in progress holds for its check -/
def NG.chk : NG → Option Nat
  | .cc1 n | .cc2 n _ => some n
  | _ => none

/-- how one step treats nodes under check, seen from the stepping thread (`c`: the node it holds) -/
structure ChkStep (s : Shared) (c : Option Nat) (s' : Shared) (c' : Option Nat) : Prop where
  /-- a node somebody else is checking is left alone -/
  others : ∀ m, (s.nodes m).inUse = nodeChecking → c ≠ some m → (s'.nodes m).inUse = nodeChecking
  /-- the node held afterwards was held before and is untouched, or was just taken out of a state
      other than checking -/
  mine : ∀ m, c' = some m →
    (c = some m ∧ (s'.nodes m).inUse = (s.nodes m).inUse) ∨
    (c = none ∧ (s.nodes m).inUse ≠ nodeChecking ∧ (s'.nodes m).inUse = nodeChecking)
  /-- it holds one node at a time -/
  one : ∀ m, c = some m → c' = none ∨ c' = some m

theorem ChkStep.of_same {s s' : Shared} (h : USame s s') : ChkStep s none s' none :=
  ⟨fun m hm _ => by rw [h m]; exact hm, (fun m hm => by cases hm), (fun m hm => by cases hm)⟩

theorem ChkStep.cast {s s' : Shared} {p q p2 q2 : Option Nat} (h : ChkStep s p s' q) (hp : p = p2) (hq : q = q2) :
    ChkStep s p2 s' q2 := by subst hp hq; exact h

/-- `Node::get`; a fresh node lands beyond the table, where everything looks `USED` -/
theorem stepNG_chk (s : Shared) (b : Bool) (ng : NG) (hbeyond : (s.nodes s.nNodes).inUse = nodeUsed) :
    ChkStep s ng.chk (stepNG s b ng).1 (stepNG s b ng).2.1.chk := by
  have hd := Consts.node_checking_distinct
  cases ng with
  | trav => simp only [stepNG]; exact (ChkStep.of_same (USame.refl s)).cast rfl (by cases s.head <;> rfl)
  | cc0 n =>
    simp only [stepNG]; split
    · rename_i h
      refine ⟨fun m hm _ => ?_, fun m hm => ?_, (fun m hm => by cases hm)⟩
      · by_cases e : m = n
        · subst e; simp
        · simpa [e] using hm
      · simp only [NG.chk, Option.some.injEq] at hm; subst hm
        exact Or.inr ⟨rfl, by rw [h]; exact hd.2.2.symm, by simp⟩
    · exact ChkStep.of_same (USame.refl s)
  | cc1 n =>
    simp only [stepNG]
    refine ⟨fun m hm _ => hm, fun m hm => ?_, fun m hm => Or.inr (by simpa [NG.chk] using hm)⟩
    simp only [NG.chk, Option.some.injEq] at hm; subst hm
    exact Or.inl ⟨rfl, rfl⟩
  | cc2 n idle =>
    simp only [stepNG]; split
    · refine ⟨fun m hm hne => ?_, (fun m hm => by cases hm), (fun m hm => Or.inl rfl)⟩
      have e : m ≠ n := fun e => hne (by rw [e]; rfl)
      simpa [e] using hm
    · refine ⟨fun m hm _ => by simpa using hm, (fun m hm => by cases hm), (fun m hm => Or.inl rfl)⟩
  | claim n =>
    simp only [stepNG]; split
    · rename_i h
      refine (ChkStep.mk (fun m hm _ => ?_) (fun m hm => by cases hm) (fun m hm => by cases hm))
      have e : m ≠ n := fun e => by subst e; rw [h] at hm; exact hd.2.1 hm.symm
      simpa [e] using hm
    · refine (ChkStep.of_same (USame.refl s)).cast rfl ?_
      simp only [NG.afterNode]; cases (s.nodes n).next <;> rfl
  | allocLoad => simp only [stepNG]; exact ChkStep.of_same (USame.refl s)
  | allocCas me h =>
    cases me with
    | some k =>
      simp only [stepNG]
      split <;> exact ChkStep.of_same (fun m => by by_cases e : m = k <;> simp [e])
    | none =>
      simp only [stepNG]
      have key : ∀ m, (s.nodes m).inUse = nodeChecking → m ≠ s.nNodes := fun m hm e => by
        subst e; rw [hbeyond] at hm; exact hd.1 hm.symm
      split <;>
        exact ⟨fun m hm _ => by simpa [Shared.setNode, upd, key m hm] using hm, (fun m hm => by cases hm), (fun m hm => by cases hm)⟩
  | done n => simp only [stepNG]; exact ChkStep.of_same (USame.refl s)

/-- `start_cooldown`: the node sent to cooldown is the caller's own, which is `USED` -/
theorem stepCD_chk (s : Shared) (cd : CD) (hown : ∀ n, ownsCD cd = some n → (s.nodes n).inUse = nodeUsed) :
    ChkStep s none (stepCD s cd).1 none := by
  have hd := Consts.node_checking_distinct
  cases cd with
  | swap n =>
    simp only [stepCD]
    have hu := hown n rfl
    refine ⟨fun m hm _ => ?_, (fun m hm => by cases hm), (fun m hm => by cases hm)⟩
    have e : m ≠ n := fun e => by subst e; rw [hu] at hm; exact hd.1 hm.symm
    rw [ite_setFault_nodes]; simpa [e] using hm
  | _ => simp only [stepCD] <;> exact ChkStep.of_same (by usame)

/-! ## Lifting through the sub-machines -/

def LP.chk : LP → Option Nat
  | .get ng | .reget ng => ng.chk
  | _ => none
def PP.chk : PP → Option Nat
  | .get ng => ng.chk
  | .hload _ ld => ld.chk
  | _ => none
def CP.chk : CP → Option Nat
  | .load ld => ld.chk
  | .pay _ pp => pp.chk
  | _ => none
def RP.chk : RP → Option Nat
  | .load ld => ld.chk
  | .cas _ _ cp => cp.chk
  | _ => none
def OpSt.chk : OpSt → Option Nat
  | .load _ _ ld | .loadFull _ _ ld => ld.chk
  | .swapPay _ _ _ _ pp | .cinto _ _ _ pp | .dropc _ _ pp => pp.chk
  | .cas _ _ _ _ _ _ cp => cp.chk
  | .rcu _ _ _ rp => rp.chk
  | _ => none

theorem stepLP_chk (cfg : Cfg) (c : Nat) (s : Shared) (l : Locals) (b : Bool) (lp : LP)
    (hbeyond : (s.nodes s.nNodes).inUse = nodeUsed)
    (hown : ∀ n, ownsLP l lp = some n → (s.nodes n).inUse = nodeUsed) :
    ChkStep s lp.chk (stepLP cfg c s l b lp).1 (stepLP cfg c s l b lp).2.2.1.chk := by
  cases lp with
  | get ng =>
    have h1 := stepNG_chk s b ng hbeyond
    simp only [stepLP]; split
    · rename_i s' n evs heq; simp only [heq] at h1
      exact h1.cast rfl (by dsimp only; split <;> rfl)
    · rename_i s' ng' evs hne heq; simp only [heq] at h1; exact h1
  | reget ng =>
    have h1 := stepNG_chk s b ng hbeyond
    simp only [stepLP]; split
    · rename_i s' n evs heq; simp only [heq] at h1; exact h1
    · rename_i s' ng' evs hne heq; simp only [heq] at h1; exact h1
  | cool cd =>
    have h1 := stepCD_chk s cd hown
    simp only [stepLP]; split
    · rename_i s' evs heq; simp only [heq] at h1; exact h1
    · rename_i s' cd' evs hne heq; simp only [heq] at h1; exact h1
  | start => simp only [stepLP]; (repeat' split) <;> exact ChkStep.of_same (USame.refl s)
  | _ =>
    simp only [stepLP]
    (repeat' split) <;> (refine ChkStep.of_same ?_; usame)

theorem PP.dispatch_chk (h : HL) : (PP.dispatch h).chk = none := by
  simp only [PP.dispatch]; split <;> rfl
theorem PP.nextSlot_chk (n j : Nat) : (PP.nextSlot n j).chk = none := by
  simp only [PP.nextSlot]; split <;> rfl

theorem stepPP_chk (cfg : Cfg) (p c : Nat) (s : Shared) (l : Locals) (b : Bool) (pp : PP)
    (hbeyond : (s.nodes s.nNodes).inUse = nodeUsed)
    (hown : ∀ n, ownsPP l pp = some n → (s.nodes n).inUse = nodeUsed) :
    ChkStep s pp.chk (stepPP cfg p c s l b pp).1 (stepPP cfg p c s l b pp).2.2.1.chk := by
  cases pp with
  | get ng =>
    have h1 := stepNG_chk s b ng hbeyond
    simp only [stepPP]; split
    · rename_i s' n evs heq; simp only [heq] at h1
      exact h1.cast rfl (by dsimp only; split <;> rfl)
    · rename_i s' ng' evs hne heq; simp only [heq] at h1; exact h1
  | hload x ld =>
    have h1 := stepLP_chk cfg c s l b ld hbeyond hown
    simp only [stepPP]; split
    · rename_i s' l' r d evs heq; simp only [heq] at h1
      exact h1.cast rfl (by dsimp only; split <;> rfl)
    · rename_i s' l' ld' evs hne heq; simp only [heq] at h1; exact h1
  | hinto x r gi =>
    have h1 := stepGI_usame s gi
    simp only [stepPP]; split
    · rename_i s' evs heq; simp only [heq] at h1; exact ChkStep.of_same h1
    · rename_i s' gi' evs hne heq; simp only [heq] at h1; exact ChkStep.of_same h1
  | h2 x =>
    simp only [stepPP]
    by_cases ho : x.own = x.who
    · simp only [ho, ↓reduceIte]
      refine (ChkStep.of_same (USame.setFault _ _)).cast rfl ?_
      (repeat' split) <;> rfl
    · simp only [ho, ↓reduceIte]
      refine (ChkStep.of_same (USame.refl _)).cast rfl ?_
      (repeat' split) <;> rfl
  | _ =>
    simp only [stepPP]
    (repeat' split) <;>
      (refine (ChkStep.of_same ?_).cast rfl ?_
       · usame
       · first | rfl | exact (PP.dispatch_chk _).symm | exact (PP.nextSlot_chk _ _).symm
               | (show none = (PP.nextSlot _ _).chk; exact (PP.nextSlot_chk _ _).symm)
               | (show none = (PP.dispatch _).chk; exact (PP.dispatch_chk _).symm) | (split <;> rfl))

theorem stepCP_chk (cfg : Cfg) (c cur new : Nat) (s : Shared) (l : Locals) (b : Bool) (cp : CP)
    (hbeyond : (s.nodes s.nNodes).inUse = nodeUsed)
    (hown : ∀ n, ownsCP l cp = some n → (s.nodes n).inUse = nodeUsed) :
    ChkStep s cp.chk (stepCP cfg c cur new s l b cp).1 (stepCP cfg c cur new s l b cp).2.2.1.chk := by
  cases cp with
  | load ld =>
    have h1 := stepLP_chk cfg c s l b ld hbeyond hown
    simp only [stepCP]; split
    · rename_i s' l' r d evs heq; simp only [heq] at h1
      exact h1.cast rfl (by dsimp only; (repeat' split) <;> rfl)
    · rename_i s' l' ld' evs hne heq; simp only [heq] at h1; exact h1
  | pay old pp =>
    have h1 := stepPP_chk cfg old.ptr c s l b pp hbeyond hown
    simp only [stepCP]; split
    · rename_i s' l' evs heq; simp only [heq] at h1
      exact h1.cast rfl (by dsimp only; (repeat' split) <;> rfl)
    · rename_i s' l' pp' evs hne heq; simp only [heq] at h1; exact h1
  | dropOld gd =>
    have h1 := stepGD_usame s gd
    simp only [stepCP]; split
    · rename_i s' evs heq; simp only [heq] at h1; exact ChkStep.of_same h1
    · rename_i s' gd' evs hne heq; simp only [heq] at h1; exact ChkStep.of_same h1
  | _ =>
    simp only [stepCP]
    (repeat' split) <;>
      (refine (ChkStep.of_same ?_).cast rfl ?_
       · usame
       · first | rfl | (split <;> rfl))

theorem stepRP_chk (cfg : Cfg) (c : Nat) (s : Shared) (l : Locals) (b : Bool) (tries : Nat) (rp : RP)
    (hbeyond : (s.nodes s.nNodes).inUse = nodeUsed)
    (hown : ∀ n, ownsRP l rp = some n → (s.nodes n).inUse = nodeUsed) :
    ChkStep s rp.chk (stepRP cfg c s l b tries rp).1 (stepRP cfg c s l b tries rp).2.2.1.chk := by
  cases rp with
  | load ld =>
    have h1 := stepLP_chk cfg c s l b ld hbeyond hown
    simp only [stepRP]; split
    · rename_i s' l' r d evs heq; simp only [heq] at h1; exact h1
    · rename_i s' l' ld' evs hne heq; simp only [heq] at h1; exact h1
  | attempt cur =>
    simp only [stepRP]
    refine ChkStep.of_same ?_
    split
    · exact (USame.setFault _ _).trans (USame.alloc _ _)
    · exact USame.alloc _ _
  | cas cur x cp =>
    have h1 := stepCP_chk cfg c cur.ptr x s l b cp hbeyond hown
    simp only [stepRP]; split
    · rename_i s' l' prev evs heq; simp only [heq] at h1
      (repeat' split) <;> exact h1.cast rfl rfl
    · rename_i s' l' cp' evs hne heq; simp only [heq] at h1; exact h1
  | intoPrev cur prev gi =>
    have h1 := stepGI_usame s gi
    simp only [stepRP]; split
    · rename_i s' evs heq; simp only [heq] at h1
      exact (ChkStep.of_same h1).cast rfl (by dsimp only; split <;> rfl)
    · rename_i s' gi' evs hne heq; simp only [heq] at h1; exact ChkStep.of_same h1
  | dropCur res gd =>
    have h1 := stepGD_usame s gd
    simp only [stepRP]; split
    · rename_i s' evs heq; simp only [heq] at h1; exact ChkStep.of_same h1
    · rename_i s' gd' evs hne heq; simp only [heq] at h1; exact ChkStep.of_same h1
  | dropCurLoop prev gd =>
    have h1 := stepGD_usame s gd
    simp only [stepRP]; split
    · rename_i s' evs heq; simp only [heq] at h1; exact ChkStep.of_same h1
    · rename_i s' gd' evs hne heq; simp only [heq] at h1; exact ChkStep.of_same h1
  | done r => simp only [stepRP]; exact ChkStep.of_same (USame.refl s)

/-! ## Whole operations -/

theorem beginOp_chk (st : State) (t : Nat) (o : Op) :
    USame st.sh (beginOp st t o).1.sh ∧ ((beginOp st t o).1.th t).op.chk = none := by
  cases o <;> simp only [beginOp] <;> (repeat' split) <;>
    first
      | exact ⟨USame.refl _, by simp [OpSt.chk, LP.chk, PP.chk, CP.chk, RP.chk]⟩
      | exact ⟨USame.alloc _ _, by simp [OpSt.chk]⟩
      | (refine ⟨?_, ?_⟩
         · dsimp only; (try split) <;> first | exact USame.refl _ | exact USame.setFault _ _ | exact fun _ => rfl
         · dsimp only; (try split) <;> simp [OpSt.chk, LP.chk, PP.chk, CP.chk, RP.chk])

theorem ChkStep.frame {s s1 s2 : Shared} {c c' : Option Nat} (h : ChkStep s c s1 c') (hn : s2.nodes = s1.nodes) :
    ChkStep s c s2 c' :=
  ⟨fun m hm hne => by rw [hn]; exact h.others m hm hne, fun m hm => by rw [hn]; exact h.mine m hm, h.one⟩

theorem microStep_chk (st : State) (t : Nat) (b : Bool) (ho : OwnInv st) :
    ChkStep st.sh (st.th t).op.chk (microStep st t b).1.sh ((microStep st t b).1.th t).op.chk := by
  have hbeyond : (st.sh.nodes st.sh.nNodes).inUse = nodeUsed := ho.beyond _ (Nat.le_refl _)
  have hused := ho.used t
  cases hop : (st.th t).op with
  | finished => simp only [microStep, hop]; exact ChkStep.of_same (USame.refl _)
  | idle =>
    simp only [microStep, hop]
    split
    · refine (ChkStep.of_same (USame.refl _)).cast rfl ?_
      simp only [upd_same]; split <;> rfl
    · rename_i txt o rest hp
      obtain ⟨h1, h2⟩ := beginOp_chk { st with th := upd st.th t { prog := rest, op := .idle, loc := (st.th t).loc } } t o
      exact (ChkStep.of_same h1).cast rfl h2.symm
  | exitCool cd =>
    have h1 := stepCD_chk st.sh cd (fun n hn => hused n (by simp [ownsT, hop, hn]))
    simp only [microStep, hop]; split
    · rename_i s' evs heq; simp only [heq] at h1; exact h1.cast rfl (by simp [OpSt.chk])
    · rename_i s' cd' evs hne heq; simp only [heq] at h1; exact h1.cast rfl (by simp [OpSt.chk])
  | load c g ld =>
    have h1 := stepLP_chk st.cfg c st.sh (st.th t).loc b ld hbeyond (fun n hn => hused n (by simp [ownsT, hop, hn]))
    simp only [microStep, hop]; split
    · rename_i s' l' p d evs heq; simp only [heq] at h1
      exact (h1.frame (by simp)).cast rfl (by simp [OpSt.chk, LP.chk])
    · rename_i s' l' ld' evs hne heq; simp only [heq] at h1; simpa [OpSt.chk] using h1
  | loadFull c x ld =>
    have h1 := stepLP_chk st.cfg c st.sh (st.th t).loc b ld hbeyond (fun n hn => hused n (by simp [ownsT, hop, hn]))
    simp only [microStep, hop]; split
    · rename_i s' l' p d evs heq; simp only [heq] at h1
      split
      · exact (h1.frame (by simp)).cast rfl (by simp [OpSt.chk, LP.chk])
      · exact h1.cast rfl (by simp [OpSt.chk, LP.chk])
    · rename_i s' l' ld' evs hne heq; simp only [heq] at h1; simpa [OpSt.chk] using h1
  | loadFullInto c x r gi =>
    have h1 := stepGI_usame st.sh gi
    simp only [microStep, hop]; split
    · rename_i s' evs heq; simp only [heq] at h1
      exact ((ChkStep.of_same h1).frame (by simp)).cast rfl (by simp [OpSt.chk])
    · rename_i s' gi' evs hne heq; simp only [heq] at h1; exact (ChkStep.of_same h1).cast rfl (by simp [OpSt.chk])
  | cloneh x y a0 =>
    simp only [microStep, hop]
    exact (ChkStep.of_same (fun m => by simp)).cast rfl (by simp [OpSt.chk])
  | droph a0 =>
    simp only [microStep, hop]
    exact (ChkStep.of_same (fun m => by simp)).cast rfl (by simp [OpSt.chk])
  | dropg gd =>
    have h1 := stepGD_usame st.sh gd
    simp only [microStep, hop]; split
    · rename_i s' evs heq; simp only [heq] at h1; exact (ChkStep.of_same h1).cast rfl (by simp [OpSt.chk])
    · rename_i s' gd' evs hne heq; simp only [heq] at h1; exact (ChkStep.of_same h1).cast rfl (by simp [OpSt.chk])
  | ginto x p gi =>
    have h1 := stepGI_usame st.sh gi
    simp only [microStep, hop]; split
    · rename_i s' evs heq; simp only [heq] at h1
      exact ((ChkStep.of_same h1).frame (by simp)).cast rfl (by simp [OpSt.chk])
    · rename_i s' gi' evs hne heq; simp only [heq] at h1; exact (ChkStep.of_same h1).cast rfl (by simp [OpSt.chk])
  | swapSw c a0 out isStore =>
    simp only [microStep, hop]; split
    · exact (ChkStep.of_same (fun m => by simp [Shared.writeCell])).cast rfl (by simp [OpSt.chk, PP.chk])
    · exact (ChkStep.of_same (USame.refl _)).cast rfl (by rw [hop]; rfl)
  | swapPay c out old isStore pp =>
    have h1 := stepPP_chk st.cfg old c st.sh (st.th t).loc b pp hbeyond (fun n hn => hused n (by simp [ownsT, hop, hn]))
    simp only [microStep, hop]; split
    · rename_i s' l' evs heq; simp only [heq] at h1
      (repeat' split) <;> exact (h1.frame (by simp)).cast rfl (by simp [OpSt.chk, PP.chk])
    · rename_i s' l' pp' evs hne heq; simp only [heq] at h1; simpa [OpSt.chk] using h1
  | swapDrop c old =>
    simp only [microStep, hop]
    exact (ChkStep.of_same (fun m => by simp)).cast rfl (by simp [OpSt.chk])
  | cas c cur keep curPtr new g cp =>
    have h1 := stepCP_chk st.cfg c curPtr new st.sh (st.th t).loc b cp hbeyond (fun n hn => hused n (by simp [ownsT, hop, hn]))
    simp only [microStep, hop]; split
    · rename_i s' l' old evs heq; simp only [heq] at h1
      refine (h1.frame ?_).cast rfl (by simp [OpSt.chk, CP.chk])
      cases cur <;> cases keep <;> rfl
    · rename_i s' l' cp' evs hne heq; simp only [heq] at h1; simpa [OpSt.chk] using h1
  | rcu c out tries rp =>
    have h1 := stepRP_chk st.cfg c st.sh (st.th t).loc b tries rp hbeyond (fun n hn => hused n (by simp [ownsT, hop, hn]))
    simp only [microStep, hop]; split
    · rename_i s' l' r tries' evs heq; simp only [heq] at h1
      exact (h1.frame (by simp)).cast rfl (by simp [OpSt.chk, RP.chk])
    · rename_i s' l' rp' tries' evs hne heq; simp only [heq] at h1; simpa [OpSt.chk] using h1
  | cinto c x p pp =>
    have h1 := stepPP_chk st.cfg p c st.sh (st.th t).loc b pp hbeyond (fun n hn => hused n (by simp [ownsT, hop, hn]))
    simp only [microStep, hop]; split
    · rename_i s' l' evs heq; simp only [heq] at h1
      exact (h1.frame (by simp)).cast rfl (by simp [OpSt.chk, PP.chk])
    · rename_i s' l' pp' evs hne heq; simp only [heq] at h1; simpa [OpSt.chk] using h1
  | dropc c p pp =>
    have h1 := stepPP_chk st.cfg p c st.sh (st.th t).loc b pp hbeyond (fun n hn => hused n (by simp [ownsT, hop, hn]))
    simp only [microStep, hop]; split
    · rename_i s' l' evs heq; simp only [heq] at h1
      (repeat' split) <;> exact (h1.frame (by simp)).cast rfl (by simp [OpSt.chk, PP.chk])
    · rename_i s' l' pp' evs hne heq; simp only [heq] at h1; simpa [OpSt.chk] using h1
  | dropcDec c p =>
    simp only [microStep, hop]
    exact (ChkStep.of_same (fun m => by simp)).cast rfl (by simp [OpSt.chk])

/-! ## The invariant -/

/-- **a node under check is in the checking state, and is checked by one thread** -/
structure CheckInv (st : State) : Prop where
  held : ∀ t n, (st.th t).op.chk = some n → (st.sh.nodes n).inUse = nodeChecking
  excl : ∀ t t' n, t ≠ t' → (st.th t).op.chk = some n → (st.th t').op.chk ≠ some n

theorem CheckInv.initial (cfg : Cfg) (progs : Nat → List (String × Op)) : CheckInv (State.initial cfg progs) :=
  ⟨fun t n h => by simp [State.initial, OpSt.chk] at h, fun t t' n _ h => by simp [State.initial, OpSt.chk] at h⟩

theorem CheckInv.step {st : State} (h : CheckInv st) (ho : OwnInv st) (u : Nat) (b : Bool) :
    CheckInv (microStep st u b).1 := by
  have hs := microStep_chk st u b ho
  have hoth := (microStep_own st u b).2
  refine ⟨fun t n hc => ?_, fun t t' n hne h1 h2 => ?_⟩
  · by_cases htu : t = u
    · subst htu
      rcases hs.mine n hc with ⟨e1, e2⟩ | ⟨_, _, e3⟩
      · rw [e2]; exact h.held t n e1
      · exact e3
    · rw [hoth t htu] at hc
      exact hs.others n (h.held t n hc) (fun e => h.excl t u n htu hc e)
  · -- two checkers of one node: at most one of them is the stepping thread
    by_cases h1u : t = u
    · subst h1u
      have h2' : (st.th t').op.chk = some n := by rw [← hoth t' (fun e => hne e.symm)]; exact h2
      rcases hs.mine n h1 with ⟨e1, _⟩ | ⟨_, e2, _⟩
      · exact h.excl t t' n hne e1 h2'
      · exact e2 (h.held t' n h2')
    · by_cases h2u : t' = u
      · subst h2u
        have h1' : (st.th t).op.chk = some n := by rw [← hoth t h1u]; exact h1
        rcases hs.mine n h2 with ⟨e1, _⟩ | ⟨_, e2, _⟩
        · exact h.excl t t' n hne h1' e1
        · exact e2 (h.held t n h1')
      · rw [hoth t h1u] at h1; rw [hoth t' h2u] at h2
        exact h.excl t t' n hne h1 h2

theorem CheckInv.reachable {st : State} (h : Reachable st) : CheckInv st := by
  obtain ⟨cfg, progs, sched, rfl⟩ := h
  have h0 := CheckInv.initial cfg progs
  have o0 := OwnInv.initial cfg progs
  generalize State.initial cfg progs = st at h0 o0
  induction sched generalizing st with
  | nil => exact h0
  | cons x rest ih => obtain ⟨t, b⟩ := x; exact ih _ (h0.step o0 t b) (o0.step t b)

/-- the node a thread holds for its check is nobody's: not owned, so neither used nor sent to
    cooldown by anybody, and not claimable (it is not `NODE_UNUSED`) -/
theorem checked_node_is_nobodys {st : State} (h : CheckInv st) (ho : OwnInv st) (t n : Nat)
    (hc : (st.th t).op.chk = some n) :
    (∀ t', ownsT (st.th t') ≠ some n) ∧ (st.sh.nodes n).inUse ≠ nodeUnused ∧ (st.sh.nodes n).inUse ≠ nodeCooldown := by
  have hv := h.held t n hc
  refine ⟨fun t' hown => ?_, by rw [hv]; exact Consts.node_checking_distinct.2.1, by rw [hv]; exact Consts.node_checking_distinct.2.2⟩
  have := ho.used t' n hown
  rw [hv] at this; exact Consts.node_checking_distinct.1 this

end M
