import ArcSwapModel.Inv.ActAddr
import ArcSwapModel.Inv.HazD5

/-!
# The helping slot: where a writer is, relative to a reader's window

`PP.preHelp L n g pp`: a walk at `pp` has not reached node `n` yet, or is inside its `help`
activation on `n` and has either not read the control word yet or has read generation `g` and is on
its way to the hand-over.  While the owner of `n` is inside its window with generation `g` (control
word `gen g`, announced address = the writer's container), one step keeps a walk there — the only
way out is the successful hand-over (`h7`), which leaves an envelope in the control word.
-/

namespace M
open Consts

/-- the walk is in `help` on some node and will still attempt the hand-over for generation `g` -/
def PP.helping (g : Nat) : PP → Prop
  | .res _ | .hDbg0 _ | .hDbg1 _ | .h1 _ => True
  | .h2 h | .hres h | .hload h _ | .hinto h _ _ | .h4 h _ | .h5 h _ _ | .h6 h _ _ _ | .h7 h _ _ _ => h.ctl = .gen g
  | _ => False

def PP.preHelp (L : List Nat) (n g : Nat) (pp : PP) : Prop :=
  pp.beforeList = true ∨ ∃ m j, pp.pos = some (m, j) ∧ (After L m n ∨ (m = n ∧ pp.helping g))

theorem PP.preHelp.prepend {L : List Nat} {n g : Nat} {pp : PP} (h : pp.preHelp L n g) (pre : List Nat) :
    pp.preHelp (pre ++ L) n g :=
  h.imp id (fun ⟨m, j, hp, hq⟩ => ⟨m, j, hp, hq.imp (fun x => x.prepend pre) id⟩)

theorem PP.preHelp_start (L : List Nat) (n g : Nat) : PP.start.preHelp L n g := Or.inl rfl

theorem PP.not_preHelp_done (L : List Nat) (n g : Nat) : ¬ PP.done.preHelp L n g := by
  intro h; rcases h with h | ⟨m, j, h, _⟩ <;> cases h

/-- a walk that is still before (or inside) the help on `n` has every slot of `n` ahead -/
theorem PP.preHelp.ahead {L : List Nat} {n g : Nat} {pp : PP} (h : pp.preHelp L n g) (i : Nat) : pp.ahead L n i := by
  rcases h with h | ⟨m, j, hp, hq⟩
  · exact Or.inl h
  · rcases hq with hq | ⟨rfl, hh⟩
    · exact Or.inr ⟨m, j, hp, Or.inr hq⟩
    · refine Or.inr ⟨m, j, hp, Or.inl ⟨rfl, ?_⟩⟩
      cases pp <;> first | exact hh.elim | (simp only [PP.pos, Option.some.injEq, Prod.mk.injEq] at hp; omega)

theorem preHelp_step (cfg : Cfg) (p c : Nat) (s : Shared) (l : Locals) (b : Bool) (pp : PP) (L : List Nat)
    (hc : chainFrom (nextOf s) s.head L) (n g : Nat) (hn : n ∈ L)
    (hnode : pp.beforeNode = false → l.node.isSome = true)
    (hctl : (s.nodes n).control = .gen g) (haa : (s.nodes n).activeAddr = some c)
    (hne : NoEnv (stepPP cfg p c s l b pp).1)
    (h : pp.preHelp L n g) : (stepPP cfg p c s l b pp).2.2.1.preHelp L n g := by
  rcases h with h | ⟨m, j, hpos, hrel⟩
  · cases pp with
    | start => left; simp only [stepPP]; (repeat' split) <;> rfl
    | get ng => left; simp only [stepPP]; (repeat' split) <;> rfl
    | inc => left; simp only [stepPP]; rfl
    | trav =>
      simp only [stepPP]
      cases hh : s.head with
      | none =>
        rw [hh] at hc
        cases L with
        | nil => cases hn
        | cons x L => exact hc.elim
      | some x =>
        rw [hh] at hc
        cases L with
        | nil => exact hc.elim
        | cons y L2 =>
          obtain ⟨rfl, _, _⟩ := hc
          right
          refine ⟨x, 0, rfl, ?_⟩
          rcases List.mem_cons.mp hn with e | e
          · exact Or.inr ⟨e.symm, trivial⟩
          · exact Or.inl ⟨[], L2, rfl, e⟩
    | _ => cases h
  · have hbn : pp.beforeNode = false := by cases pp <;> first | rfl | cases hpos
    obtain ⟨n0, hn0⟩ := Option.isSome_iff_exists.mp (hnode hbn)
    rcases hrel with haft | ⟨rfl, hh⟩
    · -- at a node before `n`
      rcases stepPP_pos_some cfg p c s l b pp m j hpos (hnode hbn) with hs | ⟨rfl, hnone⟩
      · obtain ⟨⟨m', j'⟩, hp'⟩ := Option.isSome_iff_exists.mp hs
        rcases stepPP_pos cfg p c s l b pp m' j' hp' with ⟨j0, h1, _⟩ | ⟨rfl, _, _⟩ | ⟨m0, rfl, hnx, rfl⟩
        · rw [hpos] at h1
          simp only [Option.some.injEq, Prod.mk.injEq] at h1
          obtain ⟨rfl, rfl⟩ := h1
          exact Or.inr ⟨m, j', hp', Or.inl haft⟩
        · cases hpos
        · simp only [PP.pos, Option.some.injEq, Prod.mk.injEq] at hpos
          obtain ⟨rfl, rfl⟩ := hpos
          obtain ⟨m'', hnx', hor⟩ := chain_after_next hc haft
          have : m'' = m' := by
            have : (s.nodes m0).next = some m'' := hnx'
            rw [hnx] at this; cases this; rfl
          subst this
          right
          refine ⟨m'', 0, hp', ?_⟩
          rcases hor with e | e
          · refine Or.inr ⟨e.symm, ?_⟩
            simp only [stepPP, hnx]; trivial
          · exact Or.inl e
      · simp only [PP.pos, Option.some.injEq, Prod.mk.injEq] at hpos
        obtain ⟨_, rfl⟩ := hpos
        obtain ⟨m'', hnx', _⟩ := chain_after_next hc haft
        have : (s.nodes m).next = some m'' := hnx'
        rw [hnone] at this; cases this
    · -- inside the help on `n`
      right
      cases pp with
      | res m0 =>
        simp only [PP.pos, Option.some.injEq, Prod.mk.injEq] at hpos
        obtain ⟨rfl, _⟩ := hpos
        simp only [stepPP, hn0]
        exact ⟨m0, 0, rfl, Or.inr ⟨rfl, trivial⟩⟩
      | hDbg0 x =>
        simp only [PP.pos, Option.some.injEq, Prod.mk.injEq] at hpos
        simp only [stepPP]; exact ⟨x.who, 0, rfl, Or.inr ⟨hpos.1, trivial⟩⟩
      | hDbg1 x =>
        simp only [PP.pos, Option.some.injEq, Prod.mk.injEq] at hpos
        simp only [stepPP]; exact ⟨x.who, 0, rfl, Or.inr ⟨hpos.1, trivial⟩⟩
      | h1 x =>
        simp only [PP.pos, Option.some.injEq, Prod.mk.injEq] at hpos
        obtain ⟨rfl, _⟩ := hpos
        simp only [stepPP, hctl, PP.dispatch]
        exact ⟨x.who, 0, rfl, Or.inr ⟨rfl, rfl⟩⟩
      | h2 x =>
        simp only [PP.pos, Option.some.injEq, Prod.mk.injEq] at hpos
        obtain ⟨rfl, _⟩ := hpos
        have e : ∀ s0 : Shared, s0.nodes = s.nodes → (s0.nodes x.who).activeAddr = some c := fun s0 e0 => by rw [e0]; exact haa
        simp only [stepPP]
        rw [if_pos (by split <;> exact e _ (by first | rfl | simp))]
        split
        · exact ⟨x.who, 0, rfl, Or.inr ⟨rfl, hh⟩⟩
        · exact ⟨x.who, 0, rfl, Or.inr ⟨rfl, hh⟩⟩
      | hres x =>
        simp only [PP.pos, Option.some.injEq, Prod.mk.injEq] at hpos
        simp only [stepPP]; exact ⟨x.who, 0, rfl, Or.inr ⟨hpos.1, hh⟩⟩
      | hload x ld =>
        simp only [PP.pos, Option.some.injEq, Prod.mk.injEq] at hpos
        simp only [stepPP]
        split
        · split <;> exact ⟨x.who, 0, rfl, Or.inr ⟨hpos.1, hh⟩⟩
        · exact ⟨x.who, 0, rfl, Or.inr ⟨hpos.1, hh⟩⟩
      | hinto x r gi =>
        simp only [PP.pos, Option.some.injEq, Prod.mk.injEq] at hpos
        simp only [stepPP]
        split <;> exact ⟨x.who, 0, rfl, Or.inr ⟨hpos.1, hh⟩⟩
      | h4 x r =>
        simp only [PP.pos, Option.some.injEq, Prod.mk.injEq] at hpos
        simp only [stepPP]; exact ⟨x.who, 0, rfl, Or.inr ⟨hpos.1, hh⟩⟩
      | h5 x r t' =>
        simp only [PP.pos, Option.some.injEq, Prod.mk.injEq] at hpos
        simp only [stepPP]; exact ⟨x.who, 0, rfl, Or.inr ⟨hpos.1, hh⟩⟩
      | h6 x r t' m' =>
        simp only [PP.pos, Option.some.injEq, Prod.mk.injEq] at hpos
        simp only [stepPP]; exact ⟨x.who, 0, rfl, Or.inr ⟨hpos.1, hh⟩⟩
      | h7 x r t' m' =>
        simp only [PP.pos, Option.some.injEq, Prod.mk.injEq] at hpos
        obtain ⟨rfl, _⟩ := hpos
        exfalso
        have hh' : x.ctl = .gen g := hh
        have : (s.nodes x.who).control = x.ctl := by rw [hctl, hh']
        simp only [stepPP, this, ↓reduceIte] at hne
        exact hne x.who m' (by simp)
      | _ => exact hh.elim

/-- `ahead_step`, for the helping slot as well (`i = slotCnt`) -/
theorem ahead_step_le (cfg : Cfg) (p c : Nat) (s : Shared) (l : Locals) (b : Bool) (pp : PP) (L : List Nat)
    (hc : chainFrom (nextOf s) s.head L) (n i : Nat) (hn : n ∈ L) (hi : i ≤ slotCnt)
    (hnode : pp.beforeNode = false → l.node.isSome = true) (h : pp.ahead L n i) :
    (stepPP cfg p c s l b pp).2.2.1.ahead L n i ∨ pp = .slot n i := by
  rcases h with h | ⟨m, j, hpos, hrel⟩
  · cases pp with
    | start => left; left; simp only [stepPP]; (repeat' split) <;> rfl
    | get ng => left; left; simp only [stepPP]; (repeat' split) <;> rfl
    | inc => left; left; simp only [stepPP]; rfl
    | trav =>
      left
      simp only [stepPP]
      cases hh : s.head with
      | none =>
        rw [hh] at hc
        cases L with
        | nil => cases hn
        | cons x L => exact hc.elim
      | some x =>
        rw [hh] at hc
        cases L with
        | nil => exact hc.elim
        | cons y L2 =>
          obtain ⟨rfl, _, _⟩ := hc
          right
          refine ⟨x, 0, rfl, ?_⟩
          rcases List.mem_cons.mp hn with e | e
          · exact Or.inl ⟨e, Nat.zero_le _⟩
          · exact Or.inr ⟨[], L2, rfl, e⟩
    | _ => cases h
  · have hbn : pp.beforeNode = false := by cases pp <;> first | rfl | cases hpos
    rcases stepPP_pos_some cfg p c s l b pp m j hpos (hnode hbn) with hs | ⟨rfl, hnone⟩
    · obtain ⟨⟨m', j'⟩, hp'⟩ := Option.isSome_iff_exists.mp hs
      rcases stepPP_pos cfg p c s l b pp m' j' hp' with ⟨j0, h1, h2⟩ | ⟨rfl, _, _⟩ | ⟨m0, rfl, hnx, rfl⟩
      · rw [hpos] at h1
        simp only [Option.some.injEq, Prod.mk.injEq] at h1
        obtain ⟨rfl, rfl⟩ := h1
        rcases hrel with ⟨rfl, hji⟩ | haft
        · rcases h2 with rfl | ⟨rfl, h3⟩ | ⟨k, rfl, hk⟩
          · exact Or.inl (Or.inr ⟨n, j', hp', Or.inl ⟨rfl, hji⟩⟩)
          · by_cases e : j = i
            · subst e; exact Or.inr rfl
            · rcases h3 with rfl | h3
              · exact Or.inl (Or.inr ⟨n, j + 1, hp', Or.inl ⟨rfl, by omega⟩⟩)
              · omega
          · simp only [PP.pos, Option.some.injEq, Prod.mk.injEq] at hpos
            omega
        · exact Or.inl (Or.inr ⟨m, j', hp', Or.inr haft⟩)
      · cases hpos
      · simp only [PP.pos, Option.some.injEq, Prod.mk.injEq] at hpos
        obtain ⟨rfl, rfl⟩ := hpos
        rcases hrel with ⟨_, hji⟩ | haft
        · omega
        · obtain ⟨m'', hnx', hor⟩ := chain_after_next hc haft
          have : m'' = m' := by
            have : (s.nodes m0).next = some m'' := hnx'
            rw [hnx] at this; cases this; rfl
          subst this
          left; right
          refine ⟨m'', 0, hp', ?_⟩
          rcases hor with e | e
          · exact Or.inl ⟨e, Nat.zero_le _⟩
          · exact Or.inr e
    · simp only [PP.pos, Option.some.injEq, Prod.mk.injEq] at hpos
      obtain ⟨_, rfl⟩ := hpos
      rcases hrel with ⟨_, hji⟩ | haft
      · omega
      · obtain ⟨m'', hnx', _⟩ := chain_after_next hc haft
        have : (s.nodes m).next = some m'' := hnx'
        rw [hnone] at this; cases this

end M
