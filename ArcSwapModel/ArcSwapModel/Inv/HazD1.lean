import ArcSwapModel.Inv.Busy3

/-!
# The hazard invariant with container destruction: walks of every kind

`into_inner` and `Drop` of a container walk the list for the value it holds before they take it
out.  `OpSt.walkC?` extends `OpSt.walk?` by those two walks.
-/

namespace M
open Consts

/-- the value a thread is walking the list for: taken out of a container by an exchange, or about
    to be taken out by `into_inner`/`Drop` -/
def OpSt.walkC? : OpSt → Option (Nat × PP)
  | .cinto _ _ p pp => some (p, pp)
  | .dropc _ p pp => some (p, pp)
  | op => op.walk?

theorem OpSt.walkC_of_walk {op : OpSt} {x : Nat × PP} (h : op.walk? = some x) : op.walkC? = some x := by
  cases op <;> first | exact h | (simp [OpSt.walk?] at h)

theorem OpSt.walkC_cases {op : OpSt} {a : Nat} {pp : PP} (h : op.walkC? = some (a, pp)) :
    op.walk? = some (a, pp) ∨ (∃ c, op.consWalk c a ∧ op.cons = true) := by
  cases op with
  | cinto c x p pp0 =>
    simp only [OpSt.walkC?, Option.some.injEq, Prod.mk.injEq] at h
    obtain ⟨rfl, rfl⟩ := h
    exact Or.inr ⟨c, Or.inl ⟨x, pp0, rfl⟩, rfl⟩
  | dropc c p pp0 =>
    simp only [OpSt.walkC?, Option.some.injEq, Prod.mk.injEq] at h
    obtain ⟨rfl, rfl⟩ := h
    exact Or.inr ⟨c, Or.inr ⟨pp0, rfl⟩, rfl⟩
  | _ => exact Or.inl h

/-- a thread that is walking the list (for whatever reason) steps that walk -/
theorem microStep_walkC_fwd (st : State) (t : Nat) (b : Bool) (a : Nat) (pp : PP)
    (h : (st.th t).op.walkC? = some (a, pp)) :
    ∃ c, (microStep st t b).1.sh.nodes = (stepPP st.cfg a c st.sh (st.th t).loc b pp).1.nodes ∧
      ((microStep st t b).1.th t).loc = (stepPP st.cfg a c st.sh (st.th t).loc b pp).2.1 ∧
      (((microStep st t b).1.th t).op.walkC? = some (a, (stepPP st.cfg a c st.sh (st.th t).loc b pp).2.2.1) ∨
        (stepPP st.cfg a c st.sh (st.th t).loc b pp).2.2.1 = .done) ∧
      (microStep st t b).1.sh.head = (stepPP st.cfg a c st.sh (st.th t).loc b pp).1.head := by
  cases hop : (st.th t).op with
  | cinto c x p pp0 =>
    rw [hop] at h
    simp only [OpSt.walkC?, Option.some.injEq, Prod.mk.injEq] at h
    obtain ⟨rfl, rfl⟩ := h
    refine ⟨c, ?_⟩
    simp only [microStep, hop]
    split
    · rename_i s' l' evs heq; rw [heq]; exact ⟨rfl, by simp, Or.inr rfl, rfl⟩
    · rename_i s' l' pp' evs hne heq; rw [heq]; exact ⟨rfl, by simp, Or.inl (by simp [OpSt.walkC?]), rfl⟩
  | dropc c p pp0 =>
    rw [hop] at h
    simp only [OpSt.walkC?, Option.some.injEq, Prod.mk.injEq] at h
    obtain ⟨rfl, rfl⟩ := h
    refine ⟨c, ?_⟩
    simp only [microStep, hop]
    split
    · rename_i s' l' evs heq; rw [heq]; split <;> exact ⟨rfl, by simp, Or.inr rfl, rfl⟩
    · rename_i s' l' pp' evs hne heq; rw [heq]; exact ⟨rfl, by simp, Or.inl (by simp [OpSt.walkC?]), rfl⟩
  | _ =>
    have hw : (st.th t).op.walk? = some (a, pp) := by rw [hop] at h ⊢; exact h
    obtain ⟨c, h1, h2, _, h4, h5⟩ := microStep_walk_fwd st t b a pp hw
    exact ⟨c, h1, h4, h5.imp (fun x => OpSt.walkC_of_walk x) id, h2⟩

/-- how a walk (of whatever kind) comes about and moves on -/
theorem microStep_walkC (st : State) (t : Nat) (b : Bool) (a : Nat) (pp' : PP)
    (h : ((microStep st t b).1.th t).op.walkC? = some (a, pp')) :
    (∃ pp c, (st.th t).op.walkC? = some (a, pp) ∧ pp' = (stepPP st.cfg a c st.sh (st.th t).loc b pp).2.2.1 ∧
        ((microStep st t b).1.th t).loc = (stepPP st.cfg a c st.sh (st.th t).loc b pp).2.1) ∨
      pp' = .start := by
  rcases OpSt.walkC_cases h with hw | ⟨c, hcw, _⟩
  · rcases microStep_walk st t b a pp' hw with ⟨pp, c, h1, h2, _, _, h5⟩ | ⟨h1, _⟩
    · exact Or.inl ⟨pp, c, OpSt.walkC_of_walk h1, h2, h5⟩
    · exact Or.inr h1
  · cases hop : (st.th t).op with
    | cinto c0 x p pp0 =>
      left
      simp only [microStep, hop] at h ⊢
      split at h
      · simp [OpSt.walkC?, OpSt.walk?] at h
      · rename_i s' l' pp'' evs hne heq
        simp only [upd_same, OpSt.walkC?, Option.some.injEq, Prod.mk.injEq] at h
        obtain ⟨rfl, rfl⟩ := h
        exact ⟨pp0, c0, rfl, by rw [heq], by rw [heq]; simp⟩
    | dropc c0 p pp0 =>
      left
      simp only [microStep, hop] at h ⊢
      split at h
      · split at h <;> simp [OpSt.walkC?, OpSt.walk?] at h
      · rename_i s' l' pp'' evs hne heq
        simp only [upd_same, OpSt.walkC?, Option.some.injEq, Prod.mk.injEq] at h
        obtain ⟨rfl, rfl⟩ := h
        exact ⟨pp0, c0, rfl, by rw [heq], by rw [heq]; simp⟩
    | idle =>
      right
      obtain ⟨hcons, hcell⟩ := OpSt.consWalk_cons hcw
      rcases microStep_cellq2 st t b c hcell with ⟨h2, _⟩ | ⟨_, _, _, _, _, _, h9⟩
      · rw [hop] at h2; cases h2
      · obtain ⟨_, _, p', _, hor⟩ := h9 hcons
        rcases hor with ⟨x, hx'⟩ | hx' <;> (rw [hx'] at h; simp only [OpSt.walkC?, Option.some.injEq, Prod.mk.injEq] at h; exact h.2.symm)
    | _ =>
      exfalso
      rcases microStep_consWalk st t b c a hcw with ⟨h1, _⟩ | h1
      · rw [hop] at h1; rcases h1 with ⟨_, _, h1⟩ | ⟨_, h1⟩ <;> cases h1
      · rw [hop] at h1; cases h1

/-- a thread that is walking the list, past the start of the walk, has a node -/
def WalkNodeC (st : State) : Prop :=
  ∀ t a pp, (st.th t).op.walkC? = some (a, pp) → pp.beforeNode = false → (st.th t).loc.node.isSome = true

theorem WalkNodeC.step {st : State} (h : WalkNodeC st) (t : Nat) (b : Bool) : WalkNodeC (microStep st t b).1 := by
  intro u a pp' hw
  by_cases e : u = t
  · subst e
    rcases microStep_walkC st u b a pp' hw with ⟨pp, c, h1, h2, h5⟩ | h1
    · rw [h2, h5]
      exact stepPP_node st.cfg a c st.sh (st.th u).loc b pp (h u a pp h1)
    · subst h1; intro h'; cases h'
  · rw [(microStep_own st t b).2 u e] at hw ⊢
    exact h u a pp' hw

end M
