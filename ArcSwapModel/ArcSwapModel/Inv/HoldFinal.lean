import ArcSwapModel.Inv.HoldH

/-!
# Quiescence, with the slots part proved

`Ledger.quiescent` asks that no debt slot names the value.  `HoldInv` and `HHoldInv` discharge it:
with no operation in flight and no guard that carries a debt left in a register, no slot names
anything — so at rest the strong count of every value is exactly the number of containers, handles
and guards denoting it.
-/

namespace M
open Consts

theorem holdInv_of_env {K N T : Nat} (cfg : Cfg) (progs : Nat → List (String × Op))
    (sched : List (Nat × Bool)) (he : EnvRun0 K N T (State.initial cfg progs) sched)
    (hf : (run (State.initial cfg progs) sched).sh.fault = none) :
    HoldInv (run (State.initial cfg progs) sched) :=
  (HoldInv.initial cfg progs).run (NodeInv.initial cfg progs) sched (RegRun.of_env he) hf

/-- **C02 at rest.**  Along any execution that keeps the program discipline (`EnvRun0`) and ends
    without a fault, in a state where every thread is between operations (or has exited) and no
    register holds a guard with a debt: no debt slot — fast or helping — of any node names a value,
    and the strong count of every value equals the number of containers, handles and guards
    denoting it. -/
theorem C02_at_rest (K N T : Nat) (hK : 0 < K) (cfg : Cfg) (progs : Nat → List (String × Op))
    (sched : List (Nat × Bool)) (he : EnvRun0 K N T (State.initial cfg progs) sched)
    (hf : (run (State.initial cfg progs) sched).sh.fault = none)
    (hidle : ∀ t, ((run (State.initial cfg progs) sched).th t).op = .idle ∨
      ((run (State.initial cfg progs) sched).th t).op = .finished)
    (hg : ∀ g gd, (run (State.initial cfg progs) sched).sh.greg g = some gd → gd.debt = none) :
    (∀ n i a, ((run (State.initial cfg progs) sched).sh.nodes n).fast i ≠ .ptr a ∧
        ((run (State.initial cfg progs) sched).sh.nodes n).hslot ≠ .ptr a) ∧
      ∀ a, a ≠ 0 → ((run (State.initial cfg progs) sched).sh.heap a).cnt =
        (run (State.initial cfg progs) sched).sh.regs N a := by
  have h1 := holdInv_of_env cfg progs sched he hf
  have h2 := HHoldInv.reachable ⟨cfg, progs, sched, rfl⟩ hf
  have hs : ∀ n i a, ((run (State.initial cfg progs) sched).sh.nodes n).fast i ≠ .ptr a ∧
      ((run (State.initial cfg progs) sched).sh.nodes n).hslot ≠ .ptr a :=
    fun n i a => ⟨h1.rest hg hidle n i a, h2.rest hidle n a⟩
  refine ⟨hs, fun a ha => ?_⟩
  refine (C02_ledger_final K N T hK cfg progs sched he hf).quiescent (fun t _ => ?_) a ha (fun n i => hs n i a)
  rcases hidle t with e | e <;> rw [e] <;> rfl

/-- non-vacuity of `C02_at_rest`: one thread creating a value is such an execution, ends at rest,
    and the count of the value it made (address 1) is one — the handle -/
example :
    let st0 := State.initial {} (fun t => if t = 0 then [("new h0 5", .new 0 5)] else [])
    EnvRun0 1 4 1 st0 [(0, false)] ∧ (run st0 [(0, false)]).sh.fault = none ∧
      (∀ t, ((run st0 [(0, false)]).th t).op = .idle ∨ ((run st0 [(0, false)]).th t).op = .finished) ∧
      (∀ g gd, (run st0 [(0, false)]).sh.greg g = some gd → gd.debt = none) := by
  refine ⟨⟨by decide, ⟨trivial, by decide, ?_, ?_, ?_, ?_⟩, trivial⟩, by decide, ?_, ?_⟩
  · intro n j; simp [State.initial]
  · intro n j; simp [State.initial, microStep, beginOp, alloc]
  · intro v; rfl
  · intro txt o rest hp
    simp only [State.initial, ↓reduceIte, List.cons.injEq, Prod.mk.injEq] at hp
    obtain ⟨⟨_, rfl⟩, _⟩ := hp
    exact ⟨by show 0 < 4; decide, fun c h e => by cases e⟩
  · intro t
    by_cases ht : t = 0
    · subst ht; left; simp [run, State.initial, microStep, beginOp, alloc]
    · left; simp [run, State.initial, microStep, beginOp, alloc, upd, ht]
  · intro g gd h; simp [run, State.initial, microStep, beginOp, alloc] at h

/-- the holders are not vacuous: a load that has published its debt holds that slot; a guard with a
    debt holds it; a load between `confirm` and `pay` holds its helping slot -/
example : (LP.a3 7 2).holds 0 2 7 { node := some 0 } ∧ ({ ptr := 7, debt := some (0, 2) } : Guard).holds 0 2 7 ∧
    (LP.fokPay 7).hholds 0 7 { node := some 0 } := ⟨⟨rfl, rfl, rfl⟩, ⟨rfl, rfl⟩, ⟨rfl, rfl⟩⟩

end M
