import ArcSwapModel.Inv.Check

/-!
# The writer's walk, running alone, ends: a composed bound (C09, partial)

A thread inside `store`/`swap` that walks the debt list with every other thread frozen, past
nodes whose readers are not inside their fallback window (control words idle), reaches the end of
the walk within `25 · (nodes ahead) + 25` of its own steps: per node one reservation, the three
looks of `help`, nine pay-off attempts (each possibly followed by one increment) and the release.
The road is the list of `Inv/ListInv.lean`; nothing the walker does changes it or the control
words.  (With a reader inside its window the walker helps; that loop ends when the reader moves,
i.e. not by the walker alone unless it hands over — `help_retry_means_interference`.)
-/

namespace M
open Consts

/-- thread `t` running alone, without spurious compare-exchange failures -/
def solo (st : State) (t : Nat) : Nat → State
  | 0 => st
  | k + 1 => solo (microStep st t false).1 t k

/-- own steps still needed from a position of the walk with `k` nodes ahead -/
def walkFuel : PP → Nat → Nat
  | .start, k => 25 * k + 3
  | .inc, k => 25 * k + 2
  | .trav, k => 25 * k + 1
  | .res _, k => 25 * k
  | .hDbg0 _, k => 24 + 25 * k
  | .hDbg1 _, k => 23 + 25 * k
  | .h1 _, k => 22 + 25 * k
  | .hend _, k => 21 + 25 * k
  | .hrel _, k => 20 + 25 * k
  | .slot _ j, k => 2 * (9 - j) + 1 + 25 * k
  | .slotInc _ j, k => 2 * (9 - j) + 25 * k
  | .rel _, k => 1 + 25 * k
  | _, _ => 0

/-- the rest of the road: the nodes in `L`, chained from `cur`, all with idle control words -/
structure Road (s : Shared) (cur : Option Nat) (L : List Nat) : Prop where
  chain : chainFrom (nextOf s) cur L
  quiet : ∀ m, m ∈ L → (s.nodes m).control = .idle

/-- a position of the walk and the road ahead of it -/
def WalkAt (s : Shared) (l : Locals) : PP → List Nat → Prop
  | .start, L | .inc, L | .trav, L => Road s s.head L
  | .res m, L => Road s (some m) L
  | .hDbg0 h, L | .hDbg1 h, L | .h1 h, L =>
      (s.nodes h.who).control = .idle ∧ h.reserved = false ∧ Road s (s.nodes h.who).next L
  | .hend h, L => h.reserved = false ∧ Road s (s.nodes h.who).next L
  | .slot n j, L | .slotInc n j, L => j ≤ slotCnt ∧ Road s (s.nodes n).next L
  | .rel n, L => Road s (s.nodes n).next L
  | _, _ => False

theorem Road.frame {s s' : Shared} {cur : Option Nat} {L : List Nat} (h : Road s cur L)
    (hn : ∀ m, (s'.nodes m).next = (s.nodes m).next) (hc : ∀ m, (s'.nodes m).control = (s.nodes m).control) :
    Road s' cur L :=
  ⟨chainFrom_congr h.chain (fun n _ => hn n), fun m hm => by rw [hc m]; exact h.quiet m hm⟩

theorem setNode_next_of (s : Shared) (n m : Nat) (f : Node → Node) (hf : ∀ nd, (f nd).next = nd.next) :
    ((s.setNode n f).nodes m).next = (s.nodes m).next := (LSame.setNode s n f hf).2.1 m

theorem setNode_control_of (s : Shared) (n m : Nat) (f : Node → Node) (hf : ∀ nd, (f nd).control = nd.control) :
    ((s.setNode n f).nodes m).control = (s.nodes m).control := by
  by_cases hm : m = n
  · subst hm; simp [hf]
  · simp [hm]

theorem Road.setNode {s : Shared} {cur : Option Nat} {L : List Nat} (h : Road s cur L) (n : Nat) (f : Node → Node)
    (h1 : ∀ nd, (f nd).next = nd.next) (h2 : ∀ nd, (f nd).control = nd.control) : Road (s.setNode n f) cur L :=
  h.frame (fun m => setNode_next_of s n m f h1) (fun m => setNode_control_of s n m f h2)

theorem Road.setFault {s : Shared} {cur : Option Nat} {L : List Nat} (h : Road s cur L) (f : Fault) :
    Road (s.setFault f) cur L := h.frame (fun _ => by simp) (fun _ => by simp)

theorem Road.incObj {s : Shared} {cur : Option Nat} {L : List Nat} (h : Road s cur L) (a : Nat) :
    Road (incObj s a).1 cur L := h.frame (fun _ => by simp) (fun _ => by simp)

/-- **one own step of the walk**: still walking, closer to the end — or at the end -/
theorem walk_step (st : State) (t c out old : Nat) (isStore : Bool) (pp : PP) (L : List Nat)
    (hop : (st.th t).op = .swapPay c out old isStore pp) (hw : WalkAt st.sh (st.th t).loc pp L)
    (hnode : (st.th t).loc.node.isSome = true) :
    ∃ pp' L', ((microStep st t false).1.th t).op = .swapPay c out old isStore pp' ∧
      ((microStep st t false).1.th t).loc = (st.th t).loc ∧
      (pp' = .fin ∨
        (WalkAt (microStep st t false).1.sh ((microStep st t false).1.th t).loc pp' L' ∧
          walkFuel pp' L'.length < walkFuel pp L.length)) := by
  cases pp with
  | start =>
    have hroad : Road st.sh st.sh.head L := hw
    obtain ⟨own, hown⟩ := Option.isSome_iff_exists.mp hnode
    by_cases h0 : old = 0
    · refine ⟨.trav, L, ?_, ?_, Or.inr ⟨?_, ?_⟩⟩
      · simp [microStep, hop, stepPP, hown, h0]
      · simp [microStep, hop, stepPP, hown, h0]
      · simp only [microStep, hop, stepPP, hown, h0, ↓reduceIte, upd_same, WalkAt]; exact hroad
      · simp only [walkFuel]; omega
    · refine ⟨.inc, L, ?_, ?_, Or.inr ⟨?_, ?_⟩⟩
      · simp [microStep, hop, stepPP, hown, h0]
      · simp [microStep, hop, stepPP, hown, h0]
      · simp only [microStep, hop, stepPP, hown, h0, ↓reduceIte, upd_same, WalkAt]; exact hroad
      · simp only [walkFuel]; omega
  | inc =>
    have hroad : Road st.sh st.sh.head L := hw
    refine ⟨.trav, L, ?_, ?_, Or.inr ⟨?_, ?_⟩⟩
    · simp [microStep, hop, stepPP]
    · simp [microStep, hop, stepPP]
    · simp only [microStep, hop, stepPP, upd_same, WalkAt]
      simpa using hroad.incObj old
    · simp only [walkFuel]; omega
  | trav =>
    have hroad : Road st.sh st.sh.head L := hw
    cases hh : st.sh.head with
    | none => exact ⟨.fin, [], by simp [microStep, hop, stepPP, hh], by simp [microStep, hop, stepPP, hh], Or.inl rfl⟩
    | some m =>
      refine ⟨.res m, L, ?_, ?_, Or.inr ⟨?_, ?_⟩⟩
      · simp [microStep, hop, stepPP, hh]
      · simp [microStep, hop, stepPP, hh]
      · simp only [microStep, hop, stepPP, hh, upd_same, WalkAt]
        rw [hh] at hroad; exact hroad
      · simp only [walkFuel]; omega
  | res m =>
    have hroad : Road st.sh (some m) L := hw
    obtain ⟨own, hown⟩ := Option.isSome_iff_exists.mp hnode
    cases L with
    | nil => exact absurd hroad.chain (by simp [chainFrom])
    | cons m' rest =>
      obtain ⟨e, hnot, hch⟩ := hroad.chain
      cases e
      refine ⟨.hDbg0 { who := m, own := own }, rest, ?_, ?_, Or.inr ⟨?_, ?_⟩⟩
      · simp [microStep, hop, stepPP, hown]
      · simp [microStep, hop, stepPP, hown]
      · simp only [microStep, hop, stepPP, hown, upd_same, WalkAt]
        refine ⟨?_, trivial, ?_⟩
        · simp only [setNode_nodes_same]; exact hroad.quiet m (List.mem_cons_self ..)
        · simp only [setNode_nodes_same]
          refine Road.setNode ⟨hch, fun x hx => hroad.quiet x (List.mem_cons_of_mem _ hx)⟩ _ _ ?_ ?_ <;> (intro _; rfl)
      · simp only [walkFuel, List.length_cons]; omega
  | hDbg0 h =>
    obtain ⟨hc, hr, hroad⟩ := hw
    refine ⟨.hDbg1 h, L, ?_, ?_, Or.inr ⟨?_, ?_⟩⟩
    · simp [microStep, hop, stepPP]
    · simp [microStep, hop, stepPP]
    · simp only [microStep, hop, stepPP, upd_same, WalkAt]
      unfold dbgInUse
      split
      · exact ⟨hc, hr, hroad⟩
      · exact ⟨by simpa using hc, hr, by simpa using hroad.setFault _⟩
    · simp only [walkFuel]; omega
  | hDbg1 h =>
    obtain ⟨hc, hr, hroad⟩ := hw
    refine ⟨.h1 h, L, ?_, ?_, Or.inr ⟨?_, ?_⟩⟩
    · simp [microStep, hop, stepPP]
    · simp [microStep, hop, stepPP]
    · simp only [microStep, hop, stepPP, upd_same, WalkAt]
      split
      · exact ⟨hc, hr, hroad⟩
      · exact ⟨by simpa using hc, hr, by simpa using hroad.setFault _⟩
    · simp only [walkFuel]; omega
  | h1 h =>
    obtain ⟨hc, hr, hroad⟩ := hw
    refine ⟨.hend { h with ctl := .idle }, L, ?_, ?_, Or.inr ⟨?_, ?_⟩⟩
    · simp [microStep, hop, stepPP, hc, PP.dispatch]
    · simp [microStep, hop, stepPP, hc, PP.dispatch]
    · simp only [microStep, hop, stepPP, hc, PP.dispatch, upd_same, WalkAt]
      exact ⟨hr, hroad⟩
    · simp only [walkFuel]; omega
  | hend h =>
    obtain ⟨hr, hroad⟩ := hw
    refine ⟨.slot h.who 0, L, ?_, ?_, Or.inr ⟨?_, ?_⟩⟩
    · simp [microStep, hop, stepPP, hr]
    · simp [microStep, hop, stepPP, hr]
    · simp only [microStep, hop, stepPP, hr, Bool.false_eq_true, ↓reduceIte, upd_same, WalkAt]
      exact ⟨Nat.zero_le _, hroad⟩
    · simp only [walkFuel]; omega
  | slot n j =>
    obtain ⟨hj, hroad⟩ := hw
    have hs : slotCnt = 8 := rfl
    by_cases hlt : j < slotCnt
    · by_cases hv : (st.sh.nodes n).fast j = .ptr old
      · by_cases h0 : old = 0
        · -- paid, null: on to the next slot
          refine ⟨.slot n (j + 1), L, ?_, ?_, Or.inr ⟨?_, ?_⟩⟩
          · simp [microStep, hop, stepPP, hlt, hv, h0, PP.nextSlot]
          · simp [microStep, hop, stepPP, hlt, hv, h0, PP.nextSlot]
          · simp only [microStep, hop, stepPP, hlt, hv, h0, ↓reduceIte, PP.nextSlot, upd_same, WalkAt]
            refine ⟨by omega, ?_⟩
            simp only [setNode_nodes_same]
            refine Road.setNode hroad _ _ ?_ ?_ <;> (intro _; rfl)
          · simp only [walkFuel]; omega
        · refine ⟨.slotInc n j, L, ?_, ?_, Or.inr ⟨?_, ?_⟩⟩
          · simp [microStep, hop, stepPP, hlt, hv, h0]
          · simp [microStep, hop, stepPP, hlt, hv, h0]
          · simp only [microStep, hop, stepPP, hlt, hv, h0, ↓reduceIte, upd_same, WalkAt]
            refine ⟨hj, ?_⟩
            simp only [setNode_nodes_same]
            refine Road.setNode hroad _ _ ?_ ?_ <;> (intro _; rfl)
          · simp only [walkFuel]; omega
      · refine ⟨.slot n (j + 1), L, ?_, ?_, Or.inr ⟨?_, ?_⟩⟩
        · simp [microStep, hop, stepPP, hlt, hv, PP.nextSlot]
        · simp [microStep, hop, stepPP, hlt, hv, PP.nextSlot]
        · simp only [microStep, hop, stepPP, hlt, hv, ↓reduceIte, PP.nextSlot, upd_same, WalkAt]
          exact ⟨by omega, hroad⟩
        · simp only [walkFuel]; omega
    · have hj8 : j = slotCnt := by omega
      by_cases hv : (st.sh.nodes n).hslot = .ptr old
      · by_cases h0 : old = 0
        · refine ⟨.rel n, L, ?_, ?_, Or.inr ⟨?_, ?_⟩⟩
          · simp [microStep, hop, stepPP, hlt, hv, h0, PP.nextSlot]
          · simp [microStep, hop, stepPP, hlt, hv, h0, PP.nextSlot]
          · simp only [microStep, hop, stepPP, hlt, hv, h0, ↓reduceIte, PP.nextSlot, upd_same, WalkAt]
            simp only [setNode_nodes_same]
            refine Road.setNode hroad _ _ ?_ ?_ <;> (intro _; rfl)
          · simp only [walkFuel]; omega
        · refine ⟨.slotInc n j, L, ?_, ?_, Or.inr ⟨?_, ?_⟩⟩
          · simp [microStep, hop, stepPP, hlt, hv, h0]
          · simp [microStep, hop, stepPP, hlt, hv, h0]
          · simp only [microStep, hop, stepPP, hlt, hv, h0, ↓reduceIte, upd_same, WalkAt]
            refine ⟨hj, ?_⟩
            simp only [setNode_nodes_same]
            refine Road.setNode hroad _ _ ?_ ?_ <;> (intro _; rfl)
          · simp only [walkFuel]; omega
      · refine ⟨.rel n, L, ?_, ?_, Or.inr ⟨?_, ?_⟩⟩
        · simp [microStep, hop, stepPP, hlt, hv, PP.nextSlot]
        · simp [microStep, hop, stepPP, hlt, hv, PP.nextSlot]
        · simp only [microStep, hop, stepPP, hlt, hv, ↓reduceIte, PP.nextSlot, upd_same, WalkAt]
          exact hroad
        · simp only [walkFuel]; omega
  | slotInc n j =>
    obtain ⟨hj, hroad⟩ := hw
    have hs8 : slotCnt = 8 := rfl
    by_cases hlt : j < slotCnt
    · refine ⟨.slot n (j + 1), L, ?_, ?_, Or.inr ⟨?_, ?_⟩⟩
      · simp [microStep, hop, stepPP, PP.nextSlot, hlt]
      · simp [microStep, hop, stepPP, PP.nextSlot, hlt]
      · simp only [microStep, hop, stepPP, PP.nextSlot, hlt, ↓reduceIte, upd_same, WalkAt]
        refine ⟨by omega, ?_⟩
        simpa using hroad.incObj old
      · simp only [walkFuel]; omega
    · refine ⟨.rel n, L, ?_, ?_, Or.inr ⟨?_, ?_⟩⟩
      · simp [microStep, hop, stepPP, PP.nextSlot, hlt]
      · simp [microStep, hop, stepPP, PP.nextSlot, hlt]
      · simp only [microStep, hop, stepPP, PP.nextSlot, hlt, ↓reduceIte, upd_same, WalkAt]
        simpa using hroad.incObj old
      · have : j = slotCnt := by omega
        have hs : slotCnt = 8 := rfl
        simp only [walkFuel]; omega
  | rel n =>
    have hroad : Road st.sh (st.sh.nodes n).next L := hw
    cases hnx : (st.sh.nodes n).next with
    | none =>
      exact ⟨.fin, [], by simp [microStep, hop, stepPP, hnx], by simp [microStep, hop, stepPP, hnx], Or.inl rfl⟩
    | some m =>
      refine ⟨.res m, L, ?_, ?_, Or.inr ⟨?_, ?_⟩⟩
      · simp [microStep, hop, stepPP, hnx]
      · simp [microStep, hop, stepPP, hnx]
      · simp only [microStep, hop, stepPP, hnx, upd_same, WalkAt]
        rw [hnx] at hroad
        refine Road.setNode hroad _ _ ?_ ?_ <;> (intro _; rfl)
      · simp only [walkFuel]
        have : 1 ≤ L.length := by
          rw [hnx] at hroad
          cases L with
          | nil => exact absurd hroad.chain (by simp [chainFrom])
          | cons x r => simp
        omega
  | _ => exact hw.elim

/-- **the walk ends, alone**: from any position of the walk with the road ahead quiet, the thread,
    running alone, reaches the end of the walk within `walkFuel + 1` of its own steps -/
theorem walk_ends_alone (f : Nat) : ∀ (st : State) (t c out old : Nat) (isStore : Bool) (pp : PP) (L : List Nat),
    (st.th t).op = .swapPay c out old isStore pp → WalkAt st.sh (st.th t).loc pp L →
    (st.th t).loc.node.isSome = true → walkFuel pp L.length ≤ f →
    ∃ k, k ≤ f + 1 ∧ ((solo st t k).th t).op = .swapPay c out old isStore .fin := by
  induction f with
  | zero =>
    intro st t c out old isStore pp L hop hw hnode hf
    obtain ⟨pp', L', h1, _, h3⟩ := walk_step st t c out old isStore pp L hop hw hnode
    rcases h3 with rfl | ⟨_, hlt⟩
    · exact ⟨1, by omega, h1⟩
    · omega
  | succ f ih =>
    intro st t c out old isStore pp L hop hw hnode hf
    obtain ⟨pp', L', h1, h2, h3⟩ := walk_step st t c out old isStore pp L hop hw hnode
    rcases h3 with rfl | ⟨hw', hlt⟩
    · exact ⟨1, by omega, h1⟩
    · obtain ⟨k, hk, hfin⟩ := ih (microStep st t false).1 t c out old isStore pp' L' h1 hw' (by rw [h2]; exact hnode) (by omega)
      exact ⟨k + 1, by omega, hfin⟩

/-- from the moment it has reserved the first node: at most `25 · nodes + 1` own steps to the end of
    the walk, for a list of any length -/
theorem walk_bound_from_first_node (st : State) (t c out old : Nat) (isStore : Bool) (m : Nat) (L : List Nat)
    (hop : (st.th t).op = .swapPay c out old isStore (.res m)) (hroad : Road st.sh (some m) L)
    (hnode : (st.th t).loc.node.isSome = true) :
    ∃ k, k ≤ 25 * L.length + 1 ∧ ((solo st t k).th t).op = .swapPay c out old isStore .fin :=
  walk_ends_alone (25 * L.length) st t c out old isStore (.res m) L hop hroad hnode (Nat.le_refl _)

/-- **from the start of the walk** (the thread has its node): at most `25 · nodes + 4` own steps,
    for a list of any length; `ListInv` provides the chain in every reachable state -/
theorem walk_bound_from_start (st : State) (t c out old : Nat) (isStore : Bool) (L : List Nat)
    (hop : (st.th t).op = .swapPay c out old isStore .start) (hroad : Road st.sh st.sh.head L)
    (hnode : (st.th t).loc.node.isSome = true) :
    ∃ k, k ≤ 25 * L.length + 4 ∧ ((solo st t k).th t).op = .swapPay c out old isStore .fin :=
  walk_ends_alone (25 * L.length + 3) st t c out old isStore .start L hop hroad hnode (Nat.le_refl _)

/-- **in every reachable state**: a `store`/`swap` that has just exchanged the pointer and starts its
    walk, with no reader inside its fallback window, ends the walk alone within `25 · nNodes + 4`
    own steps — whatever the other threads were doing when they were frozen -/
theorem walk_bound_reachable {st : State} (h : Reachable st) (t c out old : Nat) (isStore : Bool)
    (hop : (st.th t).op = .swapPay c out old isStore .start) (hnode : (st.th t).loc.node.isSome = true)
    (hq : ∀ m, (st.sh.nodes m).control = .idle) :
    ∃ k, k ≤ 25 * st.sh.nNodes + 4 ∧ ((solo st t k).th t).op = .swapPay c out old isStore .fin := by
  obtain ⟨L, hL⟩ := ListInv.reachable h
  obtain ⟨k, hk, hfin⟩ := walk_bound_from_start st t c out old isStore L hop ⟨hL.1, fun m _ => hq m⟩ hnode
  have := hL.length_le
  exact ⟨k, by omega, hfin⟩

/-- non-vacuity: a road of two quiet nodes -/
example : Road ({ nodes := fun n => if n = 1 then { next := some 0 } else {}, nNodes := 2, head := some 1 } : Shared) (some 1) [1, 0] := by
  refine ⟨⟨rfl, by simp, ?_⟩, fun m _ => by dsimp only; split <;> rfl⟩
  show chainFrom _ (some 0) [0]
  exact ⟨rfl, by simp, trivial⟩

end M
