import ArcSwapModel.Inv.Haz0

/-!
# Tools for the hazard invariant: the cells

A value leaves a container only by an exchange (`swap`/`store`, the successful exchange of
`compare_and_swap`), and the thread that took it out starts walking the list for it at once
(`microStep_cells`) — as long as containers are created on fresh cells only and none is destroyed
(`Tame`; destruction needs exclusive access, which in Rust is the type system's business and in the
model the harness's `busy` discipline).
-/

namespace M
open Consts

/-! ## `compare_and_swap` exchanges the value it has just seen -/

def CP.cxok (cur : Nat) : CP → Prop
  | .cx old => old.ptr = cur
  | _ => True
def RP.cxok : RP → Prop
  | .cas cur _ cp => cp.cxok cur.ptr
  | _ => True
def OpSt.cxok : OpSt → Prop
  | .cas _ _ _ curPtr _ _ cp => cp.cxok curPtr
  | .rcu _ _ _ rp => rp.cxok
  | _ => True

theorem stepCP_cxok (cfg : Cfg) (c cur new : Nat) (s : Shared) (l : Locals) (b : Bool) (cp : CP) (h : cp.cxok cur) :
    (stepCP cfg c cur new s l b cp).2.2.1.cxok cur := by
  cases cp with
  | load ld =>
    simp only [stepCP]
    split
    · rename_i s' l' p d evs heq
      dsimp only
      by_cases hp : p = cur
      · simp [hp, CP.cxok]
      · simp only [ne_eq, hp, not_false_eq_true, ↓reduceIte]; split <;> trivial
    · trivial
  | cx old =>
    simp only [stepCP]
    (repeat' split) <;> first | trivial | exact h
  | pay old pp => simp only [stepCP]; (repeat' split) <;> trivial
  | dropOld gd => simp only [stepCP]; (repeat' split) <;> trivial
  | _ => simp only [stepCP] <;> trivial

theorem stepRP_cxok (cfg : Cfg) (c : Nat) (s : Shared) (l : Locals) (b : Bool) (tries : Nat) (rp : RP) (h : rp.cxok) :
    (stepRP cfg c s l b tries rp).2.2.1.cxok := by
  cases rp with
  | cas cur x cp =>
    have h1 := stepCP_cxok cfg c cur.ptr x s l b cp h
    simp only [stepRP]
    split
    · (repeat' split) <;> trivial
    · rename_i s' l' cp' evs hne heq; rw [heq] at h1; exact h1
  | load ld => simp only [stepRP]; (repeat' split) <;> trivial
  | attempt cur => simp only [stepRP]; trivial
  | intoPrev cur prev gi => simp only [stepRP]; (repeat' split) <;> trivial
  | dropCur res gd => simp only [stepRP]; (repeat' split) <;> trivial
  | dropCurLoop prev gd => simp only [stepRP]; (repeat' split) <;> trivial
  | done r => simp only [stepRP]; trivial

theorem beginOp_cxok (st : State) (t : Nat) (o : Op) : ((beginOp st t o).1.th t).op.cxok := by
  cases o <;> simp only [beginOp] <;> (repeat' split) <;>
    first
      | (simp [OpSt.cxok, CP.cxok, RP.cxok]; done)
      | (dsimp only; (try split) <;> simp [OpSt.cxok, CP.cxok, RP.cxok])

theorem microStep_cxok (st : State) (t : Nat) (b : Bool) (h : (st.th t).op.cxok) :
    ((microStep st t b).1.th t).op.cxok := by
  cases hop : (st.th t).op with
  | idle =>
    simp only [microStep, hop]
    split
    · simp only [upd_same]; split <;> trivial
    · rename_i txt o rest hp
      exact beginOp_cxok { st with th := upd st.th t { prog := rest, op := .idle, loc := (st.th t).loc } } t o
  | cas c cur keep curPtr new g cp =>
    rw [hop] at h
    have h1 := stepCP_cxok st.cfg c curPtr new st.sh (st.th t).loc b cp h
    simp only [microStep, hop]
    split
    · simp [OpSt.cxok]
    · rename_i s' l' cp' evs hne heq; rw [heq] at h1; simpa [OpSt.cxok] using h1
  | rcu c out tries rp =>
    rw [hop] at h
    have h1 := stepRP_cxok st.cfg c st.sh (st.th t).loc b tries rp h
    simp only [microStep, hop]
    split
    · simp [OpSt.cxok]
    · rename_i s' l' rp' tries' evs hne heq; rw [heq] at h1; simpa [OpSt.cxok] using h1
  | finished => simp only [microStep, hop]; trivial
  | swapSw c a0 out isStore =>
    simp only [microStep, hop]
    split
    · simp [OpSt.cxok]
    · rw [hop]; trivial
  | _ => simp only [microStep, hop] <;> (repeat' split) <;> simp [OpSt.cxok]

/-- in every reachable state a `compare_and_swap` at its exchange holds the value it compares with -/
theorem cxok_reachable {st : State} (h : Reachable st) (t : Nat) : (st.th t).op.cxok := by
  obtain ⟨cfg, progs, sched, rfl⟩ := h
  have h0 : ∀ t, ((State.initial cfg progs).th t).op.cxok := fun _ => trivial
  generalize State.initial cfg progs = st at h0
  induction sched generalizing st with
  | nil => exact h0 t
  | cons x rest ih =>
    obtain ⟨u, b⟩ := x
    refine ih _ (fun t' => ?_)
    by_cases e : t' = u
    · subst e; exact microStep_cxok st t' b (h0 t')
    · rw [(microStep_own st u b).2 t' e]; exact h0 t'

/-! ## What a step does to the cells -/

/-- `into_inner` or `drop` of a container in progress -/
def OpSt.cons : OpSt → Bool
  | .cinto .. | .dropc .. | .dropcDec .. => true
  | _ => false

/-- the next operation of thread `t`, if it is about to begin one, uses registers and cells below
    `N`, creates a container on a fresh cell only and destroys none -/
def Tame (N : Nat) (st : State) (t : Nat) : Prop :=
  (st.th t).op = .idle → ∀ txt o rest, (st.th t).prog = (txt, o) :: rest →
    o.below N ∧
    match o with
    | .mk c _ => st.sh.cells c = none
    | .cinto _ _ => False
    | .dropc _ => False
    | _ => True

theorem stepCP_cells (cfg : Cfg) (c cur new : Nat) (s : Shared) (l : Locals) (b : Bool) (cp : CP) (h : cp.cxok cur)
    (c' a : Nat) (hc : s.cells c' = some a) :
    (stepCP cfg c cur new s l b cp).1.cells c' = some a ∨
      ((stepCP cfg c cur new s l b cp).2.2.1.walk? = some (a, .start) ∧ (stepCP cfg c cur new s l b cp).1.cells c' ≠ none) := by
  cases cp with
  | load ld =>
    have h1 := (stepLP_frame cfg c s l b ld).1
    left
    simp only [stepCP]
    split
    · rename_i s' l' p d evs heq; rw [heq] at h1; dsimp only at h1 ⊢; rw [h1]; exact hc
    · rename_i s' l' ld' evs hne heq; rw [heq] at h1; dsimp only at h1 ⊢; rw [h1]; exact hc
  | cx old =>
    simp only [stepCP]
    cases hq : s.cells c with
    | none => left; simpa using hc
    | some q =>
      dsimp only
      by_cases hx : (!b && decide (q = cur)) = true
      · simp only [hx, ↓reduceIte]
        by_cases e : c' = c
        · subst e
          right
          rw [hq] at hc
          simp only [Bool.and_eq_true, Bool.not_eq_eq_eq_not, Bool.not_true, decide_eq_true_eq] at hx
          simp only [CP.cxok] at h
          simp only [CP.walk?, Option.some.injEq, Prod.mk.injEq, and_true]
          cases hc
          exact ⟨by rw [h]; exact hx.2.symm, by simp [Shared.writeCell]⟩
        · left; simp [Shared.writeCell, upd, e, hc]
      · simp only [hx]; left; simpa using hc
  | pay old pp =>
    have h1 := (stepPP_frame cfg old.ptr c s l b pp).1
    left
    simp only [stepCP]
    split
    · rename_i s' l' evs heq; rw [heq] at h1; dsimp only at h1 ⊢; rw [h1]; exact hc
    · rename_i s' l' pp' evs hne heq; rw [heq] at h1; dsimp only at h1 ⊢; rw [h1]; exact hc
  | dropOld gd =>
    have h1 := stepGD_cells s gd
    left
    simp only [stepCP]
    split
    · rename_i s' evs heq; rw [heq] at h1; dsimp only at h1 ⊢; rw [h1]; exact hc
    · rename_i s' gd' evs hne heq; rw [heq] at h1; dsimp only at h1 ⊢; rw [h1]; exact hc
  | dropNew old => left; simp only [stepCP]; simpa using hc
  | decOld old => left; simp only [stepCP]; simpa using hc
  | done old => left; simp only [stepCP]; exact hc

theorem stepRP_cells (cfg : Cfg) (c : Nat) (s : Shared) (l : Locals) (b : Bool) (tries : Nat) (rp : RP) (h : rp.cxok)
    (c' a : Nat) (hc : s.cells c' = some a) :
    (stepRP cfg c s l b tries rp).1.cells c' = some a ∨
      ((stepRP cfg c s l b tries rp).2.2.1.walk? = some (a, .start) ∧ (stepRP cfg c s l b tries rp).1.cells c' ≠ none) := by
  cases rp with
  | load ld =>
    have h1 := (stepLP_frame cfg c s l b ld).1
    left
    simp only [stepRP]
    split
    · rename_i s' l' p d evs heq; rw [heq] at h1; dsimp only at h1 ⊢; rw [h1]; exact hc
    · rename_i s' l' ld' evs hne heq; rw [heq] at h1; dsimp only at h1 ⊢; rw [h1]; exact hc
  | attempt cur =>
    left
    simp only [stepRP]
    split <;> simpa [alloc] using hc
  | cas cur x cp =>
    have h1 := stepCP_cells cfg c cur.ptr x s l b cp h c' a hc
    simp only [stepRP]
    split
    · rename_i s' l' prev evs heq
      rw [heq] at h1
      rcases h1 with h1 | h1
      · left; (repeat' split) <;> exact h1
      · simp [CP.walk?] at h1
    · rename_i s' l' cp' evs hne heq; rw [heq] at h1; exact h1
  | intoPrev cur prev gi =>
    have h1 := stepGI_cells s gi
    left
    simp only [stepRP]
    split
    · rename_i s' evs heq; rw [heq] at h1; dsimp only at h1 ⊢; (repeat' split) <;> (rw [h1]; exact hc)
    · rename_i s' gi' evs hne heq; rw [heq] at h1; dsimp only at h1 ⊢; rw [h1]; exact hc
  | dropCur res gd =>
    have h1 := stepGD_cells s gd
    left
    simp only [stepRP]
    split
    · rename_i s' evs heq; rw [heq] at h1; dsimp only at h1 ⊢; rw [h1]; exact hc
    · rename_i s' gd' evs hne heq; rw [heq] at h1; dsimp only at h1 ⊢; rw [h1]; exact hc
  | dropCurLoop prev gd =>
    have h1 := stepGD_cells s gd
    left
    simp only [stepRP]
    split
    · rename_i s' evs heq; rw [heq] at h1; dsimp only at h1 ⊢; rw [h1]; exact hc
    · rename_i s' gd' evs hne heq; rw [heq] at h1; dsimp only at h1 ⊢; rw [h1]; exact hc
  | done r => left; simp only [stepRP]; exact hc

theorem beginOp_cells (st : State) (t : Nat) (o : Op)
    (htame : match o with | .mk c _ => st.sh.cells c = none | .cinto _ _ => False | .dropc _ => False | _ => True)
    (c' a : Nat) (hc : st.sh.cells c' = some a) : (beginOp st t o).1.sh.cells c' = some a := by
  cases o with
  | mk c h =>
    simp only [beginOp]
    split
    · exact hc
    · dsimp only at htame ⊢
      have : c' ≠ c := fun e => by rw [e, htame] at hc; cases hc
      simp [upd, this, hc]
  | cinto c h => exact htame.elim
  | dropc c => exact htame.elim
  | _ =>
    simp only [beginOp] <;> (repeat' split) <;>
      first
        | exact hc
        | (simp [alloc]; exact hc)
        | (dsimp only; (try split) <;> first | exact hc | simp [hc])

/-- **what a step does to the cells**: a value stays in its cell, or the thread that moved has just
    taken it out and is at the start of its walk for it -/
theorem microStep_cells {N : Nat} (st : State) (t : Nat) (b : Bool) (hx : (st.th t).op.cxok) (htame : Tame N st t)
    (hnc : (st.th t).op.cons = false) (c' a : Nat) (hc : st.sh.cells c' = some a) :
    (microStep st t b).1.sh.cells c' = some a ∨
      (((microStep st t b).1.th t).op.walk? = some (a, .start) ∧ (microStep st t b).1.sh.cells c' ≠ none) := by
  cases hop : (st.th t).op with
  | finished => left; simp only [microStep, hop]; exact hc
  | idle =>
    left
    simp only [microStep, hop]
    split
    · exact hc
    · rename_i txt o rest hp
      exact beginOp_cells { st with th := upd st.th t { prog := rest, op := .idle, loc := (st.th t).loc } } t o
        (htame hop txt o rest hp).2 c' a hc
  | exitCool cd =>
    have h1 := (stepCD_frame st.sh cd).1
    left
    simp only [microStep, hop]
    split
    · rename_i s' evs heq; rw [heq] at h1; dsimp only at h1 ⊢; rw [h1]; exact hc
    · rename_i s' cd' evs hne heq; rw [heq] at h1; dsimp only at h1 ⊢; rw [h1]; exact hc
  | load c g ld =>
    have h1 := (stepLP_frame st.cfg c st.sh (st.th t).loc b ld).1
    left
    simp only [microStep, hop]
    split
    · rename_i s' l' p d evs heq; rw [heq] at h1; dsimp only at h1 ⊢; rw [h1]; exact hc
    · rename_i s' l' ld' evs hne heq; rw [heq] at h1; dsimp only at h1 ⊢; rw [h1]; exact hc
  | loadFull c x ld =>
    have h1 := (stepLP_frame st.cfg c st.sh (st.th t).loc b ld).1
    left
    simp only [microStep, hop]
    split
    · rename_i s' l' p d evs heq; rw [heq] at h1; dsimp only at h1 ⊢; split <;> (dsimp only; rw [h1]; exact hc)
    · rename_i s' l' ld' evs hne heq; rw [heq] at h1; dsimp only at h1 ⊢; rw [h1]; exact hc
  | loadFullInto c x r gi =>
    have h1 := stepGI_cells st.sh gi
    left
    simp only [microStep, hop]
    split
    · rename_i s' evs heq; rw [heq] at h1; dsimp only at h1 ⊢; rw [h1]; exact hc
    · rename_i s' gi' evs hne heq; rw [heq] at h1; dsimp only at h1 ⊢; rw [h1]; exact hc
  | cloneh x y a0 => left; simp only [microStep, hop]; simpa using hc
  | droph a0 => left; simp only [microStep, hop]; simpa using hc
  | dropg gd =>
    have h1 := stepGD_cells st.sh gd
    left
    simp only [microStep, hop]
    split
    · rename_i s' evs heq; rw [heq] at h1; dsimp only at h1 ⊢; rw [h1]; exact hc
    · rename_i s' gd' evs hne heq; rw [heq] at h1; dsimp only at h1 ⊢; rw [h1]; exact hc
  | ginto x p gi =>
    have h1 := stepGI_cells st.sh gi
    left
    simp only [microStep, hop]
    split
    · rename_i s' evs heq; rw [heq] at h1; dsimp only at h1 ⊢; rw [h1]; exact hc
    · rename_i s' gi' evs hne heq; rw [heq] at h1; dsimp only at h1 ⊢; rw [h1]; exact hc
  | swapSw c a0 out isStore =>
    simp only [microStep, hop]
    cases hq : st.sh.cells c with
    | none => left; exact hc
    | some old =>
      dsimp only
      by_cases e : c' = c
      · subst e; right; rw [hq] at hc; cases hc; simp [OpSt.walk?, Shared.writeCell]
      · left; simp [Shared.writeCell, upd, e, hc]
  | swapPay c out old isStore pp =>
    have h1 := (stepPP_frame st.cfg old c st.sh (st.th t).loc b pp).1
    left
    simp only [microStep, hop]
    split
    · rename_i s' l' evs heq; rw [heq] at h1; dsimp only at h1 ⊢; (repeat' split) <;> (dsimp only; rw [h1]; exact hc)
    · rename_i s' l' pp' evs hne heq; rw [heq] at h1; dsimp only at h1 ⊢; rw [h1]; exact hc
  | swapDrop c old => left; simp only [microStep, hop]; simpa using hc
  | cas c cur keep curPtr new g cp =>
    rw [hop] at hx
    have h1 := stepCP_cells st.cfg c curPtr new st.sh (st.th t).loc b cp hx c' a hc
    simp only [microStep, hop]
    split
    · rename_i s' l' old evs heq
      rw [heq] at h1
      rcases h1 with h1 | h1
      · left; dsimp only at h1 ⊢; cases cur <;> cases keep <;> exact h1
      · simp [CP.walk?] at h1
    · rename_i s' l' cp' evs hne heq
      rw [heq] at h1
      exact h1.imp id (fun x => ⟨by simpa [OpSt.walk?] using x.1, x.2⟩)
  | rcu c out tries rp =>
    rw [hop] at hx
    have h1 := stepRP_cells st.cfg c st.sh (st.th t).loc b tries rp hx c' a hc
    simp only [microStep, hop]
    split
    · rename_i s' l' r tries' evs heq
      rw [heq] at h1
      rcases h1 with h1 | h1
      · left; exact h1
      · simp [RP.walk?] at h1
    · rename_i s' l' rp' tries' evs hne heq
      rw [heq] at h1
      exact h1.imp id (fun x => ⟨by simpa [OpSt.walk?] using x.1, x.2⟩)
  | cinto c x p pp => rw [hop] at hnc; cases hnc
  | dropc c p pp => rw [hop] at hnc; cases hnc
  | dropcDec c p => rw [hop] at hnc; cases hnc

end M
