import ArcSwapModel.Inv.Linked
import ArcSwapModel.Inv.Probe

/-!
# A fast slot that names a value is a slot of a node on the list
-/

namespace M
open Consts

structure NamedLinked (st : State) (L : List Nat) : Prop where
  linked : Linked st L
  named : ∀ n i, (st.sh.nodes n).fast i ≠ .none → n ∈ L

theorem NamedLinked.initial (cfg : Cfg) (progs : Nat → List (String × Op)) : NamedLinked (State.initial cfg progs) [] :=
  ⟨Linked.initial cfg progs, fun n i h => absurd rfl h⟩

theorem NamedLinked.step {st : State} {L : List Nat} (h : NamedLinked st L) (ho : OwnInv st) (hn : NodeInv st)
    (t : Nat) (b : Bool) : ∃ pre, NamedLinked (microStep st t b).1 (pre ++ L) := by
  obtain ⟨pre, hpre⟩ := h.linked.step ho t b
  refine ⟨pre, hpre, fun n i hne => ?_⟩
  have hfill := microStep_fill st t b hn.nodes.slots (hn.th t)
  by_cases hb : (st.sh.nodes n).fast i = .none
  · rcases hfill n i hb with h1 | ⟨h2, _⟩
    · exact absurd h1 hne
    · exact List.mem_append_right _ (h.linked.node t n h2)
  · exact List.mem_append_right _ (h.named n i hb)

theorem NamedLinked.reachable {st : State} (h : Reachable st) : ∃ L, NamedLinked st L := by
  obtain ⟨cfg, progs, sched, rfl⟩ := h
  have h0 : ∃ L, NamedLinked (State.initial cfg progs) L := ⟨[], NamedLinked.initial cfg progs⟩
  have o0 := OwnInv.initial cfg progs
  have n0 := NodeInv.initial cfg progs
  generalize State.initial cfg progs = st at h0 o0 n0
  induction sched generalizing st with
  | nil => exact h0
  | cons x rest ih =>
    obtain ⟨t, b⟩ := x
    obtain ⟨L, hL⟩ := h0
    obtain ⟨pre, hpre⟩ := hL.step o0 n0 t b
    exact ih _ ⟨pre ++ L, hpre⟩ (o0.step t b) (n0.step t b)

end M
