import ArcSwapModel.Inv.Touch2

/-!
# No count is touched after destruction (all count operations but the fallback's increment)
-/

namespace M
open Consts

/-- **the object whose count a step touches is alive and counted** — for every step of every
    operation that increments or decrements a reference count, except the increment of the
    fallback path's candidate: along every execution that satisfies the ledger's assumptions and
    has raised no fault -/
theorem touched_object_alive (K N T : Nat) (hK : 0 < K) (cfg : Cfg) (progs : Nat → List (String × Op))
    (sched : List (Nat × Bool)) (he : EnvRun0 K N T (State.initial cfg progs) sched)
    (hf : (run (State.initial cfg progs) sched).sh.fault = none) (a : Nat) (ha : a ≠ 0)
    (t : Nat) (ht : t < T)
    (htouch : ((run (State.initial cfg progs) sched).th t).op.touch = some a)
    (hnh : ((run (State.initial cfg progs) sched).th t).op.lp? ≠ some (.fokInc a)) :
    1 ≤ ((run (State.initial cfg progs) sched).sh.heap a).cnt ∧
      ((run (State.initial cfg progs) sched).sh.heap a).live = true := by
  have hwf := Wf.run0 hK (Wf.initial K cfg progs) sched he
  obtain ⟨L, hL⟩ := (HazAllD.initial N T cfg progs).run sched (TameRun2.of_env he)
  have of_cell : ∀ c, c < N → (run (State.initial cfg progs) sched).sh.cells c = some a →
      1 ≤ ((run (State.initial cfg progs) sched).sh.heap a).cnt ∧
        ((run (State.initial cfg progs) sched).sh.heap a).live = true := by
    intro c hc hcell
    have hcnt := stored_value_counted K N T hK cfg progs sched he hf a ha c hc hcell
    exact ⟨hcnt, HeapOk.reachable ⟨cfg, progs, sched, rfl⟩ a hcnt⟩
  rcases OpSt.touch_cov K _ ((run (State.initial cfg progs) sched).th t).loc a (hwf.thL t) htouch with
    hcov | ⟨c, hcw⟩ | ⟨c, hd⟩
  · rcases hcov with h1 | h1 | ⟨h1, n, i, h2, h3, h4⟩
    · exact thread_held_alive K N T hK cfg progs sched he hf a ha t ht (Or.inl h1)
    · exact absurd h1 hnh
    · refine thread_held_alive K N T hK cfg progs sched he hf a ha t ht (Or.inr ⟨n, i, h2, h3, h4, ?_⟩)
      intro _ hu; exfalso; rw [h1] at hu; rcases hu with hu | hu <;> cases hu
  · obtain ⟨hcons, hcell⟩ := OpSt.consWalk_cons hcw
    exact of_cell c (hL.busy.consN t c hcons hcell) (hL.busy.ccell t c a hcw)
  · have hcons : ((run (State.initial cfg progs) sched).th t).op.cons = true := by rw [hd]; rfl
    have hcell : ((run (State.initial cfg progs) sched).th t).op.cell? = some c := by rw [hd]; rfl
    exact of_cell c (hL.busy.consN t c hcons hcell) (hL.busy.cdec t c a hd)

/-- **no reference count is touched after destruction**: every step that increments or decrements
    the count of a (non-null) object — cloning and dropping handles, promoting a guard, releasing a
    guard that was paid, the writer's spare reference and its per-slot increments, releasing the
    replaced value, a rejected `new`, an unneeded replacement, the container's own reference at
    `Drop` — raises no fault; the one exception is the fallback path's increment of its candidate
    (protected by the helping protocol, not covered by these invariants) -/
theorem count_step_no_fault (K N T : Nat) (hK : 0 < K) (cfg : Cfg) (progs : Nat → List (String × Op))
    (sched : List (Nat × Bool)) (he : EnvRun0 K N T (State.initial cfg progs) sched)
    (hf : (run (State.initial cfg progs) sched).sh.fault = none) (a : Nat) (ha : a ≠ 0)
    (t : Nat) (ht : t < T) (b : Bool)
    (htouch : ((run (State.initial cfg progs) sched).th t).op.touch = some a)
    (hnh : ((run (State.initial cfg progs) sched).th t).op.lp? ≠ some (.fokInc a)) :
    (microStep (run (State.initial cfg progs) sched) t b).1.sh.fault = none := by
  obtain ⟨hc, hl⟩ := touched_object_alive K N T hK cfg progs sched he hf a ha t ht htouch hnh
  exact microStep_touch_fault _ t b a htouch hl hc hf

end M
