import ArcSwapModel.Inv.Alive2

/-!
# Whoever holds a reference that no borrow slot backs keeps the value alive

`Inv/Alive.lean` gives `count + claims ≥ containers + handles + guards + units in flight`.  A thread
whose operation accounts for more units of a value than it claims slots for has a reference of its
own; so the value has a positive count, is alive (`Inv/Live.lean`), and the count operation that
thread is about to perform on it raises no fault.  This covers every *release* of an owned
reference in the machine (handle drop, the writer's release after its walk, the surplus a guard
drop or a promotion gives back, the rejected value of a compare-and-swap, …) and every increment
made on the strength of an owned reference (handle clone).  The increments and reads made on the
strength of a *borrowed* reference (promotion of a guard whose slot still names the value, the
fallback's increment of its candidate, `rcu`'s look through its guard) are the hazard clause, not
covered here.
-/

namespace M
open Consts

/-- **surplus ⇒ counted**: a thread below `T` whose operation holds more units of `a` than it
    claims slots for -/
theorem unit_surplus_counted (K N T : Nat) (hK : 0 < K) (cfg : Cfg) (progs : Nat → List (String × Op))
    (sched : List (Nat × Bool)) (he : EnvRun0 K N T (State.initial cfg progs) sched)
    (hf : (run (State.initial cfg progs) sched).sh.fault = none) (a : Nat) (ha : a ≠ 0)
    (t : Nat) (ht : t < T)
    (hs : (((run (State.initial cfg progs) sched).th t).op.claims a ((run (State.initial cfg progs) sched).th t).loc).length + 1 ≤
      uOp ((run (State.initial cfg progs) sched).th t).op a) :
    1 ≤ ((run (State.initial cfg progs) sched).sh.heap a).cnt := by
  have h := count_plus_claims K N T hK cfg progs sched he hf a ha
  have hG : sumN (fun g => (gClaims a ((run (State.initial cfg progs) sched).sh.greg g)).length) N ≤
      sumN (fun g => gU ((run (State.initial cfg progs) sched).sh.greg g) a) N :=
    sumN_le (fun g _ => gClaims_len _ a)
  have hT : sumN (fun t => (((run (State.initial cfg progs) sched).th t).op.claims a
        ((run (State.initial cfg progs) sched).th t).loc).length) T + 1 ≤
      threadsU T (run (State.initial cfg progs) sched) a :=
    sumN_lt (fun m _ => OpSt.claims_len _ _ a) ht hs
  simp only [Shared.regs, regs] at h
  omega

/-- … and alive -/
theorem unit_surplus_live (K N T : Nat) (hK : 0 < K) (cfg : Cfg) (progs : Nat → List (String × Op))
    (sched : List (Nat × Bool)) (he : EnvRun0 K N T (State.initial cfg progs) sched)
    (hf : (run (State.initial cfg progs) sched).sh.fault = none) (a : Nat) (ha : a ≠ 0)
    (t : Nat) (ht : t < T)
    (hs : (((run (State.initial cfg progs) sched).th t).op.claims a ((run (State.initial cfg progs) sched).th t).loc).length + 1 ≤
      uOp ((run (State.initial cfg progs) sched).th t).op a) :
    ((run (State.initial cfg progs) sched).sh.heap a).live = true ∧
      1 ≤ ((run (State.initial cfg progs) sched).sh.heap a).cnt := by
  have hc := unit_surplus_counted K N T hK cfg progs sched he hf a ha t ht hs
  exact ⟨HeapOk.reachable ⟨cfg, progs, sched, rfl⟩ a hc, hc⟩

/-! ## The count operations made on the strength of an owned reference raise no fault -/

theorem decObj_no_fault (s : Shared) (a : Nat) (hl : (s.heap a).live = true) (hc : 1 ≤ (s.heap a).cnt)
    (hf : s.fault = none) : (decObj s a).1.fault = none := by
  simp only [decObj, hl, ↓reduceIte]
  have : (s.heap a).cnt ≠ 0 := by omega
  simp only [this, ↓reduceIte]
  split <;> exact hf

theorem incObj_no_fault (s : Shared) (a : Nat) (hl : (s.heap a).live = true) (hf : s.fault = none) :
    (incObj s a).1.fault = none := by
  simp only [incObj, hl, ↓reduceIte]; exact hf

/-- dropping a handle: the decrement finds the object alive and counted -/
theorem droph_no_fault (K N T : Nat) (hK : 0 < K) (cfg : Cfg) (progs : Nat → List (String × Op))
    (sched : List (Nat × Bool)) (he : EnvRun0 K N T (State.initial cfg progs) sched)
    (hf : (run (State.initial cfg progs) sched).sh.fault = none) (a : Nat) (ha : a ≠ 0)
    (t : Nat) (ht : t < T) (b : Bool)
    (hop : ((run (State.initial cfg progs) sched).th t).op = .droph a) :
    (microStep (run (State.initial cfg progs) sched) t b).1.sh.fault = none := by
  obtain ⟨hl, hc⟩ := unit_surplus_live K N T hK cfg progs sched he hf a ha t ht (by
    simp only [hop, OpSt.claims, uOp, u, ↓reduceIte, List.length_nil]; omega)
  simp only [microStep, hop]
  exact decObj_no_fault _ a hl hc hf

/-- cloning a handle: the increment finds the object alive -/
theorem cloneh_no_fault (K N T : Nat) (hK : 0 < K) (cfg : Cfg) (progs : Nat → List (String × Op))
    (sched : List (Nat × Bool)) (he : EnvRun0 K N T (State.initial cfg progs) sched)
    (hf : (run (State.initial cfg progs) sched).sh.fault = none) (a : Nat) (ha : a ≠ 0)
    (t : Nat) (ht : t < T) (b : Bool) (h h2 : Nat)
    (hop : ((run (State.initial cfg progs) sched).th t).op = .cloneh h h2 a) :
    (microStep (run (State.initial cfg progs) sched) t b).1.sh.fault = none := by
  obtain ⟨hl, _⟩ := unit_surplus_live K N T hK cfg progs sched he hf a ha t ht (by
    simp only [hop, OpSt.claims, uOp, u, ↓reduceIte, List.length_nil]; omega)
  simp only [microStep, hop]
  exact incObj_no_fault _ a hl hf

/-- the writer's release of the value it replaced, after the walk (`store`) -/
theorem swapDrop_no_fault (K N T : Nat) (hK : 0 < K) (cfg : Cfg) (progs : Nat → List (String × Op))
    (sched : List (Nat × Bool)) (he : EnvRun0 K N T (State.initial cfg progs) sched)
    (hf : (run (State.initial cfg progs) sched).sh.fault = none) (old : Nat) (ha : old ≠ 0)
    (t : Nat) (ht : t < T) (b : Bool) (c : Nat)
    (hop : ((run (State.initial cfg progs) sched).th t).op = .swapDrop c old) :
    (microStep (run (State.initial cfg progs) sched) t b).1.sh.fault = none := by
  obtain ⟨hl, hc⟩ := unit_surplus_live K N T hK cfg progs sched he hf old ha t ht (by
    simp only [hop, OpSt.claims, uOp, u, ↓reduceIte, List.length_nil]; omega)
  simp only [microStep, hop]
  simpa using decObj_no_fault _ old hl hc hf

/-- a guard drop that found its debt paid gives the reference back: the decrement finds the object
    alive and counted -/
theorem dropg_dec_no_fault (K N T : Nat) (hK : 0 < K) (cfg : Cfg) (progs : Nat → List (String × Op))
    (sched : List (Nat × Bool)) (he : EnvRun0 K N T (State.initial cfg progs) sched)
    (hf : (run (State.initial cfg progs) sched).sh.fault = none) (p : Nat) (ha : p ≠ 0)
    (t : Nat) (ht : t < T) (b : Bool)
    (hop : ((run (State.initial cfg progs) sched).th t).op = .dropg (.dec p)) :
    (microStep (run (State.initial cfg progs) sched) t b).1.sh.fault = none := by
  obtain ⟨hl, hc⟩ := unit_surplus_live K N T hK cfg progs sched he hf p ha t ht (by
    simp only [hop, OpSt.claims, GD.claims, uOp, uGD, u, ↓reduceIte, List.length_nil]; omega)
  simp only [microStep, hop, stepGD]
  exact decObj_no_fault _ p hl hc hf

end M
