import ArcSwapModel.Inv.HoldFinal

/-!
# What a container or a handle denotes is alive

The ledger (`C02_ledger_final`) says `count + slots naming a = containers + handles + guards +
units in flight`.  The slot-holder invariants say every occupied slot has a holder.  Counting the
holders (each claims one slot and accounts for at least one unit) gives
`slots naming a ≤ guards + units in flight`, hence `count ≥ containers + handles`: **a value stored
in a container, or denoted by a handle, has a positive count** — for every value, in the end state
of every execution that keeps the program discipline and raises no fault.
-/

namespace M
open Consts

/-! ## Sums -/

theorem sumN_add (f g : Nat → Nat) (K : Nat) : sumN (fun n => f n + g n) K = sumN f K + sumN g K := by
  induction K with
  | zero => rfl
  | succ k ih => simp only [sumN, ih]; omega

theorem sumN_le {f g : Nat → Nat} {K : Nat} (h : ∀ n, n < K → f n ≤ g n) : sumN f K ≤ sumN g K := by
  induction K with
  | zero => exact Nat.le_refl _
  | succ k ih =>
    have := ih (fun n hn => h n (by omega))
    have := h k (by omega)
    simp only [sumN]; omega

theorem sumN_term {f : Nat → Nat} {K n : Nat} (hn : n < K) : f n ≤ sumN f K := by
  induction K with
  | zero => omega
  | succ k ih =>
    simp only [sumN]
    by_cases h : n = k
    · subst h; omega
    · have := ih (by omega); omega

theorem sumN_comm (f : Nat → Nat → Nat) (K M : Nat) :
    sumN (fun n => sumN (fun i => f n i) M) K = sumN (fun i => sumN (fun n => f n i) K) M := by
  induction K with
  | zero => simp only [sumN]; exact (sumN_zero M).symm
  | succ k ih =>
    simp only [sumN, ih]
    exact (sumN_add _ _ M).symm

/-- a point indicator sums to at most one -/
theorem sumN_point (Q : Prop) [Decidable Q] (i0 M : Nat) :
    sumN (fun i => ind (Q ∧ i0 = i)) M = ind (Q ∧ i0 < M) := by
  induction M with
  | zero => simp [sumN, ind]
  | succ k ih =>
    simp only [sumN]; rw [ih]; simp only [ind]
    by_cases hq : Q <;> by_cases h1 : i0 < k <;> by_cases h2 : i0 = k <;> simp [hq, h1, h2] <;> omega

/-- double sum over slots `(n, i)`, `n < K`, `i < M` -/
def sum2 (f : Nat → Nat → Nat) (K M : Nat) : Nat := sumN (fun n => sumN (fun i => f n i) M) K

theorem sum2_add (f g : Nat → Nat → Nat) (K M : Nat) :
    sum2 (fun n i => f n i + g n i) K M = sum2 f K M + sum2 g K M := by
  simp only [sum2]
  rw [← sumN_add]
  exact sumN_congr (fun n _ => sumN_add _ _ M)

theorem sum2_le {f g : Nat → Nat → Nat} {K M : Nat} (h : ∀ n i, n < K → i < M → f n i ≤ g n i) :
    sum2 f K M ≤ sum2 g K M :=
  sumN_le (fun n hn => sumN_le (fun i hi => h n i hn hi))

theorem sum2_zero (K M : Nat) : sum2 (fun _ _ => 0) K M = 0 := by
  simp only [sum2, sumN_zero]

/-- exchanging a sum over registers or threads with the sum over slots -/
theorem sum2_sumN (f : Nat → Nat → Nat → Nat) (K M N : Nat) :
    sum2 (fun n i => sumN (fun g => f g n i) N) K M = sumN (fun g => sum2 (f g) K M) N := by
  induction N with
  | zero => simp only [sumN]; exact sum2_zero K M
  | succ k ih => simp only [sumN]; rw [sum2_add, ih]

/-- how often a slot occurs in a list of claims -/
def cnt2 (L : List (Nat × Nat)) (n i : Nat) : Nat := (L.filter (fun x => x = (n, i))).length

theorem cnt2_nil (n i : Nat) : cnt2 [] n i = 0 := rfl
theorem cnt2_cons (x : Nat × Nat) (L : List (Nat × Nat)) (n i : Nat) :
    cnt2 (x :: L) n i = ind (x.1 = n ∧ x.2 = i) + cnt2 L n i := by
  obtain ⟨a, b⟩ := x
  simp only [cnt2, List.filter_cons, ind]
  by_cases h : a = n ∧ b = i
  · obtain ⟨rfl, rfl⟩ := h; simp; omega
  · have : ¬ ((a, b) = (n, i)) := fun e => h (by cases e; exact ⟨rfl, rfl⟩)
    simp [h, this]

theorem cnt2_append (L L' : List (Nat × Nat)) (n i : Nat) : cnt2 (L ++ L') n i = cnt2 L n i + cnt2 L' n i := by
  simp [cnt2, List.filter_append]

theorem cnt2_pos {L : List (Nat × Nat)} {n i : Nat} (h : (n, i) ∈ L) : 1 ≤ cnt2 L n i := by
  induction L with
  | nil => cases h
  | cons x L ih =>
    rw [cnt2_cons]
    rcases List.mem_cons.mp h with e | e
    · subst e; simp [ind]
    · have := ih e; omega

/-- **counting claims**: the slots of a list of claims, counted over any rectangle, are at most its length -/
theorem sum2_cnt2 (L : List (Nat × Nat)) (K M : Nat) : sum2 (cnt2 L) K M ≤ L.length := by
  induction L with
  | nil =>
    have : cnt2 [] = fun _ _ => 0 := rfl
    rw [this, sum2_zero]; exact Nat.le_refl _
  | cons x L ih =>
    have e : sum2 (cnt2 (x :: L)) K M = sum2 (fun n i => ind (x.1 = n ∧ x.2 = i)) K M + sum2 (cnt2 L) K M := by
      rw [← sum2_add]; exact sumN_congr (fun n _ => sumN_congr (fun i _ => cnt2_cons x L n i))
    have p : sum2 (fun n i => ind (x.1 = n ∧ x.2 = i)) K M ≤ 1 := by
      simp only [sum2]
      have : ∀ n, sumN (fun i => ind (x.1 = n ∧ x.2 = i)) M = ind (x.1 = n ∧ x.2 < M) := fun n => sumN_point _ _ _
      simp only [this]
      have h2 : ∀ n, ind (x.1 = n ∧ x.2 < M) = ind (x.2 < M ∧ x.1 = n) := fun n => by simp [ind, and_comm]
      simp only [h2, sumN_point]
      simp only [ind]; split <;> omega
    simp only [List.length_cons]; omega

/-! ## Claims: the slots a guard or an operation in flight holds for the value `a` -/

def one (p a : Nat) (x : Nat × Nat) : List (Nat × Nat) := if p = a then [x] else []

theorem one_len (p a : Nat) (x : Nat × Nat) : (one p a x).length = u p a := by
  simp only [one, u]; split <;> rfl
theorem mem_one {p a : Nat} (x : Nat × Nat) (h : p = a) : x ∈ one p a x := by simp [one, h]

def Guard.claims (a : Nat) (g : Guard) : List (Nat × Nat) :=
  match g.debt with
  | some d => one g.ptr a d
  | none => []

/-- the helping slot is slot number `slotCnt` of its node -/
def LP.claims (a : Nat) (l : Locals) : LP → List (Nat × Nat)
  | .a3 p idx | .a4 p idx => match l.node with | some n => one p a (n, idx) | none => []
  | .f5 _ cand | .fokInc cand | .fokPay cand | .fr1 cand _ | .fr2 cand _ _ | .frPay cand _ =>
    match l.node with | some n => one cand a (n, slotCnt) | none => []
  | .done p d => Guard.claims a { ptr := p, debt := d }
  | _ => []

def GD.claims (a : Nat) : GD → List (Nat × Nat)
  | .pay p n i => one p a (n, i)
  | _ => []

def GI.claims (a : Nat) : GI → List (Nat × Nat)
  | .inc p n i | .pay p n i => one p a (n, i)
  | _ => []

def PP.claims (a : Nat) (l : Locals) : PP → List (Nat × Nat)
  | .hload _ ld => ld.claims a l
  | .hinto _ _ gi => gi.claims a
  | _ => []

def CP.claims (a : Nat) (l : Locals) : CP → List (Nat × Nat)
  | .load ld => ld.claims a l
  | .dropNew old | .cx old | .decOld old | .done old => old.claims a
  | .pay old pp => old.claims a ++ pp.claims a l
  | .dropOld gd => gd.claims a

def RP.claims (a : Nat) (l : Locals) : RP → List (Nat × Nat)
  | .load ld => ld.claims a l
  | .attempt cur => cur.claims a
  | .cas cur _ cp => cur.claims a ++ cp.claims a l
  | .intoPrev cur _ gi => cur.claims a ++ gi.claims a
  | .dropCur _ gd => gd.claims a
  | .dropCurLoop prev gd => prev.claims a ++ gd.claims a
  | .done _ => []

def gClaims (a : Nat) : Option Guard → List (Nat × Nat)
  | some g => g.claims a
  | none => []

def OpSt.claims (a : Nat) (l : Locals) : OpSt → List (Nat × Nat)
  | .load _ _ ld | .loadFull _ _ ld => ld.claims a l
  | .loadFullInto _ _ _ gi | .ginto _ _ gi => gi.claims a
  | .dropg gd => gd.claims a
  | .swapPay _ _ _ _ pp | .cinto _ _ _ pp | .dropc _ _ pp => pp.claims a l
  | .cas _ _ keep _ _ _ cp => cp.claims a l ++ gClaims a keep
  | .rcu _ _ _ rp => rp.claims a l
  | _ => []

/-! ### a holder claims its slot -/

theorem Guard.claims_of_holds {g : Guard} {n i a : Nat} (h : g.holds n i a) : (n, i) ∈ g.claims a := by
  obtain ⟨h1, h2⟩ := h
  simp only [Guard.claims, h2]; exact mem_one _ h1

theorem LP.claims_of_holds {lp : LP} {l : Locals} {n i a : Nat} (h : lp.holds n i a l) : (n, i) ∈ lp.claims a l := by
  cases lp <;> first
    | exact h.elim
    | (obtain ⟨h1, h2, h3⟩ := h; subst h2; simp only [LP.claims, h1]; exact mem_one _ h3)
    | exact Guard.claims_of_holds (g := ⟨_, _⟩) h

theorem LP.claims_of_hholds {lp : LP} {l : Locals} {n a : Nat} (h : lp.hholds n a l) : (n, slotCnt) ∈ lp.claims a l := by
  cases lp <;> first
    | exact h.elim
    | (obtain ⟨h1, h2⟩ := h; simp only [LP.claims, h1]; exact mem_one _ h2)

theorem GD.claims_of_holds {gd : GD} {n i a : Nat} (h : gd.holds n i a) : (n, i) ∈ gd.claims a := by
  cases gd <;> first
    | exact h.elim
    | (obtain ⟨h1, h2, h3⟩ := h; subst h2 h3; exact mem_one _ h1)

theorem GI.claims_of_holds {gi : GI} {n i a : Nat} (h : gi.holds n i a) : (n, i) ∈ gi.claims a := by
  cases gi <;> first
    | exact h.elim
    | (obtain ⟨h1, h2, h3⟩ := h; subst h2 h3; exact mem_one _ h1)

theorem PP.claims_of_holds {pp : PP} {l : Locals} {n i a : Nat} (h : pp.holds n i a l) : (n, i) ∈ pp.claims a l := by
  cases pp <;> first
    | exact h.elim
    | exact LP.claims_of_holds h
    | exact GI.claims_of_holds h

theorem PP.claims_of_hholds {pp : PP} {l : Locals} {n a : Nat} (h : pp.hholds n a l) : (n, slotCnt) ∈ pp.claims a l := by
  cases pp <;> first
    | exact h.elim
    | exact LP.claims_of_hholds h

theorem CP.claims_of_holds {cp : CP} {l : Locals} {n i a : Nat} (h : cp.holds n i a l) : (n, i) ∈ cp.claims a l := by
  cases cp with
  | load ld => exact LP.claims_of_holds h
  | pay old pp =>
    exact List.mem_append.mpr (h.elim (fun x => Or.inl (Guard.claims_of_holds x)) (fun x => Or.inr (PP.claims_of_holds x)))
  | dropOld gd => exact GD.claims_of_holds h
  | _ => exact Guard.claims_of_holds h

theorem CP.claims_of_hholds {cp : CP} {l : Locals} {n a : Nat} (h : cp.hholds n a l) : (n, slotCnt) ∈ cp.claims a l := by
  cases cp with
  | load ld => exact LP.claims_of_hholds h
  | pay old pp => exact List.mem_append.mpr (Or.inr (PP.claims_of_hholds h))
  | _ => exact h.elim

theorem RP.claims_of_holds {rp : RP} {l : Locals} {n i a : Nat} (h : rp.holds n i a l) : (n, i) ∈ rp.claims a l := by
  cases rp with
  | load ld => exact LP.claims_of_holds h
  | attempt cur => exact Guard.claims_of_holds h
  | cas cur x cp =>
    exact List.mem_append.mpr (h.elim (fun x => Or.inl (Guard.claims_of_holds x)) (fun x => Or.inr (CP.claims_of_holds x)))
  | intoPrev cur prev gi =>
    exact List.mem_append.mpr (h.elim (fun x => Or.inl (Guard.claims_of_holds x)) (fun x => Or.inr (GI.claims_of_holds x)))
  | dropCur res gd => exact GD.claims_of_holds h
  | dropCurLoop prev gd =>
    exact List.mem_append.mpr (h.elim (fun x => Or.inl (Guard.claims_of_holds x)) (fun x => Or.inr (GD.claims_of_holds x)))
  | done r => exact h.elim

theorem RP.claims_of_hholds {rp : RP} {l : Locals} {n a : Nat} (h : rp.hholds n a l) : (n, slotCnt) ∈ rp.claims a l := by
  cases rp with
  | load ld => exact LP.claims_of_hholds h
  | cas cur x cp => exact List.mem_append.mpr (Or.inr (CP.claims_of_hholds h))
  | _ => exact h.elim

theorem OpSt.claims_of_holds {op : OpSt} {l : Locals} {n i a : Nat} (h : op.holds n i a l) : (n, i) ∈ op.claims a l := by
  cases op with
  | load c g ld => exact LP.claims_of_holds h
  | loadFull c x ld => exact LP.claims_of_holds h
  | loadFullInto c x r gi => exact GI.claims_of_holds h
  | ginto x p gi => exact GI.claims_of_holds h
  | dropg gd => exact GD.claims_of_holds h
  | swapPay c out old isStore pp => exact PP.claims_of_holds h
  | cinto c x p pp => exact PP.claims_of_holds h
  | dropc c p pp => exact PP.claims_of_holds h
  | cas c cur keep curPtr new g cp =>
    refine List.mem_append.mpr (h.elim (fun x => Or.inl (CP.claims_of_holds x)) (fun x => Or.inr ?_))
    obtain ⟨cg, rfl, hx⟩ := x
    exact Guard.claims_of_holds hx
  | rcu c out tries rp => exact RP.claims_of_holds h
  | _ => exact h.elim

theorem OpSt.claims_of_hholds {op : OpSt} {l : Locals} {n a : Nat} (h : op.hholds n a l) : (n, slotCnt) ∈ op.claims a l := by
  cases op with
  | load c g ld => exact LP.claims_of_hholds h
  | loadFull c x ld => exact LP.claims_of_hholds h
  | swapPay c out old isStore pp => exact PP.claims_of_hholds h
  | cinto c x p pp => exact PP.claims_of_hholds h
  | dropc c p pp => exact PP.claims_of_hholds h
  | cas c cur keep curPtr new g cp => exact List.mem_append.mpr (Or.inl (CP.claims_of_hholds h))
  | rcu c out tries rp => exact RP.claims_of_hholds h
  | _ => exact h.elim

/-! ### a claim is backed by a unit -/

theorem Guard.claims_len (g : Guard) (a : Nat) : (g.claims a).length ≤ uG g a := by
  simp only [Guard.claims, uG]
  split
  · rw [one_len]; exact Nat.le_refl _
  · exact Nat.zero_le _

theorem LP.claims_len (lp : LP) (l : Locals) (a : Nat) : (lp.claims a l).length ≤ uLP lp a := by
  cases lp <;> simp only [LP.claims, uLP] <;>
    first
      | exact Nat.zero_le _
      | exact Guard.claims_len ⟨_, _⟩ a
      | (split
         · rw [one_len]; omega
         · exact Nat.zero_le _)

theorem GD.claims_len (gd : GD) (a : Nat) : (gd.claims a).length ≤ uGD gd a := by
  cases gd <;> simp only [GD.claims, uGD] <;> first | exact Nat.zero_le _ | (rw [one_len]; omega)

theorem GI.claims_len (r : Nat) (gi : GI) (a : Nat) : (gi.claims a).length ≤ uGI r gi a := by
  cases gi <;> simp only [GI.claims, uGI] <;> first | exact Nat.zero_le _ | (rw [one_len]; omega)

theorem PP.claims_len (p : Nat) (pp : PP) (l : Locals) (a : Nat) : (pp.claims a l).length ≤ uPP p pp a := by
  cases pp with
  | hload x ld => have := LP.claims_len ld l a; simp only [PP.claims, uPP]; omega
  | hinto x r gi => have := GI.claims_len r gi a; simp only [PP.claims, uPP]; omega
  | _ => exact Nat.zero_le _

theorem CP.claims_len (new : Nat) (cp : CP) (l : Locals) (a : Nat) : (cp.claims a l).length ≤ uCP new cp a := by
  cases cp with
  | load ld => have := LP.claims_len ld l a; simp only [CP.claims, uCP]; omega
  | dropNew old => have := Guard.claims_len old a; simp only [CP.claims, uCP]; omega
  | cx old => have := Guard.claims_len old a; simp only [CP.claims, uCP]; omega
  | pay old pp =>
    have := Guard.claims_len old a
    have := PP.claims_len old.ptr pp l a
    simp only [CP.claims, uCP, List.length_append]; omega
  | decOld old => have := Guard.claims_len old a; simp only [CP.claims, uCP]; omega
  | dropOld gd => have := GD.claims_len gd a; simp only [CP.claims, uCP]; omega
  | done old => exact Guard.claims_len old a

theorem RP.claims_len (rp : RP) (l : Locals) (a : Nat) : (rp.claims a l).length ≤ uRP rp a := by
  cases rp with
  | load ld => exact LP.claims_len ld l a
  | attempt cur => exact Guard.claims_len cur a
  | cas cur x cp =>
    have := Guard.claims_len cur a
    have := CP.claims_len x cp l a
    simp only [RP.claims, uRP, List.length_append]; omega
  | intoPrev cur prev gi =>
    have := Guard.claims_len cur a
    have := GI.claims_len prev.ptr gi a
    simp only [RP.claims, uRP, List.length_append]; omega
  | dropCur res gd => have := GD.claims_len gd a; simp only [RP.claims, uRP]; omega
  | dropCurLoop prev gd =>
    have := Guard.claims_len prev a
    have := GD.claims_len gd a
    simp only [RP.claims, uRP, List.length_append]; omega
  | done r => exact Nat.zero_le _

theorem gClaims_len (g : Option Guard) (a : Nat) : (gClaims a g).length ≤ gU g a := by
  cases g with
  | none => exact Nat.le_refl _
  | some gd => exact Guard.claims_len gd a

theorem OpSt.claims_len (op : OpSt) (l : Locals) (a : Nat) : (op.claims a l).length ≤ uOp op a := by
  cases op with
  | load c g ld => exact LP.claims_len ld l a
  | loadFull c x ld => exact LP.claims_len ld l a
  | loadFullInto c x r gi => exact GI.claims_len r gi a
  | ginto x p gi => exact GI.claims_len p gi a
  | dropg gd => exact GD.claims_len gd a
  | swapPay c out old isStore pp => have := PP.claims_len old pp l a; simp only [OpSt.claims, uOp]; omega
  | cinto c x p pp => exact PP.claims_len p pp l a
  | dropc c p pp => exact PP.claims_len p pp l a
  | cas c cur keep curPtr new g cp =>
    have := CP.claims_len new cp l a
    have := gClaims_len keep a
    simp only [OpSt.claims, uOp, List.length_append]; omega
  | rcu c out tries rp => exact RP.claims_len rp l a
  | _ => exact Nat.zero_le _

/-! ## Registers and threads out of range are empty -/

def GregBelow (N : Nat) (greg : Nat → Option Guard) : Prop := ∀ g, N ≤ g → greg g = none

theorem GregBelow.upd_none {N : Nat} {greg : Nat → Option Guard} (h : GregBelow N greg) (g : Nat) :
    GregBelow N (upd greg g none) := by
  intro g' hg'; simp only [upd]; split
  · rfl
  · exact h g' hg'

theorem GregBelow.upd_lt {N : Nat} {greg : Nat → Option Guard} (h : GregBelow N greg) (g : Nat) (hg : g < N) (v : Option Guard) :
    GregBelow N (upd greg g v) := by
  intro g' hg'
  have : g' ≠ g := by omega
  simp only [upd, this, ↓reduceIte]; exact h g' hg'

theorem beginOp_gregBelow (N : Nat) (st : State) (t : Nat) (o : Op) (h : GregBelow N st.sh.greg) :
    GregBelow N (beginOp st t o).1.sh.greg := by
  cases o <;> simp only [beginOp] <;> (repeat' split) <;>
    first
      | exact h
      | exact h.upd_none _
      | (simp only [alloc]; exact h)
      | (dsimp only; (try split) <;> first | exact h | exact h.upd_none _ | (simp only [setFault_greg]; exact h))

theorem microStep_gregBelow (N : Nat) (st : State) (t : Nat) (b : Bool)
    (hr : (st.th t).op.okR N st.sh) (h : GregBelow N st.sh.greg) : GregBelow N (microStep st t b).1.sh.greg := by
  cases hop : (st.th t).op with
  | finished => simp only [microStep, hop]; exact h
  | idle =>
    simp only [microStep, hop]
    split
    · exact h
    · exact beginOp_gregBelow N _ t _ h
  | exitCool cd =>
    have h2 := (stepCD_hg st.sh cd).2
    simp only [microStep, hop]
    split
    · rename_i s' evs heq; simp only [heq] at h2; ((try dsimp only); rw [h2]; exact h)
    · rename_i s' cd' evs hne heq; simp only [heq] at h2; ((try dsimp only); rw [h2]; exact h)
  | load c g ld =>
    rw [hop] at hr
    have h2 := (stepLP_hg st.cfg c st.sh (st.th t).loc b ld).2
    simp only [microStep, hop]
    split
    · rename_i s' l' p d evs heq; simp only [heq] at h2
      dsimp only; rw [h2]; exact h.upd_lt g hr.2.1 _
    · rename_i s' l' ld' evs hne heq; simp only [heq] at h2; ((try dsimp only); rw [h2]; exact h)
  | loadFull c x ld =>
    have h2 := (stepLP_hg st.cfg c st.sh (st.th t).loc b ld).2
    simp only [microStep, hop]
    split
    · rename_i s' l' p d evs heq; simp only [heq] at h2
      split <;> ((try dsimp only); rw [h2]; exact h)
    · rename_i s' l' ld' evs hne heq; simp only [heq] at h2; ((try dsimp only); rw [h2]; exact h)
  | loadFullInto c x r gi =>
    have h2 := (stepGI_hg st.sh gi).2
    simp only [microStep, hop]
    split
    · rename_i s' evs heq; simp only [heq] at h2; ((try dsimp only); rw [h2]; exact h)
    · rename_i s' gi' evs hne heq; simp only [heq] at h2; ((try dsimp only); rw [h2]; exact h)
  | cloneh x y a0 => simp only [microStep, hop]; ((try dsimp only); rw [(incObj_hg _ _).2]; exact h)
  | droph a0 => simp only [microStep, hop]; ((try dsimp only); rw [(decObj_hg _ _).2]; exact h)
  | dropg gd =>
    have h2 := (stepGD_hg st.sh gd).2
    simp only [microStep, hop]
    split
    · rename_i s' evs heq; simp only [heq] at h2; ((try dsimp only); rw [h2]; exact h)
    · rename_i s' gd' evs hne heq; simp only [heq] at h2; ((try dsimp only); rw [h2]; exact h)
  | ginto x p gi =>
    have h2 := (stepGI_hg st.sh gi).2
    simp only [microStep, hop]
    split
    · rename_i s' evs heq; simp only [heq] at h2; ((try dsimp only); rw [h2]; exact h)
    · rename_i s' gi' evs hne heq; simp only [heq] at h2; ((try dsimp only); rw [h2]; exact h)
  | swapSw c a0 out isStore =>
    simp only [microStep, hop]
    split
    · exact h
    · exact h
  | swapPay c out old isStore pp =>
    have h2 := (stepPP_hg st.cfg old c st.sh (st.th t).loc b pp).2
    simp only [microStep, hop]
    split
    · rename_i s' l' evs heq; simp only [heq] at h2
      (repeat' split) <;> ((try dsimp only); rw [h2]; exact h)
    · rename_i s' l' pp' evs hne heq; simp only [heq] at h2; ((try dsimp only); rw [h2]; exact h)
  | swapDrop c old => simp only [microStep, hop]; ((try dsimp only); rw [(decObj_hg _ _).2]; exact h)
  | cas c cur keep curPtr new g cp =>
    rw [hop] at hr
    have h2 := (stepCP_hg st.cfg c curPtr new st.sh (st.th t).loc b cp).2
    simp only [microStep, hop]
    split
    · rename_i s' l' old evs heq; simp only [heq] at h2
      obtain ⟨hc, hg, hfree, hcur⟩ := hr
      cases cur with
      | null => cases keep <;> ((try dsimp only); rw [h2]; exact h.upd_lt g hg _)
      | h hc' => cases keep <;> ((try dsimp only); rw [h2]; exact h.upd_lt g hg _)
      | g gc =>
        cases keep with
        | none => exact hcur.elim
        | some cg => dsimp only; rw [h2]; exact (h.upd_lt gc hcur.1 _).upd_lt g hg _
    · rename_i s' l' cp' evs hne heq; simp only [heq] at h2; ((try dsimp only); rw [h2]; exact h)
  | rcu c out tries rp =>
    have h2 := (stepRP_hg st.cfg c st.sh (st.th t).loc b tries rp).2
    simp only [microStep, hop]
    split
    · rename_i s' l' r tries' evs heq; simp only [heq] at h2; ((try dsimp only); rw [h2]; exact h)
    · rename_i s' l' rp' tries' evs hne heq; simp only [heq] at h2; ((try dsimp only); rw [h2]; exact h)
  | cinto c x p pp =>
    have h2 := (stepPP_hg st.cfg p c st.sh (st.th t).loc b pp).2
    simp only [microStep, hop]
    split
    · rename_i s' l' evs heq; simp only [heq] at h2; ((try dsimp only); rw [h2]; exact h)
    · rename_i s' l' pp' evs hne heq; simp only [heq] at h2; ((try dsimp only); rw [h2]; exact h)
  | dropc c p pp =>
    have h2 := (stepPP_hg st.cfg p c st.sh (st.th t).loc b pp).2
    simp only [microStep, hop]
    split
    · rename_i s' l' evs heq; simp only [heq] at h2
      (repeat' split) <;> ((try dsimp only); rw [h2]; exact h)
    · rename_i s' l' pp' evs hne heq; simp only [heq] at h2; ((try dsimp only); rw [h2]; exact h)
  | dropcDec c p => simp only [microStep, hop]; ((try dsimp only); rw [(decObj_hg _ _).2]; exact h)

theorem gregBelow_run (N : Nat) {st : State} (sched : List (Nat × Bool)) (hr : RegRun N st sched)
    (h : GregBelow N st.sh.greg) : GregBelow N (run st sched).sh.greg := by
  induction sched generalizing st with
  | nil => exact h
  | cons x rest ih => obtain ⟨t, b⟩ := x; exact ih hr.2 (microStep_gregBelow N st t b hr.1 h)

/-- threads that are never scheduled stay idle -/
def IdleBeyond (T : Nat) (st : State) : Prop := ∀ t, T ≤ t → (st.th t).op = .idle

theorem idleBeyond_run {K N T : Nat} {st : State} (sched : List (Nat × Bool)) (he : EnvRun0 K N T st sched)
    (h : IdleBeyond T st) : IdleBeyond T (run st sched) := by
  induction sched generalizing st with
  | nil => exact h
  | cons x rest ih =>
    obtain ⟨t, b⟩ := x
    refine ih he.2.2 (fun t' ht' => ?_)
    have : t' ≠ t := by have := he.1; omega
    rw [(microStep_own st t b).2 t' this]; exact h t' ht'

/-! ## Slots naming a value are at most its holders' units -/

/-- slot `i` of a node: the fast slots, then the helping slot -/
def named (nd : Node) (a i : Nat) : Nat := ind ((if i < slotCnt then nd.fast i else nd.hslot) = .ptr a)

theorem occN_named (nd : Node) (a : Nat) : occN nd a = sumN (fun i => named nd a i) (slotCnt + 1) := by
  simp only [occN, sumN, named, Nat.lt_irrefl, ↓reduceIte]
  congr 1

theorem occ_named (K : Nat) (nodes : Nat → Node) (a : Nat) :
    occ K nodes a = sum2 (fun n i => named (nodes n) a i) K (slotCnt + 1) := by
  simp only [occ, sum2]
  exact sumN_congr (fun n _ => occN_named (nodes n) a)

/-- each named slot is claimed by a register below `N` or a thread below `T` -/
theorem occ_pointwise (K N T : Nat) (st : State) (a : Nat) (h1 : HoldInv st) (h2 : HHoldInv st)
    (hg : GregBelow N st.sh.greg) (ht : IdleBeyond T st) :
    ∀ n i, n < K → i < slotCnt + 1 →
      named (st.sh.nodes n) a i ≤
        sumN (fun g => cnt2 (gClaims a (st.sh.greg g)) n i) N +
        sumN (fun t => cnt2 ((st.th t).op.claims a (st.th t).loc) n i) T := by
  intro n i _ hi
  by_cases hi' : i < slotCnt
  · simp only [named, hi', ↓reduceIte]
    by_cases hv : (st.sh.nodes n).fast i = .ptr a
    · simp only [ind, hv, ↓reduceIte]
      rcases h1 n i a hv with ⟨g, gd, e1, e2⟩ | ⟨t, e⟩
      · have hgN : g < N := by
          apply Classical.byContradiction; intro hc
          have := hg g (by omega); rw [this] at e1; cases e1
        have c1 : 1 ≤ cnt2 (gClaims a (st.sh.greg g)) n i := by
          rw [e1]; exact cnt2_pos (Guard.claims_of_holds e2)
        have := @sumN_term (fun g => cnt2 (gClaims a (st.sh.greg g)) n i) N g hgN
        omega
      · have htT : t < T := by
          apply Classical.byContradiction; intro hc
          have := ht t (by omega); rw [this] at e; exact e
        have c1 := cnt2_pos (OpSt.claims_of_holds e)
        have := @sumN_term (fun t => cnt2 ((st.th t).op.claims a (st.th t).loc) n i) T t htT
        omega
    · simp only [ind, hv, ↓reduceIte]; exact Nat.zero_le _
  · have e : i = slotCnt := by omega
    subst e
    simp only [named, Nat.lt_irrefl, ↓reduceIte]
    by_cases hv : (st.sh.nodes n).hslot = .ptr a
    · simp only [ind, hv, ↓reduceIte]
      obtain ⟨t, e⟩ := h2 n a hv
      have htT : t < T := by
        apply Classical.byContradiction; intro hc
        have := ht t (by omega); rw [this] at e; exact e
      have c1 := cnt2_pos (OpSt.claims_of_hholds e)
      have := @sumN_term (fun t => cnt2 ((st.th t).op.claims a (st.th t).loc) n slotCnt) T t htT
      omega
    · simp only [ind, hv, ↓reduceIte]; exact Nat.zero_le _

/-- **the slots naming `a` are at most the claims of their holders** -/
theorem occ_le_claims (K N T : Nat) (st : State) (a : Nat) (h1 : HoldInv st) (h2 : HHoldInv st)
    (hg : GregBelow N st.sh.greg) (ht : IdleBeyond T st) :
    occ K st.sh.nodes a ≤ sumN (fun g => (gClaims a (st.sh.greg g)).length) N +
      sumN (fun t => ((st.th t).op.claims a (st.th t).loc).length) T := by
  rw [occ_named]
  -- each named slot is claimed by a register below `N` or a thread below `T`
  have key := occ_pointwise K N T st a h1 h2 hg ht
  refine Nat.le_trans (sum2_le key) ?_
  rw [sum2_add, sum2_sumN (fun g n i => cnt2 (gClaims a (st.sh.greg g)) n i),
    sum2_sumN (fun t n i => cnt2 ((st.th t).op.claims a (st.th t).loc) n i)]
  refine Nat.add_le_add (sumN_le (fun g _ => ?_)) (sumN_le (fun t _ => ?_))
  · exact sum2_cnt2 _ _ _
  · exact sum2_cnt2 _ _ _

/-- … hence at most the units of their holders -/
theorem occ_le_holders (K N T : Nat) (st : State) (a : Nat) (h1 : HoldInv st) (h2 : HHoldInv st)
    (hg : GregBelow N st.sh.greg) (ht : IdleBeyond T st) :
    occ K st.sh.nodes a ≤ sumN (fun g => gU (st.sh.greg g) a) N + threadsU T st a := by
  refine Nat.le_trans (occ_le_claims K N T st a h1 h2 hg ht) ?_
  exact Nat.add_le_add (sumN_le (fun g _ => gClaims_len _ a)) (sumN_le (fun t _ => OpSt.claims_len _ _ a))

/-! ## The theorem -/

/-- **C01, containers and handles.**  In the end state of every execution that keeps the program
    discipline (`EnvRun0`: registers not raced on, fresh `mk`, pool not exhausted, at most `K`
    nodes, no hand-over) and raises no fault, for every value `a`: the strong count is at least the
    number of containers holding `a` plus the number of handles denoting it. -/
theorem count_covers_containers_and_handles (K N T : Nat) (hK : 0 < K) (cfg : Cfg) (progs : Nat → List (String × Op))
    (sched : List (Nat × Bool)) (he : EnvRun0 K N T (State.initial cfg progs) sched)
    (hf : (run (State.initial cfg progs) sched).sh.fault = none) (a : Nat) (ha : a ≠ 0) :
    sumN (fun c => ind ((run (State.initial cfg progs) sched).sh.cells c = some a)) N +
      sumN (fun h => ind ((run (State.initial cfg progs) sched).sh.hreg h = some a)) N ≤
    ((run (State.initial cfg progs) sched).sh.heap a).cnt := by
  have hl := C02_ledger_final K N T hK cfg progs sched he hf a ha
  have h1 := holdInv_of_env cfg progs sched he hf
  have h2 := HHoldInv.reachable ⟨cfg, progs, sched, rfl⟩ hf
  have hg : GregBelow N (run (State.initial cfg progs) sched).sh.greg :=
    gregBelow_run N sched (RegRun.of_env he) (fun _ _ => rfl)
  have ht : IdleBeyond T (run (State.initial cfg progs) sched) :=
    idleBeyond_run sched he (fun _ _ => rfl)
  have hocc := occ_le_holders K N T _ a h1 h2 hg ht
  simp only [pot, Shared.regs, regs] at hl
  omega

/-- a value stored in a container is alive: its count is positive -/
theorem stored_value_counted (K N T : Nat) (hK : 0 < K) (cfg : Cfg) (progs : Nat → List (String × Op))
    (sched : List (Nat × Bool)) (he : EnvRun0 K N T (State.initial cfg progs) sched)
    (hf : (run (State.initial cfg progs) sched).sh.fault = none) (a : Nat) (ha : a ≠ 0)
    (c : Nat) (hc : c < N) (hcell : (run (State.initial cfg progs) sched).sh.cells c = some a) :
    1 ≤ ((run (State.initial cfg progs) sched).sh.heap a).cnt := by
  have h := count_covers_containers_and_handles K N T hK cfg progs sched he hf a ha
  have t : ind ((run (State.initial cfg progs) sched).sh.cells c = some a) ≤
      sumN (fun c => ind ((run (State.initial cfg progs) sched).sh.cells c = some a)) N :=
    @sumN_term (fun c => ind ((run (State.initial cfg progs) sched).sh.cells c = some a)) N c hc
  have e : ind ((run (State.initial cfg progs) sched).sh.cells c = some a) = 1 := by simp [ind, hcell]
  omega

/-- a value denoted by a handle (a full load's result, a previous value returned by a writer) is
    alive: its count is positive -/
theorem handle_value_counted (K N T : Nat) (hK : 0 < K) (cfg : Cfg) (progs : Nat → List (String × Op))
    (sched : List (Nat × Bool)) (he : EnvRun0 K N T (State.initial cfg progs) sched)
    (hf : (run (State.initial cfg progs) sched).sh.fault = none) (a : Nat) (ha : a ≠ 0)
    (h : Nat) (hh : h < N) (hreg : (run (State.initial cfg progs) sched).sh.hreg h = some a) :
    1 ≤ ((run (State.initial cfg progs) sched).sh.heap a).cnt := by
  have h0 := count_covers_containers_and_handles K N T hK cfg progs sched he hf a ha
  have t : ind ((run (State.initial cfg progs) sched).sh.hreg h = some a) ≤
      sumN (fun h => ind ((run (State.initial cfg progs) sched).sh.hreg h = some a)) N :=
    @sumN_term (fun h => ind ((run (State.initial cfg progs) sched).sh.hreg h = some a)) N h hh
  have e : ind ((run (State.initial cfg progs) sched).sh.hreg h = some a) = 1 := by simp [ind, hreg]
  omega

theorem sumN_lt {f g : Nat → Nat} {K n : Nat} (h : ∀ m, m < K → f m ≤ g m) (hn : n < K) (hlt : f n + 1 ≤ g n) :
    sumN f K + 1 ≤ sumN g K := by
  induction K with
  | zero => omega
  | succ k ih =>
    simp only [sumN]
    by_cases e : n = k
    · subst e
      have := @sumN_le f g n (fun m hm => h m (by omega))
      omega
    · have := ih (fun m hm => h m (by omega)) (by omega)
      have := h k (by omega)
      omega

/-- **the exact form**: count + claims of all holders ≥ containers + handles + guards + units in flight -/
theorem count_plus_claims (K N T : Nat) (hK : 0 < K) (cfg : Cfg) (progs : Nat → List (String × Op))
    (sched : List (Nat × Bool)) (he : EnvRun0 K N T (State.initial cfg progs) sched)
    (hf : (run (State.initial cfg progs) sched).sh.fault = none) (a : Nat) (ha : a ≠ 0) :
    (run (State.initial cfg progs) sched).sh.regs N a + threadsU T (run (State.initial cfg progs) sched) a ≤
      ((run (State.initial cfg progs) sched).sh.heap a).cnt +
        (sumN (fun g => (gClaims a ((run (State.initial cfg progs) sched).sh.greg g)).length) N +
         sumN (fun t => (((run (State.initial cfg progs) sched).th t).op.claims a
            ((run (State.initial cfg progs) sched).th t).loc).length) T) := by
  have hl := C02_ledger_final K N T hK cfg progs sched he hf a ha
  have h1 := holdInv_of_env cfg progs sched he hf
  have h2 := HHoldInv.reachable ⟨cfg, progs, sched, rfl⟩ hf
  have hg : GregBelow N (run (State.initial cfg progs) sched).sh.greg :=
    gregBelow_run N sched (RegRun.of_env he) (fun _ _ => rfl)
  have ht : IdleBeyond T (run (State.initial cfg progs) sched) :=
    idleBeyond_run sched he (fun _ _ => rfl)
  have hocc := occ_le_claims K N T _ a h1 h2 hg ht
  simp only [pot] at hl
  omega

/-- **a guard that owns its reference** (no debt: the ninth and later guards of a thread, guards
    from the fallback path) keeps the value alive -/
theorem owned_guard_counted (K N T : Nat) (hK : 0 < K) (cfg : Cfg) (progs : Nat → List (String × Op))
    (sched : List (Nat × Bool)) (he : EnvRun0 K N T (State.initial cfg progs) sched)
    (hf : (run (State.initial cfg progs) sched).sh.fault = none) (a : Nat) (ha : a ≠ 0)
    (g : Nat) (hg : g < N) (gd : Guard) (hreg : (run (State.initial cfg progs) sched).sh.greg g = some gd)
    (hp : gd.ptr = a) (hd : gd.debt = none) :
    1 ≤ ((run (State.initial cfg progs) sched).sh.heap a).cnt := by
  have h := count_plus_claims K N T hK cfg progs sched he hf a ha
  have hG : sumN (fun g => (gClaims a ((run (State.initial cfg progs) sched).sh.greg g)).length) N + 1 ≤
      sumN (fun g => gU ((run (State.initial cfg progs) sched).sh.greg g) a) N := by
    refine sumN_lt (fun m _ => gClaims_len _ a) hg ?_
    simp [hreg, gClaims, Guard.claims, hd, gU, u, hp]
  have hT : sumN (fun t => (((run (State.initial cfg progs) sched).th t).op.claims a
        ((run (State.initial cfg progs) sched).th t).loc).length) T ≤
      threadsU T (run (State.initial cfg progs) sched) a :=
    sumN_le (fun t _ => OpSt.claims_len _ _ a)
  simp only [Shared.regs, regs] at h
  omega

/-- **the writer's own reference**: while a writer walks the debt list for the value `old` it has
    replaced (`swap`/`store`, before the release), that value is alive -/
theorem replaced_value_counted_during_walk (K N T : Nat) (hK : 0 < K) (cfg : Cfg) (progs : Nat → List (String × Op))
    (sched : List (Nat × Bool)) (he : EnvRun0 K N T (State.initial cfg progs) sched)
    (hf : (run (State.initial cfg progs) sched).sh.fault = none) (old : Nat) (ha : old ≠ 0)
    (t : Nat) (ht : t < T) (c out : Nat) (isStore : Bool) (pp : PP)
    (hop : ((run (State.initial cfg progs) sched).th t).op = .swapPay c out old isStore pp) :
    1 ≤ ((run (State.initial cfg progs) sched).sh.heap old).cnt := by
  have h := count_plus_claims K N T hK cfg progs sched he hf old ha
  have hG : sumN (fun g => (gClaims old ((run (State.initial cfg progs) sched).sh.greg g)).length) N ≤
      sumN (fun g => gU ((run (State.initial cfg progs) sched).sh.greg g) old) N :=
    sumN_le (fun g _ => gClaims_len _ old)
  have hT : sumN (fun t => (((run (State.initial cfg progs) sched).th t).op.claims old
        ((run (State.initial cfg progs) sched).th t).loc).length) T + 1 ≤
      threadsU T (run (State.initial cfg progs) sched) old := by
    refine sumN_lt (fun m _ => OpSt.claims_len _ _ old) ht ?_
    have := PP.claims_len old pp ((run (State.initial cfg progs) sched).th t).loc old
    simp only [hop, OpSt.claims, uOp, u, ↓reduceIte]
    omega
  simp only [Shared.regs, regs] at h
  omega

/-- non-vacuity: the one-thread execution that creates a value satisfies the hypotheses, its handle
    `h0` denotes address 1, and the theorem gives that object a positive count -/
example :
    1 ≤ ((run (State.initial {} (fun t => if t = 0 then [("new h0 5", .new 0 5)] else [])) [(0, false)]).sh.heap 1).cnt := by
  refine handle_value_counted 1 4 1 (by decide) {} _ [(0, false)] ?_ (by decide) 1 (by decide) 0 (by decide) (by decide)
  refine ⟨by decide, ⟨trivial, by decide, ?_, ?_, ?_, ?_⟩, trivial⟩
  · intro n j; simp [State.initial]
  · intro n j; simp [State.initial, microStep, beginOp, alloc]
  · intro v; rfl
  · intro txt o rest hp
    simp only [State.initial, ↓reduceIte, List.cons.injEq, Prod.mk.injEq] at hp
    obtain ⟨⟨_, rfl⟩, _⟩ := hp
    exact ⟨by show 0 < 4; decide, fun c h e => by cases e⟩

end M
