import ArcSwapModel.Inv.Haz6

/-!
# Every guard in a register keeps its value alive

A guard handed to the caller has no debt (it owns a reference), or a debt in a *fast* slot (the
fallback path pays its helping-slot debt before it returns).  Four cases: no debt — it owns a
reference; the slot does not name the value any more — the writer that paid it left it a
reference; the slot names the value and is confirmed — the hazard invariant; the slot names the
value and the owner is in the middle of publishing the same value through the same slot again —
two claimants of one occupied slot, so one of them has been paid.
-/

namespace M
open Consts

theorem LP.holds_of_unc {lp : LP} {l : Locals} {n i a : Nat} (hn : l.node = some n)
    (h : lp = .a3 a i ∨ lp = .a4 a i) : lp.holds n i a l := by
  rcases h with rfl | rfl <;> exact ⟨hn, rfl, rfl⟩

theorem PP.holds_of_lp {pp : PP} {l : Locals} {lp : LP} {n i a : Nat} (h : pp.lp? = some lp) (hl : lp.holds n i a l) :
    pp.holds n i a l := by
  cases pp <;> first | (cases h; done) | (simp only [PP.lp?, Option.some.injEq] at h; subst h; exact hl)

theorem CP.holds_of_lp {cp : CP} {l : Locals} {lp : LP} {n i a : Nat} (h : cp.lp? = some lp) (hl : lp.holds n i a l) :
    cp.holds n i a l := by
  cases cp with
  | load ld => simp only [CP.lp?, Option.some.injEq] at h; subst h; exact hl
  | pay old pp => exact Or.inr (PP.holds_of_lp (pp := pp) h hl)
  | _ => cases h

theorem RP.holds_of_lp {rp : RP} {l : Locals} {lp : LP} {n i a : Nat} (h : rp.lp? = some lp) (hl : lp.holds n i a l) :
    rp.holds n i a l := by
  cases rp with
  | load ld => simp only [RP.lp?, Option.some.injEq] at h; subst h; exact hl
  | cas cur x cp => exact Or.inr (CP.holds_of_lp (cp := cp) h hl)
  | _ => cases h

theorem OpSt.holds_of_lp {op : OpSt} {l : Locals} {lp : LP} {n i a : Nat} (h : op.lp? = some lp) (hl : lp.holds n i a l) :
    op.holds n i a l := by
  cases op with
  | load c g ld => simp only [OpSt.lp?, Option.some.injEq] at h; subst h; exact hl
  | loadFull c x ld => simp only [OpSt.lp?, Option.some.injEq] at h; subst h; exact hl
  | swapPay c out old isStore pp => exact PP.holds_of_lp (pp := pp) h hl
  | cinto c x p pp => exact PP.holds_of_lp (pp := pp) h hl
  | dropc c p pp => exact PP.holds_of_lp (pp := pp) h hl
  | cas c cur keep curPtr new g cp => exact Or.inl (CP.holds_of_lp (cp := cp) h hl)
  | rcu c out tries rp => exact RP.holds_of_lp (rp := rp) h hl
  | _ => cases h

/-- a thread that has published `a` in slot `i` of its node `n` and not confirmed it yet holds the slot -/
theorem holds_of_unc (th : Thread) (n i a : Nat) (hn : th.loc.node = some n) (h : Unc th.op.lp? a i) :
    th.op.holds n i a th.loc := by
  rcases h with h | h
  · exact OpSt.holds_of_lp h (LP.holds_of_unc hn (Or.inl rfl))
  · exact OpSt.holds_of_lp h (LP.holds_of_unc hn (Or.inr rfl))

/-- **every guard in a register keeps its value alive.**  Along every execution that satisfies the
    assumptions of the ledger, in which containers are created on fresh cells only and none is
    destroyed, and that has raised no fault: the value of every guard in a register — borrowed or
    not, paid or not, whatever the thread that made it and all the others are doing — has a
    positive count and has not been destroyed. -/
theorem guard_value_alive (K N T : Nat) (hK : 0 < K) (cfg : Cfg) (progs : Nat → List (String × Op))
    (sched : List (Nat × Bool)) (he : EnvRun0 K N T (State.initial cfg progs) sched)
    (ht : TameRun N (State.initial cfg progs) sched)
    (hf : (run (State.initial cfg progs) sched).sh.fault = none) (a : Nat) (ha : a ≠ 0)
    (g : Nat) (hg : g < N) (gd : Guard) (hreg : (run (State.initial cfg progs) sched).sh.greg g = some gd)
    (hp : gd.ptr = a) :
    1 ≤ ((run (State.initial cfg progs) sched).sh.heap a).cnt ∧
      ((run (State.initial cfg progs) sched).sh.heap a).live = true := by
  suffices hcnt : 1 ≤ ((run (State.initial cfg progs) sched).sh.heap a).cnt from
    ⟨hcnt, HeapOk.reachable ⟨cfg, progs, sched, rfl⟩ a hcnt⟩
  cases hd : gd.debt with
  | none => exact owned_guard_counted K N T hK cfg progs sched he hf a ha g hg gd hreg hp hd
  | some ni =>
    obtain ⟨n, i⟩ := ni
    by_cases hs : ((run (State.initial cfg progs) sched).sh.nodes n).fast i = .ptr a
    · have hwf := Wf.run0 hK (Wf.initial K cfg progs) sched he
      obtain ⟨hnK, hiS⟩ := hwf.greg g gd hreg n i hd
      by_cases hu : ∃ o, ((run (State.initial cfg progs) sched).th o).loc.node = some n ∧
          Unc ((run (State.initial cfg progs) sched).th o).op.lp? a i
      · -- two claimants of one occupied slot
        obtain ⟨o, hno, huo⟩ := hu
        have hl := C02_ledger_final K N T hK cfg progs sched he hf a ha
        have h1 := holdInv_of_env cfg progs sched he hf
        have h2 := HHoldInv.reachable ⟨cfg, progs, sched, rfl⟩ hf
        have hgb : GregBelow N (run (State.initial cfg progs) sched).sh.greg :=
          gregBelow_run N sched (RegRun.of_env he) (fun _ _ => rfl)
        have hib : IdleBeyond T (run (State.initial cfg progs) sched) :=
          idleBeyond_run sched he (fun _ _ => rfl)
        have hoT : o < T := by
          refine Nat.lt_of_not_le (fun hle => ?_)
          exact idle_not_unc (hib o hle) a i huo
        have hover : named ((run (State.initial cfg progs) sched).sh.nodes n) a i + 1 ≤
            sumN (fun g => cnt2 (gClaims a ((run (State.initial cfg progs) sched).sh.greg g)) n i) N +
            sumN (fun t => cnt2 (((run (State.initial cfg progs) sched).th t).op.claims a
              ((run (State.initial cfg progs) sched).th t).loc) n i) T := by
          have e0 : named ((run (State.initial cfg progs) sched).sh.nodes n) a i ≤ 1 := by
            simp only [named]; split <;> simp only [ind] <;> split <;> omega
          have c1 : 1 ≤ cnt2 (gClaims a ((run (State.initial cfg progs) sched).sh.greg g)) n i := by
            rw [hreg]; exact cnt2_pos (Guard.claims_of_holds ⟨hp, hd⟩)
          have c2 : 1 ≤ cnt2 (((run (State.initial cfg progs) sched).th o).op.claims a
              ((run (State.initial cfg progs) sched).th o).loc) n i :=
            cnt2_pos (OpSt.claims_of_holds (holds_of_unc _ n i a hno huo))
          have s1 := @sumN_term (fun g => cnt2 (gClaims a ((run (State.initial cfg progs) sched).sh.greg g)) n i) N g hg
          have s2 := @sumN_term (fun t => cnt2 (((run (State.initial cfg progs) sched).th t).op.claims a
              ((run (State.initial cfg progs) sched).th t).loc) n i) T o hoT
          omega
        have hocc := occ_lt_claims K N T _ a h1 h2 hgb hib n i hnK (by omega) hover
        have hG : sumN (fun g => (gClaims a ((run (State.initial cfg progs) sched).sh.greg g)).length) N ≤
            sumN (fun g => gU ((run (State.initial cfg progs) sched).sh.greg g) a) N :=
          sumN_le (fun g _ => gClaims_len _ a)
        have hT : sumN (fun t => (((run (State.initial cfg progs) sched).th t).op.claims a
              ((run (State.initial cfg progs) sched).th t).loc).length) T ≤
            threadsU T (run (State.initial cfg progs) sched) a :=
          sumN_le (fun t _ => OpSt.claims_len _ _ a)
        simp only [pot, Shared.regs, regs] at hl
        omega
      · exact (borrowed_value_alive K N T hK cfg progs sched he ht hf a ha n i hiS hs
          (fun o hno huo => hu ⟨o, hno, huo⟩)).1
    · exact paid_guard_counted K N T hK cfg progs sched he hf a ha g hg gd hreg hp n i hd hs

end M

namespace M
open Consts

/-- **dereferencing a guard raises no fault**: the access through any guard in a register finds
    the value alive (the model's `gderef` raises a use-after-free fault otherwise) -/
theorem gderef_no_fault (K N T : Nat) (hK : 0 < K) (cfg : Cfg) (progs : Nat → List (String × Op))
    (sched : List (Nat × Bool)) (he : EnvRun0 K N T (State.initial cfg progs) sched)
    (ht : TameRun N (State.initial cfg progs) sched)
    (hf : (run (State.initial cfg progs) sched).sh.fault = none)
    (t g : Nat) (hg : g < N) (b : Bool) (txt : String) (rest : List (String × Op))
    (hidle : ((run (State.initial cfg progs) sched).th t).op = .idle)
    (hprog : ((run (State.initial cfg progs) sched).th t).prog = (txt, .gderef g) :: rest) :
    (microStep (run (State.initial cfg progs) sched) t b).1.sh.fault = none := by
  simp only [microStep, hidle, hprog, beginOp]
  cases hreg : (run (State.initial cfg progs) sched).sh.greg g with
  | none => exact hf
  | some gd =>
    dsimp only
    by_cases h0 : gd.ptr = 0
    · simp [h0, hf]
    · have hl := (guard_value_alive K N T hK cfg progs sched he ht hf gd.ptr h0 g hg gd hreg rfl).2
      simp [hl, hf]

end M
