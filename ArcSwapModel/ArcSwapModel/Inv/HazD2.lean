import ArcSwapModel.Inv.HazD1

/-!
# The hazard invariant, with container destruction

Four ways a fast slot that names `a` is covered: `a` is still in a container that nobody is
destroying; a thread that took `a` out — or is about to, destroying its container — is walking the
list and has the slot ahead of it; the owner has not confirmed the slot yet; or the slot is the
debt of the guard a destroyer has just loaded while helping and is promoting (the container it is
destroying still holds `a`).
-/

namespace M
open Consts

/-- the guard a destroyer loaded while helping, being promoted: it holds slot `(n, i)` for `a`,
    the value of the container being destroyed -/
def OpSt.consHold (op : OpSt) (n i a : Nat) : Prop :=
  ∃ c h r gi, gi.holds n i a ∧ ((∃ x, op = .cinto c x a (.hinto h r gi)) ∨ op = .dropc c a (.hinto h r gi))

structure HazInvD (N : Nat) (st : State) (L : List Nat) : Prop where
  named : NamedLinked st L
  haz : ∀ n i a, i < slotCnt → (st.sh.nodes n).fast i = .ptr a →
    (∃ c, c < N ∧ st.sh.cells c = some a ∧ st.ctaken c = false) ∨
      (∃ w pp, (st.th w).op.walkC? = some (a, pp) ∧ pp.ahead L n i) ∨
      (∃ o, (st.th o).loc.node = some n ∧ Unc (st.th o).op.lp? a i) ∨
      (∃ o, (st.th o).op.consHold n i a)

theorem HazInvD.initial (N : Nat) (cfg : Cfg) (progs : Nat → List (String × Op)) : HazInvD N (State.initial cfg progs) [] :=
  ⟨NamedLinked.initial cfg progs, fun n i a _ h => by simp [State.initial] at h⟩

/-- a destroyer with a nested load in progress is at `hload` of its walk -/
theorem cons_lp_shape {op : OpSt} {lp : LP} (hc : op.cons = true) (h : op.lp? = some lp) :
    ∃ c p hh, (∃ x, op = .cinto c x p (.hload hh lp)) ∨ op = .dropc c p (.hload hh lp) := by
  cases op with
  | cinto c x p pp =>
    cases pp <;> first | (cases h; done) | skip
    rename_i hh ld
    simp only [OpSt.lp?, PP.lp?, Option.some.injEq] at h; subst h
    exact ⟨c, p, hh, Or.inl ⟨x, rfl⟩⟩
  | dropc c p pp =>
    cases pp <;> first | (cases h; done) | skip
    rename_i hh ld
    simp only [OpSt.lp?, PP.lp?, Option.some.injEq] at h; subst h
    exact ⟨c, p, hh, Or.inr rfl⟩
  | dropcDec c p => cases h
  | _ => cases hc

theorem HazInvD.step {N T : Nat} {st : State} {L : List Nat} (h : HazInvD N st L) (ho : OwnInv st) (hn : NodeInv st)
    (hw : WalkNodeC st) (hx : ∀ t, (st.th t).op.cxok) (hb : BusyInv N T st)
    (t : Nat) (b : Bool) (htame : Tame2 N st t) : ∃ pre, HazInvD N (microStep st t b).1 (pre ++ L) := by
  obtain ⟨pre, hpre⟩ := h.named.step ho hn t b
  refine ⟨pre, hpre, fun n i a hi hs' => ?_⟩
  have hoth := (microStep_own st t b).2
  -- `ctaken` stays, unless the stepping thread begins to destroy a container
  have hct : ∀ c a, st.sh.cells c = some a → st.ctaken c = false →
      (microStep st t b).1.ctaken c = false ∨ ((microStep st t b).1.th t).op.walkC? = some (a, .start) := by
    intro c a hca hnt
    rcases microStep_ctaken st t b with h1 | ⟨hidle, c2, hc2, hcons⟩
    · left; rw [h1]; exact hnt
    · rcases microStep_cellq2 st t b c2 hc2 with ⟨h2, _⟩ | ⟨_, _, _, _, _, _, h7⟩
      · rw [hidle] at h2; cases h2
      · obtain ⟨_, h9, p, hp, hor⟩ := h7 hcons
        by_cases e : c = c2
        · subst e
          right
          rw [hca] at hp; cases hp
          rcases hor with ⟨x, hx'⟩ | hx' <;> (rw [hx']; rfl)
        · left; rw [h9]; simp [upd, e, hnt]
  rcases microStep_slot st t b hn.nodes.slots (hn.th t) n i with e | e | ⟨hnode, p, hlp⟩
  · -- the slot is as it was
    have hs : (st.sh.nodes n).fast i = .ptr a := by rw [← e]; exact hs'
    have hnL : n ∈ L := h.named.named n i (by rw [hs]; simp)
    rcases h.haz n i a hi hs with ⟨c, hcN, hc, hnt⟩ | ⟨w, pp, hw1, hah⟩ | ⟨o, ho1, hu⟩ | ⟨o, hd⟩
    · -- the value is in a container
      rcases hct c a hc hnt with hnt' | hstart
      · by_cases hidle : (st.th t).op = .idle
        · have hcell : (microStep st t b).1.sh.cells c = st.sh.cells c :=
            microStep_cells_other st t b c (by rw [hidle]; intro x; cases x) (fun _ txt x rest hp => by
              have := (htame hidle txt _ rest hp).2 c x rfl
              rw [hc] at this; cases this)
          exact Or.inl ⟨c, hcN, by rw [hcell]; exact hc, hnt'⟩
        · cases hcb : (st.th t).op.cons with
          | true =>
            have hne : (st.th t).op.cell? ≠ some c := fun hcc => by
              have := hb.taken t c hcb hcc; rw [hnt] at this; cases this
            have hcell : (microStep st t b).1.sh.cells c = st.sh.cells c :=
              microStep_cells_other st t b c hne (fun hi' => absurd hi' hidle)
            exact Or.inl ⟨c, hcN, by rw [hcell]; exact hc, hnt'⟩
          | false =>
            rcases microStep_cells (N := N) st t b (hx t) (fun e' => absurd e' hidle) hcb c a hc with h1 | ⟨h1, _⟩
            · exact Or.inl ⟨c, hcN, h1, hnt'⟩
            · exact Or.inr (Or.inl ⟨t, .start, OpSt.walkC_of_walk h1, PP.ahead_start _ n i⟩)
      · exact Or.inr (Or.inl ⟨t, .start, hstart, PP.ahead_start _ n i⟩)
    · -- a walk has the slot ahead
      by_cases ew : w = t
      · subst ew
        obtain ⟨c, hnodes, _, hor, _⟩ := microStep_walkC_fwd st w b a pp hw1
        rcases ahead_step st.cfg a c st.sh (st.th w).loc b pp L h.named.linked.list.1 n i hnL hi (hw w a pp hw1) hah with h2 | h2
        · rcases hor with h3 | h3
          · exact Or.inr (Or.inl ⟨w, _, h3, h2.prepend pre⟩)
          · rw [h3] at h2; exact absurd h2 (PP.not_ahead_done L n i)
        · subst h2
          exfalso
          rw [hnodes] at hs'
          simp [stepPP, hi, hs] at hs'
      · refine Or.inr (Or.inl ⟨w, pp, ?_, hah.prepend pre⟩)
        rw [hoth w ew]; exact hw1
    · -- the owner has not confirmed yet
      by_cases eo : o = t
      · subst eo
        have e0 : (st.th o).loc.node.getD 0 = n := by rw [ho1]; rfl
        rcases hu with hu | hu
        · obtain ⟨c, hcell, hnodes, hcells, hloc, hor⟩ := microStep_lp st o b _ hu
          have hnidle : (st.th o).op ≠ .idle := fun e' => by rw [e'] at hu; cases hu
          have hkeep : (microStep st o b).1.ctaken = st.ctaken := by
            rcases microStep_ctaken st o b with h1 | ⟨h1, _⟩
            · exact h1
            · exact absurd h1 hnidle
          cases hcb : (st.th o).op.cons with
          | false =>
            obtain ⟨hcne, hcN, hnt⟩ := hb.free o c hcell hcb
            cases hq : st.sh.cells c with
            | none => exact absurd hq hcne
            | some q =>
              by_cases eq : q = a
              · subst eq
                refine Or.inl ⟨c, hcN, ?_, by rw [hkeep]; exact hnt⟩
                rw [hcells]
                simp [stepLP, hq]
              · refine Or.inr (Or.inr (Or.inl ⟨o, ?_, Or.inr ?_⟩))
                · rw [hloc]; simp [stepLP, hq, ho1]
                · rcases hor with h3 | ⟨q', d, h3⟩
                  · rw [h3]; simp [stepLP, hq, eq]
                  · simp [stepLP, hq, eq] at h3
          | true =>
            obtain ⟨c0, p, hh, hshape⟩ := cons_lp_shape hcb hu
            have hcw : (st.th o).op.consWalk c0 p := by
              rcases hshape with ⟨x, hx'⟩ | hx' <;> rw [hx']
              · exact Or.inl ⟨x, _, rfl⟩
              · exact Or.inr ⟨_, rfl⟩
            have hcp := hb.ccell o c0 p hcw
            by_cases eq : p = a
            · subst eq
              have hgi : GI.ofGuard { ptr := p, debt := some (n, i) } ≠ GI.done := by
                simp only [GI.ofGuard]; split <;> simp
              refine Or.inr (Or.inr (Or.inr ⟨o, c0, hh, p, GI.ofGuard { ptr := p, debt := some (n, i) }, ?_, ?_⟩))
              · simp only [GI.ofGuard]; split <;> exact ⟨rfl, rfl, rfl⟩
              · rcases hshape with ⟨x, hx'⟩ | hx'
                · left; refine ⟨x, ?_⟩
                  simp [microStep, hx', stepPP, stepLP, hcp, e0, hgi]
                · right
                  simp [microStep, hx', stepPP, stepLP, hcp, e0, hgi]
            · refine Or.inr (Or.inr (Or.inl ⟨o, ?_, Or.inr ?_⟩))
              · rcases hshape with ⟨x, hx'⟩ | hx' <;> simp [microStep, hx', stepPP, stepLP, hcp, ho1, eq]
              · have eq' : ¬ p = a := eq
                rcases hshape with ⟨x, hx'⟩ | hx' <;>
                  simp [microStep, hx', stepPP, stepLP, hcp, eq', OpSt.lp?, PP.lp?]
        · obtain ⟨c, hcell, hnodes, hcells, hloc, hor⟩ := microStep_lp st o b _ hu
          exfalso
          rw [hnodes] at hs'
          simp [stepLP, e0, hs] at hs'
      · refine Or.inr (Or.inr (Or.inl ⟨o, ?_, ?_⟩))
        · rw [hoth o eo]; exact ho1
        · rw [hoth o eo]; exact hu
    · -- a destroyer is promoting the guard it loaded while helping
      by_cases eo : o = t
      · subst eo
        obtain ⟨c, hh, r, gi, hg, hshape⟩ := hd
        cases gi with
        | inc p n' i' =>
          obtain ⟨rfl, rfl, rfl⟩ := hg
          refine Or.inr (Or.inr (Or.inr ⟨o, c, hh, r, .pay p n' i', ⟨rfl, rfl, rfl⟩, ?_⟩))
          rcases hshape with ⟨x, hx'⟩ | hx'
          · left; refine ⟨x, ?_⟩; simp [microStep, hx', stepPP, stepGI]
          · right; simp [microStep, hx', stepPP, stepGI]
        | pay p n' i' =>
          obtain ⟨rfl, rfl, rfl⟩ := hg
          exfalso
          rcases hshape with ⟨x, hx'⟩ | hx' <;> simp [microStep, hx', stepPP, stepGI, hs] at hs'
        | dec p => exact hg.elim
        | done => exact hg.elim
      · refine Or.inr (Or.inr (Or.inr ⟨o, ?_⟩))
        rw [hoth o eo]; exact hd
  · rw [e] at hs'; cases hs'
  · -- the owner has just written the slot
    obtain ⟨c, hcell, hnodes, hcells, hloc, hor⟩ := microStep_lp st t b _ hlp
    have e0 : (st.th t).loc.node.getD 0 = n := by rw [hnode]; rfl
    have hpa : p = a := by
      rw [hnodes] at hs'
      simp only [stepLP, e0] at hs'
      split at hs' <;> simpa using hs'
    subst hpa
    refine Or.inr (Or.inr (Or.inl ⟨t, ?_, Or.inl ?_⟩))
    · rw [hloc]; simp [stepLP, hnode]
    · rcases hor with h3 | ⟨q', d, h3⟩
      · rw [h3]; simp [stepLP]
      · simp [stepLP] at h3

end M
