import ArcSwapModel.Inv.HoldH

/-!
# A slot found empty by its owner stays empty until the owner fills it

`fast::get_debt` reads a slot of the thread's node, finds `NONE` and swaps the pointer in, with
`debug_assert_eq!(old, NONE)`.  Only the owner of a node ever fills its fast slots (`LP.pswap`);
everybody else only clears them.  `ProbeInv`: a thread that is about to swap into slot `i` of its
node finds it empty — in every reachable state.
-/

namespace M
open Consts

/-- only `who` fills an empty fast slot -/
def FillOnly (s s' : Shared) (who : Nat → Nat → Prop) : Prop :=
  ∀ n i, (s.nodes n).fast i = .none → (s'.nodes n).fast i = .none ∨ who n i

theorem FillOnly.same {s s' : Shared} {who : Nat → Nat → Prop} (h : ∀ n, (s'.nodes n).fast = (s.nodes n).fast) :
    FillOnly s s' who := fun n i hs => Or.inl (by rw [h]; exact hs)

theorem FillOnly.mono {s s' : Shared} {who who' : Nat → Nat → Prop} (h : FillOnly s s' who)
    (hw : ∀ n i, who n i → who' n i) : FillOnly s s' who' :=
  fun n i hs => (h n i hs).elim Or.inl (fun x => Or.inr (hw n i x))

theorem FillOnly.clear {s : Shared} {who : Nat → Nat → Prop} (n0 j : Nat) :
    FillOnly s (s.setNode n0 fun nd => { nd with fast := upd nd.fast j .none }) who := by
  intro n i hs
  left
  by_cases hn : n = n0
  · subst hn
    by_cases hi : i = j
    · subst hi; simp
    · simpa [upd, hi] using hs
  · simpa [hn] using hs

theorem stepGD_fill (s : Shared) (gd : GD) : FillOnly s (stepGD s gd).1 (fun _ _ => False) := by
  cases gd with
  | pay p n0 i0 => simp only [stepGD]; split; exact FillOnly.clear n0 i0; exact FillOnly.same (fun _ => rfl)
  | dec p => exact FillOnly.same (fun n => by simp [stepGD])
  | done => exact FillOnly.same (fun n => by simp [stepGD])

theorem stepGI_fill (s : Shared) (gi : GI) : FillOnly s (stepGI s gi).1 (fun _ _ => False) := by
  cases gi with
  | inc p n0 i0 => exact FillOnly.same (fun n => by simp [stepGI])
  | pay p n0 i0 => simp only [stepGI]; split; exact FillOnly.clear n0 i0; exact FillOnly.same (fun _ => rfl)
  | dec p => exact FillOnly.same (fun n => by simp [stepGI])
  | done => exact FillOnly.same (fun n => by simp [stepGI])

/-- where the innermost load of a thread is about to swap into slot `i` of node `n` -/
def AtSwap (l : Locals) (lp : Option LP) (n i : Nat) : Prop := l.node = some n ∧ ∃ p, lp = some (.pswap p i)

theorem stepLP_fill (cfg : Cfg) (c : Nat) (s : Shared) (l : Locals) (b : Bool) (lp : LP)
    (hb : Beyond s) (hset : lp.early = false → l.node.isSome = true) :
    FillOnly s (stepLP cfg c s l b lp).1 (AtSwap l (some lp)) := by
  cases lp with
  | start => simp only [stepLP]; (repeat' split) <;> exact FillOnly.same (fun _ => rfl)
  | get ng =>
    have h1 := fun n => (stepNG_slots s b ng hb n).1
    simp only [stepLP]; split
    · rename_i s' n evs heq; simp only [heq] at h1; exact FillOnly.same h1
    · rename_i s' ng' evs hne heq; simp only [heq] at h1; exact FillOnly.same h1
  | reget ng =>
    have h1 := fun n => (stepNG_slots s b ng hb n).1
    simp only [stepLP]; split
    · rename_i s' n evs heq; simp only [heq] at h1; exact FillOnly.same h1
    · rename_i s' ng' evs hne heq; simp only [heq] at h1; exact FillOnly.same h1
  | cool cd =>
    have h1 := stepCD_fast s cd
    simp only [stepLP]; split
    · rename_i s' evs heq; simp only [heq] at h1; exact FillOnly.same h1
    · rename_i s' cd' evs hne heq; simp only [heq] at h1; exact FillOnly.same h1
  | a1 => simp only [stepLP]; split <;> exact FillOnly.same (fun _ => by simp)
  | nfDbg p =>
    simp only [stepLP]; split
    · exact FillOnly.same (fun _ => by simp)
    · exact FillOnly.same (fun _ => by unfold dbgInUse; split <;> simp)
  | probe p i0 => simp only [stepLP]; exact FillOnly.same (fun _ => rfl)
  | pswap p idx =>
    obtain ⟨n0, hn0⟩ := Option.isSome_iff_exists.mp (hset rfl)
    have e : l.node.getD 0 = n0 := by rw [hn0]; rfl
    intro n i hs
    by_cases hn : n = n0
    · subst hn
      by_cases hi : i = idx
      · subst hi; exact Or.inr ⟨hn0, p, rfl⟩
      · left; simp only [stepLP, e]; split <;> simpa [upd, hi] using hs
    · left; simp only [stepLP, e]; split <;> simpa [hn] using hs
  | a3 p idx => simp only [stepLP]; (repeat' split) <;> exact FillOnly.same (fun _ => by simp)
  | a4 p idx =>
    simp only [stepLP]; split
    · exact FillOnly.clear _ _
    · exact FillOnly.same (fun _ => rfl)
  | a4dec p => simp only [stepLP]; exact FillOnly.same (fun _ => by simp)
  | nhDbg =>
    simp only [stepLP]; split
    · exact FillOnly.same (fun _ => by simp)
    · exact FillOnly.same (fun _ => by unfold dbgInUse; split <;> simp)
  | f1 => simp only [stepLP]; exact FillOnly.same (fun _ => by fast_frame)
  | f2 g => simp only [stepLP]; exact FillOnly.same (fun _ => by split <;> fast_frame)
  | f3 g => simp only [stepLP]; split <;> exact FillOnly.same (fun _ => by simp)
  | chDbg g cand =>
    simp only [stepLP]; split
    · exact FillOnly.same (fun _ => by simp)
    · exact FillOnly.same (fun _ => by unfold dbgInUse; split <;> simp)
  | f4 g cand => simp only [stepLP]; exact FillOnly.same (fun _ => by split <;> fast_frame)
  | f5 g cand => simp only [stepLP]; (repeat' split) <;> exact FillOnly.same (fun _ => by fast_frame)
  | fokInc cand => simp only [stepLP]; exact FillOnly.same (fun _ => by simp)
  | fokPay cand =>
    simp only [stepLP]; split
    · exact FillOnly.same (fun _ => by fast_frame)
    · exact FillOnly.same (fun _ => rfl)
  | fokDec cand => simp only [stepLP]; exact FillOnly.same (fun _ => by simp)
  | fr1 cand j => simp only [stepLP]; split <;> exact FillOnly.same (fun _ => by simp)
  | fr2 cand j r => simp only [stepLP]; exact FillOnly.same (fun _ => by fast_frame)
  | frPay cand r =>
    simp only [stepLP]; split
    · exact FillOnly.same (fun _ => by fast_frame)
    · exact FillOnly.same (fun _ => rfl)
  | frDec cand r => simp only [stepLP]; exact FillOnly.same (fun _ => by simp)
  | done p d => simp only [stepLP]; exact FillOnly.same (fun _ => rfl)

/-- a load arrives at the swap only from the probe that found the slot empty -/
theorem stepLP_arrive (cfg : Cfg) (c : Nat) (s : Shared) (l : Locals) (b : Bool) (lp : LP)
    (hset : lp.early = false → l.node.isSome = true) (p i n : Nat)
    (h : (stepLP cfg c s l b lp).2.2.1 = .pswap p i) (hn : (stepLP cfg c s l b lp).2.1.node = some n) :
    (((stepLP cfg c s l b lp).1.nodes n).fast i = .none) := by
  cases lp with
  | probe q i0 =>
    obtain ⟨n0, hn0⟩ := Option.isSome_iff_exists.mp (hset rfl)
    have e : l.node.getD 0 = n0 := by rw [hn0]; rfl
    simp only [stepLP, e] at h hn ⊢
    rw [hn0] at hn; cases hn
    split at h
    · rename_i hv; cases h; exact hv
    · split at h <;> cases h
  | _ =>
    simp only [stepLP] at h
    (repeat' split at h) <;> first | cases h | skip

theorem stepPP_fill (cfg : Cfg) (p c : Nat) (s : Shared) (l : Locals) (b : Bool) (pp : PP)
    (hb : Beyond s) (hk : pp.okN s l) :
    FillOnly s (stepPP cfg p c s l b pp).1 (AtSwap l pp.lp?) := by
  cases pp with
  | hload x ld =>
    have h1 := stepLP_fill cfg c s l b ld hb hk.2.1
    simp only [stepPP]
    split
    · rename_i s' l' r d evs heq; simp only [heq] at h1; exact h1
    · rename_i s' l' ld' evs hne heq; simp only [heq] at h1; exact h1
  | hinto x r gi =>
    have h1 := stepGI_fill s gi
    simp only [stepPP]
    split
    · rename_i s' evs heq; simp only [heq] at h1; exact h1.mono (fun _ _ h => h.elim)
    · rename_i s' gi' evs hne heq; simp only [heq] at h1; exact h1.mono (fun _ _ h => h.elim)
  | get ng =>
    have h1 := fun n => (stepNG_slots s b ng hb n).1
    simp only [stepPP]; split
    · rename_i s' n evs heq; simp only [heq] at h1; exact FillOnly.same h1
    · rename_i s' ng' evs hne heq; simp only [heq] at h1; exact FillOnly.same h1
  | slot n0 j =>
    simp only [stepPP]
    split
    · split
      · split <;> exact FillOnly.clear n0 j
      · exact FillOnly.same (fun _ => rfl)
    · split
      · split <;> exact FillOnly.same (fun _ => by fast_frame)
      · exact FillOnly.same (fun _ => rfl)
  | start => simp only [stepPP]; (repeat' split) <;> exact FillOnly.same (fun _ => rfl)
  | inc => simp only [stepPP]; exact FillOnly.same (fun _ => by simp)
  | trav => simp only [stepPP]; (repeat' split) <;> exact FillOnly.same (fun _ => rfl)
  | res n0 => simp only [stepPP]; (repeat' split) <;> exact FillOnly.same (fun _ => by fast_frame)
  | hDbg0 x => simp only [stepPP]; exact FillOnly.same (fun _ => by unfold dbgInUse; split <;> simp)
  | hDbg1 x => simp only [stepPP]; exact FillOnly.same (fun _ => by split <;> simp)
  | h1 x => simp only [stepPP]; exact FillOnly.same (fun _ => rfl)
  | h2 x =>
    simp only [stepPP]
    by_cases ho : x.own = x.who
    · simp only [ho, ↓reduceIte]; (repeat' split) <;> exact FillOnly.same (fun _ => by simp)
    · simp only [ho, ↓reduceIte]; (repeat' split) <;> exact FillOnly.same (fun _ => rfl)
  | h3 x => simp only [stepPP]; (repeat' split) <;> exact FillOnly.same (fun _ => rfl)
  | hres x => simp only [stepPP]; exact FillOnly.same (fun _ => by fast_frame)
  | h4 x r => simp only [stepPP]; exact FillOnly.same (fun _ => rfl)
  | h5 x r t' => simp only [stepPP]; exact FillOnly.same (fun _ => rfl)
  | h6 x r t' m => simp only [stepPP]; exact FillOnly.same (fun _ => by fast_frame)
  | h7 x r t' m =>
    simp only [stepPP]; split
    · exact FillOnly.same (fun _ => by fast_frame)
    · split <;> exact FillOnly.same (fun _ => rfl)
  | h8 x t' => simp only [stepPP]; exact FillOnly.same (fun _ => by fast_frame)
  | hdrop x r => simp only [stepPP]; exact FillOnly.same (fun _ => by simp)
  | hend x => simp only [stepPP]; (repeat' split) <;> exact FillOnly.same (fun _ => rfl)
  | hrel x => simp only [stepPP]; exact FillOnly.same (fun _ => by fast_frame)
  | slotInc n0 j => simp only [stepPP]; exact FillOnly.same (fun _ => by simp)
  | rel n0 => simp only [stepPP]; (repeat' split) <;> exact FillOnly.same (fun _ => by fast_frame)
  | fin => simp only [stepPP]; (repeat' split) <;> exact FillOnly.same (fun _ => rfl)
  | dec => simp only [stepPP]; exact FillOnly.same (fun _ => by simp)
  | done => simp only [stepPP]; exact FillOnly.same (fun _ => rfl)

/-- what a sub-machine has to say about arriving at the swap -/
def Arrive (s' : Shared) (l' : Locals) (lp' : Option LP) : Prop :=
  ∀ p i n, lp' = some (.pswap p i) → l'.node = some n → (s'.nodes n).fast i = .none

theorem Arrive.of_ne {s' : Shared} {l' : Locals} {lp' : Option LP} (h : ∀ p i, lp' ≠ some (.pswap p i)) : Arrive s' l' lp' :=
  fun p i n e => absurd e (h p i)

theorem stepLP_arrives (cfg : Cfg) (c : Nat) (s : Shared) (l : Locals) (b : Bool) (lp : LP)
    (hset : lp.early = false → l.node.isSome = true) :
    Arrive (stepLP cfg c s l b lp).1 (stepLP cfg c s l b lp).2.1 (some (stepLP cfg c s l b lp).2.2.1) :=
  fun p i n e hn => stepLP_arrive cfg c s l b lp hset p i n (by simpa using e) hn

theorem PP.dispatch_lp (h : HL) : (PP.dispatch h).lp? = none := by
  simp only [PP.dispatch]; split <;> rfl
theorem PP.nextSlot_lp (n j : Nat) : (PP.nextSlot n j).lp? = none := by
  simp only [PP.nextSlot]; split <;> rfl

theorem stepPP_arrive (cfg : Cfg) (p c : Nat) (s : Shared) (l : Locals) (b : Bool) (pp : PP) (hk : pp.okN s l) :
    Arrive (stepPP cfg p c s l b pp).1 (stepPP cfg p c s l b pp).2.1 (stepPP cfg p c s l b pp).2.2.1.lp? := by
  cases pp with
  | hload x ld =>
    have h1 := stepLP_arrives cfg c s l b ld hk.2.1
    simp only [stepPP]
    split
    · rename_i s' l' r d evs heq
      exact Arrive.of_ne (fun q i => by dsimp only; split <;> simp [PP.lp?])
    · rename_i s' l' ld' evs hne heq; simp only [heq] at h1; exact h1
  | _ =>
    simp only [stepPP]
    refine Arrive.of_ne (fun q i => ?_)
    (repeat' split) <;> (try simp only [PP.dispatch_lp, PP.nextSlot_lp]) <;> simp [PP.lp?]

theorem stepCP_fill (cfg : Cfg) (c cur new : Nat) (s : Shared) (l : Locals) (b : Bool) (cp : CP)
    (hb : Beyond s) (hk : cp.okN s l) :
    FillOnly s (stepCP cfg c cur new s l b cp).1 (AtSwap l cp.lp?) := by
  cases cp with
  | load ld =>
    have h1 := stepLP_fill cfg c s l b ld hb hk.2.1
    simp only [stepCP]
    split
    · rename_i s' l' p d evs heq; simp only [heq] at h1; exact h1
    · rename_i s' l' ld' evs hne heq; simp only [heq] at h1; exact h1
  | dropNew old => simp only [stepCP]; exact FillOnly.same (fun _ => by simp)
  | cx old => simp only [stepCP]; (repeat' split) <;> exact FillOnly.same (fun _ => by simp)
  | pay old pp =>
    have h1 := stepPP_fill cfg old.ptr c s l b pp hb hk
    simp only [stepCP]
    split
    · rename_i s' l' evs heq; simp only [heq] at h1; exact h1
    · rename_i s' l' pp' evs hne heq; simp only [heq] at h1; exact h1
  | decOld old => simp only [stepCP]; exact FillOnly.same (fun _ => by simp)
  | dropOld gd =>
    have h1 := stepGD_fill s gd
    simp only [stepCP]
    split
    · rename_i s' evs heq; simp only [heq] at h1; exact h1.mono (fun _ _ h => h.elim)
    · rename_i s' gd' evs hne heq; simp only [heq] at h1; exact h1.mono (fun _ _ h => h.elim)
  | done old => simp only [stepCP]; exact FillOnly.same (fun _ => rfl)

theorem stepCP_arrive (cfg : Cfg) (c cur new : Nat) (s : Shared) (l : Locals) (b : Bool) (cp : CP) (hk : cp.okN s l) :
    Arrive (stepCP cfg c cur new s l b cp).1 (stepCP cfg c cur new s l b cp).2.1 (stepCP cfg c cur new s l b cp).2.2.1.lp? := by
  cases cp with
  | load ld =>
    have h1 := stepLP_arrives cfg c s l b ld hk.2.1
    simp only [stepCP]
    split
    · exact Arrive.of_ne (fun q i => by dsimp only; (repeat' split) <;> simp [CP.lp?])
    · rename_i s' l' ld' evs hne heq; simp only [heq] at h1; exact h1
  | pay old pp =>
    have h1 := stepPP_arrive cfg old.ptr c s l b pp hk
    simp only [stepCP]
    split
    · exact Arrive.of_ne (fun q i => by dsimp only; (repeat' split) <;> simp [CP.lp?])
    · rename_i s' l' pp' evs hne heq; simp only [heq] at h1; exact h1
  | _ =>
    simp only [stepCP]
    refine Arrive.of_ne (fun q i => ?_)
    (repeat' split) <;> simp [CP.lp?, PP.lp?]

theorem stepRP_fill (cfg : Cfg) (c : Nat) (s : Shared) (l : Locals) (b : Bool) (tries : Nat) (rp : RP)
    (hb : Beyond s) (hk : rp.okN s l) :
    FillOnly s (stepRP cfg c s l b tries rp).1 (AtSwap l rp.lp?) := by
  cases rp with
  | load ld =>
    have h1 := stepLP_fill cfg c s l b ld hb hk.2.1
    simp only [stepRP]
    split
    · rename_i s' l' p d evs heq; simp only [heq] at h1; exact h1
    · rename_i s' l' ld' evs hne heq; simp only [heq] at h1; exact h1
  | attempt cur =>
    simp only [stepRP]
    refine FillOnly.same (fun n => ?_)
    simp only [alloc]; split <;> simp
  | cas cur x cp =>
    have h1 := stepCP_fill cfg c cur.ptr x s l b cp hb hk
    simp only [stepRP]
    split
    · rename_i s' l' prev evs heq; simp only [heq] at h1
      intro n i hs
      rcases h1 n i hs with h | h
      · left; (repeat' split) <;> exact h
      · exact Or.inr h
    · rename_i s' l' cp' evs hne heq; simp only [heq] at h1; exact h1
  | intoPrev cur prev gi =>
    have h1 := stepGI_fill s gi
    simp only [stepRP]
    split
    · rename_i s' evs heq; simp only [heq] at h1
      intro n i hs
      rcases h1 n i hs with h | h
      · left; (repeat' split) <;> exact h
      · exact h.elim
    · rename_i s' gi' evs hne heq; simp only [heq] at h1; exact h1.mono (fun _ _ h => h.elim)
  | dropCur res gd =>
    have h1 := stepGD_fill s gd
    simp only [stepRP]
    split
    · rename_i s' evs heq; simp only [heq] at h1; exact h1.mono (fun _ _ h => h.elim)
    · rename_i s' gd' evs hne heq; simp only [heq] at h1; exact h1.mono (fun _ _ h => h.elim)
  | dropCurLoop prev gd =>
    have h1 := stepGD_fill s gd
    simp only [stepRP]
    split
    · rename_i s' evs heq; simp only [heq] at h1; exact h1.mono (fun _ _ h => h.elim)
    · rename_i s' gd' evs hne heq; simp only [heq] at h1; exact h1.mono (fun _ _ h => h.elim)
  | done r => simp only [stepRP]; exact FillOnly.same (fun _ => rfl)

theorem stepRP_arrive (cfg : Cfg) (c : Nat) (s : Shared) (l : Locals) (b : Bool) (tries : Nat) (rp : RP) (hk : rp.okN s l) :
    Arrive (stepRP cfg c s l b tries rp).1 (stepRP cfg c s l b tries rp).2.1 (stepRP cfg c s l b tries rp).2.2.1.lp? := by
  cases rp with
  | load ld =>
    have h1 := stepLP_arrives cfg c s l b ld hk.2.1
    simp only [stepRP]
    split
    · exact Arrive.of_ne (fun q i => by simp [RP.lp?])
    · rename_i s' l' ld' evs hne heq; simp only [heq] at h1; exact h1
  | cas cur x cp =>
    have h1 := stepCP_arrive cfg c cur.ptr x s l b cp hk
    simp only [stepRP]
    split
    · exact Arrive.of_ne (fun q i => by (repeat' split) <;> simp [RP.lp?])
    · rename_i s' l' cp' evs hne heq; simp only [heq] at h1; exact h1
  | attempt cur =>
    simp only [stepRP]
    exact Arrive.of_ne (fun q i => by simp [RP.lp?, CP.lp?])
  | _ =>
    simp only [stepRP]
    refine Arrive.of_ne (fun q i => ?_)
    (repeat' split) <;> simp [RP.lp?]

/-! ## Whole operations -/

theorem beginOp_probe (st : State) (t : Nat) (o : Op) :
    (∀ n, ((beginOp st t o).1.sh.nodes n).fast = (st.sh.nodes n).fast) ∧
      ∀ q i, ((beginOp st t o).1.th t).op.lp? ≠ some (.pswap q i) := by
  cases o <;> simp only [beginOp] <;> (repeat' split) <;>
    first
      | exact ⟨fun _ => rfl, fun q i h => by simp [OpSt.lp?, PP.lp?, CP.lp?, RP.lp?] at h⟩
      | exact ⟨fun _ => by simp [alloc], fun q i h => by simp [OpSt.lp?, PP.lp?, CP.lp?, RP.lp?] at h⟩
      | (refine ⟨fun _ => ?_, fun q i h => ?_⟩
         · dsimp only; (try split) <;> simp
         · revert h; dsimp only; (try split) <;> simp [OpSt.lp?, PP.lp?, CP.lp?, RP.lp?])

theorem microStep_fill (st : State) (t : Nat) (b : Bool) (hb : Beyond st.sh)
    (hk : (st.th t).op.okN st.sh (st.th t).loc) :
    FillOnly st.sh (microStep st t b).1.sh (AtSwap (st.th t).loc (st.th t).op.lp?) := by
  cases hop : (st.th t).op with
  | finished => simp only [microStep, hop]; exact FillOnly.same (fun _ => rfl)
  | idle =>
    simp only [microStep, hop]
    split
    · exact FillOnly.same (fun _ => rfl)
    · rename_i txt o rest hp
      have h1 := (beginOp_probe { st with th := upd st.th t { prog := rest, op := .idle, loc := (st.th t).loc } } t o).1
      exact FillOnly.same h1
  | exitCool cd =>
    have h1 := stepCD_fast st.sh cd
    simp only [microStep, hop]
    split
    · rename_i s' evs heq; simp only [heq] at h1; exact FillOnly.same h1
    · rename_i s' cd' evs hne heq; simp only [heq] at h1; exact FillOnly.same h1
  | load c g ld =>
    rw [hop] at hk
    have h1 := stepLP_fill st.cfg c st.sh (st.th t).loc b ld hb hk.2.1
    simp only [microStep, hop]
    split
    · rename_i s' l' p d evs heq; simp only [heq] at h1; exact h1
    · rename_i s' l' ld' evs hne heq; simp only [heq] at h1; exact h1
  | loadFull c x ld =>
    rw [hop] at hk
    have h1 := stepLP_fill st.cfg c st.sh (st.th t).loc b ld hb hk.2.1
    simp only [microStep, hop]
    split
    · rename_i s' l' p d evs heq; simp only [heq] at h1
      split <;> exact h1
    · rename_i s' l' ld' evs hne heq; simp only [heq] at h1; exact h1
  | loadFullInto c x r gi =>
    have h1 := stepGI_fill st.sh gi
    simp only [microStep, hop]
    split
    · rename_i s' evs heq; simp only [heq] at h1; exact h1.mono (fun _ _ h => h.elim)
    · rename_i s' gi' evs hne heq; simp only [heq] at h1; exact h1.mono (fun _ _ h => h.elim)
  | cloneh x y a0 => simp only [microStep, hop]; exact FillOnly.same (fun n => by simp [incObj_fast])
  | droph a0 => simp only [microStep, hop]; exact FillOnly.same (fun n => by simp [decObj_fast])
  | dropg gd =>
    have h1 := stepGD_fill st.sh gd
    simp only [microStep, hop]
    split
    · rename_i s' evs heq; simp only [heq] at h1; exact h1.mono (fun _ _ h => h.elim)
    · rename_i s' gd' evs hne heq; simp only [heq] at h1; exact h1.mono (fun _ _ h => h.elim)
  | ginto x p gi =>
    have h1 := stepGI_fill st.sh gi
    simp only [microStep, hop]
    split
    · rename_i s' evs heq; simp only [heq] at h1; exact h1.mono (fun _ _ h => h.elim)
    · rename_i s' gi' evs hne heq; simp only [heq] at h1; exact h1.mono (fun _ _ h => h.elim)
  | swapSw c a0 out isStore =>
    simp only [microStep, hop]
    split
    · exact FillOnly.same (fun n => by simp [Shared.writeCell])
    · exact FillOnly.same (fun _ => rfl)
  | swapPay c out old isStore pp =>
    rw [hop] at hk
    have h1 := stepPP_fill st.cfg old c st.sh (st.th t).loc b pp hb hk
    simp only [microStep, hop]
    split
    · rename_i s' l' evs heq; simp only [heq] at h1
      (repeat' split) <;> exact h1
    · rename_i s' l' pp' evs hne heq; simp only [heq] at h1; exact h1
  | swapDrop c old => simp only [microStep, hop]; exact FillOnly.same (fun n => by simp [decObj_fast])
  | cas c cur keep curPtr new g cp =>
    rw [hop] at hk
    have h1 := stepCP_fill st.cfg c curPtr new st.sh (st.th t).loc b cp hb hk
    simp only [microStep, hop]
    split
    · rename_i s' l' old evs heq; simp only [heq] at h1
      cases cur <;> cases keep <;> exact h1
    · rename_i s' l' cp' evs hne heq; simp only [heq] at h1; exact h1
  | rcu c out tries rp =>
    rw [hop] at hk
    have h1 := stepRP_fill st.cfg c st.sh (st.th t).loc b tries rp hb hk
    simp only [microStep, hop]
    split
    · rename_i s' l' r tries' evs heq; simp only [heq] at h1; exact h1
    · rename_i s' l' rp' tries' evs hne heq; simp only [heq] at h1; exact h1
  | cinto c x p pp =>
    rw [hop] at hk
    have h1 := stepPP_fill st.cfg p c st.sh (st.th t).loc b pp hb hk
    simp only [microStep, hop]
    split
    · rename_i s' l' evs heq; simp only [heq] at h1; exact h1
    · rename_i s' l' pp' evs hne heq; simp only [heq] at h1; exact h1
  | dropc c p pp =>
    rw [hop] at hk
    have h1 := stepPP_fill st.cfg p c st.sh (st.th t).loc b pp hb hk
    simp only [microStep, hop]
    split
    · rename_i s' l' evs heq; simp only [heq] at h1
      (repeat' split) <;> exact h1
    · rename_i s' l' pp' evs hne heq; simp only [heq] at h1; exact h1
  | dropcDec c p => simp only [microStep, hop]; exact FillOnly.same (fun n => by simp [decObj_fast])

theorem microStep_arrive (st : State) (t : Nat) (b : Bool) (hk : (st.th t).op.okN st.sh (st.th t).loc) :
    Arrive (microStep st t b).1.sh ((microStep st t b).1.th t).loc ((microStep st t b).1.th t).op.lp? := by
  cases hop : (st.th t).op with
  | finished => simp only [microStep, hop]; exact Arrive.of_ne (fun q i => by simp [OpSt.lp?])
  | idle =>
    simp only [microStep, hop]
    split
    · refine Arrive.of_ne (fun q i => ?_)
      simp only [upd_same]; split <;> simp [OpSt.lp?]
    · rename_i txt o rest hp
      exact Arrive.of_ne (beginOp_probe { st with th := upd st.th t { prog := rest, op := .idle, loc := (st.th t).loc } } t o).2
  | load c g ld =>
    rw [hop] at hk
    have h1 := stepLP_arrives st.cfg c st.sh (st.th t).loc b ld hk.2.1
    simp only [microStep, hop]
    split
    · exact Arrive.of_ne (fun q i => by simp [OpSt.lp?])
    · rename_i s' l' ld' evs hne heq; simp only [heq] at h1; simpa [OpSt.lp?] using h1
  | loadFull c x ld =>
    rw [hop] at hk
    have h1 := stepLP_arrives st.cfg c st.sh (st.th t).loc b ld hk.2.1
    simp only [microStep, hop]
    split
    · exact Arrive.of_ne (fun q i => by split <;> simp [OpSt.lp?])
    · rename_i s' l' ld' evs hne heq; simp only [heq] at h1; simpa [OpSt.lp?] using h1
  | swapPay c out old isStore pp =>
    rw [hop] at hk
    have h1 := stepPP_arrive st.cfg old c st.sh (st.th t).loc b pp hk
    simp only [microStep, hop]
    split
    · exact Arrive.of_ne (fun q i => by (repeat' split) <;> simp [OpSt.lp?])
    · rename_i s' l' pp' evs hne heq; simp only [heq] at h1; simpa [OpSt.lp?] using h1
  | cas c cur keep curPtr new g cp =>
    rw [hop] at hk
    have h1 := stepCP_arrive st.cfg c curPtr new st.sh (st.th t).loc b cp hk
    simp only [microStep, hop]
    split
    · exact Arrive.of_ne (fun q i => by simp [OpSt.lp?])
    · rename_i s' l' cp' evs hne heq; simp only [heq] at h1; simpa [OpSt.lp?] using h1
  | rcu c out tries rp =>
    rw [hop] at hk
    have h1 := stepRP_arrive st.cfg c st.sh (st.th t).loc b tries rp hk
    simp only [microStep, hop]
    split
    · exact Arrive.of_ne (fun q i => by simp [OpSt.lp?])
    · rename_i s' l' rp' tries' evs hne heq; simp only [heq] at h1; simpa [OpSt.lp?] using h1
  | cinto c x p pp =>
    rw [hop] at hk
    have h1 := stepPP_arrive st.cfg p c st.sh (st.th t).loc b pp hk
    simp only [microStep, hop]
    split
    · exact Arrive.of_ne (fun q i => by simp [OpSt.lp?])
    · rename_i s' l' pp' evs hne heq; simp only [heq] at h1; simpa [OpSt.lp?] using h1
  | dropc c p pp =>
    rw [hop] at hk
    have h1 := stepPP_arrive st.cfg p c st.sh (st.th t).loc b pp hk
    simp only [microStep, hop]
    split
    · exact Arrive.of_ne (fun q i => by (repeat' split) <;> simp [OpSt.lp?])
    · rename_i s' l' pp' evs hne heq; simp only [heq] at h1; simpa [OpSt.lp?] using h1
  | _ =>
    simp only [microStep, hop]
    refine Arrive.of_ne (fun q i => ?_)
    (repeat' split) <;> simp [OpSt.lp?, PP.lp?, hop]

/-! ## The invariant -/

/-- **a thread about to swap a debt into slot `i` of its node finds the slot empty** -/
def ProbeInv (st : State) : Prop :=
  ∀ t p i n, (st.th t).op.lp? = some (.pswap p i) → (st.th t).loc.node = some n → (st.sh.nodes n).fast i = .none

theorem ProbeInv.initial (cfg : Cfg) (progs : Nat → List (String × Op)) : ProbeInv (State.initial cfg progs) := by
  intro t p i n h; simp [State.initial, OpSt.lp?] at h

theorem ProbeInv.step {st : State} (h : ProbeInv st) (hn : NodeInv st) (ho : OwnInv st) (u : Nat) (b : Bool) :
    ProbeInv (microStep st u b).1 := by
  have hfill := microStep_fill st u b hn.nodes.slots (hn.th u)
  have harr := microStep_arrive st u b (hn.th u)
  have hoth := (microStep_own st u b).2
  intro t p i n hlp hnode
  by_cases htu : t = u
  · subst htu; exact harr p i n hlp hnode
  · rw [hoth t htu] at hlp hnode
    rcases hfill n i (h t p i n hlp hnode) with h1 | ⟨h2, p', h3⟩
    · exact h1
    · -- two threads on one node
      have e1 : ownsT (st.th t) = some n := by rw [ownsT_of_lp _ _ hlp]; exact hnode
      have e2 : ownsT (st.th u) = some n := by rw [ownsT_of_lp _ _ h3]; exact h2
      exact absurd e2 (ho.excl t u n htu e1)

theorem ProbeInv.run {st : State} (h : ProbeInv st) (hn : NodeInv st) (ho : OwnInv st) (sched : List (Nat × Bool)) :
    ProbeInv (run st sched) := by
  induction sched generalizing st with
  | nil => exact h
  | cons x rest ih => obtain ⟨t, b⟩ := x; exact ih (h.step hn ho t b) (hn.step t b) (ho.step t b)

/-- in every reachable state -/
theorem ProbeInv.reachable {st : State} (h : Reachable st) : ProbeInv st := by
  obtain ⟨cfg, progs, sched, rfl⟩ := h
  exact (ProbeInv.initial cfg progs).run (NodeInv.initial cfg progs) (OwnInv.initial cfg progs) sched

/-- hence the swap of `fast::get_debt` raises no fault: `debug_assert_eq!(old, NONE)` holds -/
theorem pswap_no_fault {st : State} (h : Reachable st) (t c g p i : Nat) (b : Bool)
    (hop : (st.th t).op = .load c g (.pswap p i)) (hf : st.sh.fault = none) :
    (microStep st t b).1.sh.fault = none := by
  have hN := NodeInv.reachable h
  have hk := hN.th t
  rw [hop] at hk
  obtain ⟨n0, hn0⟩ := Option.isSome_iff_exists.mp (hk.2.1 rfl)
  have h0 := ProbeInv.reachable h t p i n0 (by rw [hop]; rfl) hn0
  have e : (st.th t).loc.node.getD 0 = n0 := by rw [hn0]; rfl
  simp only [microStep, hop, stepLP, e, h0, ↓reduceIte]
  simpa using hf

end M
