import ArcSwapModel.Inv.AcctRun

/-!
# The local well-formedness assumed by the conservation theorems is invariant

`ok` of every sub-machine is preserved by its step (given the thread's node index is below `K` and,
on the read path, that the control word is not an envelope: the hand-over exclusion), guards that
come out of a load are well-formed, and so are all guards in the registers.
-/

namespace M
open Consts

theorem GD.ok_step (K : Nat) (s : Shared) (gd : GD) : (stepGD s gd).2.1.ok K := by
  cases gd <;> simp only [stepGD] <;> (repeat' split) <;> trivial

theorem GI.ofGuard_ok (K : Nat) (g : Guard) (h : g.ok K) : (GI.ofGuard g).ok K g.ptr := by
  unfold GI.ofGuard
  cases hd : g.debt with
  | none => trivial
  | some nd =>
    obtain ⟨n, idx⟩ := nd
    have := h n idx hd
    dsimp only; split <;> exact ⟨this.1, this.2, rfl⟩

theorem Guard.ok_none (K p : Nat) : ({ ptr := p, debt := none } : Guard).ok K := fun n idx h => by cases h

/-- the guard a finished load hands out is well-formed -/
theorem LP.done_guard_ok (K p : Nat) (d : Option (Nat × Nat)) (h : (LP.done p d).ok K) :
    ({ ptr := p, debt := d } : Guard).ok K := h

theorem PP.ok_step (K : Nat) (cfg : Cfg) (p c : Nat) (s : Shared) (l : Locals) (b : Bool) (pp : PP)
    (hk : pp.ok K) (hn : l.node.getD 0 < K)
    (hnh : ∀ j, (s.nodes (l.node.getD 0)).control ≠ .env j) : (stepPP cfg p c s l b pp).2.2.1.ok K := by
  cases pp with
  | hload h ld =>
    have h1 := LP.ok_step K cfg c s l b ld hk hn hnh
    simp only [stepPP]
    split
    · rename_i s' l' r d evs heq
      simp only [heq] at h1
      split
      · trivial
      · exact GI.ofGuard_ok K { ptr := r, debt := d } h1
    · rename_i s' l' ld' evs hne heq
      simp only [heq] at h1
      exact h1
  | hinto h r gi =>
    have h1 := GI.ok_step K r s gi hk
    simp only [stepPP]
    split
    · trivial
    · rename_i s' gi' evs hne heq
      simp only [heq] at h1
      exact h1
  | h2 h => simp only [stepPP]; (repeat' split) <;> trivial
  | hres h => simp only [stepPP]; trivial
  | get ng => simp only [stepPP]; (repeat' split) <;> trivial
  | h1 h => simp only [stepPP]; unfold PP.dispatch; split <;> trivial
  | h3 h => simp only [stepPP]; split <;> (try unfold PP.dispatch) <;> (try split) <;> trivial
  | h7 h r t m =>
    simp only [stepPP]; (repeat' split) <;> (try unfold PP.dispatch) <;> (try split) <;> trivial
  | hdrop h r => simp only [stepPP]; unfold PP.dispatch; split <;> trivial
  | slot n j => simp only [stepPP]; (repeat' split) <;> (try unfold PP.nextSlot) <;> (try split) <;> trivial
  | slotInc n j => simp only [stepPP]; unfold PP.nextSlot; split <;> trivial
  | _ => simp only [stepPP] <;> (repeat' split) <;> trivial

theorem CP.ok_step (K : Nat) (cfg : Cfg) (c cur new : Nat) (s : Shared) (l : Locals) (b : Bool) (cp : CP)
    (hk : cp.ok K cur) (hn : l.node.getD 0 < K)
    (hnh : ∀ j, (s.nodes (l.node.getD 0)).control ≠ .env j) :
    (stepCP cfg c cur new s l b cp).2.2.1.ok K cur := by
  cases cp with
  | load ld =>
    have h1 := LP.ok_step K cfg c s l b ld hk hn hnh
    simp only [stepCP]
    split
    · rename_i s' l' p d evs heq
      simp only [heq] at h1
      (repeat' split)
      · exact h1
      · exact h1
      · rename_i hp; exact ⟨by simpa using hp, h1⟩
    · rename_i s' l' ld' evs hne heq
      simp only [heq] at h1
      exact h1
  | dropNew old => simp only [stepCP]; exact hk
  | cx old =>
    simp only [stepCP]
    split
    · split
      · exact ⟨trivial, hk.2⟩
      · split
        · trivial
        · exact GD.ofGuard_ok K old hk.2
    · exact hk
  | pay old pp =>
    have h1 := PP.ok_step K cfg old.ptr c s l b pp hk.1 hn hnh
    simp only [stepCP]
    split
    · split <;> exact hk.2
    · rename_i s' l' pp' evs hne heq
      simp only [heq] at h1
      exact ⟨h1, hk.2⟩
  | decOld old => simp only [stepCP]; exact hk
  | dropOld gd =>
    have h1 := GD.ok_step K s gd
    simp only [stepCP]
    split
    · trivial
    · rename_i s' gd' evs hne heq
      simp only [heq] at h1
      exact h1
  | done old => exact hk

theorem RP.ok_step (K : Nat) (cfg : Cfg) (c : Nat) (s : Shared) (l : Locals) (b : Bool) (tries : Nat) (rp : RP)
    (hk : rp.ok K) (hn : l.node.getD 0 < K)
    (hnh : ∀ j, (s.nodes (l.node.getD 0)).control ≠ .env j) :
    (stepRP cfg c s l b tries rp).2.2.1.ok K := by
  cases rp with
  | load ld =>
    have h1 := LP.ok_step K cfg c s l b ld hk hn hnh
    simp only [stepRP]
    split
    · rename_i s' l' p d evs heq
      simp only [heq] at h1
      exact h1
    · rename_i s' l' ld' evs hne heq
      simp only [heq] at h1
      exact h1
  | attempt cur => simp only [stepRP]; exact ⟨hk, trivial⟩
  | cas cur a cp =>
    have h1 := CP.ok_step K cfg c cur.ptr a s l b cp hk.2 hn hnh
    simp only [stepRP]
    split
    · rename_i s' l' prev evs heq
      simp only [heq] at h1
      have hprev : prev.ok K := h1
      (repeat' split)
      · trivial
      · exact GD.ofGuard_ok K cur hk.1
      · exact ⟨hk.1, GI.ofGuard_ok K prev hprev⟩
      · exact hprev
      · exact ⟨hprev, GD.ofGuard_ok K cur hk.1⟩
    · rename_i s' l' cp' evs hne heq
      simp only [heq] at h1
      exact ⟨hk.1, h1⟩
  | intoPrev cur prev gi =>
    have h1 := GI.ok_step K prev.ptr s gi hk.2
    simp only [stepRP]
    split
    · split
      · trivial
      · exact GD.ofGuard_ok K cur hk.1
    · rename_i s' gi' evs hne heq
      simp only [heq] at h1
      exact ⟨hk.1, h1⟩
  | dropCur res gd =>
    have h1 := GD.ok_step K s gd
    simp only [stepRP]
    split
    · trivial
    · rename_i s' gd' evs hne heq
      simp only [heq] at h1
      exact h1
  | dropCurLoop prev gd =>
    have h1 := GD.ok_step K s gd
    simp only [stepRP]
    split
    · exact hk.1
    · rename_i s' gd' evs hne heq
      simp only [heq] at h1
      exact ⟨hk.1, h1⟩
  | done r => trivial

/-! ## Operations and registers -/

/-- local well-formedness of an operation in flight (no registers involved) -/
def OpSt.okL (K : Nat) : OpSt → Prop
  | .load _ _ ld | .loadFull _ _ ld => ld.ok K
  | .loadFullInto _ _ r gi => gi.ok K r
  | .dropg gd => gd.ok K
  | .ginto _ p gi => gi.ok K p
  | .swapPay _ _ _ _ pp | .cinto _ _ _ pp | .dropc _ _ pp => pp.ok K
  | .cas _ _ keep curPtr _ _ cp => cp.ok K curPtr ∧ (∀ cg, keep = some cg → cg.ok K)
  | .rcu _ _ _ rp => rp.ok K
  | _ => True

/-- every guard in a register is well-formed -/
def GregOk (K : Nat) (s : Shared) : Prop := ∀ g gd, s.greg g = some gd → gd.ok K

theorem GregOk.of_eq {K : Nat} {s s' : Shared} (h : GregOk K s) (he : s'.greg = s.greg) : GregOk K s' := by
  intro g gd hg; rw [he] at hg; exact h g gd hg

theorem GregOk.upd_ok {K : Nat} {greg : Nat → Option Guard} (h : ∀ g gd, greg g = some gd → gd.ok K)
    (i : Nat) (v : Option Guard) (hv : ∀ gd, v = some gd → gd.ok K) :
    ∀ g gd, upd greg i v g = some gd → gd.ok K := by
  intro g gd hg
  by_cases hgi : g = i
  · subst hgi; rw [upd_same] at hg; exact hv gd hg
  · rw [upd_other _ _ _ _ hgi] at hg; exact h g gd hg

theorem beginOp_okL (K : Nat) (st : State) (t : Nat) (o : Op) (hg : GregOk K st.sh) :
    ((beginOp st t o).1.th t).op.okL K ∧ GregOk K (beginOp st t o).1.sh := by
  cases o with
  | new h val => simp only [beginOp]; split <;> exact ⟨by simp [OpSt.okL, upd], hg.of_eq rfl⟩
  | nullh h => simp only [beginOp]; split <;> exact ⟨by simp [OpSt.okL, upd], hg.of_eq rfl⟩
  | cloneh h h2 => simp only [beginOp]; (repeat' split) <;> exact ⟨by simp [OpSt.okL, upd], hg.of_eq rfl⟩
  | droph h => simp only [beginOp]; (repeat' split) <;> exact ⟨by simp [OpSt.okL, upd], hg.of_eq rfl⟩
  | mk c h => simp only [beginOp]; (repeat' split) <;> exact ⟨by simp [OpSt.okL, upd], hg.of_eq rfl⟩
  | load c g => simp only [beginOp]; (repeat' split) <;> exact ⟨by simp [OpSt.okL, LP.ok, upd], hg.of_eq rfl⟩
  | loadfull c h => simp only [beginOp]; (repeat' split) <;> exact ⟨by simp [OpSt.okL, LP.ok, upd], hg.of_eq rfl⟩
  | dropg g =>
    simp only [beginOp]
    split
    · exact ⟨by simp [OpSt.okL, upd], hg⟩
    · rename_i x hx
      have hclr : GregOk K { st.sh with greg := upd st.sh.greg g none } :=
        GregOk.upd_ok hg g none (fun gd h => by cases h)
      split
      · exact ⟨by simp [OpSt.okL, upd], hclr⟩
      · refine ⟨?_, hclr⟩
        simp only [upd_same, OpSt.okL]
        exact GD.ofGuard_ok K x (hg g x hx)
  | ginto g h =>
    simp only [beginOp]
    split
    · exact ⟨by simp [OpSt.okL, upd], hg⟩
    · split
      · exact ⟨by simp [OpSt.okL, upd], hg⟩
      · rename_i x hx
        have hclr : ∀ g' gd, upd st.sh.greg g none g' = some gd → gd.ok K :=
          GregOk.upd_ok hg g none (fun gd h => by cases h)
        split
        · exact ⟨by simp [OpSt.okL, upd], hclr⟩
        · refine ⟨?_, hclr⟩
          simp only [upd_same, OpSt.okL]
          exact GI.ofGuard_ok K x (hg g x hx)
  | gderef g =>
    simp only [beginOp]
    split
    · exact ⟨by simp [OpSt.okL, upd], hg⟩
    · refine ⟨by simp [OpSt.okL, upd], ?_⟩
      dsimp only; split <;> exact hg.of_eq (by simp)
  | store c h => simp only [beginOp]; (repeat' split) <;> exact ⟨by simp [OpSt.okL, upd], hg.of_eq rfl⟩
  | swap c h out => simp only [beginOp]; (repeat' split) <;> exact ⟨by simp [OpSt.okL, upd], hg.of_eq rfl⟩
  | cas c cur nw g =>
    simp only [beginOp]
    split
    · exact ⟨by simp [OpSt.okL, upd], hg⟩
    · split
      · exact ⟨by simp [OpSt.okL, upd], hg⟩
      · split
        · exact ⟨by simp [OpSt.okL, upd], hg⟩
        · cases cur with
          | null => exact ⟨by simp [OpSt.okL, CP.ok, LP.ok, upd], hg.of_eq rfl⟩
          | h hc =>
            dsimp only
            split
            · exact ⟨by simp [OpSt.okL, upd], hg⟩
            · exact ⟨by simp [OpSt.okL, CP.ok, LP.ok, upd], hg.of_eq rfl⟩
          | g gc =>
            dsimp only
            split
            · exact ⟨by simp [OpSt.okL, upd], hg⟩
            · rename_i y hy
              refine ⟨?_, GregOk.upd_ok hg gc none (fun gd h => by cases h)⟩
              simp only [upd_same, OpSt.okL, CP.ok, LP.ok, true_and]
              intro cg hcg; cases hcg
              exact hg gc y hy
  | rcu c out => simp only [beginOp]; (repeat' split) <;> exact ⟨by simp [OpSt.okL, RP.ok, LP.ok, upd], hg.of_eq rfl⟩
  | cinto c h => simp only [beginOp]; (repeat' split) <;> exact ⟨by simp [OpSt.okL, PP.ok, upd], hg.of_eq rfl⟩
  | dropc c => simp only [beginOp]; (repeat' split) <;> exact ⟨by simp [OpSt.okL, PP.ok, upd], hg.of_eq rfl⟩
  | setgen v => simp only [beginOp]; exact ⟨by simp [OpSt.okL, upd], hg.of_eq rfl⟩

theorem microStep_okL (K : Nat) (st : State) (t : Nat) (b : Bool)
    (hk : (st.th t).op.okL K) (hg : GregOk K st.sh) (hn : (st.th t).loc.node.getD 0 < K)
    (hnh : ∀ j, (st.sh.nodes ((st.th t).loc.node.getD 0)).control ≠ .env j) :
    ((microStep st t b).1.th t).op.okL K ∧ GregOk K (microStep st t b).1.sh := by
  cases hop : (st.th t).op with
  | finished => simp only [microStep, hop]; exact ⟨trivial, hg⟩
  | idle =>
    simp only [microStep, hop]
    split
    · refine ⟨?_, hg⟩
      simp only [upd_same]; split <;> trivial
    · rename_i txt o rest hp
      exact beginOp_okL K { st with th := upd st.th t { prog := rest, op := .idle, loc := (st.th t).loc } } t o hg
  | exitCool cd =>
    have hhg := stepCD_hg st.sh cd
    simp only [microStep, hop]
    split
    · rename_i s' evs heq; simp only [heq] at hhg
      exact ⟨by simp [OpSt.okL, upd], hg.of_eq hhg.2⟩
    · rename_i s' cd' evs hne heq; simp only [heq] at hhg
      exact ⟨by simp [OpSt.okL, upd], hg.of_eq hhg.2⟩
  | load c g ld =>
    rw [hop] at hk
    have h1 := LP.ok_step K st.cfg c st.sh (st.th t).loc b ld hk hn hnh
    have hhg := stepLP_hg st.cfg c st.sh (st.th t).loc b ld
    simp only [microStep, hop]
    split
    · rename_i s' l' p d evs heq; simp only [heq] at h1 hhg
      refine ⟨by simp [OpSt.okL, upd], ?_⟩
      have : ∀ g' gd, s'.greg g' = some gd → gd.ok K := hg.of_eq hhg.2
      exact GregOk.upd_ok this g _ (fun gd h => by cases h; exact h1)
    · rename_i s' l' ld' evs hne heq; simp only [heq] at h1 hhg
      exact ⟨by simpa [OpSt.okL, upd] using h1, hg.of_eq hhg.2⟩
  | loadFull c h ld =>
    rw [hop] at hk
    have h1 := LP.ok_step K st.cfg c st.sh (st.th t).loc b ld hk hn hnh
    have hhg := stepLP_hg st.cfg c st.sh (st.th t).loc b ld
    simp only [microStep, hop]
    split
    · rename_i s' l' p d evs heq; simp only [heq] at h1 hhg
      split
      · exact ⟨by simp [OpSt.okL, upd], hg.of_eq hhg.2⟩
      · refine ⟨?_, hg.of_eq hhg.2⟩
        simp only [upd_same, OpSt.okL]
        exact GI.ofGuard_ok K { ptr := p, debt := d } h1
    · rename_i s' l' ld' evs hne heq; simp only [heq] at h1 hhg
      exact ⟨by simpa [OpSt.okL, upd] using h1, hg.of_eq hhg.2⟩
  | loadFullInto c h r gi =>
    rw [hop] at hk
    have h1 := GI.ok_step K r st.sh gi hk
    have hhg := stepGI_hg st.sh gi
    simp only [microStep, hop]
    split
    · rename_i s' evs heq; simp only [heq] at hhg
      exact ⟨by simp [OpSt.okL, upd], hg.of_eq hhg.2⟩
    · rename_i s' gi' evs hne heq; simp only [heq] at h1 hhg
      exact ⟨by simpa [OpSt.okL, upd] using h1, hg.of_eq hhg.2⟩
  | cloneh h h2 x =>
    simp only [microStep, hop]
    exact ⟨by simp [OpSt.okL, upd], hg.of_eq (incObj_hg st.sh x).2⟩
  | droph x =>
    simp only [microStep, hop]
    exact ⟨by simp [OpSt.okL, upd], hg.of_eq (decObj_hg st.sh x).2⟩
  | dropg gd =>
    have h1 := GD.ok_step K st.sh gd
    have hhg := stepGD_hg st.sh gd
    simp only [microStep, hop]
    split
    · rename_i s' evs heq; simp only [heq] at hhg
      exact ⟨by simp [OpSt.okL, upd], hg.of_eq hhg.2⟩
    · rename_i s' gd' evs hne heq; simp only [heq] at h1 hhg
      exact ⟨by simpa [OpSt.okL, upd] using h1, hg.of_eq hhg.2⟩
  | ginto h p gi =>
    rw [hop] at hk
    have h1 := GI.ok_step K p st.sh gi hk
    have hhg := stepGI_hg st.sh gi
    simp only [microStep, hop]
    split
    · rename_i s' evs heq; simp only [heq] at hhg
      exact ⟨by simp [OpSt.okL, upd], hg.of_eq hhg.2⟩
    · rename_i s' gi' evs hne heq; simp only [heq] at h1 hhg
      exact ⟨by simpa [OpSt.okL, upd] using h1, hg.of_eq hhg.2⟩
  | swapSw c x out isStore =>
    simp only [microStep, hop]
    split
    · exact ⟨by simp [OpSt.okL, PP.ok, upd], hg.of_eq rfl⟩
    · exact ⟨by first | trivial | (rw [hop]; trivial), hg⟩
  | swapPay c out old isStore pp =>
    rw [hop] at hk
    have h1 := PP.ok_step K st.cfg old c st.sh (st.th t).loc b pp hk hn hnh
    have hhg := stepPP_hg st.cfg old c st.sh (st.th t).loc b pp
    simp only [microStep, hop]
    split
    · rename_i s' l' evs heq; simp only [heq] at hhg
      (repeat' split) <;> exact ⟨by simp [OpSt.okL, upd], hg.of_eq hhg.2⟩
    · rename_i s' l' pp' evs hne heq; simp only [heq] at h1 hhg
      exact ⟨by simpa [OpSt.okL, upd] using h1, hg.of_eq hhg.2⟩
  | swapDrop c old =>
    simp only [microStep, hop]
    exact ⟨by simp [OpSt.okL, upd], hg.of_eq (decObj_hg st.sh old).2⟩
  | cas c cur keep curPtr new g cp =>
    rw [hop] at hk
    have h1 := CP.ok_step K st.cfg c curPtr new st.sh (st.th t).loc b cp hk.1 hn hnh
    have hhg := stepCP_hg st.cfg c curPtr new st.sh (st.th t).loc b cp
    simp only [microStep, hop]
    split
    · rename_i s' l' old evs heq; simp only [heq] at h1 hhg
      refine ⟨by simp [OpSt.okL, upd], ?_⟩
      have hs' : ∀ g' gd, s'.greg g' = some gd → gd.ok K := hg.of_eq hhg.2
      have hold : ∀ gd, some old = some gd → gd.ok K := fun gd h => by cases h; exact h1
      cases cur with
      | null => cases keep <;> exact GregOk.upd_ok hs' g _ hold
      | h hc => cases keep <;> exact GregOk.upd_ok hs' g _ hold
      | g gc =>
        cases keep with
        | none => exact GregOk.upd_ok hs' g _ hold
        | some cg =>
          exact GregOk.upd_ok (GregOk.upd_ok hs' gc _ (fun gd h => by cases h; exact hk.2 cg rfl)) g _ hold
    · rename_i s' l' cp' evs hne heq; simp only [heq] at h1 hhg
      exact ⟨by simpa [OpSt.okL, upd] using ⟨h1, hk.2⟩, hg.of_eq hhg.2⟩
  | rcu c out tries rp =>
    rw [hop] at hk
    have h1 := RP.ok_step K st.cfg c st.sh (st.th t).loc b tries rp hk hn hnh
    have hhg := stepRP_hg st.cfg c st.sh (st.th t).loc b tries rp
    simp only [microStep, hop]
    split
    · rename_i s' l' r tries' evs heq; simp only [heq] at hhg
      exact ⟨by simp [OpSt.okL, upd], hg.of_eq hhg.2⟩
    · rename_i s' l' rp' tries' evs hne heq; simp only [heq] at h1 hhg
      exact ⟨by simpa [OpSt.okL, upd] using h1, hg.of_eq hhg.2⟩
  | cinto c h p pp =>
    rw [hop] at hk
    have h1 := PP.ok_step K st.cfg p c st.sh (st.th t).loc b pp hk hn hnh
    have hhg := stepPP_hg st.cfg p c st.sh (st.th t).loc b pp
    simp only [microStep, hop]
    split
    · rename_i s' l' evs heq; simp only [heq] at hhg
      exact ⟨by simp [OpSt.okL, upd], hg.of_eq hhg.2⟩
    · rename_i s' l' pp' evs hne heq; simp only [heq] at h1 hhg
      exact ⟨by simpa [OpSt.okL, upd] using h1, hg.of_eq hhg.2⟩
  | dropc c p pp =>
    rw [hop] at hk
    have h1 := PP.ok_step K st.cfg p c st.sh (st.th t).loc b pp hk hn hnh
    have hhg := stepPP_hg st.cfg p c st.sh (st.th t).loc b pp
    simp only [microStep, hop]
    split
    · rename_i s' l' evs heq; simp only [heq] at hhg
      split <;> exact ⟨by simp [OpSt.okL, upd], hg.of_eq hhg.2⟩
    · rename_i s' l' pp' evs hne heq; simp only [heq] at h1 hhg
      exact ⟨by simpa [OpSt.okL, upd] using h1, hg.of_eq hhg.2⟩
  | dropcDec c p =>
    simp only [microStep, hop]
    exact ⟨by simp [OpSt.okL, upd], hg.of_eq (decObj_hg st.sh p).2⟩

end M
