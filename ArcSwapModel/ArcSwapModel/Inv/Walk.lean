import ArcSwapModel.Inv.Named

/-!
# Writers and where their walk is

A thread that has taken a value out of a container (`swap`/`store`, a successful exchange of
`compare_and_swap`/`rcu`) walks the debt list for that value before it releases it.  `OpSt.walk?`
gives the value and the program counter of the walk; `PP.pos` the node the walk is at and the first
slot of it not yet attempted.  `WalkLinked`: the node a walk is at is on the list.
-/

namespace M
open Consts

/-- the node the walk is at, and the first slot of that node it has not attempted yet
    (slots `0 … slotCnt-1` are the fast slots, `slotCnt` is the helping slot) -/
def PP.pos : PP → Option (Nat × Nat)
  | .res m => some (m, 0)
  | .hDbg0 h | .hDbg1 h | .h1 h | .h2 h | .h3 h | .hres h | .hload h _ | .hinto h _ _ | .h4 h _ | .h5 h _ _
  | .h6 h _ _ _ | .h7 h _ _ _ | .h8 h _ | .hdrop h _ | .hend h | .hrel h => some (h.who, 0)
  | .slot m j => some (m, j)
  | .slotInc m j => some (m, j + 1)
  | .rel m => some (m, slotCnt + 1)
  | _ => none

def CP.walk? : CP → Option (Nat × PP)
  | .pay old pp => some (old.ptr, pp)
  | _ => none
def RP.walk? : RP → Option (Nat × PP)
  | .cas _ _ cp => cp.walk?
  | _ => none
/-- the value a thread has taken out of a container and is walking the list for -/
def OpSt.walk? : OpSt → Option (Nat × PP)
  | .swapPay _ _ old _ pp => some (old, pp)
  | .cas _ _ _ _ _ _ cp => cp.walk?
  | .rcu _ _ _ rp => rp.walk?
  | _ => none

theorem PP.dispatch_pos (h : HL) : (PP.dispatch h).pos = some (h.who, 0) := by
  simp only [PP.dispatch]; split <;> rfl

/-- one step of the walk: the node it is at afterwards is the one before (and then the slot index
    is what it was, unless the step was a pay-off attempt, which moves on by one), the head, or the
    successor of the one before -/
theorem stepPP_pos (cfg : Cfg) (p c : Nat) (s : Shared) (l : Locals) (b : Bool) (pp : PP) (m' j' : Nat)
    (h : (stepPP cfg p c s l b pp).2.2.1.pos = some (m', j')) :
    (∃ j, pp.pos = some (m', j) ∧ (j' = j ∨ (pp = .slot m' j ∧ (j' = j + 1 ∨ slotCnt ≤ j)) ∨ (∃ k, pp = .slotInc m' k ∧ slotCnt ≤ k))) ∨
      (pp = .trav ∧ s.head = some m' ∧ j' = 0) ∨
      (∃ m, pp = .rel m ∧ (s.nodes m).next = some m' ∧ j' = 0) := by
  cases pp with
  | trav =>
    simp only [stepPP] at h
    cases hh : s.head with
    | none => rw [hh] at h; cases h
    | some x => rw [hh] at h; simp only [PP.pos, Option.some.injEq, Prod.mk.injEq] at h; exact Or.inr (Or.inl ⟨rfl, by rw [h.1], h.2.symm⟩)
  | rel m =>
    simp only [stepPP] at h
    cases hh : (s.nodes m).next with
    | none => rw [hh] at h; cases h
    | some x => rw [hh] at h; simp only [PP.pos, Option.some.injEq, Prod.mk.injEq] at h; exact Or.inr (Or.inr ⟨m, rfl, by rw [hh, h.1], h.2.symm⟩)
  | hload x ld =>
    simp only [stepPP] at h
    left
    split at h
    · split at h <;> (simp only [PP.pos, Option.some.injEq, Prod.mk.injEq] at h; exact ⟨0, by rw [← h.1]; rfl, Or.inl h.2.symm⟩)
    · simp only [PP.pos, Option.some.injEq, Prod.mk.injEq] at h; exact ⟨0, by rw [← h.1]; rfl, Or.inl h.2.symm⟩
  | hinto x r gi =>
    simp only [stepPP] at h
    left
    split at h <;> (simp only [PP.pos, Option.some.injEq, Prod.mk.injEq] at h; exact ⟨0, by rw [← h.1]; rfl, Or.inl h.2.symm⟩)
  | get ng =>
    simp only [stepPP] at h
    split at h
    · split at h <;> cases h
    · cases h
  | start => simp only [stepPP] at h; (repeat' split at h) <;> cases h
  | inc => simp only [stepPP] at h; cases h
  | fin => simp only [stepPP] at h; split at h <;> cases h
  | dec => simp only [stepPP] at h; cases h
  | done => simp only [stepPP] at h; cases h
  | slot m j =>
    simp only [stepPP] at h
    left
    by_cases hj : j < slotCnt
    · have key : ∀ x : PP, (x = PP.nextSlot m j ∨ x = .slotInc m j) → x.pos = some (m', j') → m' = m ∧ j' = j + 1 := by
        intro x hx hp
        rcases hx with rfl | rfl
        · simp only [PP.nextSlot, hj, ↓reduceIte, PP.pos, Option.some.injEq, Prod.mk.injEq] at hp; exact ⟨hp.1.symm, hp.2.symm⟩
        · simp only [PP.pos, Option.some.injEq, Prod.mk.injEq] at hp; exact ⟨hp.1.symm, hp.2.symm⟩
      have : m' = m ∧ j' = j + 1 := by
        simp only [hj, ↓reduceIte] at h
        (repeat' split at h) <;> first | exact key _ (Or.inl rfl) h | exact key _ (Or.inr rfl) h
      obtain ⟨rfl, rfl⟩ := this
      exact ⟨j, rfl, Or.inr (Or.inl ⟨rfl, Or.inl rfl⟩)⟩
    · have key : ∀ x : PP, (x = PP.nextSlot m j ∨ x = .slotInc m j) → x.pos = some (m', j') → m' = m := by
        intro x hx hp
        rcases hx with rfl | rfl
        · simp only [PP.nextSlot, hj, ↓reduceIte, PP.pos, Option.some.injEq, Prod.mk.injEq] at hp; exact hp.1.symm
        · simp only [PP.pos, Option.some.injEq, Prod.mk.injEq] at hp; exact hp.1.symm
      have : m' = m := by
        simp only [hj, ↓reduceIte] at h
        (repeat' split at h) <;> first | exact key _ (Or.inl rfl) h | exact key _ (Or.inr rfl) h
      subst this
      exact ⟨j, rfl, Or.inr (Or.inl ⟨rfl, Or.inr (by omega)⟩)⟩
  | slotInc m j =>
    simp only [stepPP, PP.nextSlot] at h
    left
    split at h
    · simp only [PP.pos, Option.some.injEq, Prod.mk.injEq] at h; exact ⟨j + 1, by rw [← h.1]; rfl, Or.inl h.2.symm⟩
    · rename_i hj
      simp only [PP.pos, Option.some.injEq, Prod.mk.injEq] at h
      exact ⟨j + 1, by rw [← h.1]; rfl, Or.inr (Or.inr ⟨j, by rw [← h.1], by omega⟩)⟩
  | res m =>
    simp only [stepPP] at h
    left
    split at h
    · cases h
    · simp only [PP.pos, Option.some.injEq, Prod.mk.injEq] at h; exact ⟨0, by rw [← h.1]; rfl, Or.inl h.2.symm⟩
  | _ =>
    simp only [stepPP] at h
    left
    (repeat' split at h) <;>
      first
        | (rw [PP.dispatch_pos] at h; simp only [Option.some.injEq, Prod.mk.injEq] at h; exact ⟨0, by rw [← h.1]; rfl, Or.inl h.2.symm⟩)
        | (simp only [PP.pos, Option.some.injEq, Prod.mk.injEq] at h; exact ⟨0, by rw [← h.1]; rfl, Or.inl h.2.symm⟩)
        | (cases h; done)

/-- how the walk of a `compare_and_swap` comes about and moves on: it starts with the successful
    exchange, and each step is a step of `pay_all` for the same value -/
theorem stepCP_walk (cfg : Cfg) (c cur new : Nat) (s : Shared) (l : Locals) (b : Bool) (cp : CP) (a : Nat) (pp' : PP)
    (h : (stepCP cfg c cur new s l b cp).2.2.1.walk? = some (a, pp')) :
    (∃ pp, cp.walk? = some (a, pp) ∧ pp' = (stepPP cfg a c s l b pp).2.2.1 ∧
        (stepCP cfg c cur new s l b cp).1 = (stepPP cfg a c s l b pp).1 ∧
        (stepCP cfg c cur new s l b cp).2.1 = (stepPP cfg a c s l b pp).2.1) ∨
      (pp' = .start ∧ cp.walk? = none) := by
  cases cp with
  | pay old pp =>
    simp only [stepCP] at h ⊢
    left
    split at h
    · split at h <;> cases h
    · rename_i s' l' pp'' evs hne heq
      simp only [CP.walk?, Option.some.injEq, Prod.mk.injEq] at h
      obtain ⟨rfl, rfl⟩ := h
      exact ⟨pp, rfl, by rw [heq], by rw [heq], by rw [heq]⟩
  | cx old =>
    simp only [stepCP] at h
    right
    (repeat' split at h) <;>
      first
        | (simp only [CP.walk?, Option.some.injEq, Prod.mk.injEq] at h; exact ⟨h.2.symm, rfl⟩)
        | (cases h; done)
  | load ld =>
    simp only [stepCP] at h
    (repeat' split at h) <;> (cases h; done)
  | dropOld gd =>
    simp only [stepCP] at h
    (repeat' split at h) <;> (cases h; done)
  | _ => simp only [stepCP] at h <;> (cases h; done)

theorem stepRP_walk (cfg : Cfg) (c : Nat) (s : Shared) (l : Locals) (b : Bool) (tries : Nat) (rp : RP) (a : Nat) (pp' : PP)
    (h : (stepRP cfg c s l b tries rp).2.2.1.walk? = some (a, pp')) :
    (∃ pp, rp.walk? = some (a, pp) ∧ pp' = (stepPP cfg a c s l b pp).2.2.1 ∧
        (stepRP cfg c s l b tries rp).1 = (stepPP cfg a c s l b pp).1 ∧
        (stepRP cfg c s l b tries rp).2.1 = (stepPP cfg a c s l b pp).2.1) ∨
      (pp' = .start ∧ rp.walk? = none) := by
  cases rp with
  | cas cur x cp =>
    simp only [stepRP] at h ⊢
    split at h
    · (repeat' split at h) <;> (cases h; done)
    · rename_i s' l' cp' evs hne heq
      have h1 := stepCP_walk cfg c cur.ptr x s l b cp a pp' (by rw [heq]; exact h)
      rw [heq] at h1
      exact h1
  | attempt cur =>
    simp only [stepRP] at h
    cases h
  | load ld =>
    simp only [stepRP] at h
    (repeat' split at h) <;> (cases h; done)
  | intoPrev cur prev gi =>
    simp only [stepRP] at h
    (repeat' split at h) <;> (cases h; done)
  | dropCur res gd =>
    simp only [stepRP] at h
    (repeat' split at h) <;> (cases h; done)
  | dropCurLoop prev gd =>
    simp only [stepRP] at h
    (repeat' split at h) <;> (cases h; done)
  | done r => simp only [stepRP] at h; cases h

theorem beginOp_walk (st : State) (t : Nat) (o : Op) : ((beginOp st t o).1.th t).op.walk? = none := by
  cases o <;> simp only [beginOp] <;> (repeat' split) <;>
    first
      | (simp [OpSt.walk?, CP.walk?, RP.walk?]; done)
      | (dsimp only; (try split) <;> simp [OpSt.walk?, CP.walk?, RP.walk?])

/-- **how a walk comes about and moves on**, for whole operations: a thread is a writer of `a` after
    a step iff it was one before and its walk took one step of `pay_all` (on the same shared state,
    with the same thread-local data), or it has just started the walk -/
theorem microStep_walk (st : State) (t : Nat) (b : Bool) (a : Nat) (pp' : PP)
    (h : ((microStep st t b).1.th t).op.walk? = some (a, pp')) :
    (∃ pp c, (st.th t).op.walk? = some (a, pp) ∧ pp' = (stepPP st.cfg a c st.sh (st.th t).loc b pp).2.2.1 ∧
        (microStep st t b).1.sh.nodes = (stepPP st.cfg a c st.sh (st.th t).loc b pp).1.nodes ∧
        (microStep st t b).1.sh.head = (stepPP st.cfg a c st.sh (st.th t).loc b pp).1.head ∧
        ((microStep st t b).1.th t).loc = (stepPP st.cfg a c st.sh (st.th t).loc b pp).2.1) ∨
      (pp' = .start ∧ (st.th t).op.walk? = none) := by
  cases hop : (st.th t).op with
  | swapSw c a0 out isStore =>
    simp only [microStep, hop] at h
    right
    split at h
    · simp only [upd_same, OpSt.walk?, Option.some.injEq, Prod.mk.injEq] at h; exact ⟨h.2.symm, rfl⟩
    · rw [hop] at h; cases h
  | swapPay c out old isStore pp =>
    simp only [microStep, hop] at h ⊢
    left
    split at h
    · (repeat' split at h) <;> (simp only [upd_same, OpSt.walk?] at h; cases h; done)
    · rename_i s' l' pp'' evs hne heq
      simp only [upd_same, OpSt.walk?, Option.some.injEq, Prod.mk.injEq] at h
      obtain ⟨rfl, rfl⟩ := h
      exact ⟨pp, c, rfl, by rw [heq], by rw [heq], by rw [heq], by rw [heq]; simp⟩
  | cas c cur keep curPtr new g cp =>
    simp only [microStep, hop] at h ⊢
    split at h
    · simp only [upd_same, OpSt.walk?] at h; cases h
    · rename_i s' l' cp' evs hne heq
      simp only [upd_same, OpSt.walk?] at h
      rcases stepCP_walk st.cfg c curPtr new st.sh (st.th t).loc b cp a pp' (by rw [heq]; exact h) with ⟨pp, h1, h2, h3, h4⟩ | h1
      · left; rw [heq] at h3 h4
        exact ⟨pp, c, h1, h2, by dsimp only at h3 ⊢; rw [h3], by dsimp only at h3 ⊢; rw [h3], by dsimp only at h4 ⊢; simp [h4]⟩
      · exact Or.inr h1
  | rcu c out tries rp =>
    simp only [microStep, hop] at h ⊢
    split at h
    · simp only [upd_same, OpSt.walk?] at h; cases h
    · rename_i s' l' rp' tries' evs hne heq
      simp only [upd_same, OpSt.walk?] at h
      rcases stepRP_walk st.cfg c st.sh (st.th t).loc b tries rp a pp' (by rw [heq]; exact h) with ⟨pp, h1, h2, h3, h4⟩ | h1
      · left; rw [heq] at h3 h4
        exact ⟨pp, c, h1, h2, by dsimp only at h3 ⊢; rw [h3], by dsimp only at h3 ⊢; rw [h3], by dsimp only at h4 ⊢; simp [h4]⟩
      · exact Or.inr h1
  | idle =>
    simp only [microStep, hop] at h
    split at h
    · simp only [upd_same] at h; split at h <;> cases h
    · rename_i txt o rest hp
      have := beginOp_walk { st with th := upd st.th t { prog := rest, op := .idle, loc := (st.th t).loc } } t o
      rw [this] at h; cases h
  | finished => simp only [microStep, hop] at h; cases h
  | _ =>
    simp only [microStep, hop] at h
    (repeat' split at h) <;> (simp only [upd_same, OpSt.walk?] at h; cases h; done)

end M
