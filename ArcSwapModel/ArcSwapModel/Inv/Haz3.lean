import ArcSwapModel.Inv.Haz2

/-!
# Where a walk is, relative to a slot

`PP.ahead L n i pp`: slot `i` of node `n` is still ahead of a walk at `pp` over the list `L` —
the walk has not reached the list yet, or is at `n` and has not attempted slot `i`, or is at a node
before `n`.  One step of the walk keeps a slot ahead unless the step is the attempt on that slot
(`ahead_step`).
-/

namespace M
open Consts

/-! ## A walk past its start has a node -/

def PP.beforeNode : PP → Bool
  | .start | .get _ => true
  | _ => false

theorem stepLP_node (cfg : Cfg) (c : Nat) (s : Shared) (l : Locals) (b : Bool) (lp : LP)
    (h : l.node.isSome = true) : (stepLP cfg c s l b lp).2.1.node.isSome = true := by
  cases lp <;> simp only [stepLP] <;> (repeat' split) <;> first | exact h | rfl

theorem stepPP_node (cfg : Cfg) (p c : Nat) (s : Shared) (l : Locals) (b : Bool) (pp : PP)
    (h : pp.beforeNode = false → l.node.isSome = true) :
    (stepPP cfg p c s l b pp).2.2.1.beforeNode = false → (stepPP cfg p c s l b pp).2.1.node.isSome = true := by
  cases pp with
  | start =>
    simp only [stepPP]
    split
    · intro h'; cases h'
    · rename_i n hn; intro _; rw [hn]; rfl
  | get ng =>
    simp only [stepPP]
    split
    · intro _; rfl
    · intro h'; cases h'
  | hload x ld =>
    have h1 := stepLP_node cfg c s l b ld (h rfl)
    simp only [stepPP]
    split
    · rename_i s' l' r d evs heq; rw [heq] at h1; intro _; exact h1
    · rename_i s' l' ld' evs hne heq; rw [heq] at h1; intro _; exact h1
  | _ =>
    intro _
    simp only [stepPP]
    (repeat' split) <;> exact h rfl

/-- a thread that is walking the list, past the start of the walk, has a node -/
def WalkNode (st : State) : Prop :=
  ∀ t a pp, (st.th t).op.walk? = some (a, pp) → pp.beforeNode = false → (st.th t).loc.node.isSome = true

theorem WalkNode.step {st : State} (h : WalkNode st) (t : Nat) (b : Bool) : WalkNode (microStep st t b).1 := by
  intro u a pp' hw
  by_cases e : u = t
  · subst e
    rcases microStep_walk st u b a pp' hw with ⟨pp, c, h1, h2, _, _, h5⟩ | ⟨h1, _⟩
    · rw [h2, h5]
      exact stepPP_node st.cfg a c st.sh (st.th u).loc b pp (h u a pp h1)
    · subst h1; intro h'; cases h'
  · rw [(microStep_own st t b).2 u e] at hw ⊢
    exact h u a pp' hw

theorem WalkNode.reachable {st : State} (h : Reachable st) : WalkNode st := by
  obtain ⟨cfg, progs, sched, rfl⟩ := h
  have h0 : WalkNode (State.initial cfg progs) := fun t a pp hw => by cases hw
  generalize State.initial cfg progs = st at h0
  induction sched generalizing st with
  | nil => exact h0
  | cons x rest ih => obtain ⟨t, b⟩ := x; exact ih _ (h0.step t b)

/-! ## Ahead of a walk -/

/-- `n` comes after `m` on the list -/
def After (L : List Nat) (m n : Nat) : Prop := ∃ L1 L2, L = L1 ++ m :: L2 ∧ n ∈ L2

theorem After.prepend {L : List Nat} {m n : Nat} (h : After L m n) (pre : List Nat) : After (pre ++ L) m n := by
  obtain ⟨L1, L2, e, hn⟩ := h
  exact ⟨pre ++ L1, L2, by rw [e, List.append_assoc], hn⟩

/-- the walk has not loaded the head of the list yet -/
def PP.beforeList : PP → Bool
  | .start | .get _ | .inc | .trav => true
  | _ => false

/-- slot `i` of node `n` is still ahead of the walk -/
def PP.ahead (L : List Nat) (n i : Nat) (pp : PP) : Prop :=
  pp.beforeList = true ∨ ∃ m j, pp.pos = some (m, j) ∧ ((n = m ∧ j ≤ i) ∨ After L m n)

theorem PP.ahead.prepend {L : List Nat} {n i : Nat} {pp : PP} (h : pp.ahead L n i) (pre : List Nat) :
    pp.ahead (pre ++ L) n i :=
  h.imp id (fun ⟨m, j, hp, hq⟩ => ⟨m, j, hp, hq.imp id (fun x => x.prepend pre)⟩)

theorem PP.ahead_start (L : List Nat) (n i : Nat) : PP.start.ahead L n i := Or.inl rfl

/-- after a step a walk is on a node again, unless it was at the last one -/
theorem stepPP_pos_some (cfg : Cfg) (p c : Nat) (s : Shared) (l : Locals) (b : Bool) (pp : PP) (m j : Nat)
    (h : pp.pos = some (m, j)) (hnode : l.node.isSome = true) :
    (stepPP cfg p c s l b pp).2.2.1.pos.isSome = true ∨ (pp = .rel m ∧ (s.nodes m).next = none) := by
  obtain ⟨n0, hn0⟩ := Option.isSome_iff_exists.mp hnode
  cases pp with
  | rel m0 =>
    simp only [PP.pos, Option.some.injEq, Prod.mk.injEq] at h
    obtain ⟨rfl, _⟩ := h
    cases hq : (s.nodes m0).next with
    | none => exact Or.inr ⟨rfl, rfl⟩
    | some x => left; simp only [stepPP, hq]; rfl
  | res m0 => left; simp only [stepPP, hn0]; rfl
  | hload x ld =>
    left
    simp only [stepPP]
    (repeat' split) <;> rfl
  | hinto x r gi =>
    left
    simp only [stepPP]
    (repeat' split) <;> rfl
  | slot m0 j0 =>
    left
    simp only [stepPP, PP.nextSlot]
    (repeat' split) <;> rfl
  | slotInc m0 j0 =>
    left
    simp only [stepPP, PP.nextSlot]
    (repeat' split) <;> rfl
  | start => cases h
  | get ng => cases h
  | inc => cases h
  | trav => cases h
  | fin => cases h
  | dec => cases h
  | done => cases h
  | _ =>
    left
    simp only [stepPP]
    (repeat' split) <;> first | rfl | (rw [PP.dispatch_pos]; rfl)

theorem chain_after_next {next : Nat → Option Nat} {hd : Option Nat} {L : List Nat} (h : chainFrom next hd L)
    {m n : Nat} (ha : After L m n) :
    ∃ m', next m = some m' ∧ (n = m' ∨ After L m' n) := by
  obtain ⟨L1, L2, e, hn⟩ := ha
  have hm : m ∈ L := by rw [e]; exact List.mem_append_right _ (List.mem_cons_self ..)
  obtain ⟨K1, K2, e2, hc2⟩ := chainFrom_next h m hm
  -- the two splittings at `m` agree, because the list has no repetition
  have hnd := chainFrom_nodup h
  have : L1 = K1 ∧ L2 = K2 := by
    rw [e] at e2 hnd
    clear h hc2 hm e
    induction L1 generalizing K1 with
    | nil =>
      cases K1 with
      | nil => simp at e2; exact ⟨rfl, e2⟩
      | cons k K1 =>
        simp only [List.nil_append, List.cons_append, List.cons.injEq] at e2
        obtain ⟨rfl, e3⟩ := e2
        simp only [List.nil_append, List.nodup_cons] at hnd
        exact absurd (by rw [e3]; exact List.mem_append_right _ (List.mem_cons_self ..)) hnd.1
    | cons x L1 ih =>
      cases K1 with
      | nil =>
        simp only [List.nil_append, List.cons_append, List.cons.injEq] at e2
        obtain ⟨rfl, e3⟩ := e2
        simp only [List.cons_append, List.nodup_cons] at hnd
        exact absurd (List.mem_append_right _ (List.mem_cons_self ..)) hnd.1
      | cons k K1 =>
        simp only [List.cons_append, List.cons.injEq] at e2
        obtain ⟨rfl, e3⟩ := e2
        simp only [List.cons_append, List.nodup_cons] at hnd
        obtain ⟨r1, r2⟩ := ih K1 e3 hnd.2
        exact ⟨by rw [r1], r2⟩
  obtain ⟨rfl, rfl⟩ := this
  cases L2 with
  | nil => cases hn
  | cons m' L3 =>
    cases hq : next m with
    | none => rw [hq] at hc2; exact hc2.elim
    | some y =>
      rw [hq] at hc2
      obtain ⟨rfl, _, _⟩ := hc2
      refine ⟨y, rfl, ?_⟩
      rcases List.mem_cons.mp hn with e' | e'
      · exact Or.inl e'
      · exact Or.inr ⟨L1 ++ [m], L3, by rw [e]; simp, e'⟩

/-- **one step of a walk keeps a slot ahead, unless it is the attempt on that slot** -/
theorem ahead_step (cfg : Cfg) (p c : Nat) (s : Shared) (l : Locals) (b : Bool) (pp : PP) (L : List Nat)
    (hc : chainFrom (nextOf s) s.head L) (n i : Nat) (hn : n ∈ L) (hi : i < slotCnt)
    (hnode : pp.beforeNode = false → l.node.isSome = true) (h : pp.ahead L n i) :
    (stepPP cfg p c s l b pp).2.2.1.ahead L n i ∨ pp = .slot n i := by
  rcases h with h | ⟨m, j, hpos, hrel⟩
  · -- the walk has not reached the list
    cases pp with
    | start => left; left; simp only [stepPP]; (repeat' split) <;> rfl
    | get ng => left; left; simp only [stepPP]; (repeat' split) <;> rfl
    | inc => left; left; simp only [stepPP]; rfl
    | trav =>
      left
      simp only [stepPP]
      cases hh : s.head with
      | none =>
        rw [hh] at hc
        cases L with
        | nil => cases hn
        | cons x L => exact hc.elim
      | some x =>
        rw [hh] at hc
        cases L with
        | nil => exact hc.elim
        | cons y L2 =>
          obtain ⟨rfl, _, _⟩ := hc
          right
          refine ⟨x, 0, rfl, ?_⟩
          rcases List.mem_cons.mp hn with e | e
          · exact Or.inl ⟨e, Nat.zero_le _⟩
          · exact Or.inr ⟨[], L2, rfl, e⟩
    | _ => cases h
  · -- the walk is at node `m`
    have hbn : pp.beforeNode = false := by cases pp <;> first | rfl | cases hpos
    rcases stepPP_pos_some cfg p c s l b pp m j hpos (hnode hbn) with hs | ⟨rfl, hnone⟩
    · obtain ⟨⟨m', j'⟩, hp'⟩ := Option.isSome_iff_exists.mp hs
      rcases stepPP_pos cfg p c s l b pp m' j' hp' with ⟨j0, h1, h2⟩ | ⟨rfl, _, _⟩ | ⟨m0, rfl, hnx, rfl⟩
      · rw [hpos] at h1
        simp only [Option.some.injEq, Prod.mk.injEq] at h1
        obtain ⟨rfl, rfl⟩ := h1
        rcases hrel with ⟨rfl, hji⟩ | haft
        · rcases h2 with rfl | ⟨rfl, h3⟩ | ⟨k, rfl, hk⟩
          · exact Or.inl (Or.inr ⟨n, j', hp', Or.inl ⟨rfl, hji⟩⟩)
          · by_cases e : j = i
            · subst e; exact Or.inr rfl
            · rcases h3 with rfl | h3
              · exact Or.inl (Or.inr ⟨n, j + 1, hp', Or.inl ⟨rfl, by omega⟩⟩)
              · omega
          · simp only [PP.pos, Option.some.injEq, Prod.mk.injEq] at hpos
            omega
        · exact Or.inl (Or.inr ⟨m, j', hp', Or.inr haft⟩)
      · cases hpos
      · simp only [PP.pos, Option.some.injEq, Prod.mk.injEq] at hpos
        obtain ⟨rfl, rfl⟩ := hpos
        rcases hrel with ⟨_, hji⟩ | haft
        · omega
        · obtain ⟨m'', hnx', hor⟩ := chain_after_next hc haft
          have : m'' = m' := by
            have : (s.nodes m0).next = some m'' := hnx'
            rw [hnx] at this; cases this; rfl
          subst this
          left; right
          refine ⟨m'', 0, hp', ?_⟩
          rcases hor with e | e
          · exact Or.inl ⟨e, Nat.zero_le _⟩
          · exact Or.inr e
    · simp only [PP.pos, Option.some.injEq, Prod.mk.injEq] at hpos
      obtain ⟨_, rfl⟩ := hpos
      rcases hrel with ⟨_, hji⟩ | haft
      · omega
      · obtain ⟨m'', hnx', _⟩ := chain_after_next hc haft
        have : (s.nodes m).next = some m'' := hnx'
        rw [hnone] at this; cases this

end M
