import ArcSwapModel.Inv.Walk

/-!
# Tools for the hazard invariant: how the innermost load and the walk of a thread move on

Forward lemmas: a thread with a load in progress steps that load (`microStep_lp`); a thread that is
walking the list for a value steps that walk (`microStep_walk_fwd`).
-/

namespace M
open Consts

/-! ## The walk, forward -/

theorem stepCP_walk_fwd (cfg : Cfg) (c cur new : Nat) (s : Shared) (l : Locals) (b : Bool) (cp : CP) (a : Nat) (pp : PP)
    (h : cp.walk? = some (a, pp)) :
    (stepCP cfg c cur new s l b cp).1 = (stepPP cfg a c s l b pp).1 ∧
      (stepCP cfg c cur new s l b cp).2.1 = (stepPP cfg a c s l b pp).2.1 ∧
      ((stepCP cfg c cur new s l b cp).2.2.1.walk? = some (a, (stepPP cfg a c s l b pp).2.2.1) ∨
        (stepPP cfg a c s l b pp).2.2.1 = .done) := by
  cases cp with
  | pay old pp0 =>
    simp only [CP.walk?, Option.some.injEq, Prod.mk.injEq] at h
    obtain ⟨rfl, rfl⟩ := h
    simp only [stepCP]
    split
    · rename_i s' l' evs heq; rw [heq]; exact ⟨rfl, rfl, Or.inr rfl⟩
    · rename_i s' l' pp' evs hne heq; rw [heq]; exact ⟨rfl, rfl, Or.inl rfl⟩
  | _ => cases h

theorem stepRP_walk_fwd (cfg : Cfg) (c : Nat) (s : Shared) (l : Locals) (b : Bool) (tries : Nat) (rp : RP) (a : Nat) (pp : PP)
    (h : rp.walk? = some (a, pp)) :
    (stepRP cfg c s l b tries rp).1 = (stepPP cfg a c s l b pp).1 ∧
      (stepRP cfg c s l b tries rp).2.1 = (stepPP cfg a c s l b pp).2.1 ∧
      ((stepRP cfg c s l b tries rp).2.2.1.walk? = some (a, (stepPP cfg a c s l b pp).2.2.1) ∨
        (stepPP cfg a c s l b pp).2.2.1 = .done) := by
  cases rp with
  | cas cur x cp =>
    simp only [RP.walk?] at h
    have h1 := stepCP_walk_fwd cfg c cur.ptr x s l b cp a pp h
    simp only [stepRP]
    split
    · rename_i s' l' prev evs heq
      rw [heq] at h1
      refine ⟨?_, ?_, ?_⟩
      · (repeat' split) <;> exact h1.1
      · (repeat' split) <;> exact h1.2.1
      · rcases h1.2.2 with h2 | h2
        · simp [CP.walk?] at h2
        · exact Or.inr h2
    · rename_i s' l' cp' evs hne heq
      rw [heq] at h1
      exact h1
  | _ => cases h

/-- **a thread that is walking the list for `a` steps that walk**: the nodes, the head and the cells
    afterwards are those of `pay_all`'s step, and the thread is still walking for `a` unless the walk
    has ended -/
theorem microStep_walk_fwd (st : State) (t : Nat) (b : Bool) (a : Nat) (pp : PP)
    (h : (st.th t).op.walk? = some (a, pp)) :
    ∃ c, (microStep st t b).1.sh.nodes = (stepPP st.cfg a c st.sh (st.th t).loc b pp).1.nodes ∧
      (microStep st t b).1.sh.head = (stepPP st.cfg a c st.sh (st.th t).loc b pp).1.head ∧
      (microStep st t b).1.sh.cells = (stepPP st.cfg a c st.sh (st.th t).loc b pp).1.cells ∧
      ((microStep st t b).1.th t).loc = (stepPP st.cfg a c st.sh (st.th t).loc b pp).2.1 ∧
      (((microStep st t b).1.th t).op.walk? = some (a, (stepPP st.cfg a c st.sh (st.th t).loc b pp).2.2.1) ∨
        (stepPP st.cfg a c st.sh (st.th t).loc b pp).2.2.1 = .done) := by
  cases hop : (st.th t).op with
  | swapPay c out old isStore pp0 =>
    rw [hop] at h
    simp only [OpSt.walk?, Option.some.injEq, Prod.mk.injEq] at h
    obtain ⟨rfl, rfl⟩ := h
    refine ⟨c, ?_⟩
    simp only [microStep, hop]
    split
    · rename_i s' l' evs heq; rw [heq]
      refine ⟨?_, ?_, ?_, ?_, Or.inr rfl⟩ <;> (repeat' split) <;> simp
    · rename_i s' l' pp' evs hne heq; rw [heq]
      exact ⟨rfl, rfl, rfl, by simp, Or.inl (by simp [OpSt.walk?])⟩
  | cas c cur keep curPtr new g cp =>
    rw [hop] at h
    simp only [OpSt.walk?] at h
    have h1 := stepCP_walk_fwd st.cfg c curPtr new st.sh (st.th t).loc b cp a pp h
    refine ⟨c, ?_⟩
    simp only [microStep, hop]
    split
    · rename_i s' l' old evs heq
      rw [heq] at h1
      obtain ⟨h2, h3, h4⟩ := h1
      dsimp only at h2 h3
      refine ⟨?_, ?_, ?_, by simp [← h3], ?_⟩
      · rw [← h2]; cases cur <;> cases keep <;> rfl
      · rw [← h2]; cases cur <;> cases keep <;> rfl
      · rw [← h2]; cases cur <;> cases keep <;> rfl
      · rcases h4 with h4 | h4
        · simp [CP.walk?] at h4
        · exact Or.inr h4
    · rename_i s' l' cp' evs hne heq
      rw [heq] at h1
      obtain ⟨h2, h3, h4⟩ := h1
      dsimp only at h2 h3 h4
      refine ⟨by rw [← h2], by rw [← h2], by rw [← h2], by simp [← h3], ?_⟩
      rcases h4 with h4 | h4
      · left; simpa [OpSt.walk?] using h4
      · exact Or.inr h4
  | rcu c out tries rp =>
    rw [hop] at h
    simp only [OpSt.walk?] at h
    have h1 := stepRP_walk_fwd st.cfg c st.sh (st.th t).loc b tries rp a pp h
    refine ⟨c, ?_⟩
    simp only [microStep, hop]
    split
    · rename_i s' l' r tries' evs heq
      rw [heq] at h1
      obtain ⟨h2, h3, h4⟩ := h1
      dsimp only at h2 h3
      refine ⟨by rw [← h2], by rw [← h2], by rw [← h2], by simp [← h3], ?_⟩
      rcases h4 with h4 | h4
      · simp [RP.walk?] at h4
      · exact Or.inr h4
    · rename_i s' l' rp' tries' evs hne heq
      rw [heq] at h1
      obtain ⟨h2, h3, h4⟩ := h1
      dsimp only at h2 h3 h4
      refine ⟨by rw [← h2], by rw [← h2], by rw [← h2], by simp [← h3], ?_⟩
      rcases h4 with h4 | h4
      · left; simpa [OpSt.walk?] using h4
      · exact Or.inr h4
  | _ => rw [hop] at h; cases h

/-! ## The innermost load, forward -/

/-- the container an operation works on -/
def OpSt.cell? : OpSt → Option Nat
  | .load c _ _ | .loadFull c _ _ | .loadFullInto c _ _ _ | .swapSw c _ _ _ | .swapPay c _ _ _ _ | .swapDrop c _
  | .cas c _ _ _ _ _ _ | .rcu c _ _ _ | .cinto c _ _ _ | .dropc c _ _ | .dropcDec c _ => some c
  | _ => none

theorem stepPP_lp (cfg : Cfg) (p c : Nat) (s : Shared) (l : Locals) (b : Bool) (pp : PP) (lp : LP)
    (h : pp.lp? = some lp) :
    (stepPP cfg p c s l b pp).1 = (stepLP cfg c s l b lp).1 ∧
      (stepPP cfg p c s l b pp).2.1 = (stepLP cfg c s l b lp).2.1 ∧
      ((stepPP cfg p c s l b pp).2.2.1.lp? = some (stepLP cfg c s l b lp).2.2.1 ∨
        ∃ q d, (stepLP cfg c s l b lp).2.2.1 = .done q d) := by
  cases pp with
  | hload x ld =>
    simp only [PP.lp?, Option.some.injEq] at h
    subst h
    simp only [stepPP]
    split
    · rename_i s' l' r d evs heq; rw [heq]; exact ⟨rfl, rfl, Or.inr ⟨r, d, rfl⟩⟩
    · rename_i s' l' ld' evs hne heq; rw [heq]; exact ⟨rfl, rfl, Or.inl rfl⟩
  | _ => cases h

theorem stepCP_lp (cfg : Cfg) (c cur new : Nat) (s : Shared) (l : Locals) (b : Bool) (cp : CP) (lp : LP)
    (h : cp.lp? = some lp) :
    (stepCP cfg c cur new s l b cp).1 = (stepLP cfg c s l b lp).1 ∧
      (stepCP cfg c cur new s l b cp).2.1 = (stepLP cfg c s l b lp).2.1 ∧
      ((stepCP cfg c cur new s l b cp).2.2.1.lp? = some (stepLP cfg c s l b lp).2.2.1 ∨
        ∃ q d, (stepLP cfg c s l b lp).2.2.1 = .done q d) := by
  cases cp with
  | load ld =>
    simp only [CP.lp?, Option.some.injEq] at h
    subst h
    simp only [stepCP]
    split
    · rename_i s' l' r d evs heq; rw [heq]; exact ⟨rfl, rfl, Or.inr ⟨r, d, rfl⟩⟩
    · rename_i s' l' ld' evs hne heq; rw [heq]; exact ⟨rfl, rfl, Or.inl rfl⟩
  | pay old pp =>
    simp only [CP.lp?] at h
    have h1 := stepPP_lp cfg old.ptr c s l b pp lp h
    simp only [stepCP]
    split
    · rename_i s' l' evs heq
      rw [heq] at h1
      obtain ⟨h2, h3, h4⟩ := h1
      refine ⟨h2, h3, ?_⟩
      rcases h4 with h4 | h4
      · simp [PP.lp?] at h4
      · exact Or.inr h4
    · rename_i s' l' pp' evs hne heq
      rw [heq] at h1
      exact h1
  | _ => cases h

theorem stepRP_lp (cfg : Cfg) (c : Nat) (s : Shared) (l : Locals) (b : Bool) (tries : Nat) (rp : RP) (lp : LP)
    (h : rp.lp? = some lp) :
    (stepRP cfg c s l b tries rp).1 = (stepLP cfg c s l b lp).1 ∧
      (stepRP cfg c s l b tries rp).2.1 = (stepLP cfg c s l b lp).2.1 ∧
      ((stepRP cfg c s l b tries rp).2.2.1.lp? = some (stepLP cfg c s l b lp).2.2.1 ∨
        ∃ q d, (stepLP cfg c s l b lp).2.2.1 = .done q d) := by
  cases rp with
  | load ld =>
    simp only [RP.lp?, Option.some.injEq] at h
    subst h
    simp only [stepRP]
    split
    · rename_i s' l' r d evs heq; rw [heq]; exact ⟨rfl, rfl, Or.inr ⟨r, d, rfl⟩⟩
    · rename_i s' l' ld' evs hne heq; rw [heq]; exact ⟨rfl, rfl, Or.inl rfl⟩
  | cas cur x cp =>
    simp only [RP.lp?] at h
    have h1 := stepCP_lp cfg c cur.ptr x s l b cp lp h
    simp only [stepRP]
    split
    · rename_i s' l' prev evs heq
      rw [heq] at h1
      obtain ⟨h2, h3, h4⟩ := h1
      dsimp only at h2 h3
      refine ⟨?_, ?_, ?_⟩
      · (repeat' split) <;> exact h2
      · (repeat' split) <;> exact h3
      · rcases h4 with h4 | h4
        · simp [CP.lp?] at h4
        · exact Or.inr h4
    · rename_i s' l' cp' evs hne heq
      rw [heq] at h1
      exact h1
  | _ => cases h

/-- **a thread with a load in progress steps that load**: nodes, head and cells afterwards are
    those of the load's step, and so are the thread's locals and (unless the load has ended) its
    innermost load -/
theorem microStep_lp (st : State) (t : Nat) (b : Bool) (lp : LP) (h : (st.th t).op.lp? = some lp) :
    ∃ c, (st.th t).op.cell? = some c ∧
      (microStep st t b).1.sh.nodes = (stepLP st.cfg c st.sh (st.th t).loc b lp).1.nodes ∧
      (microStep st t b).1.sh.cells = (stepLP st.cfg c st.sh (st.th t).loc b lp).1.cells ∧
      ((microStep st t b).1.th t).loc = (stepLP st.cfg c st.sh (st.th t).loc b lp).2.1 ∧
      (((microStep st t b).1.th t).op.lp? = some (stepLP st.cfg c st.sh (st.th t).loc b lp).2.2.1 ∨
        ∃ q d, (stepLP st.cfg c st.sh (st.th t).loc b lp).2.2.1 = .done q d) := by
  cases hop : (st.th t).op with
  | load c g ld =>
    rw [hop] at h; simp only [OpSt.lp?, Option.some.injEq] at h; subst h
    refine ⟨c, rfl, ?_⟩
    simp only [microStep, hop]
    split
    · rename_i s' l' p d evs heq; rw [heq]; exact ⟨rfl, rfl, by simp, Or.inr ⟨p, d, rfl⟩⟩
    · rename_i s' l' ld' evs hne heq; rw [heq]; exact ⟨rfl, rfl, by simp, Or.inl (by simp [OpSt.lp?])⟩
  | loadFull c x ld =>
    rw [hop] at h; simp only [OpSt.lp?, Option.some.injEq] at h; subst h
    refine ⟨c, rfl, ?_⟩
    simp only [microStep, hop]
    split
    · rename_i s' l' p d evs heq; rw [heq]
      split <;> exact ⟨rfl, rfl, by simp, Or.inr ⟨p, d, rfl⟩⟩
    · rename_i s' l' ld' evs hne heq; rw [heq]; exact ⟨rfl, rfl, by simp, Or.inl (by simp [OpSt.lp?])⟩
  | swapPay c out old isStore pp =>
    rw [hop] at h; simp only [OpSt.lp?] at h
    have h1 := stepPP_lp st.cfg old c st.sh (st.th t).loc b pp lp h
    refine ⟨c, rfl, ?_⟩
    simp only [microStep, hop]
    split
    · rename_i s' l' evs heq
      rw [heq] at h1
      obtain ⟨h2, h3, h4⟩ := h1
      rcases h4 with h4 | h4
      · simp [PP.lp?] at h4
      · dsimp only at h2 h3
        refine ⟨?_, ?_, ?_, Or.inr h4⟩ <;> (repeat' split) <;> simp [← h2, ← h3]
    · rename_i s' l' pp' evs hne heq
      rw [heq] at h1
      obtain ⟨h2, h3, h4⟩ := h1
      dsimp only at h2 h3 h4
      exact ⟨by rw [← h2], by rw [← h2], by simp [← h3], h4.imp (fun x => by simpa [OpSt.lp?] using x) id⟩
  | cinto c x p pp =>
    rw [hop] at h; simp only [OpSt.lp?] at h
    have h1 := stepPP_lp st.cfg p c st.sh (st.th t).loc b pp lp h
    refine ⟨c, rfl, ?_⟩
    simp only [microStep, hop]
    split
    · rename_i s' l' evs heq
      rw [heq] at h1
      obtain ⟨h2, h3, h4⟩ := h1
      rcases h4 with h4 | h4
      · simp [PP.lp?] at h4
      · exfalso
        -- a walk does not end with the step of a nested load
        cases pp with
        | hload y ld =>
          simp only [stepPP] at heq
          split at heq
          · split at heq <;> cases heq
          · cases heq
        | _ => cases h
    · rename_i s' l' pp' evs hne heq
      rw [heq] at h1
      obtain ⟨h2, h3, h4⟩ := h1
      dsimp only at h2 h3 h4
      exact ⟨by rw [← h2], by rw [← h2], by simp [← h3], h4.imp (fun x => by simpa [OpSt.lp?] using x) id⟩
  | dropc c p pp =>
    rw [hop] at h; simp only [OpSt.lp?] at h
    have h1 := stepPP_lp st.cfg p c st.sh (st.th t).loc b pp lp h
    refine ⟨c, rfl, ?_⟩
    simp only [microStep, hop]
    split
    · rename_i s' l' evs heq
      exfalso
      cases pp with
      | hload y ld =>
        simp only [stepPP] at heq
        split at heq
        · split at heq <;> cases heq
        · cases heq
      | _ => cases h
    · rename_i s' l' pp' evs hne heq
      rw [heq] at h1
      obtain ⟨h2, h3, h4⟩ := h1
      dsimp only at h2 h3 h4
      exact ⟨by rw [← h2], by rw [← h2], by simp [← h3], h4.imp (fun x => by simpa [OpSt.lp?] using x) id⟩
  | cas c cur keep curPtr new g cp =>
    rw [hop] at h; simp only [OpSt.lp?] at h
    have h1 := stepCP_lp st.cfg c curPtr new st.sh (st.th t).loc b cp lp h
    refine ⟨c, rfl, ?_⟩
    simp only [microStep, hop]
    split
    · rename_i s' l' old evs heq
      rw [heq] at h1
      obtain ⟨h2, h3, h4⟩ := h1
      dsimp only at h2 h3
      rcases h4 with h4 | h4
      · simp [CP.lp?] at h4
      · refine ⟨?_, ?_, ?_, Or.inr h4⟩
        · rw [← h2]; cases cur <;> cases keep <;> rfl
        · rw [← h2]; cases cur <;> cases keep <;> rfl
        · simp [← h3]
    · rename_i s' l' cp' evs hne heq
      rw [heq] at h1
      obtain ⟨h2, h3, h4⟩ := h1
      dsimp only at h2 h3 h4
      exact ⟨by rw [← h2], by rw [← h2], by simp [← h3], h4.imp (fun x => by simpa [OpSt.lp?] using x) id⟩
  | rcu c out tries rp =>
    rw [hop] at h; simp only [OpSt.lp?] at h
    have h1 := stepRP_lp st.cfg c st.sh (st.th t).loc b tries rp lp h
    refine ⟨c, rfl, ?_⟩
    simp only [microStep, hop]
    split
    · rename_i s' l' r tries' evs heq
      rw [heq] at h1
      obtain ⟨h2, h3, h4⟩ := h1
      dsimp only at h2 h3
      rcases h4 with h4 | h4
      · simp [RP.lp?] at h4
      · exact ⟨by rw [← h2], by rw [← h2], by simp [← h3], Or.inr h4⟩
    · rename_i s' l' rp' tries' evs hne heq
      rw [heq] at h1
      obtain ⟨h2, h3, h4⟩ := h1
      dsimp only at h2 h3 h4
      exact ⟨by rw [← h2], by rw [← h2], by simp [← h3], h4.imp (fun x => by simpa [OpSt.lp?] using x) id⟩
  | _ => rw [hop] at h; cases h

end M
