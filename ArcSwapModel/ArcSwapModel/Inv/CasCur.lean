import ArcSwapModel.Inv.RcuVal2

/-!
# `compare_and_swap`: what `current` denotes stays alive during the call

The caller's `current` (a handle, or a guard) is held by the operation for the whole call, so the
object it denotes is counted in every state of the call: its address is not re-allocated, and the
pointer comparison at the exchange is a comparison of objects.
-/

namespace M
open Consts

/-- `current` given as a handle -/
theorem cas_current_handle_counted (K N T : Nat) (hK : 0 < K) (cfg : Cfg) (progs : Nat → List (String × Op))
    (sched : List (Nat × Bool)) (he : EnvRun0 K N T (State.initial cfg progs) sched)
    (hf : (run (State.initial cfg progs) sched).sh.fault = none)
    (t c hc : Nat) (keep : Option Guard) (curPtr new g : Nat) (cp : CP) (hp : curPtr ≠ 0)
    (hop : ((run (State.initial cfg progs) sched).th t).op = .cas c (.h hc) keep curPtr new g cp) :
    1 ≤ ((run (State.initial cfg progs) sched).sh.heap curPtr).cnt ∧
      ((run (State.initial cfg progs) sched).sh.heap curPtr).live = true := by
  have hib : IdleBeyond T (run (State.initial cfg progs) sched) := idleBeyond_run sched he (fun _ _ => rfl)
  have htT : t < T := by
    refine Nat.lt_of_not_le (fun hle => ?_)
    rw [hib t hle] at hop; cases hop
  refine thread_held_alive K N T hK cfg progs sched he hf curPtr hp t htT (Or.inl ?_)
  rw [hop]
  have h1 := CP.claims_len new cp ((run (State.initial cfg progs) sched).th t).loc curPtr
  have h2 := gClaims_len keep curPtr
  simp only [OpSt.claims, uOp, List.length_append, u, ↓reduceIte]; omega

/-- `current` given as a guard -/
theorem cas_current_guard_counted (K N T : Nat) (hK : 0 < K) (cfg : Cfg) (progs : Nat → List (String × Op))
    (sched : List (Nat × Bool)) (he : EnvRun0 K N T (State.initial cfg progs) sched)
    (hf : (run (State.initial cfg progs) sched).sh.fault = none)
    (t c gc : Nat) (cg : Guard) (new g : Nat) (cp : CP) (hp : cg.ptr ≠ 0)
    (hop : ((run (State.initial cfg progs) sched).th t).op = .cas c (.g gc) (some cg) cg.ptr new g cp) :
    1 ≤ ((run (State.initial cfg progs) sched).sh.heap cg.ptr).cnt ∧
      ((run (State.initial cfg progs) sched).sh.heap cg.ptr).live = true := by
  have hib : IdleBeyond T (run (State.initial cfg progs) sched) := idleBeyond_run sched he (fun _ _ => rfl)
  have htT : t < T := by
    refine Nat.lt_of_not_le (fun hle => ?_)
    rw [hib t hle] at hop; cases hop
  have hwf := Wf.run0 hK (Wf.initial K cfg progs) sched he
  have hok := hwf.thL t
  rw [hop] at hok
  refine thread_held_alive K N T hK cfg progs sched he hf cg.ptr hp t htT ?_
  rw [hop]
  cases hd : cg.debt with
  | none =>
    left
    have h1 := CP.claims_len new cp ((run (State.initial cfg progs) sched).th t).loc cg.ptr
    simp only [OpSt.claims, gClaims, Guard.claims, hd, uOp, gU, List.length_append, u, ↓reduceIte, List.length_nil]
    omega
  | some ni =>
    obtain ⟨n, i⟩ := ni
    right
    obtain ⟨hnK, hiS⟩ := hok.2 cg rfl n i hd
    refine ⟨n, i, hnK, hiS, ?_, ?_⟩
    · simp only [OpSt.claims, gClaims]
      exact List.mem_append_right _ (Guard.claims_of_holds ⟨rfl, hd⟩)
    · intro hn hu
      simp only [OpSt.lp?] at hu
      simp only [OpSt.claims, gClaims, cnt2_append]
      have c1 := cnt2_pos (Guard.claims_of_holds (g := cg) (n := n) (i := i) (a := cg.ptr) ⟨rfl, hd⟩)
      have c2 := cnt2_pos (CP.claims_of_holds (CP.holds_of_unc hn hu))
      omega

end M
