import ArcSwapModel.Inv.HazD2

/-!
# The hazard invariant along executions that create and destroy containers
-/

namespace M
open Consts

/-- an execution of threads below `T` whose operations use registers and cells below `N` and
    create containers on fresh cells only -/
def TameRun2 (N T : Nat) : State → List (Nat × Bool) → Prop
  | _, [] => True
  | st, (t, b) :: rest => t < T ∧ Tame2 N st t ∧ TameRun2 N T (microStep st t b).1 rest

structure HazAllD (N T : Nat) (st : State) (L : List Nat) : Prop where
  haz : HazInvD N st L
  own : OwnInv st
  node : NodeInv st
  walk : WalkNodeC st
  cx : ∀ t, (st.th t).op.cxok
  busy : BusyInv N T st

theorem HazAllD.initial (N T : Nat) (cfg : Cfg) (progs : Nat → List (String × Op)) : HazAllD N T (State.initial cfg progs) [] :=
  ⟨HazInvD.initial N cfg progs, OwnInv.initial cfg progs, NodeInv.initial cfg progs,
   (fun t a pp hw => by cases hw), (fun _ => trivial), BusyInv.initial N T cfg progs⟩

theorem HazAllD.step {N T : Nat} {st : State} {L : List Nat} (h : HazAllD N T st L) (t : Nat) (ht : t < T) (b : Bool)
    (htame : Tame2 N st t) : ∃ pre, HazAllD N T (microStep st t b).1 (pre ++ L) := by
  obtain ⟨pre, hpre⟩ := h.haz.step h.own h.node h.walk h.cx h.busy t b htame
  refine ⟨pre, hpre, h.own.step t b, h.node.step t b, h.walk.step t b, fun u => ?_, h.busy.step h.cx t ht b htame⟩
  by_cases e : u = t
  · subst e; exact microStep_cxok st u b (h.cx u)
  · rw [(microStep_own st t b).2 u e]; exact h.cx u

theorem HazAllD.run {N T : Nat} {st : State} {L : List Nat} (h : HazAllD N T st L) (sched : List (Nat × Bool))
    (ht : TameRun2 N T st sched) : ∃ L', HazAllD N T (run st sched) L' := by
  induction sched generalizing st L with
  | nil => exact ⟨L, h⟩
  | cons x rest ih =>
    obtain ⟨t, b⟩ := x
    obtain ⟨pre, hpre⟩ := h.step t ht.1 b ht.2.1
    exact ih hpre ht.2.2

/-- **a confirmed slot protects the value it names** — along every execution of threads that use
    registers and cells below `N` and create containers on fresh cells only; containers may be
    consumed and dropped.  A fast slot that names `a`, and that its owner is not still confirming
    or taking back, has `a` still stored in a container that nobody is destroying; or a thread that
    took `a` out of a container, or is destroying the container that holds it, is walking the list
    and has this slot still ahead of it; or it is the debt of the guard a destroyer loaded while
    helping (the container it is destroying still holds `a`). -/
theorem confirmed_slot_protected (N T : Nat) (cfg : Cfg) (progs : Nat → List (String × Op)) (sched : List (Nat × Bool))
    (ht : TameRun2 N T (State.initial cfg progs) sched) (n i a : Nat) (hi : i < slotCnt)
    (hs : ((run (State.initial cfg progs) sched).sh.nodes n).fast i = .ptr a)
    (hconf : ∀ o, ((run (State.initial cfg progs) sched).th o).loc.node = some n →
      ¬ Unc ((run (State.initial cfg progs) sched).th o).op.lp? a i) :
    (∃ c, c < N ∧ (run (State.initial cfg progs) sched).sh.cells c = some a ∧
        (run (State.initial cfg progs) sched).ctaken c = false) ∨
      (∃ w pp L, ((run (State.initial cfg progs) sched).th w).op.walkC? = some (a, pp) ∧ pp.ahead L n i) ∨
      (∃ o, ((run (State.initial cfg progs) sched).th o).op.consHold n i a) := by
  obtain ⟨L, hL⟩ := (HazAllD.initial N T cfg progs).run sched ht
  rcases hL.haz.haz n i a hi hs with h | ⟨w, pp, h1, h2⟩ | ⟨o, h1, h2⟩ | h
  · exact Or.inl h
  · exact Or.inr (Or.inl ⟨w, pp, L, h1, h2⟩)
  · exact absurd h2 (hconf o h1)
  · exact Or.inr (Or.inr h)

theorem OpSt.consHold_walk {op : OpSt} {n i a : Nat} (h : op.consHold n i a) : ∃ c, op.consWalk c a := by
  obtain ⟨c, hh, r, gi, _, hs⟩ := h
  rcases hs with ⟨x, rfl⟩ | rfl
  · exact ⟨c, Or.inl ⟨x, _, rfl⟩⟩
  · exact ⟨c, Or.inr ⟨_, rfl⟩⟩

/-- **the value a confirmed slot names is alive**, also along executions that consume and drop
    containers -/
theorem confirmed_slot_value_alive (K N T : Nat) (hK : 0 < K) (cfg : Cfg) (progs : Nat → List (String × Op))
    (sched : List (Nat × Bool)) (he : EnvRun0 K N T (State.initial cfg progs) sched)
    (ht : TameRun2 N T (State.initial cfg progs) sched)
    (hf : (run (State.initial cfg progs) sched).sh.fault = none) (a : Nat) (ha : a ≠ 0)
    (n i : Nat) (hi : i < slotCnt) (hs : ((run (State.initial cfg progs) sched).sh.nodes n).fast i = .ptr a)
    (hconf : ∀ o, ((run (State.initial cfg progs) sched).th o).loc.node = some n →
      ¬ Unc ((run (State.initial cfg progs) sched).th o).op.lp? a i) :
    1 ≤ ((run (State.initial cfg progs) sched).sh.heap a).cnt ∧
      ((run (State.initial cfg progs) sched).sh.heap a).live = true := by
  obtain ⟨L, hL⟩ := (HazAllD.initial N T cfg progs).run sched ht
  have of_cons : ∀ o c, ((run (State.initial cfg progs) sched).th o).op.consWalk c a →
      1 ≤ ((run (State.initial cfg progs) sched).sh.heap a).cnt := by
    intro o c hcw
    obtain ⟨hcons, hcell⟩ := OpSt.consWalk_cons hcw
    exact stored_value_counted K N T hK cfg progs sched he hf a ha c (hL.busy.consN o c hcons hcell)
      (hL.busy.ccell o c a hcw)
  have hcnt : 1 ≤ ((run (State.initial cfg progs) sched).sh.heap a).cnt := by
    rcases confirmed_slot_protected N T cfg progs sched ht n i a hi hs hconf with ⟨c, hc, hcell, _⟩ | ⟨w, pp, _, hw, _⟩ | ⟨o, hd⟩
    · exact stored_value_counted K N T hK cfg progs sched he hf a ha c hc hcell
    · rcases OpSt.walkC_cases hw with hw' | ⟨c, hcw, _⟩
      · exact walked_value_counted K N T hK cfg progs sched he hf a ha w pp hw'
      · exact of_cons w c hcw
    · obtain ⟨c, hcw⟩ := OpSt.consHold_walk hd
      exact of_cons o c hcw
  exact ⟨hcnt, HeapOk.reachable ⟨cfg, progs, sched, rfl⟩ a hcnt⟩

/-- the ledger's assumptions include the tameness of the execution -/
theorem TameRun2.of_env {K N T : Nat} {st : State} {sched : List (Nat × Bool)} (h : EnvRun0 K N T st sched) :
    TameRun2 N T st sched := by
  induction sched generalizing st with
  | nil => trivial
  | cons x rest ih =>
    obtain ⟨t, b⟩ := x
    obtain ⟨ht, h1, hrest⟩ := h
    exact ⟨ht, fun _ txt o rest' hp => h1.next txt o rest' hp, ih hrest⟩

end M
