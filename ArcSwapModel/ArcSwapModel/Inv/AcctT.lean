import ArcSwapModel.Inv.Acct

/-!
# Conservation at the level of whole operations: registers enter the ledger

`regs` counts the references held by the containers, the owned handles and the guards in the
registers below `N` (a guard counts one whether it owns or borrows); `uOp` the references an
operation in flight accounts for.  `beginOp_cons` / `microStep_cons`: every micro-step of every
thread changes `potential − registers` by exactly the change of that thread's units.
-/

namespace M
open Consts

def gU (g : Option Guard) (a : Nat) : Nat :=
  match g with
  | some gd => u gd.ptr a
  | none => 0

/-- references held by registers: containers, handles, guards -/
def regs (N : Nat) (cells hreg : Nat → Option Nat) (greg : Nat → Option Guard) (a : Nat) : Nat :=
  sumN (fun c => ind (cells c = some a)) N + sumN (fun h => ind (hreg h = some a)) N + sumN (fun g => gU (greg g) a) N

def Shared.regs (s : Shared) (N a : Nat) : Nat := M.regs N s.cells s.hreg s.greg a

theorem regs_setC (N : Nat) (cells hreg : Nat → Option Nat) (greg : Nat → Option Guard) (c : Nat) (v : Option Nat)
    (a : Nat) (hc : c < N) :
    regs N (upd cells c v) hreg greg a + ind (cells c = some a) = regs N cells hreg greg a + ind (v = some a) := by
  have := @sumN_upd (fun k => ind (cells k = some a)) (fun k => ind (upd cells c v k = some a)) N c hc
    (fun m hm => by simp [upd, hm])
  simp only [regs, upd_same] at this ⊢; omega

theorem regs_setH (N : Nat) (cells hreg : Nat → Option Nat) (greg : Nat → Option Guard) (h : Nat) (v : Option Nat)
    (a : Nat) (hh : h < N) :
    regs N cells (upd hreg h v) greg a + ind (hreg h = some a) = regs N cells hreg greg a + ind (v = some a) := by
  have := @sumN_upd (fun k => ind (hreg k = some a)) (fun k => ind (upd hreg h v k = some a)) N h hh
    (fun m hm => by simp [upd, hm])
  simp only [regs, upd_same] at this ⊢; omega

theorem regs_setG (N : Nat) (cells hreg : Nat → Option Nat) (greg : Nat → Option Guard) (g : Nat) (v : Option Guard)
    (a : Nat) (hg : g < N) :
    regs N cells hreg (upd greg g v) a + gU (greg g) a = regs N cells hreg greg a + gU v a := by
  have := @sumN_upd (fun k => gU (greg k) a) (fun k => gU (upd greg g v k) a) N g hg
    (fun m hm => by simp [upd, hm])
  simp only [regs, upd_same] at this ⊢; omega

/-- units of an operation in flight -/
def uOp : OpSt → Nat → Nat
  | .load _ _ ld | .loadFull _ _ ld => uLP ld
  | .loadFullInto _ _ r gi => uGI r gi
  | .cloneh _ _ a | .droph a => u a
  | .dropg gd => uGD gd
  | .ginto _ p gi => uGI p gi
  | .swapSw _ a _ _ => u a
  | .swapPay _ _ old _ pp => fun x => u old x + uPP old pp x
  | .swapDrop _ old => u old
  | .cas _ cur keep curPtr new _ cp => fun x =>
      uCP new cp x + (gU keep x + (match cur with | .h _ => u curPtr x | _ => 0))
  | .rcu _ _ _ rp => uRP rp
  | .cinto _ _ p pp | .dropc _ p pp => uPP p pp
  | _ => fun _ => 0

end M

namespace M
open Consts

/-- conservation of one thread step: potential, registers, the thread's units -/
def TCons (K N : Nat) (s s' : Shared) (U U' : Nat → Nat) : Prop :=
  ∀ a, a ≠ 0 → pot K s' a + s.regs N a + U a = pot K s a + s'.regs N a + U' a

def Op.below (N : Nat) : Op → Prop
  | .new h _ | .nullh h | .droph h => h < N
  | .cloneh h h2 => h < N ∧ h2 < N
  | .mk c h | .loadfull c h | .store c h | .cinto c h => c < N ∧ h < N
  | .load c g => c < N ∧ g < N
  | .dropg g | .gderef g => g < N
  | .ginto g h => g < N ∧ h < N
  | .swap c h out => c < N ∧ h < N ∧ out < N
  | .cas c cur nw g => c < N ∧ nw < N ∧ g < N ∧ (match cur with | .h i => i < N | .g i => i < N | .null => True)
  | .rcu c out => c < N ∧ out < N
  | .dropc c => c < N
  | .setgen _ => True

theorem ind_some_none (a : Nat) : ind ((none : Option Nat) = some a) = 0 := by simp [ind]
theorem ind_some_zero (a : Nat) (ha : a ≠ 0) : ind (some 0 = some a) = 0 := by
  simp only [ind, Option.some.injEq]; split
  · rename_i h; exact absurd h.symm ha
  · rfl

theorem gU_none (a : Nat) : gU none a = 0 := rfl
theorem gU_some (g : Guard) (a : Nat) : gU (some g) a = u g.ptr a := rfl

/-- what a state reached from `s` by the register updates of an operation (and any update of
    `busy`, `hist`, …) means for the ledger: described by its five relevant fields -/
theorem TCons.of_fields {K N : Nat} {s s' : Shared} {U U' : Nat → Nat}
    (hh : s'.heap = s.heap) (hn : s'.nodes = s.nodes)
    (hr : ∀ a, a ≠ 0 → M.regs N s.cells s.hreg s.greg a + U a = M.regs N s'.cells s'.hreg s'.greg a + U' a) :
    TCons K N s s' U U' := by
  intro a ha
  have hp : pot K s' a = pot K s a := by simp only [pot, hh, hn]
  have := hr a ha
  simp only [Shared.regs, hp]; omega

/-- starting an operation: registers are emptied into the operation's units (or the operation is
    done at once: `new`, `nullh`, `mk`, a clone of null …) -/
theorem beginOp_cons (K N : Nat) (st : State) (t : Nat) (o : Op) (hN : o.below N)
    (hroom : ∀ v, (st.sh.heap (alloc st.sh v).2.1).cnt = 0)
    (hmk : ∀ c h, o = .mk c h → st.sh.cells c = none)
    (hf : (beginOp st t o).1.sh.fault = none) :
    TCons K N st.sh (beginOp st t o).1.sh (fun _ => 0) (uOp ((beginOp st t o).1.th t).op) := by
  cases o with
  | new h val =>
    intro a ha
    simp only [beginOp]
    split
    · simp [uOp, upd]
    · rename_i hfree
      have hnone : st.sh.hreg h = none := by simpa using hfree
      have h1 := pot_alloc K st.sh val a (hroom val)
      have h2 := regs_setH N st.sh.cells st.sh.hreg st.sh.greg h (some (alloc st.sh val).2.1) a hN
      rw [hnone, ind_some_none, ind_some] at h2
      simp only [upd_same, uOp, Shared.regs]
      simp only [pot] at h1 ⊢
      dsimp only [alloc] at h1 h2 ⊢
      omega
  | nullh h =>
    simp only [beginOp]
    split
    · exact TCons.of_fields rfl rfl (fun a _ => by simp [uOp, upd])
    · rename_i hfree
      have hnone : st.sh.hreg h = none := by simpa using hfree
      refine TCons.of_fields rfl rfl (fun a ha => ?_)
      have h2 := regs_setH N st.sh.cells st.sh.hreg st.sh.greg h (some 0) a hN
      rw [hnone, ind_some_none, ind_some_zero a ha] at h2
      simp only [upd_same, uOp]; omega
  | cloneh h h2 =>
    simp only [beginOp]
    split
    · exact TCons.of_fields rfl rfl (fun a _ => by simp [uOp, upd])
    · rename_i hfree
      have hnone : st.sh.hreg h2 = none := by simpa using hfree
      split
      · exact TCons.of_fields rfl rfl (fun a _ => by simp [uOp, upd])
      · rename_i x hx
        split
        · refine TCons.of_fields rfl rfl (fun a ha => ?_)
          have h2' := regs_setH N st.sh.cells st.sh.hreg st.sh.greg h2 (some 0) a hN.2
          rw [hnone, ind_some_none, ind_some_zero a ha] at h2'
          simp only [upd_same, uOp]; omega
        · refine TCons.of_fields rfl rfl (fun a ha => ?_)
          have h2' := regs_setH N st.sh.cells st.sh.hreg st.sh.greg h none a hN.1
          rw [hx, ind_some_none, ind_some] at h2'
          simp only [upd_same, uOp]; omega
  | droph h =>
    simp only [beginOp]
    split
    · exact TCons.of_fields rfl rfl (fun a _ => by simp [uOp, upd])
    · rename_i x hx
      split
      · rename_i h0; subst h0
        refine TCons.of_fields rfl rfl (fun a ha => ?_)
        have h2' := regs_setH N st.sh.cells st.sh.hreg st.sh.greg h none a hN
        rw [hx, ind_some_none, ind_some_zero a ha] at h2'
        simp only [upd_same, uOp]; omega
      · refine TCons.of_fields rfl rfl (fun a ha => ?_)
        have h2' := regs_setH N st.sh.cells st.sh.hreg st.sh.greg h none a hN
        rw [hx, ind_some_none, ind_some] at h2'
        simp only [upd_same, uOp]; omega
  | mk c h =>
    simp only [beginOp]
    split
    · exact TCons.of_fields rfl rfl (fun a _ => by simp [uOp, upd])
    · rename_i x hx
      refine TCons.of_fields rfl rfl (fun a ha => ?_)
      have h1 := regs_setH N st.sh.cells st.sh.hreg st.sh.greg h none a hN.2
      have h2' := regs_setC N st.sh.cells (upd st.sh.hreg h none) st.sh.greg c (some x) a hN.1
      rw [hx, ind_some_none, ind_some] at h1
      rw [hmk c h rfl, ind_some_none, ind_some] at h2'
      simp only [upd_same, uOp]; omega
  | load c g =>
    simp only [beginOp]
    (repeat' split) <;> exact TCons.of_fields rfl rfl (fun a _ => by simp [uOp, uLP, upd])
  | loadfull c h =>
    simp only [beginOp]
    (repeat' split) <;> exact TCons.of_fields rfl rfl (fun a _ => by simp [uOp, uLP, upd])
  | dropg g =>
    simp only [beginOp]
    split
    · exact TCons.of_fields rfl rfl (fun a _ => by simp [uOp, upd])
    · rename_i x hx
      split
      · rename_i hd
        refine TCons.of_fields rfl rfl (fun a ha => ?_)
        have h1 := regs_setG N st.sh.cells st.sh.hreg st.sh.greg g none a hN
        have h3 := uGD_ofGuard x a ha
        rw [hd] at h3
        rw [hx, gU_none, gU_some] at h1
        simp only [upd_same, uOp, uGD, uG] at h3 ⊢; omega
      · refine TCons.of_fields rfl rfl (fun a ha => ?_)
        have h1 := regs_setG N st.sh.cells st.sh.hreg st.sh.greg g none a hN
        have h3 := uGD_ofGuard x a ha
        rw [hx, gU_none, gU_some] at h1
        simp only [upd_same, uOp, uG] at h3 ⊢; omega
  | ginto g h =>
    simp only [beginOp]
    split
    · exact TCons.of_fields rfl rfl (fun a _ => by simp [uOp, upd])
    · rename_i hfree
      have hnone : st.sh.hreg h = none := by simpa using hfree
      split
      · exact TCons.of_fields rfl rfl (fun a _ => by simp [uOp, upd])
      · rename_i x hx
        split
        · refine TCons.of_fields rfl rfl (fun a ha => ?_)
          have h1 := regs_setG N st.sh.cells st.sh.hreg st.sh.greg g none a hN.1
          have h2' := regs_setH N st.sh.cells st.sh.hreg (upd st.sh.greg g none) h (some x.ptr) a hN.2
          rw [hx, gU_none, gU_some] at h1
          rw [hnone, ind_some_none, ind_some] at h2'
          simp only [upd_same, uOp]; omega
        · rename_i hgi
          refine TCons.of_fields rfl rfl (fun a ha => ?_)
          have h1 := regs_setG N st.sh.cells st.sh.hreg st.sh.greg g none a hN.1
          have h3 := uGI_ofGuard x a ha hgi
          rw [hx, gU_none, gU_some] at h1
          simp only [upd_same, uOp, uG] at h3 ⊢; omega
  | gderef g =>
    simp only [beginOp] at hf ⊢
    split
    · exact TCons.of_fields rfl rfl (fun a _ => by simp [uOp, upd])
    · refine TCons.of_fields ?_ ?_ (fun a _ => ?_)
      · dsimp only; split <;> simp
      · dsimp only; split <;> simp
      · dsimp only; split <;> simp [uOp, upd]
  | store c h =>
    simp only [beginOp]
    split
    · exact TCons.of_fields rfl rfl (fun a _ => by simp [uOp, upd])
    · split
      · exact TCons.of_fields rfl rfl (fun a _ => by simp [uOp, upd])
      · rename_i x hx
        refine TCons.of_fields rfl rfl (fun a ha => ?_)
        have h1 := regs_setH N st.sh.cells st.sh.hreg st.sh.greg h none a hN.2
        rw [hx, ind_some_none, ind_some] at h1
        simp only [upd_same, uOp]; omega
  | swap c h out =>
    simp only [beginOp]
    split
    · exact TCons.of_fields rfl rfl (fun a _ => by simp [uOp, upd])
    · split
      · exact TCons.of_fields rfl rfl (fun a _ => by simp [uOp, upd])
      · rename_i x hx
        split
        · exact TCons.of_fields rfl rfl (fun a _ => by simp [uOp, upd])
        · refine TCons.of_fields rfl rfl (fun a ha => ?_)
          have h1 := regs_setH N st.sh.cells st.sh.hreg st.sh.greg h none a hN.2.1
          rw [hx, ind_some_none, ind_some] at h1
          simp only [upd_same, uOp]; omega
  | cas c cur nw g =>
    simp only [beginOp]
    split
    · exact TCons.of_fields rfl rfl (fun a _ => by simp [uOp, upd])
    · split
      · exact TCons.of_fields rfl rfl (fun a _ => by simp [uOp, upd])
      · split
        · exact TCons.of_fields rfl rfl (fun a _ => by simp [uOp, upd])
        · rename_i x hx
          have h1 := fun a => regs_setH N st.sh.cells st.sh.hreg st.sh.greg nw none a hN.2.1
          cases cur with
          | null =>
            refine TCons.of_fields rfl rfl (fun a ha => ?_)
            have h1 := h1 a
            rw [hx, ind_some_none, ind_some] at h1
            simp only [upd_same, uOp, uCP, uLP, gU_none, u_zero a ha]; omega
          | h hc =>
            dsimp only
            split
            · exact TCons.of_fields rfl rfl (fun a _ => by simp [uOp, upd])
            · rename_i y hy
              refine TCons.of_fields rfl rfl (fun a ha => ?_)
              have h1 := h1 a
              have h2' := regs_setH N st.sh.cells (upd st.sh.hreg nw none) st.sh.greg hc none a hN.2.2.2
              rw [hx, ind_some_none, ind_some] at h1
              rw [hy, ind_some_none, ind_some] at h2'
              simp only [upd_same, uOp, uCP, uLP, gU_none]; omega
          | g gc =>
            dsimp only
            split
            · exact TCons.of_fields rfl rfl (fun a _ => by simp [uOp, upd])
            · rename_i y hy
              refine TCons.of_fields rfl rfl (fun a ha => ?_)
              have h1 := h1 a
              have h2' := regs_setG N st.sh.cells (upd st.sh.hreg nw none) st.sh.greg gc none a hN.2.2.2
              rw [hx, ind_some_none, ind_some] at h1
              rw [hy, gU_none, gU_some] at h2'
              simp only [upd_same, uOp, uCP, uLP, gU_some]; omega
  | rcu c out =>
    simp only [beginOp]
    (repeat' split) <;> exact TCons.of_fields rfl rfl (fun a _ => by simp [uOp, uRP, uLP, upd])
  | cinto c h =>
    simp only [beginOp]
    (repeat' split) <;> exact TCons.of_fields rfl rfl (fun a _ => by simp [uOp, uPP, upd])
  | dropc c =>
    simp only [beginOp]
    (repeat' split) <;> exact TCons.of_fields rfl rfl (fun a _ => by simp [uOp, uPP, upd])
  | setgen v =>
    simp only [beginOp]
    exact TCons.of_fields rfl rfl (fun a _ => by simp [uOp, upd])

end M

namespace M
open Consts

/-! ## The sub-machines never touch a handle or guard register -/

theorem setFault_hg (s : Shared) (f : Fault) : (s.setFault f).hreg = s.hreg ∧ (s.setFault f).greg = s.greg := by simp

theorem incObj_hg (s : Shared) (a : Nat) : (incObj s a).1.hreg = s.hreg ∧ (incObj s a).1.greg = s.greg := by simp
theorem decObj_hg (s : Shared) (a : Nat) : (decObj s a).1.hreg = s.hreg ∧ (decObj s a).1.greg = s.greg := by simp

theorem stepNG_hg (s : Shared) (b : Bool) (ng : NG) :
    (stepNG s b ng).1.hreg = s.hreg ∧ (stepNG s b ng).1.greg = s.greg := by
  cases ng <;> simp only [stepNG] <;> (repeat' split) <;> simp [Shared.setNode]

theorem stepCD_hg (s : Shared) (cd : CD) : (stepCD s cd).1.hreg = s.hreg ∧ (stepCD s cd).1.greg = s.greg := by
  cases cd <;> simp only [stepCD] <;> (repeat' split) <;> simp

theorem stepGD_hg (s : Shared) (gd : GD) : (stepGD s gd).1.hreg = s.hreg ∧ (stepGD s gd).1.greg = s.greg := by
  cases gd <;> simp only [stepGD] <;> (repeat' split) <;> simp

theorem stepGI_hg (s : Shared) (gi : GI) : (stepGI s gi).1.hreg = s.hreg ∧ (stepGI s gi).1.greg = s.greg := by
  cases gi <;> simp only [stepGI] <;> (repeat' split) <;> simp

theorem stepLP_hg (cfg : Cfg) (c : Nat) (s : Shared) (l : Locals) (b : Bool) (lp : LP) :
    (stepLP cfg c s l b lp).1.hreg = s.hreg ∧ (stepLP cfg c s l b lp).1.greg = s.greg := by
  cases lp with
  | get ng => have := stepNG_hg s b ng; simp only [stepLP]; split <;> simp_all
  | reget ng => have := stepNG_hg s b ng; simp only [stepLP]; split <;> simp_all
  | cool cd => have := stepCD_hg s cd; simp only [stepLP]; split <;> simp_all
  | _ => simp only [stepLP] <;> (repeat' split) <;> simp [dbgInUse] <;> (repeat' split) <;> simp

theorem stepPP_hg (cfg : Cfg) (p c : Nat) (s : Shared) (l : Locals) (b : Bool) (pp : PP) :
    (stepPP cfg p c s l b pp).1.hreg = s.hreg ∧ (stepPP cfg p c s l b pp).1.greg = s.greg := by
  cases pp with
  | get ng => have := stepNG_hg s b ng; simp only [stepPP]; split <;> simp_all
  | hload h ld => have := stepLP_hg cfg c s l b ld; simp only [stepPP]; split <;> simp_all
  | hinto h r gi => have := stepGI_hg s gi; simp only [stepPP]; split <;> simp_all
  | _ => simp only [stepPP] <;> (repeat' split) <;> simp [dbgInUse] <;> (repeat' split) <;> simp

theorem stepCP_hg (cfg : Cfg) (c cur new : Nat) (s : Shared) (l : Locals) (b : Bool) (cp : CP) :
    (stepCP cfg c cur new s l b cp).1.hreg = s.hreg ∧ (stepCP cfg c cur new s l b cp).1.greg = s.greg := by
  cases cp with
  | load ld => have := stepLP_hg cfg c s l b ld; simp only [stepCP]; split <;> simp_all
  | pay old pp => have := stepPP_hg cfg old.ptr c s l b pp; simp only [stepCP]; split <;> simp_all
  | dropOld gd => have := stepGD_hg s gd; simp only [stepCP]; split <;> simp_all
  | _ => simp only [stepCP] <;> (repeat' split) <;> simp [Shared.writeCell]

theorem stepRP_hg (cfg : Cfg) (c : Nat) (s : Shared) (l : Locals) (b : Bool) (tries : Nat) (rp : RP) :
    (stepRP cfg c s l b tries rp).1.hreg = s.hreg ∧ (stepRP cfg c s l b tries rp).1.greg = s.greg := by
  cases rp with
  | load ld => have := stepLP_hg cfg c s l b ld; simp only [stepRP]; split <;> simp_all
  | cas cur a cp => have := stepCP_hg cfg c cur.ptr a s l b cp; simp only [stepRP]; (repeat' split) <;> simp_all
  | intoPrev cur prev gi => have := stepGI_hg s gi; simp only [stepRP]; split <;> simp_all
  | dropCur res gd => have := stepGD_hg s gd; simp only [stepRP]; split <;> simp_all
  | dropCurLoop prev gd => have := stepGD_hg s gd; simp only [stepRP]; split <;> simp_all
  | attempt cur => simp only [stepRP]; split <;> simp [alloc]
  | done r => simp [stepRP]

end M

namespace M
open Consts

theorem TCons.of_cons {K N : Nat} {s s1 s' : Shared} {U U1 U' : Nat → Nat} (hc : Cons K s s1 U U1)
    (hh : s'.heap = s1.heap) (hn : s'.nodes = s1.nodes)
    (hr : ∀ a, a ≠ 0 → M.regs N s.cells s.hreg s.greg a + U1 a = M.regs N s'.cells s'.hreg s'.greg a + U' a) :
    TCons K N s s' U U' := by
  intro a ha
  have hp : pot K s' a = pot K s1 a := by simp only [pot, hh, hn]
  have h1 := hc a ha
  have h2 := hr a ha
  simp only [Shared.regs, hp]; omega

theorem TCons.of_consC {K N : Nat} {s s1 s' : Shared} {U U1 U' : Nat → Nat} (hc : ConsC K N s s1 U U1)
    (hh : s'.heap = s1.heap) (hn : s'.nodes = s1.nodes)
    (hr : ∀ a, a ≠ 0 → M.regs N s1.cells s.hreg s.greg a + U1 a = M.regs N s'.cells s'.hreg s'.greg a + U' a) :
    TCons K N s s' U U' := by
  intro a ha
  have hp : pot K s' a = pot K s1 a := by simp only [pot, hh, hn]
  have h1 := hc a ha
  have h2 := hr a ha
  simp only [Shared.regs, M.regs, cellsU, hp] at h1 h2 ⊢; omega

theorem TCons.of_cons_add {K N : Nat} {s s1 s' : Shared} {U U1 U' : Nat → Nat} (X : Nat → Nat)
    (hc : Cons K s s1 U U1) (hh : s'.heap = s1.heap) (hn : s'.nodes = s1.nodes)
    (hr : ∀ a, a ≠ 0 → M.regs N s.cells s.hreg s.greg a + X a + U1 a = M.regs N s'.cells s'.hreg s'.greg a + U' a) :
    TCons K N s s' (fun a => X a + U a) U' := by
  intro a ha
  have hp : pot K s' a = pot K s1 a := by simp only [pot, hh, hn]
  have h1 := hc a ha
  have h2 := hr a ha
  simp only [Shared.regs, hp]; omega

theorem TCons.of_consC_add {K N : Nat} {s s1 s' : Shared} {U U1 U' : Nat → Nat} (X : Nat → Nat)
    (hc : ConsC K N s s1 U U1) (hh : s'.heap = s1.heap) (hn : s'.nodes = s1.nodes)
    (hr : ∀ a, a ≠ 0 → M.regs N s1.cells s.hreg s.greg a + X a + U1 a = M.regs N s'.cells s'.hreg s'.greg a + U' a) :
    TCons K N s s' (fun a => U a + X a) U' := by
  intro a ha
  have hp : pot K s' a = pot K s1 a := by simp only [pot, hh, hn]
  have h1 := hc a ha
  have h2 := hr a ha
  simp only [Shared.regs, M.regs, cellsU, hp] at h1 h2 ⊢; omega

/-- the walk in progress inside an operation, if any (for the hand-over exclusion) -/
def CP.pp? : CP → Option PP
  | .pay _ pp => some pp
  | _ => none

def OpSt.pp? : OpSt → Option PP
  | .swapPay _ _ _ _ pp | .cinto _ _ _ pp | .dropc _ _ pp => some pp
  | .cas _ _ _ _ _ _ cp => cp.pp?
  | .rcu _ _ _ (.cas _ _ cp) => cp.pp?
  | _ => none

/-- local well-formedness of an operation in flight, and its output registers are free -/
def OpSt.ok (K N : Nat) (s : Shared) : OpSt → Prop
  | .load c g ld => ld.ok K ∧ c < N ∧ g < N ∧ s.greg g = none
  | .loadFull c h ld => ld.ok K ∧ c < N ∧ h < N ∧ s.hreg h = none
  | .loadFullInto _ h r gi => gi.ok K r ∧ h < N ∧ s.hreg h = none
  | .cloneh h h2 _ => h < N ∧ h2 < N ∧ h ≠ h2 ∧ s.hreg h = none ∧ s.hreg h2 = none
  | .dropg gd => gd.ok K
  | .ginto h p gi => gi.ok K p ∧ h < N ∧ s.hreg h = none
  | .swapSw c _ _ _ => c < N
  | .swapPay _ out _ isStore pp => pp.ok K ∧ (isStore = false → out < N ∧ s.hreg out = none)
  | .cas c cur keep curPtr _ g cp => cp.ok K curPtr ∧ c < N ∧ g < N ∧ s.greg g = none ∧
      (match cur, keep with
        | .h hc, none => hc < N ∧ s.hreg hc = none
        | .g gc, some _ => gc < N ∧ gc ≠ g ∧ s.greg gc = none
        | .null, none => True
        | _, _ => False)
  | .rcu c out _ rp => rp.ok K ∧ c < N ∧ out < N ∧ s.hreg out = none
  | .cinto c h p pp => pp.ok K ∧ c < N ∧ h < N ∧ s.hreg h = none ∧ s.cells c = some p
  | .dropc c p pp => pp.ok K ∧ c < N ∧ s.cells c = some p
  | .dropcDec c p => c < N ∧ s.cells c = some p
  | _ => True

end M

namespace M
open Consts

/-- **Every micro-step of every thread conserves**: the potential changes by exactly what the
    registers and the stepping thread's units change by — for any shared state. -/
theorem microStep_cons (K N : Nat) (st : State) (t : Nat) (b : Bool)
    (hk : (st.th t).op.ok K N st.sh) (hn : (st.th t).loc.node.getD 0 < K) (hb : Beyond st.sh)
    (hK : st.sh.nNodes ≤ K)
    (hnh : ∀ h r x m, (st.th t).op.pp? = some (.h7 h r x m) → (st.sh.nodes h.who).control ≠ h.ctl)
    (hroom : ∀ v, (st.sh.heap (alloc st.sh v).2.1).cnt = 0)
    (hnext : ∀ txt o rest, (st.th t).prog = (txt, o) :: rest →
      o.below N ∧ (∀ c h, o = .mk c h → st.sh.cells c = none))
    (hf : (microStep st t b).1.sh.fault = none) :
    TCons K N st.sh (microStep st t b).1.sh (uOp (st.th t).op) (uOp ((microStep st t b).1.th t).op) := by
  cases hop : (st.th t).op with
  | finished =>
    simp only [microStep, hop]
    exact TCons.of_fields rfl rfl (fun a _ => by simp [hop])
  | idle =>
    simp only [microStep, hop] at hf ⊢
    split
    · refine TCons.of_fields rfl rfl (fun a _ => ?_)
      simp only [upd_same, uOp]
      split <;> rfl
    · rename_i txt o rest hp
      obtain ⟨hbel, hmk⟩ := hnext txt o rest hp
      have := beginOp_cons K N { st with th := upd st.th t { prog := rest, op := .idle, loc := (st.th t).loc } } t o hbel hroom hmk
      simp only [hp] at hf
      exact this hf
  | exitCool cd =>
    have hp := fun a => stepCD_pot K st.sh cd a
    have hfr := (stepCD_frame st.sh cd).1
    have hhg := stepCD_hg st.sh cd
    simp only [microStep, hop] at hf ⊢
    split
    · rename_i s' evs heq
      simp only [heq] at hp hfr hhg
      intro a ha
      have := hp a
      simp only [Shared.regs, upd_same, uOp, hfr, hhg.1, hhg.2]; omega
    · rename_i s' cd' evs hne heq
      simp only [heq] at hp hfr hhg
      intro a ha
      have := hp a
      simp only [Shared.regs, upd_same, uOp, hfr, hhg.1, hhg.2]; omega
  | load c g ld =>
    rw [hop] at hk
    obtain ⟨hlk, hcN, hgN, hgfree⟩ := hk
    have hc := stepLP_cons K st.cfg c st.sh (st.th t).loc b ld hlk hn hb
    have hfr := (stepLP_frame st.cfg c st.sh (st.th t).loc b ld).1
    have hhg := stepLP_hg st.cfg c st.sh (st.th t).loc b ld
    simp only [microStep, hop] at hf ⊢
    split
    · rename_i s' l' p d evs heq
      simp only [heq] at hc hfr hhg hf
      refine TCons.of_cons (hc hf) rfl rfl (fun a ha => ?_)
      have h1 := regs_setG N st.sh.cells st.sh.hreg st.sh.greg g (some { ptr := p, debt := d }) a hgN
      rw [hgfree, gU_none, gU_some] at h1
      dsimp only at h1
      simp only [upd_same, uOp, uLP, hfr, hhg.1, hhg.2]; omega
    · rename_i s' l' ld' evs hne heq
      simp only [heq] at hc hfr hhg hf
      refine TCons.of_cons (hc hf) rfl rfl (fun a ha => ?_)
      simp only [upd_same, uOp, hfr, hhg.1, hhg.2]
  | loadFull c h ld =>
    rw [hop] at hk
    obtain ⟨hlk, hcN, hhN, hhfree⟩ := hk
    have hc := stepLP_cons K st.cfg c st.sh (st.th t).loc b ld hlk hn hb
    have hfr := (stepLP_frame st.cfg c st.sh (st.th t).loc b ld).1
    have hhg := stepLP_hg st.cfg c st.sh (st.th t).loc b ld
    simp only [microStep, hop] at hf ⊢
    split
    · rename_i s' l' p d evs heq
      simp only [heq] at hc hfr hhg hf
      split
      · rename_i hgi
        simp only [hgi, ↓reduceIte] at hf
        refine TCons.of_cons (hc hf) rfl rfl (fun a ha => ?_)
        have h1 := regs_setH N st.sh.cells st.sh.hreg st.sh.greg h (some p) a hhN
        rw [hhfree, ind_some_none, ind_some] at h1
        simp only [upd_same, uOp, uLP, hfr, hhg.1, hhg.2]; omega
      · rename_i hgi
        simp only [hgi, ↓reduceIte] at hf
        refine TCons.of_cons (hc hf) rfl rfl (fun a ha => ?_)
        have h3 := uGI_ofGuard { ptr := p, debt := d } a ha hgi
        dsimp only [uG] at h3
        simp only [upd_same, uOp, uLP, hfr, hhg.1, hhg.2] at h3 ⊢; omega
    · rename_i s' l' ld' evs hne heq
      simp only [heq] at hc hfr hhg hf
      refine TCons.of_cons (hc hf) rfl rfl (fun a ha => ?_)
      simp only [upd_same, uOp, hfr, hhg.1, hhg.2]
  | loadFullInto c h r gi =>
    rw [hop] at hk
    obtain ⟨hgk, hhN, hhfree⟩ := hk
    have hc := stepGI_cons K r st.sh gi hgk
    have hfr := (stepGI_frame st.sh gi).1
    have hhg := stepGI_hg st.sh gi
    simp only [microStep, hop] at hf ⊢
    split
    · rename_i s' evs heq
      simp only [heq] at hc hfr hhg hf
      refine TCons.of_cons (hc hf) rfl rfl (fun a ha => ?_)
      have h1 := regs_setH N st.sh.cells st.sh.hreg st.sh.greg h (some r) a hhN
      rw [hhfree, ind_some_none, ind_some] at h1
      simp only [upd_same, uOp, uGI, hfr, hhg.1, hhg.2]; omega
    · rename_i s' gi' evs hne heq
      simp only [heq] at hc hfr hhg hf
      refine TCons.of_cons (hc hf) rfl rfl (fun a ha => ?_)
      simp only [upd_same, uOp, hfr, hhg.1, hhg.2]
  | cloneh h h2 x =>
    rw [hop] at hk
    obtain ⟨hhN, hh2N, hne, hfree, hfree2⟩ := hk
    simp only [microStep, hop] at hf ⊢
    intro a ha
    have hf' : (incObj st.sh x).1.fault = none := by simpa using hf
    have h0 := pot_inc K st.sh x a ha hf'
    have hhg := incObj_hg st.sh x
    have hcl := incObj_cells st.sh x
    have h1 := regs_setH N st.sh.cells st.sh.hreg st.sh.greg h (some x) a hhN
    have h2' := regs_setH N st.sh.cells (upd st.sh.hreg h (some x)) st.sh.greg h2 (some x) a hh2N
    have e2 : upd st.sh.hreg h (some x) h2 = none := by simp [upd, Ne.symm hne, hfree2]
    rw [hfree, ind_some_none, ind_some] at h1
    rw [e2, ind_some_none, ind_some] at h2'
    have hp : pot K { (incObj st.sh x).1 with hreg := upd (upd (incObj st.sh x).1.hreg h (some x)) h2 (some x) } a
        = pot K (incObj st.sh x).1 a := rfl
    simp only [Shared.regs, upd_same, uOp, hcl, hhg.1, hhg.2] at hp ⊢
    rw [hp]; omega
  | droph x =>
    simp only [microStep, hop] at hf ⊢
    intro a ha
    have hf' : (decObj st.sh x).1.fault = none := by simpa using hf
    have h0 := pot_dec K st.sh x a ha hf'
    simp only [Shared.regs, upd_same, uOp, decObj_cells, decObj_hreg, decObj_greg]; omega
  | dropg gd =>
    rw [hop] at hk
    have hc := stepGD_cons K st.sh gd hk
    have hfr := (stepGD_frame st.sh gd).1
    have hhg := stepGD_hg st.sh gd
    simp only [microStep, hop] at hf ⊢
    split
    · rename_i s' evs heq
      simp only [heq] at hc hfr hhg hf
      refine TCons.of_cons (hc hf) rfl rfl (fun a ha => ?_)
      simp only [upd_same, uOp, uGD, hfr, hhg.1, hhg.2]
    · rename_i s' gd' evs hne heq
      simp only [heq] at hc hfr hhg hf
      refine TCons.of_cons (hc hf) rfl rfl (fun a ha => ?_)
      simp only [upd_same, uOp, hfr, hhg.1, hhg.2]
  | ginto h p gi =>
    rw [hop] at hk
    obtain ⟨hgk, hhN, hhfree⟩ := hk
    have hc := stepGI_cons K p st.sh gi hgk
    have hfr := (stepGI_frame st.sh gi).1
    have hhg := stepGI_hg st.sh gi
    simp only [microStep, hop] at hf ⊢
    split
    · rename_i s' evs heq
      simp only [heq] at hc hfr hhg hf
      refine TCons.of_cons (hc hf) rfl rfl (fun a ha => ?_)
      have h1 := regs_setH N st.sh.cells st.sh.hreg st.sh.greg h (some p) a hhN
      rw [hhfree, ind_some_none, ind_some] at h1
      simp only [upd_same, uOp, uGI, hfr, hhg.1, hhg.2]; omega
    · rename_i s' gi' evs hne heq
      simp only [heq] at hc hfr hhg hf
      refine TCons.of_cons (hc hf) rfl rfl (fun a ha => ?_)
      simp only [upd_same, uOp, hfr, hhg.1, hhg.2]
  | swapSw c x out isStore =>
    rw [hop] at hk
    simp only [microStep, hop] at hf ⊢
    split
    · rename_i old hold
      refine TCons.of_fields rfl rfl (fun a ha => ?_)
      have h1 := regs_setC N st.sh.cells st.sh.hreg st.sh.greg c (some x) a hk
      rw [hold, ind_some, ind_some] at h1
      simp only [upd_same, uOp, uPP, Shared.writeCell]; omega
    · exact TCons.of_fields rfl rfl (fun a _ => by simp [hop])
  | swapPay c out old isStore pp =>
    rw [hop] at hk hnh
    obtain ⟨hpk, hout⟩ := hk
    have hc := stepPP_cons K st.cfg old c st.sh (st.th t).loc b pp hpk hn hb hK (fun h r x m e => hnh h r x m (by simp [OpSt.pp?, e]))
    have hfr := (stepPP_frame st.cfg old c st.sh (st.th t).loc b pp).1
    have hhg := stepPP_hg st.cfg old c st.sh (st.th t).loc b pp
    simp only [microStep, hop] at hf ⊢
    split
    · rename_i s' l' evs heq
      simp only [heq] at hc hfr hhg hf
      split
      · split
        · rename_i his h0
          simp only [his, h0, ↓reduceIte] at hf
          refine TCons.of_cons_add (u old) (hc hf) rfl rfl (fun a ha => ?_)
          simp only [upd_same, uOp, uPP, hfr, hhg.1, hhg.2, h0, u_zero a ha]
        · rename_i his h0
          simp only [his, h0, ↓reduceIte] at hf
          refine TCons.of_cons_add (u old) (hc hf) rfl rfl (fun a ha => ?_)
          simp only [upd_same, uOp, uPP, hfr, hhg.1, hhg.2]; omega
      · rename_i his
        simp only [his] at hf
        have hisf : isStore = false := by simpa using his
        obtain ⟨houtN, houtfree⟩ := hout hisf
        refine TCons.of_cons_add (u old) (hc hf) rfl rfl (fun a ha => ?_)
        have h1 := regs_setH N st.sh.cells st.sh.hreg st.sh.greg out (some old) a houtN
        rw [houtfree, ind_some_none, ind_some] at h1
        simp only [upd_same, uOp, uPP, hfr, hhg.1, hhg.2]; omega
    · rename_i s' l' pp' evs hne heq
      simp only [heq] at hc hfr hhg hf
      refine TCons.of_cons_add (u old) (hc hf) rfl rfl (fun a ha => ?_)
      simp only [upd_same, uOp, hfr, hhg.1, hhg.2]; omega
  | swapDrop c old =>
    simp only [microStep, hop] at hf ⊢
    intro a ha
    have hf' : (decObj st.sh old).1.fault = none := by simpa using hf
    have h0 := pot_dec K st.sh old a ha hf'
    have hp : pot K { (decObj st.sh old).1 with busy := upd (decObj st.sh old).1.busy c ((decObj st.sh old).1.busy c - 1) } a
        = pot K (decObj st.sh old).1 a := rfl
    simp only [Shared.regs, upd_same, uOp, decObj_cells, decObj_hreg, decObj_greg] at hp ⊢
    rw [hp]; omega
  | cas c cur keep curPtr new g cp =>
    rw [hop] at hk hnh
    obtain ⟨hcpk, hcN, hgN, hgfree, hcur⟩ := hk
    have hc := stepCP_cons K N st.cfg c curPtr new st.sh (st.th t).loc b cp hcpk hn hcN hb hK
      (fun old h r x m e => hnh h r x m (by simp [OpSt.pp?, CP.pp?, e]))
    have hhg := stepCP_hg st.cfg c curPtr new st.sh (st.th t).loc b cp
    simp only [microStep, hop] at hf ⊢
    split
    · rename_i s' l' old evs heq
      simp only [heq] at hc hhg hf
      have hf' : s'.fault = none := by
        cases cur <;> cases keep <;> simpa using hf
      have hcons := hc hf'
      have hg1 := fun a => regs_setG N s'.cells st.sh.hreg st.sh.greg g (some old) a hgN
      cases cur with
      | null =>
        cases keep with
        | some cg => exact absurd hcur id
        | none =>
          refine TCons.of_consC_add _ hcons rfl rfl (fun a ha => ?_)
          have h1 := hg1 a
          rw [hgfree, gU_none, gU_some] at h1
          simp only [upd_same, uOp, uCP, uG, gU_none, hhg.1, hhg.2]; omega
      | h hc' =>
        cases keep with
        | some cg => exact absurd hcur id
        | none =>
          obtain ⟨hcN', hcfree⟩ := hcur
          refine TCons.of_consC_add _ hcons rfl rfl (fun a ha => ?_)
          have h1 := regs_setH N s'.cells st.sh.hreg st.sh.greg hc' (some curPtr) a hcN'
          have h2' := regs_setG N s'.cells (upd st.sh.hreg hc' (some curPtr)) st.sh.greg g (some old) a hgN
          rw [hcfree, ind_some_none, ind_some] at h1
          rw [hgfree, gU_none, gU_some] at h2'
          simp only [upd_same, uOp, uCP, uG, gU_none, hhg.1, hhg.2]; omega
      | g gc =>
        cases keep with
        | none => exact absurd hcur id
        | some cg =>
          obtain ⟨hgcN, hgne, hgcfree⟩ := hcur
          refine TCons.of_consC_add _ hcons rfl rfl (fun a ha => ?_)
          have h1 := regs_setG N s'.cells st.sh.hreg st.sh.greg gc (some cg) a hgcN
          have h2' := regs_setG N s'.cells st.sh.hreg (upd st.sh.greg gc (some cg)) g (some old) a hgN
          have e2 : upd st.sh.greg gc (some cg) g = none := by simp [upd, Ne.symm hgne, hgfree]
          rw [hgcfree, gU_none, gU_some] at h1
          rw [e2, gU_none, gU_some] at h2'
          simp only [upd_same, uOp, uCP, uG, gU_some, hhg.1, hhg.2]; omega
    · rename_i s' l' cp' evs hne heq
      simp only [heq] at hc hhg hf
      refine TCons.of_consC_add _ (hc hf) rfl rfl (fun a ha => ?_)
      simp only [upd_same, uOp, hhg.1, hhg.2]; omega
  | rcu c out tries rp =>
    rw [hop] at hk hnh
    obtain ⟨hrk, hcN, hoN, hofree⟩ := hk
    have hc := stepRP_cons K N st.cfg c st.sh (st.th t).loc b tries rp hrk hn hcN hb hK
      (fun cur a old h r x m e => hnh h r x m (by simp [OpSt.pp?, CP.pp?, e])) (fun _ _ => hroom)
    have hhg := stepRP_hg st.cfg c st.sh (st.th t).loc b tries rp
    simp only [microStep, hop] at hf ⊢
    split
    · rename_i s' l' r tries' evs heq
      simp only [heq] at hc hhg hf
      intro a ha
      have hcons := hc hf a ha
      have h1 := regs_setH N s'.cells st.sh.hreg st.sh.greg out (some r) a hoN
      rw [hofree, ind_some_none, ind_some] at h1
      have hp : pot K { s' with hreg := upd s'.hreg out (some r), busy := upd s'.busy c (s'.busy c - 1) } a = pot K s' a := rfl
      simp only [Shared.regs, M.regs, cellsU, upd_same, uOp, uRP, hhg.1, hhg.2] at hcons h1 hp ⊢
      rw [hp]; omega
    · rename_i s' l' rp' tries' evs hne heq
      simp only [heq] at hc hhg hf
      intro a ha
      have hcons := hc hf a ha
      simp only [Shared.regs, M.regs, cellsU, upd_same, uOp, hhg.1, hhg.2] at hcons ⊢
      omega
  | cinto c h p pp =>
    rw [hop] at hk hnh
    obtain ⟨hpk, hcN, hhN, hhfree, hcell⟩ := hk
    have hc := stepPP_cons K st.cfg p c st.sh (st.th t).loc b pp hpk hn hb hK (fun h r x m e => hnh h r x m (by simp [OpSt.pp?, e]))
    have hfr := (stepPP_frame st.cfg p c st.sh (st.th t).loc b pp).1
    have hhg := stepPP_hg st.cfg p c st.sh (st.th t).loc b pp
    simp only [microStep, hop] at hf ⊢
    split
    · rename_i s' l' evs heq
      simp only [heq] at hc hfr hhg hf
      refine TCons.of_cons (hc hf) rfl rfl (fun a ha => ?_)
      have h1 := regs_setH N st.sh.cells st.sh.hreg st.sh.greg h (some p) a hhN
      have h2' := regs_setC N st.sh.cells (upd st.sh.hreg h (some p)) st.sh.greg c none a hcN
      rw [hhfree, ind_some_none, ind_some] at h1
      rw [hcell, ind_some_none, ind_some] at h2'
      simp only [upd_same, uOp, uPP, hfr, hhg.1, hhg.2]; omega
    · rename_i s' l' pp' evs hne heq
      simp only [heq] at hc hfr hhg hf
      refine TCons.of_cons (hc hf) rfl rfl (fun a ha => ?_)
      simp only [upd_same, uOp, hfr, hhg.1, hhg.2]
  | dropc c p pp =>
    rw [hop] at hk hnh
    obtain ⟨hpk, hcN, hcell⟩ := hk
    have hc := stepPP_cons K st.cfg p c st.sh (st.th t).loc b pp hpk hn hb hK (fun h r x m e => hnh h r x m (by simp [OpSt.pp?, e]))
    have hfr := (stepPP_frame st.cfg p c st.sh (st.th t).loc b pp).1
    have hhg := stepPP_hg st.cfg p c st.sh (st.th t).loc b pp
    simp only [microStep, hop] at hf ⊢
    split
    · rename_i s' l' evs heq
      simp only [heq] at hc hfr hhg hf
      split
      · rename_i h0
        simp only [h0, ↓reduceIte] at hf
        refine TCons.of_cons (hc hf) rfl rfl (fun a ha => ?_)
        have h2' := regs_setC N st.sh.cells st.sh.hreg st.sh.greg c none a hcN
        rw [hcell, h0, ind_some_none, ind_some_zero a ha] at h2'
        simp only [upd_same, uOp, uPP, hfr, hhg.1, hhg.2]; omega
      · rename_i h0
        simp only [h0, ↓reduceIte] at hf
        refine TCons.of_cons (hc hf) rfl rfl (fun a ha => ?_)
        simp only [upd_same, uOp, uPP, hfr, hhg.1, hhg.2]
    · rename_i s' l' pp' evs hne heq
      simp only [heq] at hc hfr hhg hf
      refine TCons.of_cons (hc hf) rfl rfl (fun a ha => ?_)
      simp only [upd_same, uOp, hfr, hhg.1, hhg.2]
  | dropcDec c p =>
    rw [hop] at hk
    obtain ⟨hcN, hcell⟩ := hk
    simp only [microStep, hop] at hf ⊢
    intro a ha
    have hf' : (decObj st.sh p).1.fault = none := by simpa using hf
    have h0 := pot_dec K st.sh p a ha hf'
    have h2' := regs_setC N st.sh.cells st.sh.hreg st.sh.greg c none a hcN
    rw [hcell, ind_some_none, ind_some] at h2'
    have hp : pot K { (decObj st.sh p).1 with cells := upd (decObj st.sh p).1.cells c none } a
        = pot K (decObj st.sh p).1 a := rfl
    simp only [Shared.regs, upd_same, uOp, decObj_cells, decObj_hreg, decObj_greg] at hp ⊢
    rw [hp]; omega

end M
