import ArcSwapModel.Inv.FaultFree

/-!
# The assumptions of the ledger are satisfiable by executions of any length

`envRun0B`: an executable check that a concrete execution satisfies `EnvRun0`; sound
(`envRun0_of_B`).  With it, concrete multi-thread executions — including one in which a reader on
the fallback path is helped by a concurrent writer up to the failed hand-over — are shown to satisfy
every premise of `env_run_fault_free` and of the theorems built on it.
-/

namespace M
open Consts

instance (N : Nat) (s : Shared) (op : OpSt) : Decidable (op.okR N s) := by
  cases op with
  | cas c cur keep curPtr new g cp =>
    simp only [OpSt.okR]
    cases cur <;> cases keep <;> infer_instance
  | _ => simp only [OpSt.okR] <;> infer_instance

def noEnvB (s : Shared) : Bool :=
  (List.range s.nNodes).all (fun n => match (s.nodes n).control with | .env _ => false | _ => true)

theorem noEnv_of_B {s : Shared} (hb : CtlBeyond s) (h : noEnvB s = true) : NoEnv s := by
  intro n j hc
  by_cases hn : n < s.nNodes
  · have := List.all_eq_true.mp h n (List.mem_range.mpr hn)
    simp only [hc] at this; cases this
  · have := hb n (Nat.le_of_not_lt hn); rw [hc] at this; cases this

def nextB (N : Nat) (st : State) (t : Nat) : Bool :=
  match (st.th t).prog with
  | (_, o) :: _ => decide (o.below N) && (match o with | .mk c _ => (st.sh.cells c).isNone | _ => true)
  | [] => true

theorem next_of_B {N : Nat} {st : State} {t : Nat} (h : nextB N st t = true) :
    ∀ txt o rest, (st.th t).prog = (txt, o) :: rest → o.below N ∧ (∀ c h, o = .mk c h → st.sh.cells c = none) := by
  intro txt o rest hp
  simp only [nextB, hp, Bool.and_eq_true, decide_eq_true_eq] at h
  refine ⟨h.1, fun c x e => ?_⟩
  subst e
  simpa using h.2

def envOK0B (K N : Nat) (st : State) (t : Nat) (b : Bool) : Bool :=
  decide ((st.th t).op.okR N st.sh) && decide ((microStep st t b).1.sh.nNodes ≤ K) &&
    noEnvB st.sh && noEnvB (microStep st t b).1.sh &&
    decide (st.sh.fault = none) && decide ((microStep st t b).1.sh.fault = none) &&
    decide ((st.sh.heap (lowestFree st.sh.heap 4096)).cnt = 0) && nextB N st t

def envRun0B (K N T : Nat) : State → List (Nat × Bool) → Bool
  | _, [] => true
  | st, (t, b) :: rest => decide (t < T) && envOK0B K N st t b && envRun0B K N T (microStep st t b).1 rest

theorem Reachable.step {st : State} (h : Reachable st) (t : Nat) (b : Bool) : Reachable (microStep st t b).1 := by
  obtain ⟨cfg, progs, sched, rfl⟩ := h
  exact ⟨cfg, progs, sched ++ [(t, b)], by rw [run_append]; rfl⟩

theorem envRun0_of_B {K N T : Nat} {st : State} {sched : List (Nat × Bool)} (hr : Reachable st)
    (h : envRun0B K N T st sched = true) : EnvRun0 K N T st sched := by
  induction sched generalizing st with
  | nil => trivial
  | cons x rest ih =>
    obtain ⟨t, b⟩ := x
    simp only [envRun0B, envOK0B, Bool.and_eq_true, decide_eq_true_eq] at h
    obtain ⟨⟨ht, ⟨⟨⟨⟨⟨⟨⟨h1, h2⟩, h3⟩, h4⟩, h5⟩, h6⟩, h7⟩, h8⟩⟩, hrest⟩ := h
    refine ⟨ht, ⟨h1, h2, ?_, ?_, ?_, next_of_B h8⟩, ih (hr.step t b) hrest⟩
    · exact noEnv_of_B (CtlInv.reachable hr h5).beyond h3
    · exact noEnv_of_B (CtlInv.reachable (hr.step t b) h6).beyond h4
    · intro v; exact h7

/-- **non-vacuity of the capstone**: the execution `hazSchedH` of `hazExH` (thread 0, on the
    fallback path, reads its candidate and publishes it; thread 1 replaces the content of the
    container and starts to walk; thread 0 ends its window) satisfies every assumption of the ledger
    with `K = 2` nodes, `N = 4` registers and containers, `T = 2` threads — and so do its
    continuations in which thread 1 completes its walk (it helps nobody: the window is over, and
    pays the debt in the helping slot) and both operations finish -/
example : EnvRun0 2 4 2 hazExH hazSchedH :=
  envRun0_of_B ⟨_, _, [], rfl⟩ (by decide +kernel)

def hazSchedH2 : List (Nat × Bool) := hazSchedH ++ List.replicate 60 (1, false) ++ List.replicate 10 (0, false)

/-- … to the end: both threads have exited, the writer has paid the debt in the helping slot (the
    reader's own pay-off failed and it gave the extra reference back), the reader's guard owns the
    one remaining reference of value 1, the container holds value 2 -/
example : EnvRun0 2 4 2 hazExH hazSchedH2 ∧
    ((run hazExH hazSchedH2).th 0).op = .finished ∧ ((run hazExH hazSchedH2).th 1).op = .finished ∧
    ((run hazExH hazSchedH2).sh.nodes 0).hslot = .none ∧
    (run hazExH hazSchedH2).sh.greg 0 = some { ptr := 1, debt := none } ∧
    ((run hazExH hazSchedH2).sh.heap 1).cnt = 1 ∧ ((run hazExH hazSchedH2).sh.heap 1).live = true ∧
    (run hazExH hazSchedH2).sh.cells 0 = some 2 :=
  ⟨envRun0_of_B ⟨_, _, [], rfl⟩ (by decide +kernel), by decide +kernel, by decide +kernel, by decide +kernel,
   by decide +kernel, by decide +kernel, by decide +kernel, by decide +kernel⟩


/-- three threads on the default strategy (fast path): a borrowed guard held across `rcu`, a `store`,
    a `compare_and_swap` with a guard as `current`, a full load, a `swap`, releases -/
def exM : State := State.initial {} (fun t =>
  if t = 0 then [("new h0 5", .new 0 5), ("mk c0 h0", .mk 0 0), ("load c0 g0", .load 0 0), ("rcu c0 h1", .rcu 0 1),
    ("dropg g0", .dropg 0), ("droph h1", .droph 1)]
  else if t = 1 then [("new h2 6", .new 2 6), ("store c0 h2", .store 0 2), ("load c0 g1", .load 0 1), ("new h3 7", .new 3 7),
    ("cas c0 g1 h3 g2", .cas 0 (.g 1) 3 2), ("dropg g1", .dropg 1), ("dropg g2", .dropg 2)]
  else if t = 2 then [("loadfull c0 h4", .loadfull 0 4), ("new h5 9", .new 5 9), ("swap c0 h5 h6", .swap 0 5 6),
    ("droph h4", .droph 4), ("droph h6", .droph 6)]
  else [])
/-- thread 0 creates the container, then the three threads take turns, one atomic access each -/
def schedM : List (Nat × Bool) := List.replicate 3 (0, false) ++ (List.range 500).map (fun i => (i % 3, false))

/-- non-vacuity, concurrent and on the default strategy: the 503-step round-robin execution of `exM`
    satisfies every assumption of the ledger (three nodes, eight registers, three threads); all
    three threads run to their exit, no fault, the container ends up owning the only live object -/
example : EnvRun0 3 8 3 exM schedM ∧ ((run exM schedM).th 0).op = .finished ∧
    ((run exM schedM).th 1).op = .finished ∧ ((run exM schedM).th 2).op = .finished ∧
    (run exM schedM).sh.cells 0 = some 1 ∧ ((run exM schedM).sh.heap 1).cnt = 1 ∧
    ((run exM schedM).sh.heap 2).live = false ∧ ((run exM schedM).sh.heap 3).live = false :=
  ⟨envRun0_of_B ⟨_, _, [], rfl⟩ (by decide +kernel), by decide +kernel, by decide +kernel, by decide +kernel,
   by decide +kernel, by decide +kernel, by decide +kernel, by decide +kernel⟩

end M
