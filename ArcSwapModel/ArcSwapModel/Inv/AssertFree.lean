import ArcSwapModel.Inv.SelfHelp
import ArcSwapModel.Inv.Hist

/-!
# No assertion of the crate fires, no `expect` panics

`Fault.isAssert`: the faults of the machine that stand for a `debug_assert!`, an `assert!` or an
`expect` of the crate.  `AF s s'`: the step from `s` to `s'` raises none of them.  Each sub-machine
step is assertion-free under the local facts its assertions check (`LP.pre`, `PP.pre`, …); the
invariants provide those facts in every reachable fault-free state.
-/

namespace M
open Consts

def Fault.isAssert : Fault → Bool
  | .panic _ | .debugAssert _ => true
  | _ => false

/-- the step raises no assertion and no panic -/
def AF (s s' : Shared) : Prop := s.fault = none → ∀ f, s'.fault = some f → f.isAssert = false

theorem AF.same {s s' : Shared} (h : s'.fault = s.fault) : AF s s' := by
  intro hf f hf'; rw [h, hf] at hf'; cases hf'

theorem AF.setFault (s : Shared) (f0 : Fault) (h : f0.isAssert = false) : AF s (s.setFault f0) := by
  intro hf f hf'
  rw [setFault_fault_of_none _ _ hf] at hf'; cases hf'; exact h

theorem AF.of_eq {s s' s'' : Shared} (h : AF s s') (e : s''.fault = s'.fault) : AF s s'' := by
  intro hf f hf'; rw [e] at hf'; exact h hf f hf'

theorem af_incObj (s : Shared) (a : Nat) : AF s (incObj s a).1 := by
  simp only [incObj]; split
  · exact AF.same rfl
  · exact AF.setFault s _ rfl

theorem af_decObj (s : Shared) (a : Nat) : AF s (decObj s a).1 := by
  simp only [decObj]; (repeat' split) <;> first | exact AF.setFault s _ rfl | exact AF.same rfl

theorem stepNG_af (s : Shared) (b : Bool) (ng : NG) (h : ∀ n, ng.chk = some n → (s.nodes n).inUse = nodeChecking) :
    AF s (stepNG s b ng).1 := by
  cases ng with
  | cc2 n idle =>
    have := h n rfl
    simp only [stepNG, this, ↓reduceIte]
    exact AF.same (by simp)
  | allocCas me hd =>
    simp only [stepNG]
    (repeat' split) <;> exact AF.same (by simp [Shared.setNode])
  | _ => simp only [stepNG] <;> (repeat' split) <;> exact AF.same (by simp)

theorem stepCD_af (s : Shared) (cd : CD) (h : ∀ n, cd = .swap n → (s.nodes n).inUse = nodeUsed) :
    AF s (stepCD s cd).1 := by
  cases cd with
  | swap n =>
    have := h n rfl
    simp only [stepCD, this, ↓reduceIte]
    exact AF.same (by simp)
  | _ => simp only [stepCD] <;> exact AF.same (by simp)

theorem stepGD_af (s : Shared) (gd : GD) : AF s (stepGD s gd).1 := by
  cases gd with
  | dec p => simp only [stepGD]; exact af_decObj s p
  | _ => simp only [stepGD] <;> (repeat' split) <;> exact AF.same (by simp)

theorem stepGI_af (s : Shared) (gi : GI) : AF s (stepGI s gi).1 := by
  cases gi with
  | inc p n i => simp only [stepGI]; exact af_incObj s p
  | dec p => simp only [stepGI]; exact af_decObj s p
  | _ => simp only [stepGI] <;> (repeat' split) <;> exact AF.same (by simp)

/-- what the assertions on the read path check -/
def LP.pre (s : Shared) (l : Locals) : LP → Prop
  | .get ng | .reget ng => ∀ n, ng.chk = some n → (s.nodes n).inUse = nodeChecking
  | .cool cd => ∀ n, cd = .swap n → (s.nodes n).inUse = nodeUsed
  | .nfDbg _ | .nhDbg | .chDbg _ _ => ∃ n, l.node = some n ∧ (s.nodes n).inUse = nodeUsed
  | .pswap _ i => (s.nodes (l.node.getD 0)).fast i = .none
  | .f2 _ => (s.nodes (l.node.getD 0)).control = .idle
  | .f4 _ _ => (s.nodes (l.node.getD 0)).hslot = .none
  | .f5 g _ => (s.nodes (l.node.getD 0)).control = .gen g ∨ ∃ j, (s.nodes (l.node.getD 0)).control = .env j
  | _ => True

theorem stepLP_af (cfg : Cfg) (c : Nat) (s : Shared) (l : Locals) (b : Bool) (lp : LP) (h : lp.pre s l) :
    AF s (stepLP cfg c s l b lp).1 := by
  cases lp with
  | get ng =>
    have h1 := stepNG_af s b ng h
    simp only [stepLP]; split
    · rename_i s' n evs heq; rw [heq] at h1; exact h1
    · rename_i s' ng' evs hne heq; rw [heq] at h1; exact h1
  | reget ng =>
    have h1 := stepNG_af s b ng h
    simp only [stepLP]; split
    · rename_i s' n evs heq; rw [heq] at h1; exact h1
    · rename_i s' ng' evs hne heq; rw [heq] at h1; exact h1
  | cool cd =>
    have h1 := stepCD_af s cd h
    simp only [stepLP]; split
    · rename_i s' evs heq; rw [heq] at h1; exact h1
    · rename_i s' cd' evs hne heq; rw [heq] at h1; exact h1
  | nfDbg p =>
    obtain ⟨n, hn, hu⟩ := h
    simp only [stepLP, hn, dbgInUse, hu, ↓reduceIte]; exact AF.same rfl
  | nhDbg =>
    obtain ⟨n, hn, hu⟩ := h
    simp only [stepLP, hn, dbgInUse, hu, ↓reduceIte]; exact AF.same rfl
  | chDbg g cand =>
    obtain ⟨n, hn, hu⟩ := h
    simp only [stepLP, hn, dbgInUse, hu, ↓reduceIte]; exact AF.same rfl
  | pswap p i =>
    have h' : (s.nodes (l.node.getD 0)).fast i = .none := h
    simp only [stepLP, h', ↓reduceIte]; exact AF.same (by simp)
  | f2 g =>
    have h' : (s.nodes (l.node.getD 0)).control = .idle := h
    simp only [stepLP, h', ↓reduceIte]; exact AF.same (by simp)
  | f4 g cand =>
    have h' : (s.nodes (l.node.getD 0)).hslot = .none := h
    simp only [stepLP, h', ↓reduceIte]; exact AF.same (by simp)
  | f5 g cand =>
    simp only [stepLP]
    rcases h with h' | ⟨j, h'⟩
    · simp only [h', ↓reduceIte]; first | (split <;> exact AF.same (by simp)) | exact AF.same (by simp)
    · rw [h']
      split
      · exact AF.same (by simp)
      · exact AF.same (by simp)
  | a1 => simp only [stepLP]; split <;> first | exact AF.setFault s _ rfl | exact AF.same (by simp)
  | a3 p i => simp only [stepLP]; (repeat' split) <;> first | exact AF.setFault s _ rfl | exact AF.same (by simp)
  | f3 g => simp only [stepLP]; split <;> first | exact AF.setFault s _ rfl | exact AF.same (by simp)
  | fr1 cand j => simp only [stepLP]; split <;> first | exact AF.setFault s _ rfl | exact AF.same (by simp)
  | a4dec p => simp only [stepLP]; exact af_decObj s p
  | fokInc p => simp only [stepLP]; exact af_incObj s p
  | fokDec p => simp only [stepLP]; exact af_decObj s p
  | frDec p r => simp only [stepLP]; exact af_decObj s p
  | _ => simp only [stepLP] <;> (repeat' split) <;> exact AF.same (by simp)


/-- what the assertions on the writer's walk check -/
def PP.pre (s : Shared) (l : Locals) : PP → Prop
  | .get ng => ∀ n, ng.chk = some n → (s.nodes n).inUse = nodeChecking
  | .hload _ ld => ld.pre s l
  | .res _ => l.node.isSome = true
  | .hDbg0 h => (s.nodes h.own).inUse = nodeUsed
  | .hDbg1 h => (s.nodes h.own).control = .idle
  | .h2 h => h.own ≠ h.who
  | _ => True

theorem stepPP_af (cfg : Cfg) (p c : Nat) (s : Shared) (l : Locals) (b : Bool) (pp : PP) (h : pp.pre s l) :
    AF s (stepPP cfg p c s l b pp).1 := by
  cases pp with
  | get ng =>
    have h1 := stepNG_af s b ng h
    simp only [stepPP]; split
    · rename_i s' n evs heq; rw [heq] at h1; exact h1
    · rename_i s' ng' evs hne heq; rw [heq] at h1; exact h1
  | hload x ld =>
    have h1 := stepLP_af cfg c s l b ld h
    simp only [stepPP]; split
    · rename_i s' l' r d evs heq; rw [heq] at h1; exact h1
    · rename_i s' l' ld' evs hne heq; rw [heq] at h1; exact h1
  | hinto x r gi =>
    have h1 := stepGI_af s gi
    simp only [stepPP]; split
    · rename_i s' evs heq; rw [heq] at h1; exact h1
    · rename_i s' gi' evs hne heq; rw [heq] at h1; exact h1
  | res n =>
    obtain ⟨own, hown⟩ := Option.isSome_iff_exists.mp h
    simp only [stepPP, hown]; exact AF.same (by simp)
  | hDbg0 x =>
    have h' : (s.nodes x.own).inUse = nodeUsed := h
    simp only [stepPP, dbgInUse, h', ↓reduceIte]; exact AF.same rfl
  | hDbg1 x =>
    have h' : (s.nodes x.own).control = .idle := h
    simp only [stepPP, h', ↓reduceIte]; exact AF.same rfl
  | h2 x =>
    have h' : x.own ≠ x.who := h
    simp only [stepPP, h', ↓reduceIte]; exact AF.same rfl
  | inc => simp only [stepPP]; exact af_incObj s p
  | slotInc n j => simp only [stepPP]; exact af_incObj s p
  | dec => simp only [stepPP]; exact af_decObj s p
  | hdrop x r => simp only [stepPP]; exact af_decObj s r
  | _ => simp only [stepPP] <;> (repeat' split) <;> exact AF.same (by simp)

def CP.pre (s : Shared) (l : Locals) : CP → Prop
  | .load ld => ld.pre s l
  | .pay _ pp => pp.pre s l
  | _ => True

theorem stepCP_af (cfg : Cfg) (c cur new : Nat) (s : Shared) (l : Locals) (b : Bool) (cp : CP) (h : cp.pre s l) :
    AF s (stepCP cfg c cur new s l b cp).1 := by
  cases cp with
  | load ld =>
    have h1 := stepLP_af cfg c s l b ld h
    simp only [stepCP]; split
    · rename_i s' l' r d evs heq; rw [heq] at h1; exact h1
    · rename_i s' l' ld' evs hne heq; rw [heq] at h1; exact h1
  | pay old pp =>
    have h1 := stepPP_af cfg old.ptr c s l b pp h
    simp only [stepCP]; split
    · rename_i s' l' evs heq; rw [heq] at h1; exact h1
    · rename_i s' l' pp' evs hne heq; rw [heq] at h1; exact h1
  | dropOld gd =>
    have h1 := stepGD_af s gd
    simp only [stepCP]; split
    · rename_i s' evs heq; rw [heq] at h1; exact h1
    · rename_i s' gd' evs hne heq; rw [heq] at h1; exact h1
  | dropNew old => simp only [stepCP]; exact af_decObj s new
  | decOld old => simp only [stepCP]; exact af_decObj s old.ptr
  | cx old =>
    simp only [stepCP]
    (repeat' split) <;> first | exact AF.setFault s _ rfl | exact AF.same (by simp [Shared.writeCell])
  | done old => simp only [stepCP]; exact AF.same rfl

def RP.pre (s : Shared) (l : Locals) : RP → Prop
  | .load ld => ld.pre s l
  | .cas _ _ cp => cp.pre s l
  | _ => True

theorem stepRP_af (cfg : Cfg) (c : Nat) (s : Shared) (l : Locals) (b : Bool) (tries : Nat) (rp : RP) (h : rp.pre s l) :
    AF s (stepRP cfg c s l b tries rp).1 := by
  cases rp with
  | load ld =>
    have h1 := stepLP_af cfg c s l b ld h
    simp only [stepRP]; split
    · rename_i s' l' r d evs heq; rw [heq] at h1; exact h1
    · rename_i s' l' ld' evs hne heq; rw [heq] at h1; exact h1
  | cas cur x cp =>
    have h1 := stepCP_af cfg c cur.ptr x s l b cp h
    simp only [stepRP]; split
    · rename_i s' l' prev evs heq; rw [heq] at h1; (repeat' split) <;> exact h1
    · rename_i s' l' cp' evs hne heq; rw [heq] at h1; exact h1
  | intoPrev cur prev gi =>
    have h1 := stepGI_af s gi
    simp only [stepRP]; split
    · rename_i s' evs heq; rw [heq] at h1; (repeat' split) <;> exact h1
    · rename_i s' gi' evs hne heq; rw [heq] at h1; exact h1
  | dropCur res gd =>
    have h1 := stepGD_af s gd
    simp only [stepRP]; split
    · rename_i s' evs heq; rw [heq] at h1; exact h1
    · rename_i s' gd' evs hne heq; rw [heq] at h1; exact h1
  | dropCurLoop prev gd =>
    have h1 := stepGD_af s gd
    simp only [stepRP]; split
    · rename_i s' evs heq; rw [heq] at h1; exact h1
    · rename_i s' gd' evs hne heq; rw [heq] at h1; exact h1
  | attempt cur =>
    simp only [stepRP]
    split
    · exact (AF.setFault s (.uaf "deref" cur.ptr) rfl).of_eq (by simp [alloc])
    · exact AF.same (by simp [alloc])
  | done r => simp only [stepRP]; exact AF.same rfl

def OpSt.pre (s : Shared) (l : Locals) : OpSt → Prop
  | .load _ _ ld | .loadFull _ _ ld => ld.pre s l
  | .swapPay _ _ _ _ pp | .cinto _ _ _ pp | .dropc _ _ pp => pp.pre s l
  | .cas _ _ _ _ _ _ cp => cp.pre s l
  | .rcu _ _ _ rp => rp.pre s l
  | .exitCool cd => ∀ n, cd = .swap n → (s.nodes n).inUse = nodeUsed
  | _ => True

theorem beginOp_af (st : State) (t : Nat) (o : Op) : AF st.sh (beginOp st t o).1.sh := by
  cases o with
  | gderef g =>
    simp only [beginOp]
    split
    · exact AF.same rfl
    · dsimp only; split
      · exact AF.setFault st.sh _ rfl
      · exact AF.same rfl
  | _ =>
    simp only [beginOp] <;> (repeat' split) <;>
      first
        | exact AF.same rfl
        | exact AF.same (by simp [alloc])
        | (dsimp only; (try split) <;> exact AF.same (by first | rfl | simp))

/-- **one step of a thread raises no assertion and no panic**, given the facts its assertions check -/
theorem microStep_af (st : State) (t : Nat) (b : Bool) (h : (st.th t).op.pre st.sh (st.th t).loc) :
    AF st.sh (microStep st t b).1.sh := by
  cases hop : (st.th t).op with
  | finished => simp only [microStep, hop]; exact AF.same rfl
  | idle =>
    simp only [microStep, hop]
    split
    · exact AF.same rfl
    · rename_i txt o rest hp
      exact beginOp_af { st with th := upd st.th t { prog := rest, op := .idle, loc := (st.th t).loc } } t o
  | exitCool cd =>
    rw [hop] at h
    have h1 := stepCD_af st.sh cd h
    simp only [microStep, hop]; split
    · rename_i s' evs heq; rw [heq] at h1; exact h1
    · rename_i s' cd' evs hne heq; rw [heq] at h1; exact h1
  | load c g ld =>
    rw [hop] at h
    have h1 := stepLP_af st.cfg c st.sh (st.th t).loc b ld h
    simp only [microStep, hop]; split
    · rename_i s' l' p d evs heq; rw [heq] at h1; exact h1
    · rename_i s' l' ld' evs hne heq; rw [heq] at h1; exact h1
  | loadFull c x ld =>
    rw [hop] at h
    have h1 := stepLP_af st.cfg c st.sh (st.th t).loc b ld h
    simp only [microStep, hop]; split
    · rename_i s' l' p d evs heq; rw [heq] at h1; split <;> exact h1
    · rename_i s' l' ld' evs hne heq; rw [heq] at h1; exact h1
  | loadFullInto c x r gi =>
    have h1 := stepGI_af st.sh gi
    simp only [microStep, hop]; split
    · rename_i s' evs heq; rw [heq] at h1; exact h1
    · rename_i s' gi' evs hne heq; rw [heq] at h1; exact h1
  | ginto x p gi =>
    have h1 := stepGI_af st.sh gi
    simp only [microStep, hop]; split
    · rename_i s' evs heq; rw [heq] at h1; exact h1
    · rename_i s' gi' evs hne heq; rw [heq] at h1; exact h1
  | dropg gd =>
    have h1 := stepGD_af st.sh gd
    simp only [microStep, hop]; split
    · rename_i s' evs heq; rw [heq] at h1; exact h1
    · rename_i s' gd' evs hne heq; rw [heq] at h1; exact h1
  | cloneh x y a0 => simp only [microStep, hop]; exact af_incObj st.sh a0
  | droph a0 => simp only [microStep, hop]; exact af_decObj st.sh a0
  | swapDrop c a0 => simp only [microStep, hop]; exact af_decObj st.sh a0
  | dropcDec c a0 => simp only [microStep, hop]; exact af_decObj st.sh a0
  | swapSw c a0 out isStore =>
    simp only [microStep, hop]; split
    · exact AF.same (by simp [Shared.writeCell])
    · exact AF.same rfl
  | swapPay c out old isStore pp =>
    rw [hop] at h
    have h1 := stepPP_af st.cfg old c st.sh (st.th t).loc b pp h
    simp only [microStep, hop]; split
    · rename_i s' l' evs heq; rw [heq] at h1; (repeat' split) <;> exact h1
    · rename_i s' l' pp' evs hne heq; rw [heq] at h1; exact h1
  | cinto c x p pp =>
    rw [hop] at h
    have h1 := stepPP_af st.cfg p c st.sh (st.th t).loc b pp h
    simp only [microStep, hop]; split
    · rename_i s' l' evs heq; rw [heq] at h1; exact h1
    · rename_i s' l' pp' evs hne heq; rw [heq] at h1; exact h1
  | dropc c p pp =>
    rw [hop] at h
    have h1 := stepPP_af st.cfg p c st.sh (st.th t).loc b pp h
    simp only [microStep, hop]; split
    · rename_i s' l' evs heq; rw [heq] at h1; split <;> exact h1
    · rename_i s' l' pp' evs hne heq; rw [heq] at h1; exact h1
  | cas c cur keep curPtr new g cp =>
    rw [hop] at h
    have h1 := stepCP_af st.cfg c curPtr new st.sh (st.th t).loc b cp h
    simp only [microStep, hop]; split
    · rename_i s' l' old evs heq; rw [heq] at h1; cases cur <;> cases keep <;> exact h1
    · rename_i s' l' cp' evs hne heq; rw [heq] at h1; exact h1
  | rcu c out tries rp =>
    rw [hop] at h
    have h1 := stepRP_af st.cfg c st.sh (st.th t).loc b tries rp h
    simp only [microStep, hop]; split
    · rename_i s' l' r tries' evs heq; rw [heq] at h1; exact h1
    · rename_i s' l' rp' tries' evs hne heq; rw [heq] at h1; exact h1

end M
