import ArcSwapModel.Inv.Touch3

/-!
# `touch` is exhaustive: a step that is not a touching step changes no object, except by allocation
-/

namespace M
open Consts

theorem stepLP_heap (cfg : Cfg) (c : Nat) (s : Shared) (l : Locals) (b : Bool) (lp : LP) (h : lp.touch = none) :
    (stepLP cfg c s l b lp).1.heap = s.heap := by
  cases lp with
  | get ng => have := (stepNG_frame s b ng).2.2; simp only [stepLP]; split <;> simp_all
  | reget ng => have := (stepNG_frame s b ng).2.2; simp only [stepLP]; split <;> simp_all
  | cool cd => have := (stepCD_frame s cd).2.2; simp only [stepLP]; split <;> simp_all
  | a4dec p => cases h
  | fokInc p => cases h
  | fokDec p => cases h
  | frDec p r => cases h
  | _ => simp only [stepLP] <;> (repeat' split) <;> simp [dbgInUse] <;> (repeat' split) <;> simp

theorem stepGD_heap (s : Shared) (gd : GD) (h : gd.touch = none) : (stepGD s gd).1.heap = s.heap := by
  cases gd with
  | dec p => cases h
  | _ => simp only [stepGD] <;> (repeat' split) <;> simp

theorem stepGI_heap (s : Shared) (gi : GI) (h : gi.touch = none) : (stepGI s gi).1.heap = s.heap := by
  cases gi with
  | inc p n i => cases h
  | dec p => cases h
  | _ => simp only [stepGI] <;> (repeat' split) <;> simp

theorem stepPP_heap (cfg : Cfg) (p c : Nat) (s : Shared) (l : Locals) (b : Bool) (pp : PP) (h : pp.touch p = none) :
    (stepPP cfg p c s l b pp).1.heap = s.heap := by
  cases pp with
  | get ng => have := (stepNG_frame s b ng).2.2; simp only [stepPP]; split <;> simp_all
  | hload x ld => have := stepLP_heap cfg c s l b ld h; simp only [stepPP]; split <;> simp_all
  | hinto x r gi => have := stepGI_heap s gi h; simp only [stepPP]; split <;> simp_all
  | inc => cases h
  | slotInc n j => cases h
  | dec => cases h
  | hdrop x r => cases h
  | _ => simp only [stepPP] <;> (repeat' split) <;> simp [dbgInUse] <;> (repeat' split) <;> simp

theorem stepCP_heap (cfg : Cfg) (c cur new : Nat) (s : Shared) (l : Locals) (b : Bool) (cp : CP) (h : cp.touch new = none) :
    (stepCP cfg c cur new s l b cp).1.heap = s.heap := by
  cases cp with
  | load ld => have := stepLP_heap cfg c s l b ld h; simp only [stepCP]; split <;> simp_all
  | pay old pp => have := stepPP_heap cfg old.ptr c s l b pp h; simp only [stepCP]; split <;> simp_all
  | dropOld gd => have := stepGD_heap s gd h; simp only [stepCP]; split <;> simp_all
  | dropNew old => cases h
  | decOld old => cases h
  | _ => simp only [stepCP] <;> (repeat' split) <;> simp [Shared.writeCell]

/-- `rcu`'s evaluation of the closure allocates its result -/
theorem stepRP_heap (cfg : Cfg) (c : Nat) (s : Shared) (l : Locals) (b : Bool) (tries : Nat) (rp : RP) (h : rp.touch = none)
    (a : Nat) : (stepRP cfg c s l b tries rp).1.heap a = s.heap a ∨ ∃ v, a = (alloc s v).2.1 := by
  cases rp with
  | load ld => left; have := stepLP_heap cfg c s l b ld h; simp only [stepRP]; split <;> simp_all
  | cas cur x cp =>
    left
    have := stepCP_heap cfg c cur.ptr x s l b cp h
    simp only [stepRP]; split
    · rename_i s' l' prev evs heq; rw [heq] at this; dsimp only at this; (repeat' split) <;> rw [this]
    · rename_i s' l' cp' evs hne heq; rw [heq] at this; dsimp only at this ⊢; rw [this]
  | intoPrev cur prev gi =>
    left
    have := stepGI_heap s gi h
    simp only [stepRP]; split
    · rename_i s' evs heq; rw [heq] at this; dsimp only at this; (repeat' split) <;> rw [this]
    · rename_i s' gi' evs hne heq; rw [heq] at this; dsimp only at this ⊢; rw [this]
  | dropCur res gd => left; have := stepGD_heap s gd h; simp only [stepRP]; split <;> simp_all
  | dropCurLoop prev gd => left; have := stepGD_heap s gd h; simp only [stepRP]; split <;> simp_all
  | attempt cur =>
    simp only [stepRP]
    by_cases e : a = lowestFree s.heap 4096
    · right; exact ⟨0, by simp [alloc, e]⟩
    · left; split <;> simp [alloc, upd, e]
  | done r => left; simp only [stepRP]

theorem beginOp_heap (st : State) (t : Nat) (o : Op) (a : Nat) :
    (beginOp st t o).1.sh.heap a = st.sh.heap a ∨ ∃ v, a = (alloc st.sh v).2.1 := by
  cases o with
  | new x val =>
    simp only [beginOp]
    split
    · left; rfl
    · by_cases e : a = lowestFree st.sh.heap 4096
      · right; exact ⟨0, by simp [alloc, e]⟩
      · left; simp [alloc, upd, e]
  | _ =>
    left
    simp only [beginOp] <;> (repeat' split) <;> first | rfl | (dsimp only; (try split) <;> first | rfl | simp)

/-- **`touch` is exhaustive**: a step of an operation that is not at a count operation leaves every
    object as it is — its count, its liveness — except the address the allocator hands out (a new
    value; `new`, and `rcu`'s closure) -/
theorem microStep_heap_of_no_touch (st : State) (t : Nat) (b : Bool) (h : (st.th t).op.touch = none) (a : Nat) :
    (microStep st t b).1.sh.heap a = st.sh.heap a ∨ ∃ v, a = (alloc st.sh v).2.1 := by
  cases hop : (st.th t).op with
  | finished => left; simp only [microStep, hop]
  | idle =>
    simp only [microStep, hop]
    split
    · left; rfl
    · rename_i txt o rest hp
      exact beginOp_heap { st with th := upd st.th t { prog := rest, op := .idle, loc := (st.th t).loc } } t o a
  | exitCool cd =>
    left
    have h3 := (stepCD_frame st.sh cd).2.2
    simp only [microStep, hop]; split
    · rename_i s' evs heq; rw [heq] at h3; dsimp only at h3 ⊢; rw [h3]
    · rename_i s' cd' evs hne heq; rw [heq] at h3; dsimp only at h3 ⊢; rw [h3]
  | load c g ld =>
    left
    rw [hop] at h
    have h3 := stepLP_heap st.cfg c st.sh (st.th t).loc b ld h
    simp only [microStep, hop]; split
    · rename_i s' l' p d evs heq; rw [heq] at h3; dsimp only at h3 ⊢; rw [h3]
    · rename_i s' l' ld' evs hne heq; rw [heq] at h3; dsimp only at h3 ⊢; rw [h3]
  | loadFull c x ld =>
    left
    rw [hop] at h
    have h3 := stepLP_heap st.cfg c st.sh (st.th t).loc b ld h
    simp only [microStep, hop]; split
    · rename_i s' l' p d evs heq; rw [heq] at h3; dsimp only at h3 ⊢; split <;> (dsimp only; rw [h3])
    · rename_i s' l' ld' evs hne heq; rw [heq] at h3; dsimp only at h3 ⊢; rw [h3]
  | loadFullInto c x r gi =>
    left
    rw [hop] at h
    have h3 := stepGI_heap st.sh gi h
    simp only [microStep, hop]; split
    · rename_i s' evs heq; rw [heq] at h3; dsimp only at h3 ⊢; rw [h3]
    · rename_i s' gi' evs hne heq; rw [heq] at h3; dsimp only at h3 ⊢; rw [h3]
  | ginto x p gi =>
    left
    rw [hop] at h
    have h3 := stepGI_heap st.sh gi h
    simp only [microStep, hop]; split
    · rename_i s' evs heq; rw [heq] at h3; dsimp only at h3 ⊢; rw [h3]
    · rename_i s' gi' evs hne heq; rw [heq] at h3; dsimp only at h3 ⊢; rw [h3]
  | dropg gd =>
    left
    rw [hop] at h
    have h3 := stepGD_heap st.sh gd h
    simp only [microStep, hop]; split
    · rename_i s' evs heq; rw [heq] at h3; dsimp only at h3 ⊢; rw [h3]
    · rename_i s' gd' evs hne heq; rw [heq] at h3; dsimp only at h3 ⊢; rw [h3]
  | cloneh x y a0 => rw [hop] at h; cases h
  | droph a0 => rw [hop] at h; cases h
  | swapDrop c a0 => rw [hop] at h; cases h
  | dropcDec c a0 => rw [hop] at h; cases h
  | swapSw c a0 out isStore =>
    left
    simp only [microStep, hop]; split
    · simp [Shared.writeCell]
    · rfl
  | swapPay c out old isStore pp =>
    left
    rw [hop] at h
    have h3 := stepPP_heap st.cfg old c st.sh (st.th t).loc b pp h
    simp only [microStep, hop]; split
    · rename_i s' l' evs heq; rw [heq] at h3; dsimp only at h3 ⊢; (repeat' split) <;> (dsimp only; rw [h3])
    · rename_i s' l' pp' evs hne heq; rw [heq] at h3; dsimp only at h3 ⊢; rw [h3]
  | cinto c x p pp =>
    left
    rw [hop] at h
    have h3 := stepPP_heap st.cfg p c st.sh (st.th t).loc b pp h
    simp only [microStep, hop]; split
    · rename_i s' l' evs heq; rw [heq] at h3; dsimp only at h3 ⊢; rw [h3]
    · rename_i s' l' pp' evs hne heq; rw [heq] at h3; dsimp only at h3 ⊢; rw [h3]
  | dropc c p pp =>
    left
    rw [hop] at h
    have h3 := stepPP_heap st.cfg p c st.sh (st.th t).loc b pp h
    simp only [microStep, hop]; split
    · rename_i s' l' evs heq; rw [heq] at h3; dsimp only at h3 ⊢; split <;> (dsimp only; rw [h3])
    · rename_i s' l' pp' evs hne heq; rw [heq] at h3; dsimp only at h3 ⊢; rw [h3]
  | cas c cur keep curPtr new g cp =>
    left
    rw [hop] at h
    have h3 := stepCP_heap st.cfg c curPtr new st.sh (st.th t).loc b cp h
    simp only [microStep, hop]; split
    · rename_i s' l' old evs heq; rw [heq] at h3; dsimp only at h3 ⊢; cases cur <;> cases keep <;> (dsimp only; rw [h3])
    · rename_i s' l' cp' evs hne heq; rw [heq] at h3; dsimp only at h3 ⊢; rw [h3]
  | rcu c out tries rp =>
    rw [hop] at h
    have h3 := stepRP_heap st.cfg c st.sh (st.th t).loc b tries rp h a
    simp only [microStep, hop]; split
    · rename_i s' l' r tries' evs heq; rw [heq] at h3; exact h3
    · rename_i s' l' rp' tries' evs hne heq; rw [heq] at h3; exact h3

end M
