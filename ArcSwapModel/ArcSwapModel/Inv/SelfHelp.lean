import ArcSwapModel.Inv.Solo2
import ArcSwapModel.Inv.RcuVal2

/-!
# A writer never helps itself

`Slots::help` asserts, in the branch that helps a reader, that the node being helped is not the
helper's own ("Refusing to help myself").  A writer that comes past its own node on its walk finds
its own control word idle (it is not inside a load: `control_idle_outside`), so it never enters
that branch there.
-/

namespace M
open Consts

/-- the help call has just begun: nothing but the look at the control word has happened -/
def PP.helpEntry : PP → Option HL
  | .hDbg0 h | .hDbg1 h | .h1 h => some h
  | _ => none

/-- the help call is in (or past) the helping branch -/
def PP.helpDeep : PP → Option HL
  | .h2 h | .h3 h | .hres h | .hload h _ | .hinto h _ _ | .h4 h _ | .h5 h _ _ | .h6 h _ _ _ | .h7 h _ _ _
  | .h8 h _ | .hdrop h _ => some h
  | _ => none

theorem PP.dispatch_deep (h h' : HL) (hd : (PP.dispatch h).helpDeep = some h') :
    h' = h ∧ ∃ g, h.ctl = .gen g := by
  simp only [PP.dispatch] at hd
  split at hd
  · rename_i g hg; simp only [PP.helpDeep, Option.some.injEq] at hd; exact ⟨hd.symm, g, hg⟩
  · cases hd

/-- where a deep help state comes from: a deep state of the same call (same helper node, same
    helped node), or the look at the control word that found a generation -/
theorem stepPP_deep (cfg : Cfg) (p c : Nat) (s : Shared) (l : Locals) (b : Bool) (pp : PP) (h' : HL)
    (hd : (stepPP cfg p c s l b pp).2.2.1.helpDeep = some h') :
    (∃ h, pp.helpDeep = some h ∧ h'.own = h.own ∧ h'.who = h.who) ∨
      (∃ h g, pp = .h1 h ∧ h'.own = h.own ∧ h'.who = h.who ∧ (s.nodes h.who).control = .gen g) := by
  cases pp with
  | h1 h =>
    right
    simp only [stepPP] at hd
    obtain ⟨e, g, hg⟩ := PP.dispatch_deep _ _ hd
    exact ⟨h, g, rfl, by rw [e], by rw [e], hg⟩
  | h2 h =>
    left
    simp only [stepPP] at hd
    refine ⟨h, rfl, ?_⟩
    (repeat' split at hd) <;> (simp only [PP.helpDeep, Option.some.injEq] at hd; subst hd; exact ⟨rfl, rfl⟩)
  | h3 h =>
    left
    simp only [stepPP] at hd
    refine ⟨h, rfl, ?_⟩
    split at hd
    · cases hd
    · obtain ⟨e, _⟩ := PP.dispatch_deep _ _ hd; subst e; exact ⟨rfl, rfl⟩
  | hres h =>
    left
    simp only [stepPP, PP.helpDeep, Option.some.injEq] at hd
    exact ⟨h, rfl, by subst hd; exact ⟨rfl, rfl⟩⟩
  | hload h ld =>
    left
    simp only [stepPP] at hd
    refine ⟨h, rfl, ?_⟩
    (repeat' split at hd) <;> (simp only [PP.helpDeep, Option.some.injEq] at hd; subst hd; exact ⟨rfl, rfl⟩)
  | hinto h r gi =>
    left
    simp only [stepPP] at hd
    refine ⟨h, rfl, ?_⟩
    (repeat' split at hd) <;> (simp only [PP.helpDeep, Option.some.injEq] at hd; subst hd; exact ⟨rfl, rfl⟩)
  | h4 h r => left; simp only [stepPP, PP.helpDeep, Option.some.injEq] at hd; exact ⟨h, rfl, by subst hd; exact ⟨rfl, rfl⟩⟩
  | h5 h r x => left; simp only [stepPP, PP.helpDeep, Option.some.injEq] at hd; exact ⟨h, rfl, by subst hd; exact ⟨rfl, rfl⟩⟩
  | h6 h r x m => left; simp only [stepPP, PP.helpDeep, Option.some.injEq] at hd; exact ⟨h, rfl, by subst hd; exact ⟨rfl, rfl⟩⟩
  | h7 h r x m =>
    left
    simp only [stepPP] at hd
    refine ⟨h, rfl, ?_⟩
    split at hd
    · simp only [PP.helpDeep, Option.some.injEq] at hd; subst hd; exact ⟨rfl, rfl⟩
    · split at hd
      · obtain ⟨e, _⟩ := PP.dispatch_deep _ _ hd; subst e; exact ⟨rfl, rfl⟩
      · simp only [PP.helpDeep, Option.some.injEq] at hd; subst hd; exact ⟨rfl, rfl⟩
  | h8 h x => simp only [stepPP, PP.helpDeep] at hd; cases hd
  | hdrop h r =>
    left
    simp only [stepPP] at hd
    obtain ⟨e, _⟩ := PP.dispatch_deep _ _ hd
    exact ⟨h, rfl, by subst e; exact ⟨rfl, rfl⟩⟩
  | start => simp only [stepPP] at hd; (repeat' split at hd) <;> cases hd
  | get ng => simp only [stepPP] at hd; (repeat' split at hd) <;> cases hd
  | inc => simp only [stepPP] at hd; cases hd
  | trav => simp only [stepPP] at hd; (repeat' split at hd) <;> cases hd
  | res n => simp only [stepPP] at hd; (repeat' split at hd) <;> cases hd
  | hDbg0 h => simp only [stepPP] at hd; cases hd
  | hDbg1 h => simp only [stepPP] at hd; cases hd
  | hend h => simp only [stepPP] at hd; (repeat' split at hd) <;> cases hd
  | hrel h => simp only [stepPP] at hd; cases hd
  | slot n j =>
    simp only [stepPP, PP.nextSlot] at hd
    (repeat' split at hd) <;> cases hd
  | slotInc n j => simp only [stepPP, PP.nextSlot] at hd; (repeat' split at hd) <;> cases hd
  | rel n => simp only [stepPP] at hd; (repeat' split at hd) <;> cases hd
  | fin => simp only [stepPP] at hd; (repeat' split at hd) <;> cases hd
  | dec => simp only [stepPP] at hd; cases hd
  | done => simp only [stepPP] at hd; cases hd

/-- where an entry state comes from: the reservation of the node (the helper's node is the
    thread's node), or the entry state before (locals unchanged) -/
theorem stepPP_entry (cfg : Cfg) (p c : Nat) (s : Shared) (l : Locals) (b : Bool) (pp : PP) (h' : HL)
    (hd : (stepPP cfg p c s l b pp).2.2.1.helpEntry = some h') :
    (stepPP cfg p c s l b pp).2.1 = l ∧
      ((∃ n, pp = .res n ∧ l.node = some h'.own) ∨ pp.helpEntry = some h') := by
  cases pp with
  | res n =>
    simp only [stepPP] at hd ⊢
    cases hl : l.node with
    | none => rw [hl] at hd; cases hd
    | some own =>
      rw [hl] at hd
      simp only [PP.helpEntry, Option.some.injEq] at hd
      exact ⟨rfl, Or.inl ⟨n, rfl, by subst hd; rfl⟩⟩
  | hDbg0 h => simp only [stepPP, PP.helpEntry, Option.some.injEq] at hd ⊢; exact ⟨trivial, Or.inr hd⟩
  | hDbg1 h => simp only [stepPP, PP.helpEntry, Option.some.injEq] at hd ⊢; exact ⟨trivial, Or.inr hd⟩
  | h1 h =>
    exfalso
    simp only [stepPP, PP.dispatch] at hd
    split at hd <;> cases hd
  | h3 h => exfalso; simp only [stepPP, PP.dispatch] at hd; (repeat' split at hd) <;> cases hd
  | h7 h r x m => exfalso; simp only [stepPP, PP.dispatch] at hd; (repeat' split at hd) <;> cases hd
  | hdrop h r => exfalso; simp only [stepPP, PP.dispatch] at hd; (repeat' split at hd) <;> cases hd
  | slot n j => exfalso; simp only [stepPP, PP.nextSlot] at hd; (repeat' split at hd) <;> cases hd
  | slotInc n j => exfalso; simp only [stepPP, PP.nextSlot] at hd; (repeat' split at hd) <;> cases hd
  | _ => exfalso; simp only [stepPP] at hd; (repeat' split at hd) <;> cases hd

end M

namespace M
open Consts

/-- at the entry of a help call the helper's node is the thread's node; past the look at the
    control word that found a generation, the helped node is not the helper's own -/
structure SelfInv (st : State) : Prop where
  entry : ∀ t a pp h, (st.th t).op.walkC? = some (a, pp) → pp.helpEntry = some h → (st.th t).loc.node = some h.own
  deep : ∀ t a pp h, (st.th t).op.walkC? = some (a, pp) → pp.helpDeep = some h → h.own ≠ h.who

theorem SelfInv.initial (cfg : Cfg) (progs : Nat → List (String × Op)) : SelfInv (State.initial cfg progs) :=
  ⟨(fun t a pp h hw => by cases hw), (fun t a pp h hw => by cases hw)⟩

/-- a walking thread is not inside a load of its own unless it is at `hload` -/
theorem walkC_win_none {op : OpSt} {a : Nat} {pp : PP} (h : op.walkC? = some (a, pp)) (hlp : pp.lp? = none) :
    op.win = none := by
  rw [OpSt.win_lp]
  have : op.lp? = none := by
    cases op with
    | swapPay c out old isStore pp0 =>
      simp only [OpSt.walkC?, OpSt.walk?, Option.some.injEq, Prod.mk.injEq] at h; obtain ⟨_, rfl⟩ := h; exact hlp
    | cinto c x p pp0 =>
      simp only [OpSt.walkC?, Option.some.injEq, Prod.mk.injEq] at h; obtain ⟨_, rfl⟩ := h; exact hlp
    | dropc c p pp0 =>
      simp only [OpSt.walkC?, Option.some.injEq, Prod.mk.injEq] at h; obtain ⟨_, rfl⟩ := h; exact hlp
    | cas c cur keep curPtr new g cp =>
      cases cp with
      | pay old pp0 =>
        simp only [OpSt.walkC?, OpSt.walk?, CP.walk?, Option.some.injEq, Prod.mk.injEq] at h; obtain ⟨_, rfl⟩ := h; exact hlp
      | _ => simp [OpSt.walkC?, OpSt.walk?, CP.walk?] at h
    | rcu c out tries rp =>
      cases rp with
      | cas cur x cp =>
        cases cp with
        | pay old pp0 =>
          simp only [OpSt.walkC?, OpSt.walk?, RP.walk?, CP.walk?, Option.some.injEq, Prod.mk.injEq] at h
          obtain ⟨_, rfl⟩ := h; exact hlp
        | _ => simp [OpSt.walkC?, OpSt.walk?, RP.walk?, CP.walk?] at h
      | _ => simp [OpSt.walkC?, OpSt.walk?, RP.walk?] at h
    | _ => simp [OpSt.walkC?, OpSt.walk?] at h
  rw [this]; rfl

/-- a walking thread past the start of its walk owns the node in its locals -/
theorem walkC_owns {th : Thread} {a : Nat} {pp : PP} (h : th.op.walkC? = some (a, pp))
    (hg : ∀ ng, pp ≠ .get ng) (hlp : pp.lp? = none) : ownsT th = th.loc.node := by
  have hpp : ownsPP th.loc pp = th.loc.node := by
    cases pp with
    | get ng => exact absurd rfl (hg ng)
    | hload x ld => cases hlp
    | _ => rfl
  unfold ownsT
  cases hop : th.op with
  | swapPay c out old isStore pp0 =>
    rw [hop] at h
    simp only [OpSt.walkC?, OpSt.walk?, Option.some.injEq, Prod.mk.injEq] at h; obtain ⟨_, rfl⟩ := h; exact hpp
  | cinto c x p pp0 =>
    rw [hop] at h; simp only [OpSt.walkC?, Option.some.injEq, Prod.mk.injEq] at h; obtain ⟨_, rfl⟩ := h; exact hpp
  | dropc c p pp0 =>
    rw [hop] at h; simp only [OpSt.walkC?, Option.some.injEq, Prod.mk.injEq] at h; obtain ⟨_, rfl⟩ := h; exact hpp
  | cas c cur keep curPtr new g cp =>
    rw [hop] at h
    cases cp with
    | pay old pp0 =>
      simp only [OpSt.walkC?, OpSt.walk?, CP.walk?, Option.some.injEq, Prod.mk.injEq] at h; obtain ⟨_, rfl⟩ := h; exact hpp
    | _ => simp [OpSt.walkC?, OpSt.walk?, CP.walk?] at h
  | rcu c out tries rp =>
    rw [hop] at h
    cases rp with
    | cas cur x cp =>
      cases cp with
      | pay old pp0 =>
        simp only [OpSt.walkC?, OpSt.walk?, RP.walk?, CP.walk?, Option.some.injEq, Prod.mk.injEq] at h
        obtain ⟨_, rfl⟩ := h; exact hpp
      | _ => simp [OpSt.walkC?, OpSt.walk?, RP.walk?, CP.walk?] at h
    | _ => simp [OpSt.walkC?, OpSt.walk?, RP.walk?] at h
  | _ => simp [hop, OpSt.walkC?, OpSt.walk?] at h

theorem SelfInv.step {st : State} (h : SelfInv st) (hc : CtlInv st) (ho : OwnInv st) (t : Nat) (b : Bool) :
    SelfInv (microStep st t b).1 := by
  have hoth := (microStep_own st t b).2
  refine ⟨fun u a pp' h' hw he => ?_, fun u a pp' h' hw hd => ?_⟩
  · by_cases e : u = t
    · subst e
      rcases microStep_walkC st u b a pp' hw with ⟨pp, c, h1, h2, h5⟩ | h1
      · rw [h2] at he
        obtain ⟨hl, hor⟩ := stepPP_entry st.cfg a c st.sh (st.th u).loc b pp h' he
        rw [h5, hl]
        rcases hor with ⟨n, _, hn⟩ | hprev
        · exact hn
        · exact h.entry u a pp h' h1 hprev
      · subst h1; cases he
    · rw [hoth u e] at hw ⊢; exact h.entry u a pp' h' hw he
  · by_cases e : u = t
    · subst e
      rcases microStep_walkC st u b a pp' hw with ⟨pp, c, h1, h2, _⟩ | h1
      · rw [h2] at hd
        rcases stepPP_deep st.cfg a c st.sh (st.th u).loc b pp h' hd with ⟨h0, hp, e1, e2⟩ | ⟨h0, g, hp, e1, e2, hg⟩
        · rw [e1, e2]; exact h.deep u a pp h0 h1 hp
        · -- the look at the control word found a generation: not the walker's own node
          subst hp
          rw [e1, e2]
          intro heq
          have hnode := h.entry u a (.h1 h0) h0 h1 rfl
          have hown : ownsT (st.th u) = some h0.own := by
            rw [walkC_owns h1 (fun ng => by simp) rfl]; exact hnode
          have hidle := control_idle_outside hc ho u h0.own hown (walkC_win_none h1 rfl)
          rw [← heq, hidle] at hg; cases hg
      · subst h1; cases hd
    · rw [hoth u e] at hw; exact h.deep u a pp' h' hw hd

/-- in every reachable fault-free state -/
theorem SelfInv.reachable {st : State} (h : Reachable st) (hf : st.sh.fault = none) : SelfInv st := by
  obtain ⟨cfg, progs, sched, rfl⟩ := h
  -- by induction over the execution, with the control-word invariant of every prefix
  revert hf
  refine list_snoc_induction (fun sched => (run (State.initial cfg progs) sched).sh.fault = none →
    SelfInv (run (State.initial cfg progs) sched)) ?_ ?_ sched
  · intro _; exact SelfInv.initial cfg progs
  · intro pre x ih hf
    obtain ⟨t, b⟩ := x
    have hrun : run (State.initial cfg progs) (pre ++ [(t, b)]) = (microStep (run (State.initial cfg progs) pre) t b).1 := by
      rw [run_append]; rfl
    rw [hrun] at hf ⊢
    have hfpre := microStep_fault_mono _ t b hf
    exact (ih hfpre).step (CtlInv.reachable ⟨cfg, progs, pre, rfl⟩ hfpre) (OwnInv.reachable ⟨cfg, progs, pre, rfl⟩) t b

/-- **"Refusing to help myself" never fires**: in every reachable fault-free state, a writer in the
    helping branch of `Slots::help` is helping a node that is not its own — so the step that checks
    it raises no fault -/
theorem help_not_self {st : State} (h : Reachable st) (hf : st.sh.fault = none) (t a : Nat) (hh : HL)
    (hw : (st.th t).op.walkC? = some (a, .h2 hh)) : hh.own ≠ hh.who :=
  (SelfInv.reachable h hf).deep t a (.h2 hh) hh hw rfl

end M
