import ArcSwapModel.Inv.Busy

/-!
# What a step does to the operation in progress, to `ctaken` and to the cells
-/

namespace M
open Consts

/-- the next operation of thread `t`, if it is about to begin one, uses registers and cells below
    `N` and creates a container on a fresh cell only -/
def Tame2 (N : Nat) (st : State) (t : Nat) : Prop :=
  (st.th t).op = .idle → ∀ txt o rest, (st.th t).prog = (txt, o) :: rest →
    o.below N ∧ ∀ c h, o = .mk c h → st.sh.cells c = none

theorem contOk_of {st : State} {c : Nat} (h : ¬ (!((st.sh.cells c).isSome && !st.ctaken c)) = true) :
    st.sh.cells c ≠ none ∧ st.ctaken c = false := by
  cases hc : st.sh.cells c <;> cases ht : st.ctaken c <;> simp [hc, ht] at h ⊢

theorem consOk_of {st : State} {c : Nat} (h : ¬ (!((st.sh.cells c).isSome && !st.ctaken c) || decide (st.sh.busy c ≠ 0)) = true) :
    (∃ p, st.sh.cells c = some p) ∧ st.ctaken c = false ∧ st.sh.busy c = 0 := by
  cases hc : st.sh.cells c <;> cases ht : st.ctaken c <;> simp [hc, ht] at h ⊢ <;> exact h

theorem beginOp_cell2 (st : State) (t : Nat) (o : Op) (c : Nat)
    (h : ((beginOp st t o).1.th t).op.cell? = some c) :
    st.sh.cells c ≠ none ∧ st.ctaken c = false ∧ (beginOp st t o).1.sh.cells = st.sh.cells ∧
      (((beginOp st t o).1.th t).op.cons = false → (beginOp st t o).1.ctaken = st.ctaken) ∧
      (((beginOp st t o).1.th t).op.cons = true → st.sh.busy c = 0 ∧ (beginOp st t o).1.ctaken = upd st.ctaken c true ∧
        ∃ p, st.sh.cells c = some p ∧
          ((∃ x, ((beginOp st t o).1.th t).op = .cinto c x p .start) ∨ ((beginOp st t o).1.th t).op = .dropc c p .start)) := by
  generalize hr : beginOp st t o = r at h ⊢
  cases o <;> simp only [beginOp] at hr <;> (repeat' split at hr) <;> subst hr <;>
    first
      | (simp [OpSt.cell?] at h; done)
      | (simp only [upd_same, OpSt.cell?, Option.some.injEq] at h; subst h
         have := contOk_of (by assumption)
         exact ⟨this.1, this.2, rfl, fun _ => rfl, fun hc => by simp [OpSt.cons] at hc⟩)
      | (simp only [upd_same, OpSt.cell?, Option.some.injEq] at h; subst h
         obtain ⟨⟨p, hp⟩, h4, h5⟩ := consOk_of (by assumption)
         refine ⟨by rw [hp]; simp, h4, rfl, fun hc => by simp [OpSt.cons] at hc, fun _ => ⟨h5, rfl, p, hp, ?_⟩⟩
         simp [hp])
      | (revert h; dsimp only; (try split) <;> simp [OpSt.cell?]; done)

theorem beginOp_ctaken (st : State) (t : Nat) (o : Op) :
    (beginOp st t o).1.ctaken = st.ctaken ∨
      ∃ c, ((beginOp st t o).1.th t).op.cell? = some c ∧ ((beginOp st t o).1.th t).op.cons = true := by
  cases o with
  | cinto c0 x =>
    simp only [beginOp]
    (repeat' split) <;> first | (left; rfl) | (right; exact ⟨c0, by simp [OpSt.cell?], by simp [OpSt.cons]⟩)
  | dropc c0 =>
    simp only [beginOp]
    (repeat' split) <;> first | (left; rfl) | (right; exact ⟨c0, by simp [OpSt.cell?], by simp [OpSt.cons]⟩)
  | _ =>
    left
    simp only [beginOp] <;> (repeat' split) <;> first | rfl | (dsimp only; (try split) <;> rfl)

/-- **`ctaken` changes only when a destroying operation begins** -/
theorem microStep_ctaken (st : State) (t : Nat) (b : Bool) :
    (microStep st t b).1.ctaken = st.ctaken ∨
      ((st.th t).op = .idle ∧ ∃ c, ((microStep st t b).1.th t).op.cell? = some c ∧ ((microStep st t b).1.th t).op.cons = true) := by
  cases hop : (st.th t).op with
  | idle =>
    simp only [microStep, hop]
    split
    · left; rfl
    · rename_i txt o rest hp
      rcases beginOp_ctaken { st with th := upd st.th t { prog := rest, op := .idle, loc := (st.th t).loc } } t o with h | h
      · exact Or.inl h
      · exact Or.inr ⟨trivial, h⟩
  | finished => left; simp only [microStep, hop]
  | swapSw c0 a0 out isStore => left; simp only [microStep, hop]; split <;> rfl
  | _ => left; simp only [microStep, hop] <;> (repeat' split) <;> rfl


/-- **where an operation in progress on a container comes from**: it was in progress before (and
    destroys the container iff it did before), or it has just begun — on a container that exists and
    is not taken; a destroying one found nobody working on it and has taken it -/
theorem microStep_cellq2 (st : State) (t : Nat) (b : Bool) (c : Nat)
    (h : ((microStep st t b).1.th t).op.cell? = some c) :
    ((st.th t).op.cell? = some c ∧ ((microStep st t b).1.th t).op.cons = (st.th t).op.cons) ∨
      ((st.th t).op = .idle ∧ st.sh.cells c ≠ none ∧ st.ctaken c = false ∧ (∀ N, Tame2 N st t → c < N) ∧
        (microStep st t b).1.sh.cells = st.sh.cells ∧
        (((microStep st t b).1.th t).op.cons = false → (microStep st t b).1.ctaken = st.ctaken) ∧
        (((microStep st t b).1.th t).op.cons = true → st.sh.busy c = 0 ∧
          (microStep st t b).1.ctaken = upd st.ctaken c true ∧
          ∃ p, st.sh.cells c = some p ∧
            ((∃ x, ((microStep st t b).1.th t).op = .cinto c x p .start) ∨
              ((microStep st t b).1.th t).op = .dropc c p .start))) := by
  cases hop : (st.th t).op with
  | idle =>
    simp only [microStep, hop] at h ⊢
    split at h
    · simp only [upd_same] at h; split at h <;> cases h
    · rename_i txt o rest hp
      right
      have h1 := beginOp_cell2 { st with th := upd st.th t { prog := rest, op := .idle, loc := (st.th t).loc } } t o c h
      refine ⟨trivial, h1.1, h1.2.1, fun N hN => ?_, h1.2.2.1, h1.2.2.2.1, h1.2.2.2.2⟩
      exact beginOp_cell_below N { st with th := upd st.th t { prog := rest, op := .idle, loc := (st.th t).loc } } t o c
        (hN hop txt o rest hp).1 h
  | finished => simp only [microStep, hop] at h; cases h
  | swapSw c0 a0 out isStore =>
    left
    simp only [microStep, hop] at h ⊢
    split at h
    · exact ⟨by simpa [OpSt.cell?] using h, by simp [OpSt.cons]⟩
    · rw [hop] at h ⊢; exact ⟨h, rfl⟩
  | _ =>
    left
    simp only [microStep, hop] at h ⊢
    (repeat' split at h) <;>
      first
        | (simp [OpSt.cell?] at h; done)
        | (simp only [upd_same, OpSt.cell?, Option.some.injEq] at h; subst h
           simp_all [OpSt.cell?, OpSt.cons])


/-! ## Only an operation on a container writes its cell -/

theorem stepCP_cells_other (cfg : Cfg) (c cur new : Nat) (s : Shared) (l : Locals) (b : Bool) (cp : CP)
    (c' : Nat) (hc : c' ≠ c) : (stepCP cfg c cur new s l b cp).1.cells c' = s.cells c' := by
  cases cp with
  | load ld =>
    have h1 := (stepLP_frame cfg c s l b ld).1
    simp only [stepCP]; split
    · rename_i s' l' p d evs heq; rw [heq] at h1; dsimp only at h1 ⊢; rw [h1]
    · rename_i s' l' ld' evs hne heq; rw [heq] at h1; dsimp only at h1 ⊢; rw [h1]
  | cx old =>
    simp only [stepCP]
    (repeat' split) <;> simp [Shared.writeCell, upd, hc]
  | pay old pp =>
    have h1 := (stepPP_frame cfg old.ptr c s l b pp).1
    simp only [stepCP]; split
    · rename_i s' l' evs heq; rw [heq] at h1; dsimp only at h1 ⊢; rw [h1]
    · rename_i s' l' pp' evs hne heq; rw [heq] at h1; dsimp only at h1 ⊢; rw [h1]
  | dropOld gd =>
    have h1 := stepGD_cells s gd
    simp only [stepCP]; split
    · rename_i s' evs heq; rw [heq] at h1; dsimp only at h1 ⊢; rw [h1]
    · rename_i s' gd' evs hne heq; rw [heq] at h1; dsimp only at h1 ⊢; rw [h1]
  | dropNew old => simp only [stepCP]; simp
  | decOld old => simp only [stepCP]; simp
  | done old => simp only [stepCP]

theorem stepRP_cells_other (cfg : Cfg) (c : Nat) (s : Shared) (l : Locals) (b : Bool) (tries : Nat) (rp : RP)
    (c' : Nat) (hc : c' ≠ c) : (stepRP cfg c s l b tries rp).1.cells c' = s.cells c' := by
  cases rp with
  | load ld =>
    have h1 := (stepLP_frame cfg c s l b ld).1
    simp only [stepRP]; split
    · rename_i s' l' p d evs heq; rw [heq] at h1; dsimp only at h1 ⊢; rw [h1]
    · rename_i s' l' ld' evs hne heq; rw [heq] at h1; dsimp only at h1 ⊢; rw [h1]
  | attempt cur => simp only [stepRP]; split <;> simp [alloc]
  | cas cur x cp =>
    have h1 := stepCP_cells_other cfg c cur.ptr x s l b cp c' hc
    simp only [stepRP]; split
    · rename_i s' l' prev evs heq; rw [heq] at h1; (repeat' split) <;> exact h1
    · rename_i s' l' cp' evs hne heq; rw [heq] at h1; exact h1
  | intoPrev cur prev gi =>
    have h1 := stepGI_cells s gi
    simp only [stepRP]; split
    · rename_i s' evs heq; rw [heq] at h1; dsimp only at h1 ⊢; (repeat' split) <;> rw [h1]
    · rename_i s' gi' evs hne heq; rw [heq] at h1; dsimp only at h1 ⊢; rw [h1]
  | dropCur res gd =>
    have h1 := stepGD_cells s gd
    simp only [stepRP]; split
    · rename_i s' evs heq; rw [heq] at h1; dsimp only at h1 ⊢; rw [h1]
    · rename_i s' gd' evs hne heq; rw [heq] at h1; dsimp only at h1 ⊢; rw [h1]
  | dropCurLoop prev gd =>
    have h1 := stepGD_cells s gd
    simp only [stepRP]; split
    · rename_i s' evs heq; rw [heq] at h1; dsimp only at h1 ⊢; rw [h1]
    · rename_i s' gd' evs hne heq; rw [heq] at h1; dsimp only at h1 ⊢; rw [h1]
  | done r => simp only [stepRP]

theorem beginOp_cells_other (st : State) (t : Nat) (o : Op) (c' : Nat) (h : ∀ x, o ≠ .mk c' x) :
    (beginOp st t o).1.sh.cells c' = st.sh.cells c' := by
  cases o with
  | mk c0 x =>
    have : c' ≠ c0 := fun e => h x (by rw [e])
    simp only [beginOp]; split <;> simp [upd, this]
  | _ =>
    simp only [beginOp] <;> (repeat' split) <;>
      first | rfl | (simp [alloc]; done) | (dsimp only; (try split) <;> first | rfl | simp)

/-- **only an operation on a container, or its creation, writes its cell** -/
theorem microStep_cells_other (st : State) (t : Nat) (b : Bool) (c' : Nat)
    (h1 : (st.th t).op.cell? ≠ some c')
    (h2 : (st.th t).op = .idle → ∀ txt x rest, (st.th t).prog ≠ (txt, .mk c' x) :: rest) :
    (microStep st t b).1.sh.cells c' = st.sh.cells c' := by
  cases hop : (st.th t).op with
  | finished => simp only [microStep, hop]
  | idle =>
    simp only [microStep, hop]
    split
    · rfl
    · rename_i txt o rest hp
      refine beginOp_cells_other { st with th := upd st.th t { prog := rest, op := .idle, loc := (st.th t).loc } } t o c' ?_
      intro x e; subst e; exact h2 hop txt x rest hp
  | exitCool cd =>
    have h3 := (stepCD_frame st.sh cd).1
    simp only [microStep, hop]; split
    · rename_i s' evs heq; rw [heq] at h3; dsimp only at h3 ⊢; rw [h3]
    · rename_i s' cd' evs hne heq; rw [heq] at h3; dsimp only at h3 ⊢; rw [h3]
  | load c g ld =>
    have h3 := (stepLP_frame st.cfg c st.sh (st.th t).loc b ld).1
    simp only [microStep, hop]; split
    · rename_i s' l' p d evs heq; rw [heq] at h3; dsimp only at h3 ⊢; rw [h3]
    · rename_i s' l' ld' evs hne heq; rw [heq] at h3; dsimp only at h3 ⊢; rw [h3]
  | loadFull c x ld =>
    have h3 := (stepLP_frame st.cfg c st.sh (st.th t).loc b ld).1
    simp only [microStep, hop]; split
    · rename_i s' l' p d evs heq; rw [heq] at h3; dsimp only at h3 ⊢; split <;> (dsimp only; rw [h3])
    · rename_i s' l' ld' evs hne heq; rw [heq] at h3; dsimp only at h3 ⊢; rw [h3]
  | loadFullInto c x r gi =>
    have h3 := stepGI_cells st.sh gi
    simp only [microStep, hop]; split
    · rename_i s' evs heq; rw [heq] at h3; dsimp only at h3 ⊢; rw [h3]
    · rename_i s' gi' evs hne heq; rw [heq] at h3; dsimp only at h3 ⊢; rw [h3]
  | cloneh x y a0 => simp only [microStep, hop]; simp
  | droph a0 => simp only [microStep, hop]; simp
  | dropg gd =>
    have h3 := stepGD_cells st.sh gd
    simp only [microStep, hop]; split
    · rename_i s' evs heq; rw [heq] at h3; dsimp only at h3 ⊢; rw [h3]
    · rename_i s' gd' evs hne heq; rw [heq] at h3; dsimp only at h3 ⊢; rw [h3]
  | ginto x p gi =>
    have h3 := stepGI_cells st.sh gi
    simp only [microStep, hop]; split
    · rename_i s' evs heq; rw [heq] at h3; dsimp only at h3 ⊢; rw [h3]
    · rename_i s' gi' evs hne heq; rw [heq] at h3; dsimp only at h3 ⊢; rw [h3]
  | swapSw c a0 out isStore =>
    rw [hop] at h1
    have hc : c' ≠ c := fun e => h1 (by rw [e]; rfl)
    simp only [microStep, hop]; split
    · simp [Shared.writeCell, upd, hc]
    · rfl
  | swapPay c out old isStore pp =>
    have h3 := (stepPP_frame st.cfg old c st.sh (st.th t).loc b pp).1
    simp only [microStep, hop]; split
    · rename_i s' l' evs heq; rw [heq] at h3; dsimp only at h3 ⊢; (repeat' split) <;> (dsimp only; rw [h3])
    · rename_i s' l' pp' evs hne heq; rw [heq] at h3; dsimp only at h3 ⊢; rw [h3]
  | swapDrop c old => simp only [microStep, hop]; simp
  | cas c cur keep curPtr new g cp =>
    rw [hop] at h1
    have hc : c' ≠ c := fun e => h1 (by rw [e]; rfl)
    have h3 := stepCP_cells_other st.cfg c curPtr new st.sh (st.th t).loc b cp c' hc
    simp only [microStep, hop]; split
    · rename_i s' l' old evs heq; rw [heq] at h3; dsimp only at h3 ⊢; cases cur <;> cases keep <;> exact h3
    · rename_i s' l' cp' evs hne heq; rw [heq] at h3; exact h3
  | rcu c out tries rp =>
    rw [hop] at h1
    have hc : c' ≠ c := fun e => h1 (by rw [e]; rfl)
    have h3 := stepRP_cells_other st.cfg c st.sh (st.th t).loc b tries rp c' hc
    simp only [microStep, hop]; split
    · rename_i s' l' r tries' evs heq; rw [heq] at h3; exact h3
    · rename_i s' l' rp' tries' evs hne heq; rw [heq] at h3; exact h3
  | cinto c x p pp =>
    rw [hop] at h1
    have hc : c' ≠ c := fun e => h1 (by rw [e]; rfl)
    have h3 := (stepPP_frame st.cfg p c st.sh (st.th t).loc b pp).1
    simp only [microStep, hop]; split
    · rename_i s' l' evs heq; rw [heq] at h3; dsimp only at h3 ⊢; simp [upd, hc, h3]
    · rename_i s' l' pp' evs hne heq; rw [heq] at h3; dsimp only at h3 ⊢; rw [h3]
  | dropc c p pp =>
    rw [hop] at h1
    have hc : c' ≠ c := fun e => h1 (by rw [e]; rfl)
    have h3 := (stepPP_frame st.cfg p c st.sh (st.th t).loc b pp).1
    simp only [microStep, hop]; split
    · rename_i s' l' evs heq; rw [heq] at h3; dsimp only at h3 ⊢; split <;> simp [upd, hc, h3]
    · rename_i s' l' pp' evs hne heq; rw [heq] at h3; dsimp only at h3 ⊢; rw [h3]
  | dropcDec c p =>
    rw [hop] at h1
    have hc : c' ≠ c := fun e => h1 (by rw [e]; rfl)
    simp only [microStep, hop]; simp [upd, hc]


/-- the walk of a destroying operation, as `(cell, value)` -/
def OpSt.consWalk (op : OpSt) (c p : Nat) : Prop :=
  (∃ x pp, op = .cinto c x p pp) ∨ (∃ pp, op = .dropc c p pp)

/-- a destroying operation's walk goes on with the same container and value and leaves the cells
    alone; otherwise it has just begun -/
theorem microStep_consWalk (st : State) (t : Nat) (b : Bool) (c p : Nat)
    (h : ((microStep st t b).1.th t).op.consWalk c p) :
    ((st.th t).op.consWalk c p ∧ (microStep st t b).1.sh.cells = st.sh.cells) ∨ (st.th t).op = .idle := by
  cases hop : (st.th t).op with
  | idle => right; rfl
  | cinto c0 x p0 pp =>
    left
    have h3 := (stepPP_frame st.cfg p0 c0 st.sh (st.th t).loc b pp).1
    simp only [microStep, hop] at h ⊢
    split at h
    · simp [OpSt.consWalk] at h
    · rename_i s' l' pp' evs hne heq
      rw [heq] at h3
      simp only [upd_same, OpSt.consWalk, OpSt.cinto.injEq, reduceCtorEq, exists_false, or_false] at h
      obtain ⟨x', pp'', rfl, rfl, rfl, _⟩ := h
      exact ⟨Or.inl ⟨_, _, rfl⟩, h3⟩
  | dropc c0 p0 pp =>
    left
    have h3 := (stepPP_frame st.cfg p0 c0 st.sh (st.th t).loc b pp).1
    simp only [microStep, hop] at h ⊢
    split at h
    · split at h <;> simp [OpSt.consWalk] at h
    · rename_i s' l' pp' evs hne heq
      rw [heq] at h3
      simp only [upd_same, OpSt.consWalk, reduceCtorEq, exists_false, false_or, OpSt.dropc.injEq] at h
      obtain ⟨pp'', rfl, rfl, _⟩ := h
      exact ⟨Or.inr ⟨_, rfl⟩, h3⟩
  | finished => simp only [microStep, hop] at h; simp [OpSt.consWalk] at h
  | swapSw c0 a0 out isStore =>
    simp only [microStep, hop] at h
    split at h
    · simp [OpSt.consWalk] at h
    · rw [hop] at h; simp [OpSt.consWalk] at h
  | _ =>
    simp only [microStep, hop] at h
    (repeat' split at h) <;> simp [OpSt.consWalk] at h


/-- the final decrement of a container drop comes from the end of its walk, with the cells as
    they were -/
theorem microStep_dropcDec (st : State) (t : Nat) (b : Bool) (c p : Nat)
    (h : ((microStep st t b).1.th t).op = .dropcDec c p) :
    (∃ pp, (st.th t).op = .dropc c p pp) ∧ (microStep st t b).1.sh.cells = st.sh.cells := by
  cases hop : (st.th t).op with
  | dropc c0 p0 pp =>
    have h3 := (stepPP_frame st.cfg p0 c0 st.sh (st.th t).loc b pp).1
    simp only [microStep, hop] at h ⊢
    split at h
    · rename_i s' l' evs heq
      rw [heq] at h3
      split at h
      · simp at h
      · simp only [upd_same, OpSt.dropcDec.injEq] at h
        obtain ⟨rfl, rfl⟩ := h
        rename_i hp0
        simp only [hp0, ↓reduceIte]
        exact ⟨⟨pp, rfl⟩, h3⟩
    · simp at h
  | idle =>
    exfalso
    simp only [microStep, hop] at h
    split at h
    · simp only [upd_same] at h; split at h <;> cases h
    · rename_i txt o rest hp
      have hcell : ((beginOp { st with th := upd st.th t { prog := rest, op := .idle, loc := (st.th t).loc } } t o).1.th t).op.cell? = some c := by
        rw [h]; rfl
      have h1 := beginOp_cell2 { st with th := upd st.th t { prog := rest, op := .idle, loc := (st.th t).loc } } t o c hcell
      obtain ⟨p', _, hor⟩ := (h1.2.2.2.2 (by rw [h]; rfl)).2.2
      rcases hor with ⟨x, hx'⟩ | hx' <;> (rw [h] at hx'; cases hx')
  | finished => simp only [microStep, hop] at h; cases h
  | swapSw c0 a0 out isStore =>
    exfalso
    simp only [microStep, hop] at h
    split at h
    · simp at h
    · rw [hop] at h; cases h
  | _ =>
    exfalso
    simp only [microStep, hop] at h
    (repeat' split at h) <;> simp at h

end M
