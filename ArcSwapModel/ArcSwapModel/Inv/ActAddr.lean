import ArcSwapModel.Inv.LpBack

/-!
# The address a reader has announced stays announced while it is inside its window

`helping::get_debt` stores the address of the storage it is about to read (`active_addr`) before it
publishes its generation.  Nothing else writes that field of a node: it holds the reader's storage
for as long as the reader is inside its window.
-/

namespace M
open Consts

theorem aa_setNode (s : Shared) (n : Nat) (f : Node → Node) (hf : ∀ nd, (f nd).activeAddr = nd.activeAddr) (m : Nat) :
    ((s.setNode n f).nodes m).activeAddr = (s.nodes m).activeAddr := by
  by_cases e : m = n
  · subst e; simp [hf]
  · simp [e]

macro "aa_frame" : tactic =>
  `(tactic| (first
      | rfl
      | (simp only [Shared.setNode, upd, setFault_nodes]; split <;> simp_all)
      | simp))

theorem stepNG_aa (s : Shared) (b : Bool) (ng : NG) (m : Nat) (hm : m < s.nNodes) :
    ((stepNG s b ng).1.nodes m).activeAddr = (s.nodes m).activeAddr := by
  cases ng with
  | allocCas me hd =>
    simp only [stepNG]
    cases me with
    | some k => dsimp only; split <;> (simp only []; aa_frame)
    | none =>
      have hne : m ≠ s.nNodes := by omega
      dsimp only
      split <;>
        (simp only []
         first
           | (rw [aa_setNode _ _ (fun nd => { nd with next := hd }) (fun _ => rfl) m]; simp [upd, hne])
           | (simp [upd, hne]))
  | _ =>
    simp only [stepNG] <;> (repeat' split) <;> aa_frame

theorem stepCD_aa (s : Shared) (cd : CD) (m : Nat) : ((stepCD s cd).1.nodes m).activeAddr = (s.nodes m).activeAddr := by
  cases cd with
  | swap n => simp only [stepCD]; split <;> first | aa_frame | (rw [setFault_nodes]; aa_frame)
  | _ => simp only [stepCD] <;> aa_frame

theorem stepGD_aa (s : Shared) (gd : GD) (m : Nat) : ((stepGD s gd).1.nodes m).activeAddr = (s.nodes m).activeAddr := by
  cases gd <;> simp only [stepGD] <;> (repeat' split) <;> first | aa_frame | simp

theorem stepGI_aa (s : Shared) (gi : GI) (m : Nat) : ((stepGI s gi).1.nodes m).activeAddr = (s.nodes m).activeAddr := by
  cases gi <;> simp only [stepGI] <;> (repeat' split) <;> first | aa_frame | simp


/-- what a step does to the announced addresses of the existing nodes: nothing, except that the
    thread at `f1` announces its storage in its own node -/
def AAStep (s s' : Shared) (who : Nat → Prop) : Prop :=
  ∀ m, m < s.nNodes → (s'.nodes m).activeAddr = (s.nodes m).activeAddr ∨ who m

theorem AAStep.same {s s' : Shared} {who : Nat → Prop} (h : ∀ m, m < s.nNodes → (s'.nodes m).activeAddr = (s.nodes m).activeAddr) :
    AAStep s s' who := fun m hm => Or.inl (h m hm)

theorem AAStep.mono {s s' : Shared} {who who' : Nat → Prop} (h : AAStep s s' who) (hw : ∀ m, who m → who' m) :
    AAStep s s' who' := fun m hm => (h m hm).imp id (hw m)

theorem stepLP_aa (cfg : Cfg) (c : Nat) (s : Shared) (l : Locals) (b : Bool) (lp : LP) :
    AAStep s (stepLP cfg c s l b lp).1 (fun m => lp = .f1 ∧ l.node.getD 0 = m) := by
  cases lp with
  | f1 =>
    intro m hm
    by_cases e : l.node.getD 0 = m
    · exact Or.inr ⟨rfl, e⟩
    · left; simp only [stepLP]
      have : m ≠ l.node.getD 0 := fun x => e x.symm
      simp [this]
  | get ng =>
    have h1 := stepNG_aa s b ng
    refine AAStep.same (fun m hm => ?_)
    simp only [stepLP]; split
    · rename_i s' n evs heq; rw [heq] at h1; exact h1 m hm
    · rename_i s' ng' evs hne heq; rw [heq] at h1; exact h1 m hm
  | reget ng =>
    have h1 := stepNG_aa s b ng
    refine AAStep.same (fun m hm => ?_)
    simp only [stepLP]; split
    · rename_i s' n evs heq; rw [heq] at h1; exact h1 m hm
    · rename_i s' ng' evs hne heq; rw [heq] at h1; exact h1 m hm
  | cool cd =>
    have h1 := stepCD_aa s cd
    refine AAStep.same (fun m _ => ?_)
    simp only [stepLP]; split
    · rename_i s' evs heq; rw [heq] at h1; exact h1 m
    · rename_i s' cd' evs hne heq; rw [heq] at h1; exact h1 m
  | _ =>
    refine AAStep.same (fun m _ => ?_)
    simp only [stepLP] <;> (repeat' split) <;> first | (unfold dbgInUse; split <;> simp; done) | aa_frame

theorem stepPP_aa (cfg : Cfg) (p c : Nat) (s : Shared) (l : Locals) (b : Bool) (pp : PP) :
    AAStep s (stepPP cfg p c s l b pp).1 (fun m => pp.lp? = some .f1 ∧ l.node.getD 0 = m) := by
  cases pp with
  | hload x ld =>
    have h1 := stepLP_aa cfg c s l b ld
    simp only [stepPP]; split
    · rename_i s' l' r d evs heq; rw [heq] at h1; exact h1.mono (fun m ⟨e1, e2⟩ => ⟨by rw [e1]; rfl, e2⟩)
    · rename_i s' l' ld' evs hne heq; rw [heq] at h1; exact h1.mono (fun m ⟨e1, e2⟩ => ⟨by rw [e1]; rfl, e2⟩)
  | hinto x r gi =>
    have h1 := stepGI_aa s gi
    refine AAStep.same (fun m _ => ?_)
    simp only [stepPP]; split
    · rename_i s' evs heq; rw [heq] at h1; exact h1 m
    · rename_i s' gi' evs hne heq; rw [heq] at h1; exact h1 m
  | get ng =>
    have h1 := stepNG_aa s b ng
    refine AAStep.same (fun m hm => ?_)
    simp only [stepPP]; split
    · rename_i s' n evs heq; rw [heq] at h1; exact h1 m hm
    · rename_i s' ng' evs hne heq; rw [heq] at h1; exact h1 m hm
  | h2 x =>
    refine AAStep.same (fun m _ => ?_)
    simp only [stepPP]
    by_cases ho : x.own = x.who
    · simp only [ho, ↓reduceIte]; (repeat' split) <;> simp
    · simp only [ho, ↓reduceIte]
  | _ =>
    refine AAStep.same (fun m _ => ?_)
    simp only [stepPP] <;> (repeat' split) <;> first | (unfold dbgInUse; split <;> simp; done) | aa_frame

theorem stepCP_aa (cfg : Cfg) (c cur new : Nat) (s : Shared) (l : Locals) (b : Bool) (cp : CP) :
    AAStep s (stepCP cfg c cur new s l b cp).1 (fun m => cp.lp? = some .f1 ∧ l.node.getD 0 = m) := by
  cases cp with
  | load ld =>
    have h1 := stepLP_aa cfg c s l b ld
    simp only [stepCP]; split
    · rename_i s' l' r d evs heq; rw [heq] at h1; exact h1.mono (fun m ⟨e1, e2⟩ => ⟨by rw [e1]; rfl, e2⟩)
    · rename_i s' l' ld' evs hne heq; rw [heq] at h1; exact h1.mono (fun m ⟨e1, e2⟩ => ⟨by rw [e1]; rfl, e2⟩)
  | pay old pp =>
    have h1 := stepPP_aa cfg old.ptr c s l b pp
    simp only [stepCP]; split
    · rename_i s' l' evs heq; rw [heq] at h1; exact h1
    · rename_i s' l' pp' evs hne heq; rw [heq] at h1; exact h1
  | dropOld gd =>
    have h1 := stepGD_aa s gd
    refine AAStep.same (fun m _ => ?_)
    simp only [stepCP]; split
    · rename_i s' evs heq; rw [heq] at h1; exact h1 m
    · rename_i s' gd' evs hne heq; rw [heq] at h1; exact h1 m
  | _ =>
    refine AAStep.same (fun m _ => ?_)
    simp only [stepCP] <;> (repeat' split) <;> first | aa_frame | simp [Shared.writeCell]

theorem stepRP_aa (cfg : Cfg) (c : Nat) (s : Shared) (l : Locals) (b : Bool) (tries : Nat) (rp : RP) :
    AAStep s (stepRP cfg c s l b tries rp).1 (fun m => rp.lp? = some .f1 ∧ l.node.getD 0 = m) := by
  cases rp with
  | load ld =>
    have h1 := stepLP_aa cfg c s l b ld
    simp only [stepRP]; split
    · rename_i s' l' r d evs heq; rw [heq] at h1; exact h1.mono (fun m ⟨e1, e2⟩ => ⟨by rw [e1]; rfl, e2⟩)
    · rename_i s' l' ld' evs hne heq; rw [heq] at h1; exact h1.mono (fun m ⟨e1, e2⟩ => ⟨by rw [e1]; rfl, e2⟩)
  | cas cur x cp =>
    have h1 := stepCP_aa cfg c cur.ptr x s l b cp
    simp only [stepRP]; split
    · rename_i s' l' prev evs heq; rw [heq] at h1
      intro m hm
      rcases h1 m hm with h2 | h2
      · left; (repeat' split) <;> exact h2
      · exact Or.inr h2
    · rename_i s' l' cp' evs hne heq; rw [heq] at h1; exact h1
  | intoPrev cur prev gi =>
    have h1 := stepGI_aa s gi
    refine AAStep.same (fun m _ => ?_)
    simp only [stepRP]; split
    · rename_i s' evs heq; rw [heq] at h1; (repeat' split) <;> exact h1 m
    · rename_i s' gi' evs hne heq; rw [heq] at h1; exact h1 m
  | dropCur res gd =>
    have h1 := stepGD_aa s gd
    refine AAStep.same (fun m _ => ?_)
    simp only [stepRP]; split
    · rename_i s' evs heq; rw [heq] at h1; exact h1 m
    · rename_i s' gd' evs hne heq; rw [heq] at h1; exact h1 m
  | dropCurLoop prev gd =>
    have h1 := stepGD_aa s gd
    refine AAStep.same (fun m _ => ?_)
    simp only [stepRP]; split
    · rename_i s' evs heq; rw [heq] at h1; exact h1 m
    · rename_i s' gd' evs hne heq; rw [heq] at h1; exact h1 m
  | attempt cur =>
    refine AAStep.same (fun m _ => ?_)
    simp only [stepRP]; split <;> simp [alloc]
  | done r => exact AAStep.same (fun m _ => by simp only [stepRP])


theorem beginOp_aa (st : State) (t : Nat) (o : Op) (m : Nat) :
    ((beginOp st t o).1.sh.nodes m).activeAddr = (st.sh.nodes m).activeAddr := by
  cases o <;> simp only [beginOp] <;> (repeat' split) <;>
    first | rfl | (simp [alloc]; done) | (dsimp only; (try split) <;> first | rfl | simp)

theorem microStep_aa (st : State) (t : Nat) (b : Bool) :
    AAStep st.sh (microStep st t b).1.sh (fun m => (st.th t).op.lp? = some .f1 ∧ (st.th t).loc.node.getD 0 = m) := by
  cases hop : (st.th t).op with
  | finished => simp only [microStep, hop]; exact AAStep.same (fun _ _ => rfl)
  | idle =>
    simp only [microStep, hop]
    split
    · exact AAStep.same (fun _ _ => rfl)
    · rename_i txt o rest hp
      exact AAStep.same (fun m _ => beginOp_aa { st with th := upd st.th t { prog := rest, op := .idle, loc := (st.th t).loc } } t o m)
  | exitCool cd =>
    have h1 := stepCD_aa st.sh cd
    refine AAStep.same (fun m _ => ?_)
    simp only [microStep, hop]; split
    · rename_i s' evs heq; rw [heq] at h1; exact h1 m
    · rename_i s' cd' evs hne heq; rw [heq] at h1; exact h1 m
  | load c g ld =>
    have h1 := stepLP_aa st.cfg c st.sh (st.th t).loc b ld
    simp only [microStep, hop]; split
    · rename_i s' l' p d evs heq; rw [heq] at h1; exact h1.mono (fun m ⟨e1, e2⟩ => ⟨by rw [e1]; rfl, e2⟩)
    · rename_i s' l' ld' evs hne heq; rw [heq] at h1; exact h1.mono (fun m ⟨e1, e2⟩ => ⟨by rw [e1]; rfl, e2⟩)
  | loadFull c x ld =>
    have h1 := stepLP_aa st.cfg c st.sh (st.th t).loc b ld
    simp only [microStep, hop]; split
    · rename_i s' l' p d evs heq; rw [heq] at h1
      split <;> exact h1.mono (fun m ⟨e1, e2⟩ => ⟨by rw [e1]; rfl, e2⟩)
    · rename_i s' l' ld' evs hne heq; rw [heq] at h1; exact h1.mono (fun m ⟨e1, e2⟩ => ⟨by rw [e1]; rfl, e2⟩)
  | loadFullInto c x r gi =>
    have h1 := stepGI_aa st.sh gi
    refine AAStep.same (fun m _ => ?_)
    simp only [microStep, hop]; split
    · rename_i s' evs heq; rw [heq] at h1; exact h1 m
    · rename_i s' gi' evs hne heq; rw [heq] at h1; exact h1 m
  | ginto x p gi =>
    have h1 := stepGI_aa st.sh gi
    refine AAStep.same (fun m _ => ?_)
    simp only [microStep, hop]; split
    · rename_i s' evs heq; rw [heq] at h1; exact h1 m
    · rename_i s' gi' evs hne heq; rw [heq] at h1; exact h1 m
  | dropg gd =>
    have h1 := stepGD_aa st.sh gd
    refine AAStep.same (fun m _ => ?_)
    simp only [microStep, hop]; split
    · rename_i s' evs heq; rw [heq] at h1; exact h1 m
    · rename_i s' gd' evs hne heq; rw [heq] at h1; exact h1 m
  | cloneh x y a0 => simp only [microStep, hop]; exact AAStep.same (fun m _ => by simp)
  | droph a0 => simp only [microStep, hop]; exact AAStep.same (fun m _ => by simp)
  | swapDrop c a0 => simp only [microStep, hop]; exact AAStep.same (fun m _ => by simp)
  | dropcDec c a0 => simp only [microStep, hop]; exact AAStep.same (fun m _ => by simp)
  | swapSw c a0 out isStore =>
    simp only [microStep, hop]; split
    · exact AAStep.same (fun m _ => by simp [Shared.writeCell])
    · exact AAStep.same (fun _ _ => rfl)
  | swapPay c out old isStore pp =>
    have h1 := stepPP_aa st.cfg old c st.sh (st.th t).loc b pp
    simp only [microStep, hop]; split
    · rename_i s' l' evs heq; rw [heq] at h1; (repeat' split) <;> exact h1
    · rename_i s' l' pp' evs hne heq; rw [heq] at h1; exact h1
  | cinto c x p pp =>
    have h1 := stepPP_aa st.cfg p c st.sh (st.th t).loc b pp
    simp only [microStep, hop]; split
    · rename_i s' l' evs heq; rw [heq] at h1; exact h1
    · rename_i s' l' pp' evs hne heq; rw [heq] at h1; exact h1
  | dropc c p pp =>
    have h1 := stepPP_aa st.cfg p c st.sh (st.th t).loc b pp
    simp only [microStep, hop]; split
    · rename_i s' l' evs heq; rw [heq] at h1; split <;> exact h1
    · rename_i s' l' pp' evs hne heq; rw [heq] at h1; exact h1
  | cas c cur keep curPtr new g cp =>
    have h1 := stepCP_aa st.cfg c curPtr new st.sh (st.th t).loc b cp
    simp only [microStep, hop]; split
    · rename_i s' l' old evs heq; rw [heq] at h1; cases cur <;> cases keep <;> exact h1
    · rename_i s' l' cp' evs hne heq; rw [heq] at h1; exact h1
  | rcu c out tries rp =>
    have h1 := stepRP_aa st.cfg c st.sh (st.th t).loc b tries rp
    simp only [microStep, hop]; split
    · rename_i s' l' r tries' evs heq; rw [heq] at h1; exact h1
    · rename_i s' l' rp' tries' evs hne heq; rw [heq] at h1; exact h1

/-- the reader has announced its storage and is still inside (or about to open) its window -/
def LP.announced : LP → Bool
  | .f2 _ | .f3 _ | .chDbg _ _ | .f4 _ _ | .f5 _ _ => true
  | _ => false

/-- **the announced address is the reader's storage** -/
def ActAddr (st : State) : Prop :=
  ∀ o n c lp, (st.th o).op.lp? = some lp → lp.announced = true → (st.th o).loc.node = some n →
    (st.th o).op.cell? = some c → (st.sh.nodes n).activeAddr = some c

theorem stepLP_announced (cfg : Cfg) (c : Nat) (s : Shared) (l : Locals) (b : Bool) (lp : LP)
    (h : (stepLP cfg c s l b lp).2.2.1.announced = true) :
    (stepLP cfg c s l b lp).2.1.node = l.node ∧
      ((lp.announced = true) ∨ (lp = .f1 ∧ ((stepLP cfg c s l b lp).1.nodes (l.node.getD 0)).activeAddr = some c)) := by
  cases lp with
  | f1 => simp [stepLP, LP.announced]
  | f2 g => simp [stepLP, LP.announced]
  | f3 g => simp only [stepLP] at h ⊢; split <;> simp [LP.announced]
  | chDbg g cand => simp only [stepLP] at h ⊢; split <;> simp [LP.announced]
  | f4 g cand => simp [stepLP, LP.announced]
  | f5 g cand => simp only [stepLP] at h; (repeat' split at h) <;> cases h
  | get ng => simp only [stepLP] at h; (repeat' split at h) <;> cases h
  | reget ng => simp only [stepLP] at h; (repeat' split at h) <;> cases h
  | cool cd => simp only [stepLP] at h; (repeat' split at h) <;> cases h
  | _ => simp only [stepLP] at h <;> (repeat' split at h) <;> cases h

theorem ActAddr.step {st : State} (h : ActAddr st) (ho : OwnInv st) (hn : NodeInv st) (t : Nat) (b : Bool) :
    ActAddr (microStep st t b).1 := by
  intro o n c lp' hlp hann hnode hcell
  have haa := microStep_aa st t b
  have hoth := (microStep_own st t b).2
  by_cases e : o = t
  · subst e
    rcases microStep_lp_back st o b lp' hlp with ⟨lp, c0, h1, h2, h3⟩ | h1
    · obtain ⟨c1, hc1, hnodes, _, hloc, _⟩ := microStep_lp st o b lp h1
      have ec : c1 = c0 := by rw [h2] at hc1; cases hc1; rfl
      subst ec
      rw [h3] at hann
      obtain ⟨hl, hor⟩ := stepLP_announced st.cfg c1 st.sh (st.th o).loc b lp hann
      have hnode0 : (st.th o).loc.node = some n := by rw [hloc, hl] at hnode; exact hnode
      have hcc : c = c1 := by
        rcases microStep_cellq2 st o b c hcell with ⟨h4, _⟩ | ⟨h4, _⟩
        · rw [h2] at h4; cases h4; rfl
        · rw [h4] at h1; cases h1
      subst hcc
      rcases hor with hprev | ⟨hf1, hset⟩
      · have hold := h o n c lp h1 hprev hnode0 h2
        have hlt : n < st.sh.nNodes := OpSt.okN_lt (hn.th o) n hnode0
        rcases haa n hlt with h5 | ⟨h5, _⟩
        · rw [h5]; exact hold
        · rw [h1] at h5; cases h5; cases hprev
      · rw [hnodes]
        have : (st.th o).loc.node.getD 0 = n := by rw [hnode0]; rfl
        rw [this] at hset; exact hset
    · subst h1; cases hann
  · rw [hoth o e] at hlp hnode hcell
    have hold := h o n c lp' hlp hann hnode hcell
    have hlt : n < st.sh.nNodes := OpSt.okN_lt (hn.th o) n hnode
    rcases haa n hlt with h5 | ⟨h5, h6⟩
    · rw [h5]; exact hold
    · -- the stepping thread would own the same node
      exfalso
      have hokn := OpSt.okN_lp (hn.th t) h5
      obtain ⟨n', hn'⟩ := Option.isSome_iff_exists.mp (hokn.2.1 rfl)
      have : n' = n := by rw [hn'] at h6; exact h6
      subst this
      have o1 : ownsT (st.th t) = some n' := by rw [ownsT_of_lp _ _ h5]; exact hn'
      have o2 : ownsT (st.th o) = some n' := by
        rw [ownsT_of_lp _ _ hlp]
        cases lp' <;> first | exact hnode | cases hann
      exact ho.excl o t n' e o2 o1

theorem ActAddr.reachable {st : State} (h : Reachable st) : ActAddr st := by
  obtain ⟨cfg, progs, sched, rfl⟩ := h
  have h0 : ActAddr (State.initial cfg progs) := fun o n c lp hl => by simp [State.initial, OpSt.lp?] at hl
  have o0 := OwnInv.initial cfg progs
  have n0 := NodeInv.initial cfg progs
  generalize State.initial cfg progs = st at h0 o0 n0
  induction sched generalizing st with
  | nil => exact h0
  | cons x rest ih => obtain ⟨t, b⟩ := x; exact ih _ (h0.step o0 n0 t b) (o0.step t b) (n0.step t b)

end M
