import ArcSwapModel.Inv.Probe

/-!
# What a step does to the fast slots

`SlotStep`: every fast slot is left as it was or cleared, except the one slot its owner is about to
swap a pointer into (`AtSwap`).  Generated from the proofs of `FillOnly` (Inv/Probe).
-/

namespace M
open Consts

def SlotStep (s s' : Shared) (who : Nat → Nat → Prop) : Prop :=
  ∀ n i, (s'.nodes n).fast i = (s.nodes n).fast i ∨ (s'.nodes n).fast i = .none ∨ who n i

theorem SlotStep.same {s s' : Shared} {who : Nat → Nat → Prop} (h : ∀ n, (s'.nodes n).fast = (s.nodes n).fast) :
    SlotStep s s' who := fun n i => Or.inl (by rw [h])

theorem SlotStep.mono {s s' : Shared} {who who' : Nat → Nat → Prop} (h : SlotStep s s' who)
    (hw : ∀ n i, who n i → who' n i) : SlotStep s s' who' :=
  fun n i => (h n i).elim Or.inl (fun x => Or.inr (x.elim Or.inl (fun y => Or.inr (hw n i y))))

theorem SlotStep.clear {s : Shared} {who : Nat → Nat → Prop} (n0 j : Nat) :
    SlotStep s (s.setNode n0 fun nd => { nd with fast := upd nd.fast j .none }) who := by
  intro n i
  by_cases hn : n = n0
  · subst hn
    by_cases hi : i = j
    · subst hi; right; left; simp
    · left; simp [upd, hi]
  · left; simp [hn]

theorem stepGD_slot (s : Shared) (gd : GD) : SlotStep s (stepGD s gd).1 (fun _ _ => False) := by
  cases gd with
  | pay p n0 i0 => simp only [stepGD]; split; exact SlotStep.clear n0 i0; exact SlotStep.same (fun _ => rfl)
  | dec p => exact SlotStep.same (fun n => by simp [stepGD])
  | done => exact SlotStep.same (fun n => by simp [stepGD])


theorem stepGI_slot (s : Shared) (gi : GI) : SlotStep s (stepGI s gi).1 (fun _ _ => False) := by
  cases gi with
  | inc p n0 i0 => exact SlotStep.same (fun n => by simp [stepGI])
  | pay p n0 i0 => simp only [stepGI]; split; exact SlotStep.clear n0 i0; exact SlotStep.same (fun _ => rfl)
  | dec p => exact SlotStep.same (fun n => by simp [stepGI])
  | done => exact SlotStep.same (fun n => by simp [stepGI])


theorem stepLP_slot (cfg : Cfg) (c : Nat) (s : Shared) (l : Locals) (b : Bool) (lp : LP)
    (hb : Beyond s) (hset : lp.early = false → l.node.isSome = true) :
    SlotStep s (stepLP cfg c s l b lp).1 (AtSwap l (some lp)) := by
  cases lp with
  | start => simp only [stepLP]; (repeat' split) <;> exact SlotStep.same (fun _ => rfl)
  | get ng =>
    have h1 := fun n => (stepNG_slots s b ng hb n).1
    simp only [stepLP]; split
    · rename_i s' n evs heq; simp only [heq] at h1; exact SlotStep.same h1
    · rename_i s' ng' evs hne heq; simp only [heq] at h1; exact SlotStep.same h1
  | reget ng =>
    have h1 := fun n => (stepNG_slots s b ng hb n).1
    simp only [stepLP]; split
    · rename_i s' n evs heq; simp only [heq] at h1; exact SlotStep.same h1
    · rename_i s' ng' evs hne heq; simp only [heq] at h1; exact SlotStep.same h1
  | cool cd =>
    have h1 := stepCD_fast s cd
    simp only [stepLP]; split
    · rename_i s' evs heq; simp only [heq] at h1; exact SlotStep.same h1
    · rename_i s' cd' evs hne heq; simp only [heq] at h1; exact SlotStep.same h1
  | a1 => simp only [stepLP]; split <;> exact SlotStep.same (fun _ => by simp)
  | nfDbg p =>
    simp only [stepLP]; split
    · exact SlotStep.same (fun _ => by simp)
    · exact SlotStep.same (fun _ => by unfold dbgInUse; split <;> simp)
  | probe p i0 => simp only [stepLP]; exact SlotStep.same (fun _ => rfl)
  | pswap p idx =>
    obtain ⟨n0, hn0⟩ := Option.isSome_iff_exists.mp (hset rfl)
    have e : l.node.getD 0 = n0 := by rw [hn0]; rfl
    intro n i
    by_cases hn : n = n0
    · subst hn
      by_cases hi : i = idx
      · subst hi; exact Or.inr (Or.inr ⟨hn0, p, rfl⟩)
      · left; simp only [stepLP, e]; split <;> simp [upd, hi]
    · left; simp only [stepLP, e]; split <;> simp [hn]
  | a3 p idx => simp only [stepLP]; (repeat' split) <;> exact SlotStep.same (fun _ => by simp)
  | a4 p idx =>
    simp only [stepLP]; split
    · exact SlotStep.clear _ _
    · exact SlotStep.same (fun _ => rfl)
  | a4dec p => simp only [stepLP]; exact SlotStep.same (fun _ => by simp)
  | nhDbg =>
    simp only [stepLP]; split
    · exact SlotStep.same (fun _ => by simp)
    · exact SlotStep.same (fun _ => by unfold dbgInUse; split <;> simp)
  | f1 => simp only [stepLP]; exact SlotStep.same (fun _ => by fast_frame)
  | f2 g => simp only [stepLP]; exact SlotStep.same (fun _ => by split <;> fast_frame)
  | f3 g => simp only [stepLP]; split <;> exact SlotStep.same (fun _ => by simp)
  | chDbg g cand =>
    simp only [stepLP]; split
    · exact SlotStep.same (fun _ => by simp)
    · exact SlotStep.same (fun _ => by unfold dbgInUse; split <;> simp)
  | f4 g cand => simp only [stepLP]; exact SlotStep.same (fun _ => by split <;> fast_frame)
  | f5 g cand => simp only [stepLP]; (repeat' split) <;> exact SlotStep.same (fun _ => by fast_frame)
  | fokInc cand => simp only [stepLP]; exact SlotStep.same (fun _ => by simp)
  | fokPay cand =>
    simp only [stepLP]; split
    · exact SlotStep.same (fun _ => by fast_frame)
    · exact SlotStep.same (fun _ => rfl)
  | fokDec cand => simp only [stepLP]; exact SlotStep.same (fun _ => by simp)
  | fr1 cand j => simp only [stepLP]; split <;> exact SlotStep.same (fun _ => by simp)
  | fr2 cand j r => simp only [stepLP]; exact SlotStep.same (fun _ => by fast_frame)
  | frPay cand r =>
    simp only [stepLP]; split
    · exact SlotStep.same (fun _ => by fast_frame)
    · exact SlotStep.same (fun _ => rfl)
  | frDec cand r => simp only [stepLP]; exact SlotStep.same (fun _ => by simp)
  | done p d => simp only [stepLP]; exact SlotStep.same (fun _ => rfl)


theorem stepPP_slot (cfg : Cfg) (p c : Nat) (s : Shared) (l : Locals) (b : Bool) (pp : PP)
    (hb : Beyond s) (hk : pp.okN s l) :
    SlotStep s (stepPP cfg p c s l b pp).1 (AtSwap l pp.lp?) := by
  cases pp with
  | hload x ld =>
    have h1 := stepLP_slot cfg c s l b ld hb hk.2.1
    simp only [stepPP]
    split
    · rename_i s' l' r d evs heq; simp only [heq] at h1; exact h1
    · rename_i s' l' ld' evs hne heq; simp only [heq] at h1; exact h1
  | hinto x r gi =>
    have h1 := stepGI_slot s gi
    simp only [stepPP]
    split
    · rename_i s' evs heq; simp only [heq] at h1; exact h1.mono (fun _ _ h => h.elim)
    · rename_i s' gi' evs hne heq; simp only [heq] at h1; exact h1.mono (fun _ _ h => h.elim)
  | get ng =>
    have h1 := fun n => (stepNG_slots s b ng hb n).1
    simp only [stepPP]; split
    · rename_i s' n evs heq; simp only [heq] at h1; exact SlotStep.same h1
    · rename_i s' ng' evs hne heq; simp only [heq] at h1; exact SlotStep.same h1
  | slot n0 j =>
    simp only [stepPP]
    split
    · split
      · split <;> exact SlotStep.clear n0 j
      · exact SlotStep.same (fun _ => rfl)
    · split
      · split <;> exact SlotStep.same (fun _ => by fast_frame)
      · exact SlotStep.same (fun _ => rfl)
  | start => simp only [stepPP]; (repeat' split) <;> exact SlotStep.same (fun _ => rfl)
  | inc => simp only [stepPP]; exact SlotStep.same (fun _ => by simp)
  | trav => simp only [stepPP]; (repeat' split) <;> exact SlotStep.same (fun _ => rfl)
  | res n0 => simp only [stepPP]; (repeat' split) <;> exact SlotStep.same (fun _ => by fast_frame)
  | hDbg0 x => simp only [stepPP]; exact SlotStep.same (fun _ => by unfold dbgInUse; split <;> simp)
  | hDbg1 x => simp only [stepPP]; exact SlotStep.same (fun _ => by split <;> simp)
  | h1 x => simp only [stepPP]; exact SlotStep.same (fun _ => rfl)
  | h2 x =>
    simp only [stepPP]
    by_cases ho : x.own = x.who
    · simp only [ho, ↓reduceIte]; (repeat' split) <;> exact SlotStep.same (fun _ => by simp)
    · simp only [ho, ↓reduceIte]; (repeat' split) <;> exact SlotStep.same (fun _ => rfl)
  | h3 x => simp only [stepPP]; (repeat' split) <;> exact SlotStep.same (fun _ => rfl)
  | hres x => simp only [stepPP]; exact SlotStep.same (fun _ => by fast_frame)
  | h4 x r => simp only [stepPP]; exact SlotStep.same (fun _ => rfl)
  | h5 x r t' => simp only [stepPP]; exact SlotStep.same (fun _ => rfl)
  | h6 x r t' m => simp only [stepPP]; exact SlotStep.same (fun _ => by fast_frame)
  | h7 x r t' m =>
    simp only [stepPP]; split
    · exact SlotStep.same (fun _ => by fast_frame)
    · split <;> exact SlotStep.same (fun _ => rfl)
  | h8 x t' => simp only [stepPP]; exact SlotStep.same (fun _ => by fast_frame)
  | hdrop x r => simp only [stepPP]; exact SlotStep.same (fun _ => by simp)
  | hend x => simp only [stepPP]; (repeat' split) <;> exact SlotStep.same (fun _ => rfl)
  | hrel x => simp only [stepPP]; exact SlotStep.same (fun _ => by fast_frame)
  | slotInc n0 j => simp only [stepPP]; exact SlotStep.same (fun _ => by simp)
  | rel n0 => simp only [stepPP]; (repeat' split) <;> exact SlotStep.same (fun _ => by fast_frame)
  | fin => simp only [stepPP]; (repeat' split) <;> exact SlotStep.same (fun _ => rfl)
  | dec => simp only [stepPP]; exact SlotStep.same (fun _ => by simp)
  | done => simp only [stepPP]; exact SlotStep.same (fun _ => rfl)


theorem stepCP_slot (cfg : Cfg) (c cur new : Nat) (s : Shared) (l : Locals) (b : Bool) (cp : CP)
    (hb : Beyond s) (hk : cp.okN s l) :
    SlotStep s (stepCP cfg c cur new s l b cp).1 (AtSwap l cp.lp?) := by
  cases cp with
  | load ld =>
    have h1 := stepLP_slot cfg c s l b ld hb hk.2.1
    simp only [stepCP]
    split
    · rename_i s' l' p d evs heq; simp only [heq] at h1; exact h1
    · rename_i s' l' ld' evs hne heq; simp only [heq] at h1; exact h1
  | dropNew old => simp only [stepCP]; exact SlotStep.same (fun _ => by simp)
  | cx old => simp only [stepCP]; (repeat' split) <;> exact SlotStep.same (fun _ => by simp)
  | pay old pp =>
    have h1 := stepPP_slot cfg old.ptr c s l b pp hb hk
    simp only [stepCP]
    split
    · rename_i s' l' evs heq; simp only [heq] at h1; exact h1
    · rename_i s' l' pp' evs hne heq; simp only [heq] at h1; exact h1
  | decOld old => simp only [stepCP]; exact SlotStep.same (fun _ => by simp)
  | dropOld gd =>
    have h1 := stepGD_slot s gd
    simp only [stepCP]
    split
    · rename_i s' evs heq; simp only [heq] at h1; exact h1.mono (fun _ _ h => h.elim)
    · rename_i s' gd' evs hne heq; simp only [heq] at h1; exact h1.mono (fun _ _ h => h.elim)
  | done old => simp only [stepCP]; exact SlotStep.same (fun _ => rfl)


theorem stepRP_slot (cfg : Cfg) (c : Nat) (s : Shared) (l : Locals) (b : Bool) (tries : Nat) (rp : RP)
    (hb : Beyond s) (hk : rp.okN s l) :
    SlotStep s (stepRP cfg c s l b tries rp).1 (AtSwap l rp.lp?) := by
  cases rp with
  | load ld =>
    have h1 := stepLP_slot cfg c s l b ld hb hk.2.1
    simp only [stepRP]
    split
    · rename_i s' l' p d evs heq; simp only [heq] at h1; exact h1
    · rename_i s' l' ld' evs hne heq; simp only [heq] at h1; exact h1
  | attempt cur =>
    simp only [stepRP]
    refine SlotStep.same (fun n => ?_)
    simp only [alloc]; split <;> simp
  | cas cur x cp =>
    have h1 := stepCP_slot cfg c cur.ptr x s l b cp hb hk
    simp only [stepRP]
    split
    · rename_i s' l' prev evs heq; simp only [heq] at h1
      intro n i
      rcases h1 n i with h | h | h
      · left; (repeat' split) <;> exact h
      · right; left; (repeat' split) <;> exact h
      · exact Or.inr (Or.inr h)
    · rename_i s' l' cp' evs hne heq; simp only [heq] at h1; exact h1
  | intoPrev cur prev gi =>
    have h1 := stepGI_slot s gi
    simp only [stepRP]
    split
    · rename_i s' evs heq; simp only [heq] at h1
      intro n i
      rcases h1 n i with h | h | h
      · left; (repeat' split) <;> exact h
      · right; left; (repeat' split) <;> exact h
      · exact h.elim
    · rename_i s' gi' evs hne heq; simp only [heq] at h1; exact h1.mono (fun _ _ h => h.elim)
  | dropCur res gd =>
    have h1 := stepGD_slot s gd
    simp only [stepRP]
    split
    · rename_i s' evs heq; simp only [heq] at h1; exact h1.mono (fun _ _ h => h.elim)
    · rename_i s' gd' evs hne heq; simp only [heq] at h1; exact h1.mono (fun _ _ h => h.elim)
  | dropCurLoop prev gd =>
    have h1 := stepGD_slot s gd
    simp only [stepRP]
    split
    · rename_i s' evs heq; simp only [heq] at h1; exact h1.mono (fun _ _ h => h.elim)
    · rename_i s' gd' evs hne heq; simp only [heq] at h1; exact h1.mono (fun _ _ h => h.elim)
  | done r => simp only [stepRP]; exact SlotStep.same (fun _ => rfl)


theorem microStep_slot (st : State) (t : Nat) (b : Bool) (hb : Beyond st.sh)
    (hk : (st.th t).op.okN st.sh (st.th t).loc) :
    SlotStep st.sh (microStep st t b).1.sh (AtSwap (st.th t).loc (st.th t).op.lp?) := by
  cases hop : (st.th t).op with
  | finished => simp only [microStep, hop]; exact SlotStep.same (fun _ => rfl)
  | idle =>
    simp only [microStep, hop]
    split
    · exact SlotStep.same (fun _ => rfl)
    · rename_i txt o rest hp
      have h1 := (beginOp_probe { st with th := upd st.th t { prog := rest, op := .idle, loc := (st.th t).loc } } t o).1
      exact SlotStep.same h1
  | exitCool cd =>
    have h1 := stepCD_fast st.sh cd
    simp only [microStep, hop]
    split
    · rename_i s' evs heq; simp only [heq] at h1; exact SlotStep.same h1
    · rename_i s' cd' evs hne heq; simp only [heq] at h1; exact SlotStep.same h1
  | load c g ld =>
    rw [hop] at hk
    have h1 := stepLP_slot st.cfg c st.sh (st.th t).loc b ld hb hk.2.1
    simp only [microStep, hop]
    split
    · rename_i s' l' p d evs heq; simp only [heq] at h1; exact h1
    · rename_i s' l' ld' evs hne heq; simp only [heq] at h1; exact h1
  | loadFull c x ld =>
    rw [hop] at hk
    have h1 := stepLP_slot st.cfg c st.sh (st.th t).loc b ld hb hk.2.1
    simp only [microStep, hop]
    split
    · rename_i s' l' p d evs heq; simp only [heq] at h1
      split <;> exact h1
    · rename_i s' l' ld' evs hne heq; simp only [heq] at h1; exact h1
  | loadFullInto c x r gi =>
    have h1 := stepGI_slot st.sh gi
    simp only [microStep, hop]
    split
    · rename_i s' evs heq; simp only [heq] at h1; exact h1.mono (fun _ _ h => h.elim)
    · rename_i s' gi' evs hne heq; simp only [heq] at h1; exact h1.mono (fun _ _ h => h.elim)
  | cloneh x y a0 => simp only [microStep, hop]; exact SlotStep.same (fun n => by simp [incObj_fast])
  | droph a0 => simp only [microStep, hop]; exact SlotStep.same (fun n => by simp [decObj_fast])
  | dropg gd =>
    have h1 := stepGD_slot st.sh gd
    simp only [microStep, hop]
    split
    · rename_i s' evs heq; simp only [heq] at h1; exact h1.mono (fun _ _ h => h.elim)
    · rename_i s' gd' evs hne heq; simp only [heq] at h1; exact h1.mono (fun _ _ h => h.elim)
  | ginto x p gi =>
    have h1 := stepGI_slot st.sh gi
    simp only [microStep, hop]
    split
    · rename_i s' evs heq; simp only [heq] at h1; exact h1.mono (fun _ _ h => h.elim)
    · rename_i s' gi' evs hne heq; simp only [heq] at h1; exact h1.mono (fun _ _ h => h.elim)
  | swapSw c a0 out isStore =>
    simp only [microStep, hop]
    split
    · exact SlotStep.same (fun n => by simp [Shared.writeCell])
    · exact SlotStep.same (fun _ => rfl)
  | swapPay c out old isStore pp =>
    rw [hop] at hk
    have h1 := stepPP_slot st.cfg old c st.sh (st.th t).loc b pp hb hk
    simp only [microStep, hop]
    split
    · rename_i s' l' evs heq; simp only [heq] at h1
      (repeat' split) <;> exact h1
    · rename_i s' l' pp' evs hne heq; simp only [heq] at h1; exact h1
  | swapDrop c old => simp only [microStep, hop]; exact SlotStep.same (fun n => by simp [decObj_fast])
  | cas c cur keep curPtr new g cp =>
    rw [hop] at hk
    have h1 := stepCP_slot st.cfg c curPtr new st.sh (st.th t).loc b cp hb hk
    simp only [microStep, hop]
    split
    · rename_i s' l' old evs heq; simp only [heq] at h1
      cases cur <;> cases keep <;> exact h1
    · rename_i s' l' cp' evs hne heq; simp only [heq] at h1; exact h1
  | rcu c out tries rp =>
    rw [hop] at hk
    have h1 := stepRP_slot st.cfg c st.sh (st.th t).loc b tries rp hb hk
    simp only [microStep, hop]
    split
    · rename_i s' l' r tries' evs heq; simp only [heq] at h1; exact h1
    · rename_i s' l' rp' tries' evs hne heq; simp only [heq] at h1; exact h1
  | cinto c x p pp =>
    rw [hop] at hk
    have h1 := stepPP_slot st.cfg p c st.sh (st.th t).loc b pp hb hk
    simp only [microStep, hop]
    split
    · rename_i s' l' evs heq; simp only [heq] at h1; exact h1
    · rename_i s' l' pp' evs hne heq; simp only [heq] at h1; exact h1
  | dropc c p pp =>
    rw [hop] at hk
    have h1 := stepPP_slot st.cfg p c st.sh (st.th t).loc b pp hb hk
    simp only [microStep, hop]
    split
    · rename_i s' l' evs heq; simp only [heq] at h1
      (repeat' split) <;> exact h1
    · rename_i s' l' pp' evs hne heq; simp only [heq] at h1; exact h1
  | dropcDec c p => simp only [microStep, hop]; exact SlotStep.same (fun n => by simp [decObj_fast])


end M
