import ArcSwapModel.M.Frame

/-!
# A fault, once raised, stays: a fault-free state has a fault-free past

Every step either leaves the fault flag alone or raises one through `setFault`, which never clears
an existing fault.  So "the execution ended without a fault" implies "no intermediate state had a
fault", which lets invariants be stated for fault-free states only.
-/

namespace M

theorem setFault_none_iff (s : Shared) (f : Fault) : (s.setFault f).fault = none ↔ False := by
  unfold Shared.setFault; split <;> simp_all

theorem fault_of_setFault (s : Shared) (f : Fault) (h : (s.setFault f).fault = none) : s.fault = none :=
  absurd h (by unfold Shared.setFault; split <;> simp_all)

theorem incObj_fault_mono (s : Shared) (a : Nat) (h : (incObj s a).1.fault = none) : s.fault = none := by
  simp only [incObj] at h; split at h
  · exact h
  · exact fault_of_setFault _ _ h

theorem decObj_fault_mono (s : Shared) (a : Nat) (h : (decObj s a).1.fault = none) : s.fault = none := by
  simp only [decObj] at h; (repeat' split at h) <;> first | exact h | exact fault_of_setFault _ _ h

theorem ite_setFault_mono (x : Shared) (c : Prop) [Decidable c] (f : Fault)
    (h : (if c then x else x.setFault f).fault = none) : x.fault = none := by
  split at h
  · exact h
  · exact fault_of_setFault _ _ h

theorem dbgInUse_fault_mono (s : Shared) (n : Nat) (site : String) (h : (dbgInUse s n site).fault = none) :
    s.fault = none := by
  unfold dbgInUse at h; exact ite_setFault_mono s _ _ h

theorem stepNG_fault_mono (s : Shared) (b : Bool) (ng : NG) (h : (stepNG s b ng).1.fault = none) : s.fault = none := by
  rcases stepNG_fault s b ng with e | ⟨e, _⟩
  · rw [e] at h; exact h
  · rw [e] at h; exact fault_of_setFault _ _ h

theorem stepCD_fault_mono (s : Shared) (cd : CD) (h : (stepCD s cd).1.fault = none) : s.fault = none := by
  cases cd <;> simp only [stepCD] at h
  · simpa using h
  · have := ite_setFault_mono _ _ _ h; simpa using this
  · simpa using h
  · exact h

theorem stepGD_fault_mono (s : Shared) (gd : GD) (h : (stepGD s gd).1.fault = none) : s.fault = none := by
  cases gd <;> simp only [stepGD] at h
  · split at h <;> simpa using h
  · exact decObj_fault_mono _ _ h
  · exact h

theorem stepGI_fault_mono (s : Shared) (gi : GI) (h : (stepGI s gi).1.fault = none) : s.fault = none := by
  cases gi <;> simp only [stepGI] at h
  · exact incObj_fault_mono _ _ h
  · split at h <;> simpa using h
  · exact decObj_fault_mono _ _ h
  · exact h

end M

namespace M

/-! ## The exact form: an existing fault is kept by every step -/

theorem incObj_keep (s : Shared) (a : Nat) (f : Fault) (h : s.fault = some f) : (incObj s a).1.fault = some f := by
  simp only [incObj]; split <;> simp [Shared.setFault, h]

theorem decObj_keep (s : Shared) (a : Nat) (f : Fault) (h : s.fault = some f) : (decObj s a).1.fault = some f := by
  simp only [decObj]; (repeat' split) <;> simp [Shared.setFault, h]

theorem stepNG_keep (s : Shared) (b : Bool) (ng : NG) (f : Fault) (h : s.fault = some f) :
    (stepNG s b ng).1.fault = some f := by
  rcases stepNG_fault s b ng with e | ⟨e, _⟩
  · rw [e]; exact h
  · rw [e]; exact setFault_fault_of_some _ _ _ h

theorem stepCD_keep (s : Shared) (cd : CD) (f : Fault) (h : s.fault = some f) : (stepCD s cd).1.fault = some f := by
  cases cd <;> simp only [stepCD] <;> (try split) <;> simp [Shared.setFault, h]

theorem stepGD_keep (s : Shared) (gd : GD) (f : Fault) (h : s.fault = some f) : (stepGD s gd).1.fault = some f := by
  cases gd <;> simp only [stepGD] <;> (try split) <;> simp [h, decObj_keep s _ f h]

theorem stepGI_keep (s : Shared) (gi : GI) (f : Fault) (h : s.fault = some f) : (stepGI s gi).1.fault = some f := by
  cases gi <;> simp only [stepGI] <;> (try split) <;> simp [h, decObj_keep s _ f h, incObj_keep s _ f h]

theorem stepLP_keep (cfg : Cfg) (c : Nat) (s : Shared) (l : Locals) (b : Bool) (lp : LP) (f : Fault)
    (h : s.fault = some f) : (stepLP cfg c s l b lp).1.fault = some f := by
  cases lp with
  | get ng => have := stepNG_keep s b ng f h; simp only [stepLP]; split <;> simp_all
  | reget ng => have := stepNG_keep s b ng f h; simp only [stepLP]; split <;> simp_all
  | cool cd => have := stepCD_keep s cd f h; simp only [stepLP]; split <;> simp_all
  | _ =>
    simp only [stepLP] <;> (repeat' split) <;>
      simp [Shared.setFault, dbgInUse, h, decObj_keep s _ f h, incObj_keep s _ f h] <;>
      (repeat' split) <;> simp [Shared.setFault, h]

theorem stepPP_keep (cfg : Cfg) (p c : Nat) (s : Shared) (l : Locals) (b : Bool) (pp : PP) (f : Fault)
    (h : s.fault = some f) : (stepPP cfg p c s l b pp).1.fault = some f := by
  cases pp with
  | get ng => have := stepNG_keep s b ng f h; simp only [stepPP]; split <;> simp_all
  | hload x ld => have := stepLP_keep cfg c s l b ld f h; simp only [stepPP]; split <;> simp_all
  | hinto x r gi => have := stepGI_keep s gi f h; simp only [stepPP]; split <;> simp_all
  | _ =>
    simp only [stepPP] <;> (repeat' split) <;>
      simp [Shared.setFault, dbgInUse, h, decObj_keep s _ f h, incObj_keep s _ f h] <;>
      (repeat' split) <;> simp [Shared.setFault, h]

theorem stepCP_keep (cfg : Cfg) (c cur new : Nat) (s : Shared) (l : Locals) (b : Bool) (cp : CP) (f : Fault)
    (h : s.fault = some f) : (stepCP cfg c cur new s l b cp).1.fault = some f := by
  cases cp with
  | load ld => have := stepLP_keep cfg c s l b ld f h; simp only [stepCP]; split <;> simp_all
  | pay old pp => have := stepPP_keep cfg old.ptr c s l b pp f h; simp only [stepCP]; split <;> simp_all
  | dropOld gd => have := stepGD_keep s gd f h; simp only [stepCP]; split <;> simp_all
  | _ =>
    simp only [stepCP] <;> (repeat' split) <;>
      simp [Shared.setFault, Shared.writeCell, h, decObj_keep s _ f h]

theorem stepRP_keep (cfg : Cfg) (c : Nat) (s : Shared) (l : Locals) (b : Bool) (tries : Nat) (rp : RP) (f : Fault)
    (h : s.fault = some f) : (stepRP cfg c s l b tries rp).1.fault = some f := by
  cases rp with
  | load ld => have := stepLP_keep cfg c s l b ld f h; simp only [stepRP]; split <;> simp_all
  | cas cur a cp => have := stepCP_keep cfg c cur.ptr a s l b cp f h; simp only [stepRP]; (repeat' split) <;> simp_all
  | intoPrev cur prev gi => have := stepGI_keep s gi f h; simp only [stepRP]; split <;> simp_all
  | dropCur res gd => have := stepGD_keep s gd f h; simp only [stepRP]; split <;> simp_all
  | dropCurLoop prev gd => have := stepGD_keep s gd f h; simp only [stepRP]; split <;> simp_all
  | attempt cur => simp only [stepRP]; split <;> simp [alloc, Shared.setFault, h]
  | done r => simp [stepRP, h]

end M

namespace M

theorem beginOp_keep (st : State) (t : Nat) (o : Op) (f : Fault) (h : st.sh.fault = some f) :
    (beginOp st t o).1.sh.fault = some f := by
  cases o <;> simp only [beginOp] <;> (repeat' split) <;> simp [alloc, Shared.setFault, h]

theorem microStep_keep (st : State) (t : Nat) (b : Bool) (f : Fault) (h : st.sh.fault = some f) :
    (microStep st t b).1.sh.fault = some f := by
  cases hop : (st.th t).op with
  | finished => simp [microStep, hop, h]
  | idle =>
    simp only [microStep, hop]
    split
    · exact h
    · exact beginOp_keep _ t _ f h
  | exitCool cd => have := stepCD_keep st.sh cd f h; simp only [microStep, hop]; split <;> simp_all
  | load c g ld =>
    have := stepLP_keep st.cfg c st.sh (st.th t).loc b ld f h; simp only [microStep, hop]; split <;> simp_all
  | loadFull c x ld =>
    have := stepLP_keep st.cfg c st.sh (st.th t).loc b ld f h
    simp only [microStep, hop]; (repeat' split) <;> simp_all
  | loadFullInto c x r gi => have := stepGI_keep st.sh gi f h; simp only [microStep, hop]; split <;> simp_all
  | cloneh x y a => simp [microStep, hop, incObj_keep st.sh a f h]
  | droph a => simp [microStep, hop, decObj_keep st.sh a f h]
  | dropg gd => have := stepGD_keep st.sh gd f h; simp only [microStep, hop]; split <;> simp_all
  | ginto x p gi => have := stepGI_keep st.sh gi f h; simp only [microStep, hop]; split <;> simp_all
  | swapSw c a out i => simp only [microStep, hop]; split <;> simp [Shared.writeCell, h]
  | swapPay c out old i pp =>
    have := stepPP_keep st.cfg old c st.sh (st.th t).loc b pp f h
    simp only [microStep, hop]; (repeat' split) <;> simp_all
  | swapDrop c old => simp [microStep, hop, decObj_keep st.sh old f h]
  | cas c cur keep curPtr new g cp =>
    have := stepCP_keep st.cfg c curPtr new st.sh (st.th t).loc b cp f h
    simp only [microStep, hop]
    split
    · rename_i heq; simp only [heq] at this
      cases cur <;> cases keep <;> simpa using this
    · rename_i heq; simp only [heq] at this; simpa using this
  | rcu c out tries rp =>
    have := stepRP_keep st.cfg c st.sh (st.th t).loc b tries rp f h
    simp only [microStep, hop]; split <;> simp_all
  | cinto c x p pp =>
    have := stepPP_keep st.cfg p c st.sh (st.th t).loc b pp f h
    simp only [microStep, hop]; split <;> simp_all
  | dropc c p pp =>
    have := stepPP_keep st.cfg p c st.sh (st.th t).loc b pp f h
    simp only [microStep, hop]; (repeat' split) <;> simp_all
  | dropcDec c p => simp [microStep, hop, decObj_keep st.sh p f h]

/-- a fault-free state has a fault-free past -/
theorem microStep_fault_mono (st : State) (t : Nat) (b : Bool) (h : (microStep st t b).1.sh.fault = none) :
    st.sh.fault = none := by
  cases hf : st.sh.fault with
  | none => rfl
  | some f => rw [microStep_keep st t b f hf] at h; cases h

end M
