import ArcSwapModel.Inv.HazH3
import ArcSwapModel.Inv.Touch3

/-!
# The fallback's increment touches a live object

The helping-slot hazard invariant along the executions of the ledger (`EnvRun0`: in particular no
hand-over succeeds), and with it the one case `touched_object_alive` leaves out: at the step at
which the fallback path takes its own reference to the candidate it has confirmed, the candidate
has not been destroyed.  Hence *every* step that touches a reference count touches a live object.
-/

namespace M
open Consts

structure HazHAll (N T : Nat) (st : State) (L : List Nat) : Prop where
  d : HazAllD N T st L
  ctl : CtlInv st
  aa : ActAddr st
  h : HazH N st L

theorem HazHAll.initial (N T : Nat) (cfg : Cfg) (progs : Nat → List (String × Op)) :
    HazHAll N T (State.initial cfg progs) [] :=
  ⟨HazAllD.initial N T cfg progs, CtlInv.initial cfg progs,
   (fun o n c lp hl => by simp [State.initial, OpSt.lp?] at hl), HazH.initial N cfg progs⟩

theorem HazHAll.step {N T : Nat} {st : State} {L : List Nat} (h : HazHAll N T st L) (t : Nat) (ht : t < T) (b : Bool)
    (htame : Tame2 N st t) (hne : NoEnv st.sh) (hne' : NoEnv (microStep st t b).1.sh)
    (hf' : (microStep st t b).1.sh.fault = none) : ∃ pre, HazHAll N T (microStep st t b).1 (pre ++ L) := by
  obtain ⟨pre, hpre⟩ := h.d.step t ht b htame
  exact ⟨pre, hpre, h.ctl.step t b h.d.node.nodes h.d.node.th h.d.own hf', h.aa.step h.d.own h.d.node t b,
    h.h.step h.d.haz.named h.d.own h.d.node h.d.walk h.d.cx h.d.busy h.ctl h.aa hne t b hne' hf' htame pre⟩

theorem HazHAll.run {K N T : Nat} {st : State} {L : List Nat} (h : HazHAll N T st L) (sched : List (Nat × Bool))
    (he : EnvRun0 K N T st sched) (hf : (run st sched).sh.fault = none) : ∃ L', HazHAll N T (run st sched) L' := by
  induction sched generalizing st L with
  | nil => exact ⟨L, h⟩
  | cons x rest ih =>
    obtain ⟨t, b⟩ := x
    obtain ⟨ht, h1, hrest⟩ := he
    have hf1 : (microStep st t b).1.sh.fault = none := run_fault_mono _ rest hf
    obtain ⟨pre, hpre⟩ := h.step t ht b (fun _ txt o rest' hp => h1.next txt o rest' hp) h1.noEnv h1.noEnvAfter hf1
    exact ih hpre hrest hf

theorem nodes_below_run {K N T : Nat} {st : State} (sched : List (Nat × Bool)) (he : EnvRun0 K N T st sched)
    (h0 : st.sh.nNodes ≤ K) : (run st sched).sh.nNodes ≤ K := by
  induction sched generalizing st with
  | nil => exact h0
  | cons x rest ih => obtain ⟨t, b⟩ := x; exact ih he.2.2 he.2.1.nodesBelow

theorem PP.hholds_of_lp {pp : PP} {ld : LP} {n a : Nat} {l : Locals} (h1 : pp.lp? = some ld) (h2 : ld.hholds n a l) :
    pp.hholds n a l := by
  cases pp <;> first | (cases h1; done) | (simp only [PP.lp?, Option.some.injEq] at h1; subst h1; exact h2)
theorem CP.hholds_of_lp {cp : CP} {ld : LP} {n a : Nat} {l : Locals} (h1 : cp.lp? = some ld) (h2 : ld.hholds n a l) :
    cp.hholds n a l := by
  cases cp <;> first
    | (cases h1; done)
    | (simp only [CP.lp?, Option.some.injEq] at h1; subst h1; exact h2)
    | exact PP.hholds_of_lp h1 h2
theorem RP.hholds_of_lp {rp : RP} {ld : LP} {n a : Nat} {l : Locals} (h1 : rp.lp? = some ld) (h2 : ld.hholds n a l) :
    rp.hholds n a l := by
  cases rp <;> first
    | (cases h1; done)
    | (simp only [RP.lp?, Option.some.injEq] at h1; subst h1; exact h2)
    | exact CP.hholds_of_lp h1 h2
theorem OpSt.hholds_of_lp {op : OpSt} {ld : LP} {n a : Nat} {l : Locals} (h1 : op.lp? = some ld) (h2 : ld.hholds n a l) :
    op.hholds n a l := by
  cases op <;> first
    | (cases h1; done)
    | (simp only [OpSt.lp?, Option.some.injEq] at h1; subst h1; exact h2)
    | exact PP.hholds_of_lp h1 h2
    | exact CP.hholds_of_lp h1 h2
    | exact RP.hholds_of_lp h1 h2

/-- **the candidate the fallback path has confirmed is alive when the reader takes its own
    reference** (`T::inc` in `HybridProtection::fallback`, the step `LP.fokInc`): along every
    execution that satisfies the ledger's assumptions — in particular, no hand-over succeeds — and
    has raised no fault -/
theorem fallback_candidate_alive (K N T : Nat) (hK : 0 < K) (cfg : Cfg) (progs : Nat → List (String × Op))
    (sched : List (Nat × Bool)) (he : EnvRun0 K N T (State.initial cfg progs) sched)
    (hf : (run (State.initial cfg progs) sched).sh.fault = none) (a : Nat) (ha : a ≠ 0)
    (t : Nat) (ht : t < T)
    (hlp : ((run (State.initial cfg progs) sched).th t).op.lp? = some (.fokInc a)) :
    1 ≤ ((run (State.initial cfg progs) sched).sh.heap a).cnt ∧
      ((run (State.initial cfg progs) sched).sh.heap a).live = true := by
  suffices hcnt : 1 ≤ ((run (State.initial cfg progs) sched).sh.heap a).cnt from
    ⟨hcnt, HeapOk.reachable ⟨cfg, progs, sched, rfl⟩ a hcnt⟩
  obtain ⟨L, hL⟩ := (HazHAll.initial N T cfg progs).run sched he hf
  -- the reader has a node
  have hokn := OpSt.okN_lp (hL.d.node.th t) hlp
  obtain ⟨n, hnode⟩ := Option.isSome_iff_exists.mp (hokn.2.1 rfl)
  have hnK : n < K := by
    have h1 := OpSt.okN_lt (hL.d.node.th t) n hnode
    have h2 := nodes_below_run sched he (Nat.zero_le K)
    omega
  have hhold : ((run (State.initial cfg progs) sched).th t).op.hholds n a ((run (State.initial cfg progs) sched).th t).loc :=
    OpSt.hholds_of_lp hlp ⟨hnode, rfl⟩
  have hmem := OpSt.claims_of_hholds hhold
  by_cases hs : ((run (State.initial cfg progs) sched).sh.nodes n).hslot = .ptr a
  · -- the slot still names the candidate: the hazard invariant
    have of_cons : ∀ o c, ((run (State.initial cfg progs) sched).th o).op.consWalk c a →
        1 ≤ ((run (State.initial cfg progs) sched).sh.heap a).cnt := by
      intro o c hcw
      obtain ⟨hcons, hcell⟩ := OpSt.consWalk_cons hcw
      exact stored_value_counted K N T hK cfg progs sched he hf a ha c (hL.d.busy.consN o c hcons hcell)
        (hL.d.busy.ccell o c a hcw)
    have of_walk : ∀ w pp, ((run (State.initial cfg progs) sched).th w).op.walkC? = some (a, pp) →
        1 ≤ ((run (State.initial cfg progs) sched).sh.heap a).cnt := by
      intro w pp hw
      rcases OpSt.walkC_cases hw with hw' | ⟨c, hcw, _⟩
      · exact walked_value_counted K N T hK cfg progs sched he hf a ha w pp hw'
      · exact of_cons w c hcw
    rcases hL.h.haz t n a _ hlp rfl hnode hs with ⟨c, hc, hcell, _⟩ | ⟨w, pp, hw, _⟩ | ⟨_, pp, hw⟩
    · exact stored_value_counted K N T hK cfg progs sched he hf a ha c hc hcell
    · exact of_walk w pp hw
    · exact of_walk t pp hw
  · -- a writer has paid the debt: the reader's claim is matched by no slot
    have hl := C02_ledger_final K N T hK cfg progs sched he hf a ha
    have h1 := holdInv_of_env cfg progs sched he hf
    have h2 := HHoldInv.reachable ⟨cfg, progs, sched, rfl⟩ hf
    have hgb : GregBelow N (run (State.initial cfg progs) sched).sh.greg :=
      gregBelow_run N sched (RegRun.of_env he) (fun _ _ => rfl)
    have hib : IdleBeyond T (run (State.initial cfg progs) sched) :=
      idleBeyond_run sched he (fun _ _ => rfl)
    have hG : sumN (fun g => (gClaims a ((run (State.initial cfg progs) sched).sh.greg g)).length) N ≤
        sumN (fun g => gU ((run (State.initial cfg progs) sched).sh.greg g) a) N :=
      sumN_le (fun g _ => gClaims_len _ a)
    have hT : sumN (fun t => (((run (State.initial cfg progs) sched).th t).op.claims a
          ((run (State.initial cfg progs) sched).th t).loc).length) T ≤
        threadsU T (run (State.initial cfg progs) sched) a :=
      sumN_le (fun t _ => OpSt.claims_len _ _ a)
    have c1 : 1 ≤ cnt2 (((run (State.initial cfg progs) sched).th t).op.claims a
        ((run (State.initial cfg progs) sched).th t).loc) n slotCnt := cnt2_pos hmem
    have s1 := @sumN_term (fun t => cnt2 (((run (State.initial cfg progs) sched).th t).op.claims a
        ((run (State.initial cfg progs) sched).th t).loc) n slotCnt) T t ht
    have e1 : named ((run (State.initial cfg progs) sched).sh.nodes n) a slotCnt = 0 := by
      simp only [named, Nat.lt_irrefl, ↓reduceIte, ind, hs]
    have hocc := occ_lt_claims K N T _ a h1 h2 hgb hib n slotCnt hnK (by omega) (by omega)
    simp only [pot, Shared.regs, regs] at hl
    omega

/-- **every step that touches a reference count touches a live, counted object** — the statement
    of `touched_object_alive` without its exception -/
theorem touched_object_alive_all (K N T : Nat) (hK : 0 < K) (cfg : Cfg) (progs : Nat → List (String × Op))
    (sched : List (Nat × Bool)) (he : EnvRun0 K N T (State.initial cfg progs) sched)
    (hf : (run (State.initial cfg progs) sched).sh.fault = none) (a : Nat) (ha : a ≠ 0)
    (t : Nat) (ht : t < T)
    (htouch : ((run (State.initial cfg progs) sched).th t).op.touch = some a) :
    1 ≤ ((run (State.initial cfg progs) sched).sh.heap a).cnt ∧
      ((run (State.initial cfg progs) sched).sh.heap a).live = true := by
  by_cases hnh : ((run (State.initial cfg progs) sched).th t).op.lp? = some (.fokInc a)
  · exact fallback_candidate_alive K N T hK cfg progs sched he hf a ha t ht hnh
  · exact touched_object_alive K N T hK cfg progs sched he hf a ha t ht htouch hnh

/-- **no reference count is touched after destruction**, the fallback path's increment included -/
theorem count_step_no_fault_all (K N T : Nat) (hK : 0 < K) (cfg : Cfg) (progs : Nat → List (String × Op))
    (sched : List (Nat × Bool)) (he : EnvRun0 K N T (State.initial cfg progs) sched)
    (hf : (run (State.initial cfg progs) sched).sh.fault = none) (a : Nat) (ha : a ≠ 0)
    (t : Nat) (ht : t < T) (b : Bool)
    (htouch : ((run (State.initial cfg progs) sched).th t).op.touch = some a) :
    (microStep (run (State.initial cfg progs) sched) t b).1.sh.fault = none := by
  obtain ⟨hc, hl⟩ := touched_object_alive_all K N T hK cfg progs sched he hf a ha t ht htouch
  exact microStep_touch_fault _ t b a htouch hl hc hf


/-- **inside the window the candidate is protected**: while a reader of the fallback path is
    between the read of its candidate and the end of its window, the candidate is still the content
    of the container it was read from, or a writer that took it out of that very container is
    walking the list and has not got past the help on the reader's node — it has not reached the
    node, or it is inside `help` on it, having read either nothing yet or the reader's generation -/
theorem candidate_protected_in_window (K N T : Nat) (cfg : Cfg) (progs : Nat → List (String × Op))
    (sched : List (Nat × Bool)) (he : EnvRun0 K N T (State.initial cfg progs) sched)
    (hf : (run (State.initial cfg progs) sched).sh.fault = none)
    (o n c g a : Nat) (lp : LP) (hlp : ((run (State.initial cfg progs) sched).th o).op.lp? = some lp)
    (hcand : lp.cand? = some (g, a)) (hnode : ((run (State.initial cfg progs) sched).th o).loc.node = some n)
    (hcell : ((run (State.initial cfg progs) sched).th o).op.cell? = some c) :
    (run (State.initial cfg progs) sched).sh.cells c = some a ∨
      ∃ w pp L, ((run (State.initial cfg progs) sched).th w).op.walkC? = some (a, pp) ∧
        ((run (State.initial cfg progs) sched).th w).op.cell? = some c ∧ pp.preHelp L n g := by
  obtain ⟨L, hL⟩ := (HazHAll.initial N T cfg progs).run sched he hf
  rcases hL.h.cand o n c g a lp hlp hcand hnode hcell with h | ⟨_, w, pp, h1, h2, h3⟩
  · exact Or.inl h
  · exact Or.inr ⟨w, pp, L, h1, h2, h3⟩

/-- **a confirmed helping slot protects its value**: while the reader holds its confirmed candidate
    in the helping slot of its node and has not taken its own reference yet, the value is in a
    container nobody is destroying, or a writer that took it out has the slot still ahead of its
    walk, or the reader is the destroyer of the container that holds it -/
theorem confirmed_hslot_protected (K N T : Nat) (cfg : Cfg) (progs : Nat → List (String × Op))
    (sched : List (Nat × Bool)) (he : EnvRun0 K N T (State.initial cfg progs) sched)
    (hf : (run (State.initial cfg progs) sched).sh.fault = none)
    (o n a : Nat) (lp : LP) (hlp : ((run (State.initial cfg progs) sched).th o).op.lp? = some lp)
    (hconf : lp.confirmed a) (hnode : ((run (State.initial cfg progs) sched).th o).loc.node = some n)
    (hs : ((run (State.initial cfg progs) sched).sh.nodes n).hslot = .ptr a) :
    (∃ c, c < N ∧ (run (State.initial cfg progs) sched).sh.cells c = some a ∧
        (run (State.initial cfg progs) sched).ctaken c = false) ∨
      (∃ w pp L, ((run (State.initial cfg progs) sched).th w).op.walkC? = some (a, pp) ∧ pp.ahead L n slotCnt) ∨
      (((run (State.initial cfg progs) sched).th o).op.cons = true ∧
        ∃ pp, ((run (State.initial cfg progs) sched).th o).op.walkC? = some (a, pp)) := by
  obtain ⟨L, hL⟩ := (HazHAll.initial N T cfg progs).run sched he hf
  rcases hL.h.haz o n a lp hlp hconf hnode hs with h | ⟨w, pp, h1, h2⟩ | h
  · exact Or.inl h
  · exact Or.inr (Or.inl ⟨w, pp, L, h1, h2⟩)
  · exact Or.inr (Or.inr h)

/-- thread 0 (fallback path only) creates a value and a container and loads from it; thread 1
    creates another value and stores it -/
def hazExH : State := State.initial { useFast := false } (fun t =>
  if t = 0 then [("new h0 5", .new 0 5), ("mk c0 h0", .mk 0 0), ("load c0 g0", .load 0 0)]
  else if t = 1 then [("new h1 6", .new 1 6), ("store c0 h1", .store 0 1)] else [])
def hazSchedH : List (Nat × Bool) := List.replicate 13 (0, false) ++ List.replicate 9 (1, false) ++ [(0, false)]

/-- non-vacuity: thread 0 reads its candidate (value 1) and publishes it in its helping slot;
    thread 1 then replaces the content of the container and starts its walk; thread 0 ends its
    window: it is about to take its own reference to value 1 (`fokInc 1`), which is in no container
    any more (the container holds 2) and is named by the helping slot of node 0; thread 1 is
    walking for value 1 and has not reached the list; no fault, no envelope -/
example : TameRun2 4 2 hazExH hazSchedH ∧ ((run hazExH hazSchedH).th 0).op.lp? = some (.fokInc 1) ∧
    ((run hazExH hazSchedH).th 0).loc.node = some 0 ∧ ((run hazExH hazSchedH).sh.nodes 0).hslot = .ptr 1 ∧
    (run hazExH hazSchedH).sh.cells 0 = some 2 ∧ (run hazExH hazSchedH).sh.fault = none ∧
    ((run hazExH hazSchedH).th 1).op.walkC? = some (1, .inc) ∧
    ((run hazExH hazSchedH).sh.nodes 0).control = .idle ∧ ((run hazExH hazSchedH).sh.nodes 1).control = .idle :=
  ⟨tameRun2_of_B (by decide +kernel), by decide +kernel, by decide +kernel, by decide +kernel, by decide +kernel,
   by decide +kernel, by decide +kernel, by decide +kernel, by decide +kernel⟩

end M
