import ArcSwapModel.Inv.HazH2

/-!
# The hazard invariant for the helping slot

`HazH`: while a reader of the fallback path holds its *confirmed* candidate `a` in the helping slot
of its node (after the end of its window, before it has taken its own reference: `fokInc`,
`fokPay`), `a` is still stored in a container nobody is destroying, or a writer that took `a` out is
walking the list and has the helping slot of that node still ahead (it will pay the debt), or the
reader is itself the destroyer of the container that holds `a` (a nested load of `into_inner` /
`Drop`).  Together with the ledger this is why the fallback's increment touches a live object.
-/

namespace M
open Consts

/-- between the end of the window and the reader's own reference -/
def LP.confirmed (a : Nat) : LP → Prop
  | .fokInc c | .fokPay c => c = a
  | _ => False

theorem stepLP_confirmed (cfg : Cfg) (c : Nat) (s : Shared) (l : Locals) (b : Bool) (lp : LP) (a : Nat)
    (h : (stepLP cfg c s l b lp).2.2.1.confirmed a) :
    (stepLP cfg c s l b lp).2.1.node = l.node ∧ (stepLP cfg c s l b lp).1.cells = s.cells ∧
      ((∃ g, lp = .f5 g a) ∨
        (lp = .fokInc a ∧ ∀ m, ((stepLP cfg c s l b lp).1.nodes m).hslot = (s.nodes m).hslot)) := by
  cases lp with
  | f5 g cand =>
    simp only [stepLP] at h ⊢
    split
    · rename_i hx
      simp only [hx, ↓reduceIte] at h
      have : cand = a := by split at h <;> exact h
      subst this
      exact ⟨rfl, by simp, Or.inl ⟨g, rfl⟩⟩
    · rename_i hx
      simp only [hx, ↓reduceIte] at h
      split at h <;> exact h.elim
  | fokInc cand =>
    simp only [stepLP] at h ⊢
    have : cand = a := h
    subst this
    exact ⟨trivial, incObj_cells s cand, Or.inr ⟨rfl, fun m => incObj_hslot s cand m⟩⟩
  | get ng => simp only [stepLP] at h; (repeat' split at h) <;> exact h.elim
  | reget ng => simp only [stepLP] at h; (repeat' split at h) <;> exact h.elim
  | cool cd => simp only [stepLP] at h; (repeat' split at h) <;> exact h.elim
  | _ => simp only [stepLP] at h <;> (repeat' split at h) <;> exact h.elim

theorem stepPP_hload_ne_done (cfg : Cfg) (p c : Nat) (s : Shared) (l : Locals) (b : Bool) (h : HL) (ld : LP) :
    (stepPP cfg p c s l b (.hload h ld)).2.2.1 ≠ .done := by
  simp only [stepPP]
  (repeat' split) <;> simp

structure HazH (N : Nat) (st : State) (L : List Nat) : Prop where
  cand : CandInv st L
  haz : ∀ o n a lp, (st.th o).op.lp? = some lp → lp.confirmed a → (st.th o).loc.node = some n →
    (st.sh.nodes n).hslot = .ptr a →
    (∃ c, c < N ∧ st.sh.cells c = some a ∧ st.ctaken c = false) ∨
      (∃ w pp, (st.th w).op.walkC? = some (a, pp) ∧ pp.ahead L n slotCnt) ∨
      ((st.th o).op.cons = true ∧ ∃ pp, (st.th o).op.walkC? = some (a, pp))

theorem HazH.initial (N : Nat) (cfg : Cfg) (progs : Nat → List (String × Op)) : HazH N (State.initial cfg progs) [] :=
  ⟨CandInv.initial cfg progs, fun o n a lp h => by simp [State.initial, OpSt.lp?] at h⟩

theorem LP.confirmed_owns {lp : LP} {a : Nat} (l : Locals) (h : lp.confirmed a) : ownsLP l lp = l.node := by
  cases lp <;> first | exact h.elim | rfl

theorem HazH.step {N T : Nat} {st : State} {L : List Nat} (h : HazH N st L) (hnl : NamedLinked st L)
    (ho : OwnInv st) (hn : NodeInv st) (hw : WalkNodeC st) (hx : ∀ t, (st.th t).op.cxok) (hb : BusyInv N T st)
    (hctl : CtlInv st) (haa : ActAddr st) (hne : NoEnv st.sh)
    (t : Nat) (b : Bool) (hne' : NoEnv (microStep st t b).1.sh) (hf' : (microStep st t b).1.sh.fault = none)
    (htame : Tame2 N st t) (pre : List Nat) :
    HazH N (microStep st t b).1 (pre ++ L) := by
  refine ⟨h.cand.step hnl ho hw hx hb hctl haa hne t b hne' htame pre, ?_⟩
  have hoth := (microStep_own st t b).2
  intro o n a lp' hlp hconf hnode hs'
  -- a walk that has the helping slot ahead keeps it ahead (it has not been paid)
  have ahead_keep : ∀ w pp, n ∈ L → (st.th w).op.walkC? = some (a, pp) → pp.ahead L n slotCnt →
      ∃ pp', ((microStep st t b).1.th w).op.walkC? = some (a, pp') ∧ pp'.ahead (pre ++ L) n slotCnt := by
    intro w pp hnL hw1 hah
    by_cases e : w = t
    · subst e
      obtain ⟨c, hnodes, _, hor, _⟩ := microStep_walkC_fwd st w b a pp hw1
      rcases ahead_step_le st.cfg a c st.sh (st.th w).loc b pp L hnl.linked.list.1 n slotCnt hnL (Nat.le_refl _)
        (hw w a pp hw1) hah with h2 | h2
      · rcases hor with h3 | h3
        · exact ⟨_, h3, h2.prepend pre⟩
        · rw [h3] at h2; exact absurd h2 (PP.not_ahead_done L n slotCnt)
      · subst h2
        exfalso
        rw [hnodes] at hs'
        simp only [stepPP, Nat.lt_irrefl, ↓reduceIte] at hs'
        split at hs'
        · simp at hs'
        · rename_i hcur; exact hcur hs'
    · exact ⟨pp, by rw [hoth w e]; exact hw1, hah.prepend pre⟩
  -- a value in a container nobody is destroying stays there, or its writer starts walking
  have cell_keep : ∀ c, c < N → st.sh.cells c = some a → st.ctaken c = false →
      (∃ c, c < N ∧ (microStep st t b).1.sh.cells c = some a ∧ (microStep st t b).1.ctaken c = false) ∨
        (∃ w pp, ((microStep st t b).1.th w).op.walkC? = some (a, pp) ∧ pp.ahead (pre ++ L) n slotCnt) := by
    intro c hcN hc hnt
    have hct : (microStep st t b).1.ctaken c = false ∨ ((microStep st t b).1.th t).op.walkC? = some (a, .start) := by
      rcases microStep_ctaken st t b with h1 | ⟨hidle, c2, hc2, hcons⟩
      · left; rw [h1]; exact hnt
      · rcases microStep_cellq2 st t b c2 hc2 with ⟨h2, _⟩ | ⟨_, _, _, _, _, _, h7⟩
        · rw [hidle] at h2; cases h2
        · obtain ⟨_, h9, p, hp, hor⟩ := h7 hcons
          by_cases e : c = c2
          · subst e
            right
            rw [hc] at hp; cases hp
            rcases hor with ⟨x, hx'⟩ | hx' <;> (rw [hx']; rfl)
          · left; rw [h9]; simp [upd, e, hnt]
    rcases hct with hnt' | hstart
    · by_cases hidle : (st.th t).op = .idle
      · have hcell : (microStep st t b).1.sh.cells c = st.sh.cells c :=
          microStep_cells_other st t b c (by rw [hidle]; intro x; cases x) (fun _ txt x rest hp => by
            have := (htame hidle txt _ rest hp).2 c x rfl
            rw [hc] at this; cases this)
        exact Or.inl ⟨c, hcN, by rw [hcell]; exact hc, hnt'⟩
      · cases hcb : (st.th t).op.cons with
        | true =>
          have hne2 : (st.th t).op.cell? ≠ some c := fun hcc => by
            have := hb.taken t c hcb hcc; rw [hnt] at this; cases this
          have hcell : (microStep st t b).1.sh.cells c = st.sh.cells c :=
            microStep_cells_other st t b c hne2 (fun hi' => absurd hi' hidle)
          exact Or.inl ⟨c, hcN, by rw [hcell]; exact hc, hnt'⟩
        | false =>
          rcases microStep_cells (N := N) st t b (hx t) (fun e' => absurd e' hidle) hcb c a hc with h1 | ⟨h1, _⟩
          · exact Or.inl ⟨c, hcN, h1, hnt'⟩
          · exact Or.inr ⟨t, .start, OpSt.walkC_of_walk h1, PP.ahead_start _ n slotCnt⟩
    · exact Or.inr ⟨t, .start, hstart, PP.ahead_start _ n slotCnt⟩
  by_cases e : o = t
  · subst e
    rcases microStep_lp_back st o b lp' hlp with ⟨lp, c, h1, h2, h3⟩ | h1
    · obtain ⟨c1, hc1, hnodes, hcells, hloc, _⟩ := microStep_lp st o b lp h1
      have ec : c1 = c := by rw [h2] at hc1; cases hc1; rfl
      subst ec
      have hnidle : (st.th o).op ≠ .idle := fun e' => by rw [e'] at h1; cases h1
      have hcons : ((microStep st o b).1.th o).op.cons = (st.th o).op.cons := by
        obtain ⟨c2, hc2⟩ : ∃ c2, ((microStep st o b).1.th o).op.cell? = some c2 := by
          cases hq : ((microStep st o b).1.th o).op <;> first | exact ⟨_, rfl⟩ | (rw [hq] at hlp; cases hlp)
        rcases microStep_cellq2 st o b c2 hc2 with ⟨_, h5⟩ | ⟨h4, _⟩
        · exact h5
        · exact absurd h4 hnidle
      have hkeep : (microStep st o b).1.ctaken = st.ctaken := by
        rcases microStep_ctaken st o b with h4 | ⟨h4, _⟩
        · exact h4
        · exact absurd h4 hnidle
      rw [h3] at hconf
      obtain ⟨hl, hcl, hor⟩ := stepLP_confirmed st.cfg c1 st.sh (st.th o).loc b lp a hconf
      have hnode0 : (st.th o).loc.node = some n := by rw [hloc, hl] at hnode; exact hnode
      have hnL : n ∈ L := hnl.linked.node o n hnode0
      -- the destroyer's own walk goes on
      have self_keep : (st.th o).op.cons = true → ∀ pp, (st.th o).op.walkC? = some (a, pp) →
          ((microStep st o b).1.th o).op.cons = true ∧ ∃ pp', ((microStep st o b).1.th o).op.walkC? = some (a, pp') := by
        intro hcb pp hw1
        refine ⟨by rw [hcons]; exact hcb, ?_⟩
        obtain ⟨c0, p, hh, hshape⟩ := cons_lp_shape hcb h1
        have hpp : pp = .hload hh lp := by
          rcases hshape with ⟨x, hx'⟩ | hx' <;>
            (rw [hx'] at hw1; simp only [OpSt.walkC?, Option.some.injEq, Prod.mk.injEq] at hw1; exact hw1.2.symm)
        subst hpp
        obtain ⟨c', _, _, hor', _⟩ := microStep_walkC_fwd st o b a _ hw1
        rcases hor' with h5 | h5
        · exact ⟨_, h5⟩
        · exact absurd h5 (stepPP_hload_ne_done _ _ _ _ _ _ _ _)
      rcases hor with ⟨g, rfl⟩ | ⟨rfl, hhs⟩
      · -- the window has just ended
        rcases h.cand o n c1 g a _ h1 rfl hnode0 h2 with hq | ⟨hnc, w, pp, hw1, _, hpre⟩
        · cases hcb : (st.th o).op.cons with
          | false =>
            obtain ⟨_, hcN, hnt⟩ := hb.free o c1 h2 hcb
            exact Or.inl ⟨c1, hcN, by rw [hcells, hcl]; exact hq, by rw [hkeep]; exact hnt⟩
          | true =>
            obtain ⟨c0, p, hh, hshape⟩ := cons_lp_shape hcb h1
            have hcw : (st.th o).op.consWalk c0 p := by
              rcases hshape with ⟨x, hx'⟩ | hx' <;> rw [hx']
              · exact Or.inl ⟨x, _, rfl⟩
              · exact Or.inr ⟨_, rfl⟩
            have hcp := hb.ccell o c0 p hcw
            have ec0 : c0 = c1 := by
              have := (OpSt.consWalk_cons hcw).2; rw [h2] at this; cases this; rfl
            subst ec0
            have hpa : p = a := by rw [hq] at hcp; cases hcp; rfl
            subst hpa
            have hw1 : (st.th o).op.walkC? = some (p, .hload hh (.f5 g p)) := by
              rcases hshape with ⟨x, hx'⟩ | hx' <;> (rw [hx']; rfl)
            exact Or.inr (Or.inr (self_keep hcb _ hw1))
        · obtain ⟨pp', h6, h7⟩ := ahead_keep w pp hnL hw1 (hpre.ahead slotCnt)
          exact Or.inr (Or.inl ⟨w, pp', h6, h7⟩)
      · -- the reader has taken its reference; the slot is as it was
        have hs : (st.sh.nodes n).hslot = .ptr a := by rw [hnodes, hhs n] at hs'; exact hs'
        rcases h.haz o n a _ h1 rfl hnode0 hs with ⟨c, hcN, hc, hnt⟩ | ⟨w, pp, hw1, hah⟩ | ⟨hcb, pp, hw1⟩
        · rcases cell_keep c hcN hc hnt with h5 | h5
          · exact Or.inl h5
          · exact Or.inr (Or.inl h5)
        · obtain ⟨pp', h6, h7⟩ := ahead_keep w pp hnL hw1 hah
          exact Or.inr (Or.inl ⟨w, pp', h6, h7⟩)
        · exact Or.inr (Or.inr (self_keep hcb pp hw1))
    · subst h1; exact hconf.elim
  · have hlp0 := hlp
    have hnode00 := hnode
    rw [hoth o e] at hlp hnode ⊢
    have hnL : n ∈ L := hnl.linked.node o n hnode
    have hs : (st.sh.nodes n).hslot = .ptr a := by
      rcases microStep_hhold st t b hn.nodes.slots (hn.th t) hf' n a hs' with ⟨h1, _⟩ | h2
      · exact h1
      · exfalso
        have o1 := owns_of_hholds _ n a h2
        have o2 : ownsT ((microStep st t b).1.th o) = some n := by
          rw [ownsT_of_lp _ _ hlp0, LP.confirmed_owns _ hconf]; exact hnode00
        exact (ho.step t b).excl o t n e o2 o1
    rcases h.haz o n a lp' hlp hconf hnode hs with ⟨c, hcN, hc, hnt⟩ | ⟨w, pp, hw1, hah⟩ | hd
    · rcases cell_keep c hcN hc hnt with h5 | h5
      · exact Or.inl h5
      · exact Or.inr (Or.inl h5)
    · obtain ⟨pp', h6, h7⟩ := ahead_keep w pp hnL hw1 hah
      exact Or.inr (Or.inl ⟨w, pp', h6, h7⟩)
    · exact Or.inr (Or.inr hd)

end M
