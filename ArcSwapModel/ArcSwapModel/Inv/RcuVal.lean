import ArcSwapModel.Inv.Ident

/-!
# `rcu` installs the closure's result on top of the very object it gave to the closure

`RcuVal`: while an `rcu` is between evaluating its closure (`|v| v + 1` in the model) and the
exchange, the object it allocated holds the content of the object it loaded, plus one — the loaded
object is kept alive by the guard `cur`, so its address is not reused and its content is what the
closure saw.  At the exchange the container holds that very address: the installed content is the
replaced content plus one.
-/

namespace M
open Consts

theorem run_append (st : State) (s1 s2 : List (Nat × Bool)) : run st (s1 ++ s2) = run (run st s1) s2 := by
  induction s1 generalizing st with
  | nil => rfl
  | cons x rest ih => obtain ⟨t, b⟩ := x; simp only [List.cons_append, run]; exact ih _

theorem EnvRun0.prefix {K N T : Nat} {st : State} {s1 s2 : List (Nat × Bool)} (h : EnvRun0 K N T st (s1 ++ s2)) :
    EnvRun0 K N T st s1 ∧ EnvRun0 K N T (run st s1) s2 := by
  induction s1 generalizing st with
  | nil => exact ⟨trivial, h⟩
  | cons x rest ih =>
    obtain ⟨t, b⟩ := x
    obtain ⟨ht, h1, h2⟩ := h
    obtain ⟨i1, i2⟩ := ih h2
    exact ⟨⟨ht, h1, i1⟩, i2⟩

/-- the content the closure sees (`0` for the null pointer) -/
def valOf (s : Shared) (p : Nat) : Nat := if p = 0 then 0 else (s.heap p).val

/-- the states of `compare_and_swap` before its exchange -/
def CP.preWrite : CP → Bool
  | .load _ | .cx _ | .dropOld _ => true
  | _ => false

def RcuVal (st : State) : Prop :=
  ∀ t c out tries cur a cp, (st.th t).op = .rcu c out tries (.cas cur a cp) → cp.preWrite = true →
    (st.sh.heap a).val = valOf st.sh cur.ptr + 1

theorem stepRP_attempt (cfg : Cfg) (c : Nat) (s : Shared) (l : Locals) (b : Bool) (tries : Nat) (cur : Guard) :
    (stepRP cfg c s l b tries (.attempt cur)).2.2.1 = .cas cur (alloc s 0).2.1 (.load .start) ∧
      (stepRP cfg c s l b tries (.attempt cur)).2.2.2.1 = tries + 1 ∧
      ((stepRP cfg c s l b tries (.attempt cur)).1.heap (alloc s 0).2.1).val = valOf s cur.ptr + 1 ∧
      ∀ x, x ≠ (alloc s 0).2.1 → (stepRP cfg c s l b tries (.attempt cur)).1.heap x = s.heap x := by
  have e1 : ∀ f, (if cur.ptr ≠ 0 ∧ (!(s.heap cur.ptr).live) = true then s.setFault f else s).heap = s.heap := by
    intro f; split <;> simp
  simp only [stepRP, alloc, valOf, e1]
  refine ⟨trivial, trivial, by simp, fun x hx => by simp [upd, hx]⟩

/-- how an `rcu` comes to be inside its `compare_and_swap`: from the closure (the allocation), or
    from a step of the `compare_and_swap` -/
theorem microStep_rcu_cas (st : State) (t : Nat) (b : Bool) (c out tries : Nat) (cur : Guard) (a : Nat) (cp' : CP)
    (h : ((microStep st t b).1.th t).op = .rcu c out tries (.cas cur a cp')) :
    (∃ tries0, (st.th t).op = .rcu c out tries0 (.attempt cur) ∧ cp' = .load .start ∧
        a = (alloc st.sh 0).2.1 ∧
        ((microStep st t b).1.sh.heap a).val = valOf st.sh cur.ptr + 1 ∧
        ∀ x, x ≠ a → (microStep st t b).1.sh.heap x = st.sh.heap x) ∨
      (∃ cp, (st.th t).op = .rcu c out tries (.cas cur a cp) ∧
        cp' = (stepCP st.cfg c cur.ptr a st.sh (st.th t).loc b cp).2.2.1 ∧
        (microStep st t b).1.sh.heap = (stepCP st.cfg c cur.ptr a st.sh (st.th t).loc b cp).1.heap) := by
  cases hop : (st.th t).op with
  | rcu c0 out0 tries0 rp =>
    -- the step of `rcu`: the operation goes on with the sub-machine's next state
    have key : ∀ rp', (stepRP st.cfg c0 st.sh (st.th t).loc b tries0 rp).2.2.1 = rp' → (∀ r, rp' ≠ .done r) →
        ((microStep st t b).1.th t).op = .rcu c0 out0 (stepRP st.cfg c0 st.sh (st.th t).loc b tries0 rp).2.2.2.1 rp' ∧
        (microStep st t b).1.sh = (stepRP st.cfg c0 st.sh (st.th t).loc b tries0 rp).1 := by
      intro rp' e hnd
      simp only [microStep, hop]
      split
      · rename_i s' l' r tries' evs heq; rw [heq] at e; exact absurd e.symm (hnd r)
      · rename_i s' l' rp2 tries' evs hne heq; rw [heq] at e ⊢; dsimp only at e; subst e; exact ⟨by simp, rfl⟩
    have isdone : (∃ r, (stepRP st.cfg c0 st.sh (st.th t).loc b tries0 rp).2.2.1 = .done r) → False := by
      rintro ⟨r, e⟩
      simp only [microStep, hop] at h
      split at h
      · simp at h
      · rename_i s' l' rp2 tries' evs hne heq; rw [heq] at e; exact hne r e
    cases rp with
    | attempt cur0 =>
      left
      obtain ⟨e1, e2, e3, e4⟩ := stepRP_attempt st.cfg c0 st.sh (st.th t).loc b tries0 cur0
      obtain ⟨k1, k2⟩ := key _ e1 (fun r => by simp)
      rw [k1] at h
      simp only [OpSt.rcu.injEq, RP.cas.injEq] at h
      obtain ⟨rfl, rfl, _, rfl, rfl, rfl⟩ := h
      exact ⟨tries0, rfl, rfl, rfl, by rw [k2]; exact e3, fun x hx => by rw [k2]; exact e4 x hx⟩
    | cas cur0 a0 cp =>
      right
      cases hr : (stepRP st.cfg c0 st.sh (st.th t).loc b tries0 (.cas cur0 a0 cp)).2.2.1 with
      | done r => exact (isdone ⟨r, hr⟩).elim
      | cas cur1 a1 cp1 =>
        obtain ⟨k1, k2⟩ := key _ hr (fun r => by simp)
        rw [k1] at h
        simp only [OpSt.rcu.injEq, RP.cas.injEq] at h
        obtain ⟨rfl, rfl, htr, rfl, rfl, rfl⟩ := h
        -- the sub-machine stayed inside `compare_and_swap`: it was a step of it
        generalize hq : stepCP st.cfg c0 cur0.ptr a0 st.sh (st.th t).loc b cp = q at *
        obtain ⟨s', l', cp2, evs⟩ := q
        simp only [stepRP, hq] at hr htr k2
        cases cp2 with
        | done prev =>
          exfalso
          dsimp only at hr
          split at hr
          · split at hr
            · dsimp only at hr; split at hr <;> simp at hr
            · simp at hr
          · dsimp only at hr; split at hr <;> simp at hr
        | _ =>
          simp only [RP.cas.injEq] at hr; obtain ⟨rfl, rfl, rfl⟩ := hr
          exact ⟨cp, by rw [← htr], by rw [hq], by rw [k2, hq]⟩
      | load ld =>
        exfalso
        simp only [stepRP] at hr
        (repeat' split at hr) <;> simp at hr
      | attempt cur1 =>
        exfalso
        obtain ⟨k1, _⟩ := key _ hr (fun r => by simp)
        rw [k1] at h; simp at h
      | intoPrev cur1 prev gi =>
        exfalso
        obtain ⟨k1, _⟩ := key _ hr (fun r => by simp)
        rw [k1] at h; simp at h
      | dropCur res gd =>
        exfalso
        obtain ⟨k1, _⟩ := key _ hr (fun r => by simp)
        rw [k1] at h; simp at h
      | dropCurLoop prev gd =>
        exfalso
        obtain ⟨k1, _⟩ := key _ hr (fun r => by simp)
        rw [k1] at h; simp at h
    | load ld =>
      exfalso
      cases hr : (stepRP st.cfg c0 st.sh (st.th t).loc b tries0 (.load ld)).2.2.1 with
      | done r => exact isdone ⟨r, hr⟩
      | cas cur1 a1 cp1 => simp only [stepRP] at hr; (repeat' split at hr) <;> simp at hr
      | _ => obtain ⟨k1, _⟩ := key _ hr (fun r => by simp); rw [k1] at h; simp at h
    | intoPrev cur0 prev gi =>
      exfalso
      cases hr : (stepRP st.cfg c0 st.sh (st.th t).loc b tries0 (.intoPrev cur0 prev gi)).2.2.1 with
      | done r => exact isdone ⟨r, hr⟩
      | cas cur1 a1 cp1 => simp only [stepRP] at hr; (repeat' split at hr) <;> simp at hr
      | _ => obtain ⟨k1, _⟩ := key _ hr (fun r => by simp); rw [k1] at h; simp at h
    | dropCur res gd =>
      exfalso
      cases hr : (stepRP st.cfg c0 st.sh (st.th t).loc b tries0 (.dropCur res gd)).2.2.1 with
      | done r => exact isdone ⟨r, hr⟩
      | cas cur1 a1 cp1 => simp only [stepRP] at hr; (repeat' split at hr) <;> simp at hr
      | _ => obtain ⟨k1, _⟩ := key _ hr (fun r => by simp); rw [k1] at h; simp at h
    | dropCurLoop prev gd =>
      exfalso
      cases hr : (stepRP st.cfg c0 st.sh (st.th t).loc b tries0 (.dropCurLoop prev gd)).2.2.1 with
      | done r => exact isdone ⟨r, hr⟩
      | cas cur1 a1 cp1 => simp only [stepRP] at hr; (repeat' split at hr) <;> simp at hr
      | _ => obtain ⟨k1, _⟩ := key _ hr (fun r => by simp); rw [k1] at h; simp at h
    | done r =>
      exfalso
      exact isdone ⟨r, by simp [stepRP]⟩
  | idle =>
    exfalso
    simp only [microStep, hop] at h
    split at h
    · simp only [upd_same] at h; split at h <;> cases h
    · rename_i txt o rest hp
      cases o <;> simp only [beginOp] at h <;> (repeat' split at h) <;>
        first | (simp at h; done) | (revert h; dsimp only; (try split) <;> simp; done)
  | finished => simp only [microStep, hop] at h; cases h
  | swapSw c0 a0 out0 isStore =>
    exfalso
    simp only [microStep, hop] at h
    split at h
    · simp at h
    · rw [hop] at h; cases h
  | _ =>
    exfalso
    simp only [microStep, hop] at h
    (repeat' split at h) <;> simp at h

end M
