import ArcSwapModel.Inv.CasCur

/-!
# The container holds the latest write

`hist c` is the ghost history of container `c`: the identities of the values written, newest
first.  `CellHist`: in every state the container holds the object whose identity is the head of
its history — the value written last; the history only grows at the front, by the identity of the
value written.  So what a `swap` takes out is what its immediate predecessor put in, and what a
load reads from the cell at some step is the value that was current at that step.
-/

namespace M
open Consts

/-- what one step does to a cell and its history -/
inductive CellStep (s s' : Shared) (c : Nat) : Prop
  | same (h1 : s'.cells c = s.cells c) (h2 : s'.hist c = s.hist c)
  | write (p : Nat) (h1 : s'.cells c = some p) (h2 : s'.hist c = s.idOf p :: s.hist c) (h3 : s'.heap = s.heap)
      (h4 : s.cells c ≠ none)
  | make (p : Nat) (h1 : s'.cells c = some p) (h2 : s'.hist c = [s.idOf p]) (h3 : s'.heap = s.heap)
  | gone (h1 : s'.cells c = none)

theorem stepCP_cell_hist (cfg : Cfg) (c cur new : Nat) (s : Shared) (l : Locals) (b : Bool) (cp : CP) (c' : Nat) :
    CellStep s (stepCP cfg c cur new s l b cp).1 c' := by
  cases cp with
  | load ld =>
    have h1 := stepLP_frame cfg c s l b ld
    simp only [stepCP]; split
    · rename_i s' l' p d evs heq; rw [heq] at h1; exact .same (by rw [h1.1]) (by rw [h1.2])
    · rename_i s' l' ld' evs hne heq; rw [heq] at h1; exact .same (by rw [h1.1]) (by rw [h1.2])
  | pay old pp =>
    have h1 := stepPP_frame cfg old.ptr c s l b pp
    simp only [stepCP]; split
    · rename_i s' l' evs heq; rw [heq] at h1; exact .same (by rw [h1.1]) (by rw [h1.2])
    · rename_i s' l' pp' evs hne heq; rw [heq] at h1; exact .same (by rw [h1.1]) (by rw [h1.2])
  | dropOld gd =>
    have h1 := stepGD_frame s gd
    simp only [stepCP]; split
    · rename_i s' evs heq; rw [heq] at h1; exact .same (by rw [h1.1]) (by rw [h1.2])
    · rename_i s' gd' evs hne heq; rw [heq] at h1; exact .same (by rw [h1.1]) (by rw [h1.2])
  | cx old =>
    simp only [stepCP]
    cases hq : s.cells c with
    | none => exact .same (by simp) (by simp)
    | some q =>
      dsimp only
      split
      · by_cases e : c' = c
        · subst e
          exact .write new (by simp [Shared.writeCell]) (by simp [Shared.writeCell]) (by simp [Shared.writeCell])
            (by rw [hq]; simp)
        · exact .same (by simp [Shared.writeCell, upd, e]) (by simp [Shared.writeCell, upd, e])
      · exact .same rfl rfl
  | dropNew old => simp only [stepCP]; exact .same (by simp) (by simp)
  | decOld old => simp only [stepCP]; exact .same (by simp) (by simp)
  | done old => simp only [stepCP]; exact .same rfl rfl

theorem CellStep.of_eq {s s' s'' : Shared} {c : Nat} (h : CellStep s s' c) (e1 : s''.cells = s'.cells)
    (e2 : s''.hist = s'.hist) (e3 : s''.heap = s'.heap) : CellStep s s'' c := by
  cases h with
  | same h1 h2 => exact .same (by rw [e1, h1]) (by rw [e2, h2])
  | write p h1 h2 h3 h4 => exact .write p (by rw [e1, h1]) (by rw [e2, h2]) (by rw [e3, h3]) h4
  | make p h1 h2 h3 => exact .make p (by rw [e1, h1]) (by rw [e2, h2]) (by rw [e3, h3])
  | gone h1 => exact .gone (by rw [e1, h1])

theorem stepRP_cell_hist (cfg : Cfg) (c : Nat) (s : Shared) (l : Locals) (b : Bool) (tries : Nat) (rp : RP) (c' : Nat) :
    CellStep s (stepRP cfg c s l b tries rp).1 c' := by
  cases rp with
  | load ld =>
    have h1 := stepLP_frame cfg c s l b ld
    simp only [stepRP]; split
    · rename_i s' l' p d evs heq; rw [heq] at h1; exact .same (by rw [h1.1]) (by rw [h1.2])
    · rename_i s' l' ld' evs hne heq; rw [heq] at h1; exact .same (by rw [h1.1]) (by rw [h1.2])
  | attempt cur =>
    simp only [stepRP]
    refine .same ?_ ?_ <;> (split <;> simp [alloc])
  | cas cur x cp =>
    have h1 := stepCP_cell_hist cfg c cur.ptr x s l b cp c'
    simp only [stepRP]; split
    · rename_i s' l' prev evs heq; rw [heq] at h1; (repeat' split) <;> exact h1
    · rename_i s' l' cp' evs hne heq; rw [heq] at h1; exact h1
  | intoPrev cur prev gi =>
    have h1 := stepGI_frame s gi
    simp only [stepRP]; split
    · rename_i s' evs heq; rw [heq] at h1; (repeat' split) <;> exact .same (by rw [h1.1]) (by rw [h1.2])
    · rename_i s' gi' evs hne heq; rw [heq] at h1; exact .same (by rw [h1.1]) (by rw [h1.2])
  | dropCur res gd =>
    have h1 := stepGD_frame s gd
    simp only [stepRP]; split
    · rename_i s' evs heq; rw [heq] at h1; exact .same (by rw [h1.1]) (by rw [h1.2])
    · rename_i s' gd' evs hne heq; rw [heq] at h1; exact .same (by rw [h1.1]) (by rw [h1.2])
  | dropCurLoop prev gd =>
    have h1 := stepGD_frame s gd
    simp only [stepRP]; split
    · rename_i s' evs heq; rw [heq] at h1; exact .same (by rw [h1.1]) (by rw [h1.2])
    · rename_i s' gd' evs hne heq; rw [heq] at h1; exact .same (by rw [h1.1]) (by rw [h1.2])
  | done r => simp only [stepRP]; exact .same rfl rfl

theorem beginOp_cell_hist (st : State) (t : Nat) (o : Op) (c' : Nat) : CellStep st.sh (beginOp st t o).1.sh c' := by
  cases o with
  | mk c0 x =>
    simp only [beginOp]
    split
    · exact .same rfl rfl
    · rename_i a ha
      by_cases e : c' = c0
      · subst e; exact .make a (by simp) (by simp) rfl
      · exact .same (by simp [upd, e]) (by simp [upd, e])
  | _ =>
    simp only [beginOp] <;> (repeat' split) <;>
      first
        | exact .same rfl rfl
        | exact .same (by simp [alloc]) (by simp [alloc])
        | (dsimp only; (try split) <;> exact .same (by first | rfl | simp) (by first | rfl | simp))


/-- **what a step does to a container and its history**: nothing; or a write (the history grows at
    the front by the identity of the value written, the heap stays); or its creation; or its end -/
theorem microStep_cell_hist (st : State) (t : Nat) (b : Bool) (c' : Nat) :
    CellStep st.sh (microStep st t b).1.sh c' := by
  cases hop : (st.th t).op with
  | finished => simp only [microStep, hop]; exact .same rfl rfl
  | idle =>
    simp only [microStep, hop]
    split
    · exact .same rfl rfl
    · rename_i txt o rest hp
      exact beginOp_cell_hist { st with th := upd st.th t { prog := rest, op := .idle, loc := (st.th t).loc } } t o c'
  | exitCool cd =>
    have h3 := stepCD_frame st.sh cd
    simp only [microStep, hop]; split
    · rename_i s' evs heq; rw [heq] at h3; exact .same (by dsimp only; rw [h3.1]) (by dsimp only; rw [h3.2.1])
    · rename_i s' cd' evs hne heq; rw [heq] at h3; exact .same (by dsimp only; rw [h3.1]) (by dsimp only; rw [h3.2.1])
  | load c g ld =>
    have h3 := stepLP_frame st.cfg c st.sh (st.th t).loc b ld
    simp only [microStep, hop]; split
    · rename_i s' l' p d evs heq; rw [heq] at h3; exact .same (by dsimp only; rw [h3.1]) (by dsimp only; rw [h3.2])
    · rename_i s' l' ld' evs hne heq; rw [heq] at h3; exact .same (by dsimp only; rw [h3.1]) (by dsimp only; rw [h3.2])
  | loadFull c x ld =>
    have h3 := stepLP_frame st.cfg c st.sh (st.th t).loc b ld
    simp only [microStep, hop]; split
    · rename_i s' l' p d evs heq; rw [heq] at h3
      split <;> exact .same (by dsimp only; rw [h3.1]) (by dsimp only; rw [h3.2])
    · rename_i s' l' ld' evs hne heq; rw [heq] at h3; exact .same (by dsimp only; rw [h3.1]) (by dsimp only; rw [h3.2])
  | loadFullInto c x r gi =>
    have h3 := stepGI_frame st.sh gi
    simp only [microStep, hop]; split
    · rename_i s' evs heq; rw [heq] at h3; exact .same (by dsimp only; rw [h3.1]) (by dsimp only; rw [h3.2])
    · rename_i s' gi' evs hne heq; rw [heq] at h3; exact .same (by dsimp only; rw [h3.1]) (by dsimp only; rw [h3.2])
  | cloneh x y a0 => simp only [microStep, hop]; exact .same (by simp) (by simp)
  | droph a0 => simp only [microStep, hop]; exact .same (by simp) (by simp)
  | dropg gd =>
    have h3 := stepGD_frame st.sh gd
    simp only [microStep, hop]; split
    · rename_i s' evs heq; rw [heq] at h3; exact .same (by dsimp only; rw [h3.1]) (by dsimp only; rw [h3.2])
    · rename_i s' gd' evs hne heq; rw [heq] at h3; exact .same (by dsimp only; rw [h3.1]) (by dsimp only; rw [h3.2])
  | ginto x p gi =>
    have h3 := stepGI_frame st.sh gi
    simp only [microStep, hop]; split
    · rename_i s' evs heq; rw [heq] at h3; exact .same (by dsimp only; rw [h3.1]) (by dsimp only; rw [h3.2])
    · rename_i s' gi' evs hne heq; rw [heq] at h3; exact .same (by dsimp only; rw [h3.1]) (by dsimp only; rw [h3.2])
  | swapSw c a0 out isStore =>
    simp only [microStep, hop]
    cases hq : st.sh.cells c with
    | none => exact .same rfl rfl
    | some old =>
      dsimp only
      by_cases e : c' = c
      · subst e
        exact .write a0 (by simp [Shared.writeCell]) (by simp [Shared.writeCell]) (by simp [Shared.writeCell])
          (by rw [hq]; simp)
      · exact .same (by simp [Shared.writeCell, upd, e]) (by simp [Shared.writeCell, upd, e])
  | swapPay c out old isStore pp =>
    have h3 := stepPP_frame st.cfg old c st.sh (st.th t).loc b pp
    simp only [microStep, hop]; split
    · rename_i s' l' evs heq; rw [heq] at h3
      (repeat' split) <;> exact .same (by dsimp only; rw [h3.1]) (by dsimp only; rw [h3.2])
    · rename_i s' l' pp' evs hne heq; rw [heq] at h3; exact .same (by dsimp only; rw [h3.1]) (by dsimp only; rw [h3.2])
  | swapDrop c old => simp only [microStep, hop]; exact .same (by simp) (by simp)
  | cas c cur keep curPtr new g cp =>
    have h3 := stepCP_cell_hist st.cfg c curPtr new st.sh (st.th t).loc b cp c'
    simp only [microStep, hop]; split
    · rename_i s' l' old evs heq; rw [heq] at h3
      cases cur <;> cases keep <;> exact h3.of_eq rfl rfl rfl
    · rename_i s' l' cp' evs hne heq; rw [heq] at h3; exact h3
  | rcu c out tries rp =>
    have h3 := stepRP_cell_hist st.cfg c st.sh (st.th t).loc b tries rp c'
    simp only [microStep, hop]; split
    · rename_i s' l' r tries' evs heq; rw [heq] at h3; exact h3.of_eq rfl rfl rfl
    · rename_i s' l' rp' tries' evs hne heq; rw [heq] at h3; exact h3
  | cinto c x p pp =>
    have h3 := stepPP_frame st.cfg p c st.sh (st.th t).loc b pp
    simp only [microStep, hop]; split
    · rename_i s' l' evs heq; rw [heq] at h3
      by_cases e : c' = c
      · subst e; exact .gone (by simp)
      · exact .same (by have := h3.1; dsimp only at this; simp [upd, e, this]) (by dsimp only; rw [h3.2])
    · rename_i s' l' pp' evs hne heq; rw [heq] at h3; exact .same (by dsimp only; rw [h3.1]) (by dsimp only; rw [h3.2])
  | dropc c p pp =>
    have h3 := stepPP_frame st.cfg p c st.sh (st.th t).loc b pp
    simp only [microStep, hop]; split
    · rename_i s' l' evs heq; rw [heq] at h3
      split
      · by_cases e : c' = c
        · subst e; exact .gone (by simp)
        · exact .same (by have := h3.1; dsimp only at this; simp [upd, e, this]) (by dsimp only; rw [h3.2])
      · exact .same (by dsimp only; rw [h3.1]) (by dsimp only; rw [h3.2])
    · rename_i s' l' pp' evs hne heq; rw [heq] at h3; exact .same (by dsimp only; rw [h3.1]) (by dsimp only; rw [h3.2])
  | dropcDec c p =>
    simp only [microStep, hop]
    by_cases e : c' = c
    · subst e; exact .gone (by simp)
    · exact .same (by simp [upd, e]) (by simp)

/-- the container holds the object written last (and containers live in cells below `N`) -/
def CellHist (N : Nat) (st : State) : Prop :=
  ∀ c p, st.sh.cells c = some p → c < N ∧ ∃ rest, st.sh.hist c = st.sh.idOf p :: rest

/-- **the container holds the latest write, along every execution** that satisfies the ledger's
    assumptions and has raised no fault -/
theorem cellHist_run (K N T : Nat) (hK : 0 < K) (cfg : Cfg) (progs : Nat → List (String × Op)) :
    ∀ sched : List (Nat × Bool), EnvRun0 K N T (State.initial cfg progs) sched →
      (run (State.initial cfg progs) sched).sh.fault = none → CellHist N (run (State.initial cfg progs) sched) := by
  refine list_snoc_induction _ ?_ ?_
  · intro _ _ c p hc
    simp [run, State.initial] at hc
  · intro pre x ih
    obtain ⟨t, b⟩ := x
    intro he hf
    obtain ⟨hepre, hlast⟩ := EnvRun0.prefix he
    have hrun : run (State.initial cfg progs) (pre ++ [(t, b)]) = (microStep (run (State.initial cfg progs) pre) t b).1 := by
      rw [run_append]; rfl
    rw [hrun] at hf ⊢
    have hfpre : (run (State.initial cfg progs) pre).sh.fault = none := microStep_fault_mono _ t b hf
    have hI := ih hepre hfpre
    have hroom := hlast.2.1.room
    have hnext := hlast.2.1.next
    obtain ⟨L, hL⟩ := (HazAllD.initial N T cfg progs).run pre (TameRun2.of_env hepre)
    -- what a container holds is counted, so it keeps its identity through the step
    have hid : ∀ c p, (run (State.initial cfg progs) pre).sh.cells c = some p →
        (microStep (run (State.initial cfg progs) pre) t b).1.sh.idOf p = (run (State.initial cfg progs) pre).sh.idOf p := by
      intro c p hc
      by_cases hp : p = 0
      · subst hp
        rcases microStep_same (run (State.initial cfg progs) pre) t b 0 with h1 | ⟨v, h1⟩
        · exact h1.1
        · exact absurd h1.symm (alloc_ne_zero _ v)
      · have hcnt := stored_value_counted K N T hK cfg progs pre hepre hfpre p hp c (hI c p hc).1 hc
        exact (counted_keeps_identity _ t b p hroom hcnt).1
    generalize hst : run (State.initial cfg progs) pre = st at *
    intro c p' hc'
    cases microStep_cell_hist st t b c with
    | same h1 h2 =>
      rw [h1] at hc'
      obtain ⟨hcN, rest, hr⟩ := hI c p' hc'
      exact ⟨hcN, rest, by rw [h2, hr, hid c p' hc']⟩
    | write p h1 h2 h3 h4 =>
      rw [h1] at hc'; cases hc'
      cases hq : st.sh.cells c with
      | none => exact absurd hq h4
      | some q =>
        refine ⟨(hI c q hq).1, st.sh.hist c, ?_⟩
        rw [h2]; simp [Shared.idOf, h3]
    | make p h1 h2 h3 =>
      rw [h1] at hc'; cases hc'
      refine ⟨?_, [], ?_⟩
      · -- the cell is below N: it was made by `mk`, or held something before
        cases hq : st.sh.cells c with
        | some q => exact (hI c q hq).1
        | none =>
          by_cases hcell : (st.th t).op.cell? = some c
          · cases hcb : (st.th t).op.cons with
            | false => exact (hL.busy.free t c hcell hcb).2.1
            | true => exact hL.busy.consN t c hcb hcell
          · by_cases hmk : (st.th t).op = .idle ∧ ∃ txt y rest, (st.th t).prog = (txt, .mk c y) :: rest
            · obtain ⟨_, txt, y, rest, hp⟩ := hmk
              exact ((hnext txt _ rest hp).1).1
            · exfalso
              have := microStep_cells_other st t b c hcell (fun hidle txt y rest hp => hmk ⟨hidle, txt, y, rest, hp⟩)
              rw [h1, hq] at this; cases this
      · rw [h2]; simp [Shared.idOf, h3]
    | gone h1 => rw [h1] at hc'; cases hc'

end M
