import ArcSwapModel.Inv.Check

/-!
# The nodes threads work on are on the list

`Node::get` inspects nodes it reaches from `LIST_HEAD` through `next`, and returns one of them or
the node it has just linked; a thread's `LocalNode` holds a node so obtained.  `Linked`: in every
reachable state the node of every thread, and the node every `Node::get` in progress is looking
at, are on the list (which only grows).  So debt slots that name a value — only a node's owner
fills them — are slots of nodes on the list: a writer that starts its walk afterwards passes them.
-/

namespace M
open Consts

/-- the node a `Node::get` in progress is looking at, or has got -/
def NG.seen : NG → Option Nat
  | .cc0 n | .cc1 n | .cc2 n _ | .claim n | .done n => some n
  | _ => none

def LP.seen : LP → Option Nat
  | .get ng | .reget ng => ng.seen
  | _ => none
def PP.seen : PP → Option Nat
  | .get ng => ng.seen
  | .hload _ ld => ld.seen
  | _ => none
def CP.seen : CP → Option Nat
  | .load ld => ld.seen
  | .pay _ pp => pp.seen
  | _ => none
def RP.seen : RP → Option Nat
  | .load ld => ld.seen
  | .cas _ _ cp => cp.seen
  | _ => none
def OpSt.seen : OpSt → Option Nat
  | .load _ _ ld | .loadFull _ _ ld => ld.seen
  | .swapPay _ _ _ _ pp | .cinto _ _ _ pp | .dropc _ _ pp => pp.seen
  | .cas _ _ _ _ _ _ cp => cp.seen
  | .rcu _ _ _ rp => rp.seen
  | _ => none

/-- on the list as it was, or the (new) head -/
def OnL (L : List Nat) (s' : Shared) (n : Nat) : Prop := n ∈ L ∨ s'.head = some n

theorem chain_head_mem {next : Nat → Option Nat} {hd : Option Nat} {L : List Nat} (h : chainFrom next hd L)
    (n : Nat) (hn : hd = some n) : n ∈ L := by
  subst hn
  cases L with
  | nil => exact h.elim
  | cons m L => obtain ⟨e, _, _⟩ := h; subst e; exact List.mem_cons_self ..

theorem chain_next_mem {next : Nat → Option Nat} {hd : Option Nat} {L : List Nat} (h : chainFrom next hd L)
    (n m : Nat) (hn : n ∈ L) (hm : next n = some m) : m ∈ L := by
  obtain ⟨L1, L2, e, h2⟩ := chainFrom_next h n hn
  rw [hm] at h2
  have := chain_head_mem h2 m rfl
  rw [e]; exact List.mem_append_right _ (List.mem_cons_of_mem _ this)

theorem stepNG_seen (s : Shared) (b : Bool) (ng : NG) (L : List Nat) (hc : chainFrom (nextOf s) s.head L)
    (hs : ∀ n, ng.seen = some n → n ∈ L) :
    ∀ n, (stepNG s b ng).2.1.seen = some n → OnL L (stepNG s b ng).1 n := by
  cases ng with
  | trav =>
    simp only [stepNG]
    intro n hn
    cases hh : s.head with
    | none => rw [hh] at hn; cases hn
    | some m => rw [hh] at hn; simp only [NG.seen, Option.some.injEq] at hn; subst hn; exact Or.inr hh
  | cc0 n0 =>
    have h0 := hs n0 rfl
    simp only [stepNG]; split <;> (intro n hn; simp only [NG.seen, Option.some.injEq] at hn; subst hn; exact Or.inl h0)
  | cc1 n0 =>
    have h0 := hs n0 rfl
    simp only [stepNG]; intro n hn; simp only [NG.seen, Option.some.injEq] at hn; subst hn; exact Or.inl h0
  | cc2 n0 idle =>
    have h0 := hs n0 rfl
    simp only [stepNG]; split <;> (intro n hn; simp only [NG.seen, Option.some.injEq] at hn; subst hn; exact Or.inl h0)
  | claim n0 =>
    have h0 := hs n0 rfl
    simp only [stepNG]; split
    · intro n hn; simp only [NG.seen, Option.some.injEq] at hn; subst hn; exact Or.inl h0
    · intro n hn
      simp only [NG.afterNode] at hn
      cases hnx : (s.nodes n0).next with
      | none => rw [hnx] at hn; cases hn
      | some m =>
        rw [hnx] at hn; simp only [NG.seen, Option.some.injEq] at hn; subst hn
        exact Or.inl (chain_next_mem hc n0 _ h0 hnx)
  | allocLoad => simp only [stepNG]; intro n hn; cases hn
  | allocCas me h =>
    cases me with
    | some k =>
      simp only [stepNG]; split
      · intro n hn; simp only [NG.seen, Option.some.injEq] at hn; subst hn; exact Or.inr rfl
      · intro n hn; cases hn
    | none =>
      simp only [stepNG]; split
      · intro n hn; simp only [NG.seen, Option.some.injEq] at hn; subst hn; exact Or.inr rfl
      · intro n hn; cases hn
  | done n0 =>
    have h0 := hs n0 rfl
    simp only [stepNG]; intro n hn; simp only [NG.seen, Option.some.injEq] at hn; subst hn; exact Or.inl h0

/-- what a sub-machine step guarantees about the node looked at and the thread's node afterwards -/
def SeenOK (L : List Nat) (s' : Shared) (seen' : Option Nat) (l' : Locals) : Prop :=
  (∀ n, seen' = some n → OnL L s' n) ∧ (∀ n, l'.node = some n → OnL L s' n)

theorem SeenOK.quiet {L : List Nat} {s' : Shared} {l l' : Locals} (hl : ∀ n, l.node = some n → n ∈ L)
    (e : l'.node = l.node) : SeenOK L s' none l' :=
  ⟨(fun n h => by cases h), (fun n h => Or.inl (hl n (by rw [← e]; exact h)))⟩

theorem stepLP_seen (cfg : Cfg) (c : Nat) (s : Shared) (l : Locals) (b : Bool) (lp : LP) (L : List Nat)
    (hc : chainFrom (nextOf s) s.head L) (hs : ∀ n, lp.seen = some n → n ∈ L) (hl : ∀ n, l.node = some n → n ∈ L) :
    SeenOK L (stepLP cfg c s l b lp).1 (stepLP cfg c s l b lp).2.2.1.seen (stepLP cfg c s l b lp).2.1 := by
  cases lp with
  | get ng =>
    have h1 := stepNG_seen s b ng L hc hs
    simp only [stepLP]; split
    · rename_i s' n evs heq; simp only [heq] at h1
      refine ⟨fun m hm => ?_, fun m hm => ?_⟩
      · revert hm; dsimp only; split <;> (intro hm; cases hm)
      · simp only [Option.some.injEq] at hm; subst hm; exact h1 n rfl
    · rename_i s' ng' evs hne heq; simp only [heq] at h1
      exact ⟨h1, fun n h => Or.inl (hl n h)⟩
  | reget ng =>
    have h1 := stepNG_seen s b ng L hc hs
    simp only [stepLP]; split
    · rename_i s' n evs heq; simp only [heq] at h1
      refine ⟨(fun m hm => by cases hm), fun m hm => ?_⟩
      simp only [Option.some.injEq] at hm; subst hm; exact h1 n rfl
    · rename_i s' ng' evs hne heq; simp only [heq] at h1
      exact ⟨h1, fun n h => Or.inl (hl n h)⟩
  | cool cd =>
    simp only [stepLP]; split <;> exact SeenOK.quiet hl rfl
  | _ =>
    simp only [stepLP]
    (repeat' split) <;> exact SeenOK.quiet hl rfl

theorem PP.dispatch_seen (h : HL) : (PP.dispatch h).seen = none := by
  simp only [PP.dispatch]; split <;> rfl
theorem PP.nextSlot_seen (n j : Nat) : (PP.nextSlot n j).seen = none := by
  simp only [PP.nextSlot]; split <;> rfl

theorem SeenOK.of_none {L : List Nat} {s' : Shared} {l l' : Locals} {x : Option Nat}
    (hl : ∀ n, l.node = some n → n ∈ L) (e : l'.node = l.node) (hx : x = none) : SeenOK L s' x l' := by
  subst hx; exact SeenOK.quiet hl e

theorem stepPP_seen (cfg : Cfg) (p c : Nat) (s : Shared) (l : Locals) (b : Bool) (pp : PP) (L : List Nat)
    (hc : chainFrom (nextOf s) s.head L) (hs : ∀ n, pp.seen = some n → n ∈ L) (hl : ∀ n, l.node = some n → n ∈ L) :
    SeenOK L (stepPP cfg p c s l b pp).1 (stepPP cfg p c s l b pp).2.2.1.seen (stepPP cfg p c s l b pp).2.1 := by
  cases pp with
  | get ng =>
    have h1 := stepNG_seen s b ng L hc hs
    simp only [stepPP]; split
    · rename_i s' n evs heq; simp only [heq] at h1
      refine ⟨fun m hm => ?_, fun m hm => ?_⟩
      · revert hm; dsimp only; split <;> (intro hm; cases hm)
      · simp only [Option.some.injEq] at hm; subst hm; exact h1 n rfl
    · rename_i s' ng' evs hne heq; simp only [heq] at h1
      exact ⟨h1, fun n h => Or.inl (hl n h)⟩
  | hload x ld =>
    have h1 := stepLP_seen cfg c s l b ld L hc hs hl
    simp only [stepPP]; split
    · rename_i s' l' r d evs heq; simp only [heq] at h1
      refine ⟨fun m hm => ?_, h1.2⟩
      revert hm; dsimp only; split <;> (intro hm; cases hm)
    · rename_i s' l' ld' evs hne heq; simp only [heq] at h1; exact h1
  | hinto x r gi =>
    simp only [stepPP]; split <;> exact SeenOK.quiet hl rfl
  | h2 x =>
    simp only [stepPP]
    refine SeenOK.of_none hl rfl ?_
    (repeat' split) <;> rfl
  | _ =>
    simp only [stepPP]
    (repeat' split) <;>
      (refine SeenOK.of_none hl rfl ?_
       first | rfl | exact PP.dispatch_seen _ | exact PP.nextSlot_seen _ _
             | (show (PP.nextSlot _ _).seen = none; exact PP.nextSlot_seen _ _)
             | (show (PP.dispatch _).seen = none; exact PP.dispatch_seen _) | (split <;> rfl))

theorem stepCP_seen (cfg : Cfg) (c cur new : Nat) (s : Shared) (l : Locals) (b : Bool) (cp : CP) (L : List Nat)
    (hc : chainFrom (nextOf s) s.head L) (hs : ∀ n, cp.seen = some n → n ∈ L) (hl : ∀ n, l.node = some n → n ∈ L) :
    SeenOK L (stepCP cfg c cur new s l b cp).1 (stepCP cfg c cur new s l b cp).2.2.1.seen (stepCP cfg c cur new s l b cp).2.1 := by
  cases cp with
  | load ld =>
    have h1 := stepLP_seen cfg c s l b ld L hc hs hl
    simp only [stepCP]; split
    · rename_i s' l' r d evs heq; simp only [heq] at h1
      refine ⟨fun m hm => ?_, h1.2⟩
      revert hm; dsimp only; (repeat' split) <;> (intro hm; cases hm)
    · rename_i s' l' ld' evs hne heq; simp only [heq] at h1; exact h1
  | pay old pp =>
    have h1 := stepPP_seen cfg old.ptr c s l b pp L hc hs hl
    simp only [stepCP]; split
    · rename_i s' l' evs heq; simp only [heq] at h1
      refine ⟨fun m hm => ?_, h1.2⟩
      revert hm; dsimp only; (repeat' split) <;> (intro hm; cases hm)
    · rename_i s' l' pp' evs hne heq; simp only [heq] at h1; exact h1
  | _ =>
    simp only [stepCP]
    (repeat' split) <;> (refine SeenOK.of_none hl rfl ?_; first | rfl | (split <;> rfl))

theorem stepRP_seen (cfg : Cfg) (c : Nat) (s : Shared) (l : Locals) (b : Bool) (tries : Nat) (rp : RP) (L : List Nat)
    (hc : chainFrom (nextOf s) s.head L) (hs : ∀ n, rp.seen = some n → n ∈ L) (hl : ∀ n, l.node = some n → n ∈ L) :
    SeenOK L (stepRP cfg c s l b tries rp).1 (stepRP cfg c s l b tries rp).2.2.1.seen (stepRP cfg c s l b tries rp).2.1 := by
  cases rp with
  | load ld =>
    have h1 := stepLP_seen cfg c s l b ld L hc hs hl
    simp only [stepRP]; split
    · rename_i s' l' r d evs heq; simp only [heq] at h1
      exact ⟨(fun m hm => by cases hm), h1.2⟩
    · rename_i s' l' ld' evs hne heq; simp only [heq] at h1; exact h1
  | cas cur x cp =>
    have h1 := stepCP_seen cfg c cur.ptr x s l b cp L hc hs hl
    simp only [stepRP]; split
    · rename_i s' l' prev evs heq; simp only [heq] at h1
      (repeat' split) <;> exact ⟨(fun m hm => by cases hm), h1.2⟩
    · rename_i s' l' cp' evs hne heq; simp only [heq] at h1; exact h1
  | attempt cur =>
    simp only [stepRP]; exact SeenOK.quiet hl rfl
  | _ =>
    simp only [stepRP]
    (repeat' split) <;> (refine SeenOK.of_none hl rfl ?_; first | rfl | (split <;> rfl))

/-! ## Whole operations -/

theorem beginOp_seen (st : State) (t : Nat) (o : Op) :
    ((beginOp st t o).1.th t).op.seen = none ∧ ((beginOp st t o).1.th t).loc.node = (st.th t).loc.node ∧
      (beginOp st t o).1.sh.head = st.sh.head := by
  cases o <;> simp only [beginOp] <;> (repeat' split) <;>
    first
      | exact ⟨by simp [OpSt.seen, LP.seen, PP.seen, CP.seen, RP.seen], by simp, rfl⟩
      | exact ⟨by simp [OpSt.seen], by simp, by simp [alloc]⟩
      | (refine ⟨?_, ?_, ?_⟩
         · dsimp only; (try split) <;> simp [OpSt.seen, LP.seen, PP.seen, CP.seen, RP.seen]
         · dsimp only; (try split) <;> simp
         · dsimp only; (try split) <;> simp)

theorem SeenOK.frame {L : List Nat} {s1 s2 : Shared} {x : Option Nat} {l : Locals} (h : SeenOK L s1 x l)
    (hh : s2.head = s1.head) : SeenOK L s2 x l :=
  ⟨fun n hn => (h.1 n hn).elim Or.inl (fun e => Or.inr (by rw [hh]; exact e)),
   fun n hn => (h.2 n hn).elim Or.inl (fun e => Or.inr (by rw [hh]; exact e))⟩

theorem microStep_seen (st : State) (t : Nat) (b : Bool) (L : List Nat)
    (hc : chainFrom (nextOf st.sh) st.sh.head L) (hs : ∀ n, (st.th t).op.seen = some n → n ∈ L)
    (hl : ∀ n, (st.th t).loc.node = some n → n ∈ L) :
    SeenOK L (microStep st t b).1.sh ((microStep st t b).1.th t).op.seen ((microStep st t b).1.th t).loc := by
  cases hop : (st.th t).op with
  | finished => simp only [microStep, hop]; exact SeenOK.of_none hl rfl rfl
  | idle =>
    simp only [microStep, hop]
    split
    · refine SeenOK.of_none hl (by simp) ?_
      simp only [upd_same]; split <;> rfl
    · rename_i txt o rest hp
      obtain ⟨h1, h2, h3⟩ := beginOp_seen { st with th := upd st.th t { prog := rest, op := .idle, loc := (st.th t).loc } } t o
      exact SeenOK.of_none hl (by rw [h2]; simp) h1
  | exitCool cd =>
    simp only [microStep, hop]; split
    · exact ⟨(fun n hn => by simp [OpSt.seen] at hn), (fun n hn => by simp at hn)⟩
    · exact SeenOK.of_none hl (by simp) (by simp [OpSt.seen])
  | load c g ld =>
    rw [hop] at hs
    have h1 := stepLP_seen st.cfg c st.sh (st.th t).loc b ld L hc hs hl
    simp only [microStep, hop]; split
    · rename_i s' l' p d evs heq; simp only [heq] at h1
      exact ⟨(fun n hn => by simp [OpSt.seen] at hn), (fun n hn => (h1.2 n (by simpa using hn)).elim Or.inl (fun e => Or.inr (by simpa using e)))⟩
    · rename_i s' l' ld' evs hne heq; simp only [heq] at h1; simpa [OpSt.seen] using h1
  | loadFull c x ld =>
    rw [hop] at hs
    have h1 := stepLP_seen st.cfg c st.sh (st.th t).loc b ld L hc hs hl
    simp only [microStep, hop]; split
    · rename_i s' l' p d evs heq; simp only [heq] at h1
      split
      · exact ⟨(fun n hn => by simp [OpSt.seen] at hn), (fun n hn => (h1.2 n (by simpa using hn)).elim Or.inl (fun e => Or.inr (by simpa using e)))⟩
      · exact ⟨(fun n hn => by simp [OpSt.seen] at hn), (fun n hn => (h1.2 n (by simpa using hn)).elim Or.inl (fun e => Or.inr (by simpa using e)))⟩
    · rename_i s' l' ld' evs hne heq; simp only [heq] at h1; simpa [OpSt.seen] using h1
  | swapPay c out old isStore pp =>
    rw [hop] at hs
    have h1 := stepPP_seen st.cfg old c st.sh (st.th t).loc b pp L hc hs hl
    simp only [microStep, hop]; split
    · rename_i s' l' evs heq; simp only [heq] at h1
      (repeat' split) <;> exact ⟨(fun n hn => by simp [OpSt.seen] at hn), (fun n hn => (h1.2 n (by simpa using hn)).elim Or.inl (fun e => Or.inr (by simpa using e)))⟩
    · rename_i s' l' pp' evs hne heq; simp only [heq] at h1; simpa [OpSt.seen] using h1
  | cas c cur keep curPtr new g cp =>
    rw [hop] at hs
    have h1 := stepCP_seen st.cfg c curPtr new st.sh (st.th t).loc b cp L hc hs hl
    simp only [microStep, hop]; split
    · rename_i s' l' old evs heq; simp only [heq] at h1
      refine ⟨(fun n hn => by simp [OpSt.seen] at hn), ?_⟩
      cases cur <;> cases keep <;> exact (fun n hn => (h1.2 n (by simpa using hn)).elim Or.inl (fun e => Or.inr (by simpa using e)))
    · rename_i s' l' cp' evs hne heq; simp only [heq] at h1; simpa [OpSt.seen] using h1
  | rcu c out tries rp =>
    rw [hop] at hs
    have h1 := stepRP_seen st.cfg c st.sh (st.th t).loc b tries rp L hc hs hl
    simp only [microStep, hop]; split
    · rename_i s' l' r tries' evs heq; simp only [heq] at h1
      exact ⟨(fun n hn => by simp [OpSt.seen] at hn), (fun n hn => (h1.2 n (by simpa using hn)).elim Or.inl (fun e => Or.inr (by simpa using e)))⟩
    · rename_i s' l' rp' tries' evs hne heq; simp only [heq] at h1; simpa [OpSt.seen] using h1
  | cinto c x p pp =>
    rw [hop] at hs
    have h1 := stepPP_seen st.cfg p c st.sh (st.th t).loc b pp L hc hs hl
    simp only [microStep, hop]; split
    · rename_i s' l' evs heq; simp only [heq] at h1
      exact ⟨(fun n hn => by simp [OpSt.seen] at hn), (fun n hn => (h1.2 n (by simpa using hn)).elim Or.inl (fun e => Or.inr (by simpa using e)))⟩
    · rename_i s' l' pp' evs hne heq; simp only [heq] at h1; simpa [OpSt.seen] using h1
  | dropc c p pp =>
    rw [hop] at hs
    have h1 := stepPP_seen st.cfg p c st.sh (st.th t).loc b pp L hc hs hl
    simp only [microStep, hop]; split
    · rename_i s' l' evs heq; simp only [heq] at h1
      (repeat' split) <;> exact ⟨(fun n hn => by simp [OpSt.seen] at hn), (fun n hn => (h1.2 n (by simpa using hn)).elim Or.inl (fun e => Or.inr (by simpa using e)))⟩
    · rename_i s' l' pp' evs hne heq; simp only [heq] at h1; simpa [OpSt.seen] using h1
  | _ =>
    simp only [microStep, hop]
    (repeat' split) <;> exact SeenOK.of_none hl (by simp) (by first | rfl | (simp [OpSt.seen, PP.seen]; done) | (rw [hop]; rfl) | (simp only [OpSt.seen, hop]))

/-! ## The invariant -/

/-- the list, with every thread's node and every node under inspection on it -/
structure Linked (st : State) (L : List Nat) : Prop where
  list : ListInv st L
  seen : ∀ t n, (st.th t).op.seen = some n → n ∈ L
  node : ∀ t n, (st.th t).loc.node = some n → n ∈ L

theorem Linked.initial (cfg : Cfg) (progs : Nat → List (String × Op)) : Linked (State.initial cfg progs) [] :=
  ⟨ListInv.initial cfg progs, fun t n h => by simp [State.initial, OpSt.seen] at h,
   fun t n h => by simp [State.initial] at h⟩

theorem Linked.step {st : State} {L : List Nat} (h : Linked st L) (ho : OwnInv st) (t : Nat) (b : Bool) :
    ∃ pre, Linked (microStep st t b).1 (pre ++ L) := by
  have hseen := microStep_seen st t b L h.list.1 (h.seen t) (h.node t)
  have hoth := (microStep_own st t b).2
  have lift : ∀ (L' : List Nat), ListInv (microStep st t b).1 L' → (∀ n, n ∈ L → n ∈ L') → Linked (microStep st t b).1 L' := by
    intro L' hL' hsub
    have onl : ∀ n, OnL L (microStep st t b).1.sh n → n ∈ L' := fun n hn =>
      hn.elim (hsub n) (fun e => chain_head_mem hL'.1 n e)
    refine ⟨hL', fun t' n hn => ?_, fun t' n hn => ?_⟩
    · by_cases ht : t' = t
      · subst ht; exact onl n (hseen.1 n hn)
      · rw [hoth t' ht] at hn; exact hsub n (h.seen t' n hn)
    · by_cases ht : t' = t
      · subst ht; exact onl n (hseen.2 n hn)
      · rw [hoth t' ht] at hn; exact hsub n (h.node t' n hn)
  rcases h.list.step ho t b with h1 | ⟨k, _, h1⟩
  · exact ⟨[], lift L h1 (fun _ hn => hn)⟩
  · exact ⟨[k], lift (k :: L) h1 (fun _ hn => List.mem_cons_of_mem _ hn)⟩

theorem Linked.reachable {st : State} (h : Reachable st) : ∃ L, Linked st L := by
  obtain ⟨cfg, progs, sched, rfl⟩ := h
  have h0 : ∃ L, Linked (State.initial cfg progs) L := ⟨[], Linked.initial cfg progs⟩
  have o0 := OwnInv.initial cfg progs
  generalize State.initial cfg progs = st at h0 o0
  induction sched generalizing st with
  | nil => exact h0
  | cons x rest ih =>
    obtain ⟨t, b⟩ := x
    obtain ⟨L, hL⟩ := h0
    obtain ⟨pre, hpre⟩ := hL.step o0 t b
    exact ih _ ⟨pre ++ L, hpre⟩ (o0.step t b)

/-- a debt slot that names a value belongs to a node on the list — given that only owners fill
    slots: stated for the node of a thread -/
theorem thread_node_on_list {st : State} (h : Reachable st) : ∃ L, ListInv st L ∧
    ∀ t n, (st.th t).loc.node = some n → n ∈ L := by
  obtain ⟨L, hL⟩ := Linked.reachable h
  exact ⟨L, hL.list, hL.node⟩

end M
