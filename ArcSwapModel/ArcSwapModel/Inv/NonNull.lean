import ArcSwapModel.Inv.Touch

/-!
# Null is never counted

Every step that leads to a state about to touch a reference count has checked that the pointer is
not null (`RefCnt::inc`/`dec` are called on non-null pointers only: `Option<Arc<T>>`'s `None` is the
null pointer).  So in every reachable state, `touch = some a` implies `a ≠ 0`.
-/

namespace M
open Consts

theorem GD.ofGuard_touch (g : Guard) (a : Nat) (h : (GD.ofGuard g).touch = some a) : a ≠ 0 := by
  simp only [GD.ofGuard] at h
  (repeat' split at h) <;> first | (cases h; done) | (simp only [GD.touch, Option.some.injEq] at h; subst h; assumption)

theorem GI.ofGuard_touch (g : Guard) (a : Nat) (h : (GI.ofGuard g).touch = some a) : a ≠ 0 := by
  simp only [GI.ofGuard] at h
  (repeat' split at h) <;> first | (cases h; done) | (simp only [GI.touch, Option.some.injEq] at h; subst h; assumption)

theorem stepGD_touch_nn (s : Shared) (gd : GD) (a : Nat) (h : (stepGD s gd).2.1.touch = some a) : a ≠ 0 := by
  cases gd <;> simp only [stepGD] at h <;> (repeat' split at h) <;>
    first | (cases h; done) | (simp only [GD.touch, Option.some.injEq] at h; subst h; assumption)

theorem stepGI_touch_nn (s : Shared) (gi : GI) (a : Nat) (h : (stepGI s gi).2.1.touch = some a) : a ≠ 0 := by
  cases gi <;> simp only [stepGI] at h <;> (repeat' split at h) <;>
    first | (cases h; done) | (simp only [GI.touch, Option.some.injEq] at h; subst h; assumption)

theorem stepLP_touch_nn (cfg : Cfg) (c : Nat) (s : Shared) (l : Locals) (b : Bool) (lp : LP) (a : Nat)
    (h : (stepLP cfg c s l b lp).2.2.1.touch = some a) : a ≠ 0 := by
  cases lp <;> simp only [stepLP] at h <;> (repeat' split at h) <;>
    first | (cases h; done) | (simp only [LP.touch, Option.some.injEq] at h; subst h; assumption)


theorem PP.dispatch_touch (p : Nat) (h : HL) : (PP.dispatch h).touch p = none := by
  simp only [PP.dispatch]; split <;> rfl
theorem PP.nextSlot_touch (p n j : Nat) : (PP.nextSlot n j).touch p = none := by
  simp only [PP.nextSlot]; split <;> rfl

theorem stepPP_touch_nn (cfg : Cfg) (p c : Nat) (s : Shared) (l : Locals) (b : Bool) (pp : PP) (a : Nat)
    (h : (stepPP cfg p c s l b pp).2.2.1.touch p = some a) : a ≠ 0 := by
  cases pp with
  | hload x ld =>
    have h1 := stepLP_touch_nn cfg c s l b ld a
    simp only [stepPP] at h
    split at h
    · rename_i s' l' r d evs heq
      split at h
      · cases h
      · exact GI.ofGuard_touch _ a h
    · rename_i s' l' ld' evs hne heq; rw [heq] at h1; exact h1 h
  | hinto x r gi =>
    have h1 := stepGI_touch_nn s gi a
    simp only [stepPP] at h
    split at h
    · cases h
    · rename_i s' gi' evs hne heq; rw [heq] at h1; exact h1 h
  | get ng =>
    simp only [stepPP] at h
    (repeat' split at h) <;>
      first | (cases h; done) | (simp only [PP.touch, Option.some.injEq] at h; subst h; assumption)
  | _ =>
    simp only [stepPP] at h <;> (repeat' split at h) <;>
      first
        | (cases h; done)
        | (rw [PP.dispatch_touch] at h; cases h; done)
        | (rw [PP.nextSlot_touch] at h; cases h; done)
        | (simp only [PP.touch, Option.some.injEq] at h; subst h; assumption)

theorem stepCP_touch_nn (cfg : Cfg) (c cur new : Nat) (s : Shared) (l : Locals) (b : Bool) (cp : CP) (a : Nat)
    (h : (stepCP cfg c cur new s l b cp).2.2.1.touch new = some a) : a ≠ 0 := by
  cases cp with
  | load ld =>
    have h1 := stepLP_touch_nn cfg c s l b ld a
    simp only [stepCP] at h
    split at h
    · (repeat' split at h) <;>
        first | (cases h; done) | (simp only [CP.touch, Option.some.injEq] at h; subst h; assumption)
    · rename_i s' l' ld' evs hne heq; rw [heq] at h1; exact h1 h
  | pay old pp =>
    have h1 := stepPP_touch_nn cfg old.ptr c s l b pp a
    simp only [stepCP] at h
    split at h
    · (repeat' split at h) <;>
        first | (cases h; done) | (simp only [CP.touch, Option.some.injEq] at h; subst h; assumption)
    · rename_i s' l' pp' evs hne heq; rw [heq] at h1; exact h1 h
  | dropOld gd =>
    have h1 := stepGD_touch_nn s gd a
    simp only [stepCP] at h
    split at h
    · cases h
    · rename_i s' gd' evs hne heq; rw [heq] at h1; exact h1 h
  | cx old =>
    simp only [stepCP] at h
    (repeat' split at h) <;>
      first | (cases h; done) | exact GD.ofGuard_touch _ a h
  | _ => simp only [stepCP] at h <;> cases h

theorem stepRP_touch_nn (cfg : Cfg) (c : Nat) (s : Shared) (l : Locals) (b : Bool) (tries : Nat) (rp : RP) (a : Nat)
    (h : (stepRP cfg c s l b tries rp).2.2.1.touch = some a) : a ≠ 0 := by
  cases rp with
  | load ld =>
    have h1 := stepLP_touch_nn cfg c s l b ld a
    simp only [stepRP] at h
    split at h
    · cases h
    · rename_i s' l' ld' evs hne heq; rw [heq] at h1; exact h1 h
  | cas cur x cp =>
    have h1 := stepCP_touch_nn cfg c cur.ptr x s l b cp a
    simp only [stepRP] at h
    split at h
    · (repeat' split at h) <;>
        first | (cases h; done) | exact GD.ofGuard_touch _ a h | exact GI.ofGuard_touch _ a h
    · rename_i s' l' cp' evs hne heq; rw [heq] at h1; exact h1 h
  | intoPrev cur prev gi =>
    have h1 := stepGI_touch_nn s gi a
    simp only [stepRP] at h
    split at h
    · (repeat' split at h) <;> first | (cases h; done) | exact GD.ofGuard_touch _ a h
    · rename_i s' gi' evs hne heq; rw [heq] at h1; exact h1 h
  | dropCur res gd =>
    have h1 := stepGD_touch_nn s gd a
    simp only [stepRP] at h
    split at h
    · cases h
    · rename_i s' gd' evs hne heq; rw [heq] at h1; exact h1 h
  | dropCurLoop prev gd =>
    have h1 := stepGD_touch_nn s gd a
    simp only [stepRP] at h
    split at h
    · cases h
    · rename_i s' gd' evs hne heq; rw [heq] at h1; exact h1 h
  | attempt cur => simp only [stepRP] at h; cases h
  | done r => simp only [stepRP] at h; cases h


theorem beginOp_touch_nn (st : State) (t : Nat) (o : Op) (a : Nat)
    (h : ((beginOp st t o).1.th t).op.touch = some a) : a ≠ 0 := by
  cases o with
  | dropg g =>
    simp only [beginOp] at h
    (repeat' split at h) <;> simp only [upd_same] at h <;>
      first | (cases h; done) | exact GD.ofGuard_touch _ a h
  | ginto g x =>
    simp only [beginOp] at h
    (repeat' split at h) <;> simp only [upd_same] at h <;>
      first | (cases h; done) | exact GI.ofGuard_touch _ a h
  | _ =>
    simp only [beginOp] at h <;> (repeat' split at h) <;> (try dsimp only at h) <;> (try simp only [upd_same] at h) <;>
      first
        | (cases h; done)
        | (simp only [OpSt.touch, Option.some.injEq] at h; subst h; assumption)

/-- **null is never counted**: after any step, the stepping thread is not about to touch the count
    of the null pointer -/
theorem microStep_touch_nn (st : State) (t : Nat) (b : Bool) (a : Nat)
    (h : ((microStep st t b).1.th t).op.touch = some a) : a ≠ 0 := by
  cases hop : (st.th t).op with
  | finished => simp only [microStep, hop] at h; first | (cases h; done) | (rw [hop] at h; cases h)
  | idle =>
    simp only [microStep, hop] at h
    split at h
    · simp only [upd_same] at h; split at h <;> cases h
    · rename_i txt o rest hp
      exact beginOp_touch_nn { st with th := upd st.th t { prog := rest, op := .idle, loc := (st.th t).loc } } t o a h
  | exitCool cd =>
    simp only [microStep, hop] at h
    split at h <;> simp only [upd_same] at h <;> cases h
  | load c g ld =>
    have h1 := stepLP_touch_nn st.cfg c st.sh (st.th t).loc b ld a
    simp only [microStep, hop] at h
    split at h
    · simp only [upd_same] at h; cases h
    · rename_i s' l' ld' evs hne heq; rw [heq] at h1; simp only [upd_same] at h; exact h1 h
  | loadFull c x ld =>
    have h1 := stepLP_touch_nn st.cfg c st.sh (st.th t).loc b ld a
    simp only [microStep, hop] at h
    split at h
    · split at h
      · simp only [upd_same] at h; cases h
      · simp only [upd_same] at h; exact GI.ofGuard_touch _ a h
    · rename_i s' l' ld' evs hne heq; rw [heq] at h1; simp only [upd_same] at h; exact h1 h
  | loadFullInto c x r gi =>
    have h1 := stepGI_touch_nn st.sh gi a
    simp only [microStep, hop] at h
    split at h
    · simp only [upd_same] at h; cases h
    · rename_i s' gi' evs hne heq; rw [heq] at h1; simp only [upd_same] at h; exact h1 h
  | ginto x p gi =>
    have h1 := stepGI_touch_nn st.sh gi a
    simp only [microStep, hop] at h
    split at h
    · simp only [upd_same] at h; cases h
    · rename_i s' gi' evs hne heq; rw [heq] at h1; simp only [upd_same] at h; exact h1 h
  | dropg gd =>
    have h1 := stepGD_touch_nn st.sh gd a
    simp only [microStep, hop] at h
    split at h
    · simp only [upd_same] at h; cases h
    · rename_i s' gd' evs hne heq; rw [heq] at h1; simp only [upd_same] at h; exact h1 h
  | cloneh x y a0 => simp only [microStep, hop, upd_same] at h; cases h
  | droph a0 => simp only [microStep, hop, upd_same] at h; cases h
  | swapDrop c a0 => simp only [microStep, hop, upd_same] at h; cases h
  | dropcDec c a0 => simp only [microStep, hop, upd_same] at h; cases h
  | swapSw c a0 out isStore =>
    simp only [microStep, hop] at h
    split at h
    · simp only [upd_same] at h; cases h
    · rw [hop] at h; cases h
  | swapPay c out old isStore pp =>
    have h1 := stepPP_touch_nn st.cfg old c st.sh (st.th t).loc b pp a
    simp only [microStep, hop] at h
    split at h
    · (repeat' split at h) <;> simp only [upd_same] at h <;>
        first | (cases h; done) | (simp only [OpSt.touch, Option.some.injEq] at h; subst h; assumption)
    · rename_i s' l' pp' evs hne heq; rw [heq] at h1; simp only [upd_same] at h; exact h1 h
  | cinto c x p pp =>
    have h1 := stepPP_touch_nn st.cfg p c st.sh (st.th t).loc b pp a
    simp only [microStep, hop] at h
    split at h
    · simp only [upd_same] at h; cases h
    · rename_i s' l' pp' evs hne heq; rw [heq] at h1; simp only [upd_same] at h; exact h1 h
  | dropc c p pp =>
    have h1 := stepPP_touch_nn st.cfg p c st.sh (st.th t).loc b pp a
    simp only [microStep, hop] at h
    split at h
    · (repeat' split at h) <;> simp only [upd_same] at h <;>
        first | (cases h; done) | (simp only [OpSt.touch, Option.some.injEq] at h; subst h; assumption)
    · rename_i s' l' pp' evs hne heq; rw [heq] at h1; simp only [upd_same] at h; exact h1 h
  | cas c cur keep curPtr new g cp =>
    have h1 := stepCP_touch_nn st.cfg c curPtr new st.sh (st.th t).loc b cp a
    simp only [microStep, hop] at h
    split at h
    · simp only [upd_same] at h; cases h
    · rename_i s' l' cp' evs hne heq; rw [heq] at h1; simp only [upd_same] at h; exact h1 h
  | rcu c out tries rp =>
    have h1 := stepRP_touch_nn st.cfg c st.sh (st.th t).loc b tries rp a
    simp only [microStep, hop] at h
    split at h
    · simp only [upd_same] at h; cases h
    · rename_i s' l' rp' tries' evs hne heq; rw [heq] at h1; simp only [upd_same] at h; exact h1 h

/-- in every reachable state, no thread is about to touch the count of the null pointer -/
theorem touch_nonnull {st : State} (h : Reachable st) (t a : Nat) (ht : (st.th t).op.touch = some a) : a ≠ 0 := by
  obtain ⟨cfg, progs, sched, rfl⟩ := h
  have h0 : ∀ t a, ((State.initial cfg progs).th t).op.touch = some a → a ≠ 0 := fun t a h => by
    simp [State.initial, OpSt.touch] at h
  revert t a
  generalize State.initial cfg progs = st at h0
  induction sched generalizing st with
  | nil => exact h0
  | cons x rest ih =>
    obtain ⟨u, b⟩ := x
    refine ih _ (fun t a h => ?_)
    by_cases e : t = u
    · subst e; exact microStep_touch_nn st t b a h
    · rw [(microStep_own st u b).2 t e] at h; exact h0 t a h

end M
