import ArcSwapModel.Inv.AcctNode
import ArcSwapModel.Inv.FaultMono

/-!
# The ledger over whole executions, with the local well-formedness proved

`Wf K st` — nodes that do not exist yet are untouched, every thread's node exists, every program
counter and every guard in a register is locally well-formed — holds initially and is preserved by
every step (`Wf.step`).  With it, `StepOK` follows from assumptions about the program and the
environment only (`EnvOK`): registers are not raced on, `mk` creates fresh containers, the value
pool is not exhausted, `K` bounds the number of nodes ever linked, no control word ever holds an
envelope (no hand-over succeeds), and no fault is raised.  `C02_ledger_env`: along every such
execution the ledger balances.
-/

namespace M
open Consts

structure Wf (K : Nat) (st : State) : Prop where
  nodes : NodesOk st.sh
  thN : ∀ t, (st.th t).op.okN st.sh (st.th t).loc
  thL : ∀ t, (st.th t).op.okL K
  greg : GregOk K st.sh

/-- no control word holds an envelope: no hand-over is in flight -/
def NoEnv (s : Shared) : Prop := ∀ n j, (s.nodes n).control ≠ .env j

theorem Wf.node_lt {K : Nat} {st : State} (h : Wf K st) (hK : 0 < K) (hn : st.sh.nNodes ≤ K) (t : Nat) :
    (st.th t).loc.node.getD 0 < K := by
  have := OpSt.okN_lt (h.thN t)
  cases hl : (st.th t).loc.node with
  | none => simpa using hK
  | some n => have := this n hl; simp only [Option.getD_some]; omega

theorem Wf.step {K : Nat} {st : State} (h : Wf K st) (t : Nat) (b : Bool) (hK : 0 < K)
    (hn : st.sh.nNodes ≤ K) (hne : NoEnv st.sh) : Wf K (microStep st t b).1 := by
  obtain ⟨hN1, hN2, hN3⟩ := microStep_okN st t b h.nodes (h.thN t)
  obtain ⟨hL1, hL2⟩ := microStep_okL K st t b (h.thL t) h.greg (h.node_lt hK hn t) (fun j => hne _ j)
  have hoth := (microStep_own st t b).2
  refine ⟨hN2, fun t' => ?_, fun t' => ?_, hL2⟩
  · by_cases ht : t' = t
    · subst ht; exact hN1
    · rw [hoth t' ht]; exact OpSt.okN_mono hN3 _ _ (h.thN t')
  · by_cases ht : t' = t
    · subst ht; exact hL1
    · rw [hoth t' ht]; exact h.thL t'

theorem Wf.initial (K : Nat) (cfg : Cfg) (progs : Nat → List (String × Op)) : Wf K (State.initial cfg progs) := by
  refine ⟨⟨fun n _ => rfl, fun n _ => ⟨fun _ => rfl, rfl⟩⟩, fun t => ?_, fun t => trivial, fun g gd hg => ?_⟩
  · intro n hn; simp [State.initial] at hn
  · simp [State.initial] at hg

/-- the register part of `OpSt.ok`: indices in range, output registers free (program discipline) -/
def OpSt.okR (N : Nat) (s : Shared) : OpSt → Prop
  | .load c g _ => c < N ∧ g < N ∧ s.greg g = none
  | .loadFull c h _ => c < N ∧ h < N ∧ s.hreg h = none
  | .loadFullInto _ h _ _ => h < N ∧ s.hreg h = none
  | .cloneh h h2 _ => h < N ∧ h2 < N ∧ h ≠ h2 ∧ s.hreg h = none ∧ s.hreg h2 = none
  | .ginto h _ _ => h < N ∧ s.hreg h = none
  | .swapSw c _ _ _ => c < N
  | .swapPay _ out _ isStore _ => (isStore = false → out < N ∧ s.hreg out = none)
  | .cas c cur keep _ _ g _ => c < N ∧ g < N ∧ s.greg g = none ∧
      (match cur, keep with
        | .h hc, none => hc < N ∧ s.hreg hc = none
        | .g gc, some _ => gc < N ∧ gc ≠ g ∧ s.greg gc = none
        | .null, none => True
        | _, _ => False)
  | .rcu c out _ _ => c < N ∧ out < N ∧ s.hreg out = none
  | .cinto c h p _ => c < N ∧ h < N ∧ s.hreg h = none ∧ s.cells c = some p
  | .dropc c p _ => c < N ∧ s.cells c = some p
  | .dropcDec c p => c < N ∧ s.cells c = some p
  | _ => True

theorem OpSt.ok_of {K N : Nat} {s : Shared} {op : OpSt} (hl : op.okL K) (hr : op.okR N s) : op.ok K N s := by
  cases op with
  | load c g ld => exact ⟨hl, hr⟩
  | loadFull c h ld => exact ⟨hl, hr⟩
  | loadFullInto c h r gi => exact ⟨hl, hr⟩
  | cloneh h h2 a => exact hr
  | dropg gd => exact hl
  | ginto h p gi => exact ⟨hl, hr⟩
  | swapSw c a out i => exact hr
  | swapPay c out old i pp => exact ⟨hl, hr⟩
  | cas c cur keep curPtr new g cp => exact ⟨hl.1, hr⟩
  | rcu c out tr rp => exact ⟨hl, hr⟩
  | cinto c h p pp => exact ⟨hl, hr⟩
  | dropc c p pp => exact ⟨hl, hr⟩
  | dropcDec c p => exact hr
  | _ => trivial

/-- a successful hand-over leaves an envelope in the reader's control word -/
theorem h7_success_env (st : State) (t : Nat) (b : Bool) (h : HL) (r x m : Nat)
    (hp : (st.th t).op.pp? = some (.h7 h r x m)) (hx : (st.sh.nodes h.who).control = h.ctl) :
    ((microStep st t b).1.sh.nodes h.who).control = .env m := by
  cases hop : (st.th t).op with
  | swapPay c out old isStore pp =>
    rw [hop] at hp; simp only [OpSt.pp?, Option.some.injEq] at hp; subst hp
    simp [microStep, hop, stepPP, hx]
  | cinto c y p pp =>
    rw [hop] at hp; simp only [OpSt.pp?, Option.some.injEq] at hp; subst hp
    simp [microStep, hop, stepPP, hx]
  | dropc c p pp =>
    rw [hop] at hp; simp only [OpSt.pp?, Option.some.injEq] at hp; subst hp
    simp [microStep, hop, stepPP, hx]
  | cas c cur keep curPtr new g cp =>
    rw [hop] at hp
    cases cp with
    | pay old pp =>
      simp only [OpSt.pp?, CP.pp?, Option.some.injEq] at hp; subst hp
      simp [microStep, hop, stepCP, stepPP, hx]
    | _ => simp [OpSt.pp?, CP.pp?] at hp
  | rcu c out tries rp =>
    rw [hop] at hp
    cases rp with
    | cas cur a cp =>
      cases cp with
      | pay old pp =>
        simp only [OpSt.pp?, CP.pp?, Option.some.injEq] at hp; subst hp
        simp [microStep, hop, stepRP, stepCP, stepPP, hx]
      | _ => simp [OpSt.pp?, CP.pp?] at hp
    | _ => simp [OpSt.pp?] at hp
  | _ => rw [hop] at hp; simp [OpSt.pp?] at hp

/-- what is assumed of the program and the environment for one step -/
structure EnvOK (K N : Nat) (st : State) (t : Nat) (b : Bool) : Prop where
  regs : (st.th t).op.okR N st.sh
  nodesBelow : (microStep st t b).1.sh.nNodes ≤ K
  noEnv : NoEnv st.sh
  noEnvAfter : NoEnv (microStep st t b).1.sh
  room : ∀ v, (st.sh.heap (alloc st.sh v).2.1).cnt = 0
  next : ∀ txt o rest, (st.th t).prog = (txt, o) :: rest → o.below N ∧ (∀ c h, o = .mk c h → st.sh.cells c = none)
  noFault : (microStep st t b).1.sh.fault = none

theorem StepOK.of_wf {K N : Nat} {st : State} {t : Nat} {b : Bool} (h : Wf K st) (hK : 0 < K)
    (he : EnvOK K N st t b) : StepOK K N st t b := by
  have hmono := (microStep_okN st t b h.nodes (h.thN t)).2.2
  have hn : st.sh.nNodes ≤ K := Nat.le_trans hmono he.nodesBelow
  exact {
    ok := OpSt.ok_of (h.thL t) he.regs
    node := h.node_lt hK hn t
    beyond := h.nodes.slots
    nodesBelow := hn
    noHandover := fun hh r x m hp hx => he.noEnvAfter hh.who m (h7_success_env st t b hh r x m hp hx)
    room := he.room
    next := he.next
    noFault := he.noFault }

/-- executions all of whose steps satisfy `EnvOK` (threads below `T`) -/
def EnvRun (K N T : Nat) : State → List (Nat × Bool) → Prop
  | _, [] => True
  | st, (t, b) :: rest => t < T ∧ EnvOK K N st t b ∧ EnvRun K N T (microStep st t b).1 rest

theorem GoodRun.of_env {K N T : Nat} (hK : 0 < K) {st : State} (h : Wf K st) (sched : List (Nat × Bool))
    (he : EnvRun K N T st sched) : GoodRun K N T st sched := by
  induction sched generalizing st with
  | nil => trivial
  | cons x rest ih =>
    obtain ⟨t, b⟩ := x
    obtain ⟨ht, h1, hrest⟩ := he
    have hs := StepOK.of_wf h hK h1
    exact ⟨ht, hs, ih (h.step t b hK hs.nodesBelow h1.noEnv) hrest⟩

/-- **C02, the global sum.**  Along every execution from the initial state whose steps satisfy
    `EnvOK` — assumptions about the program (registers are not raced on, `mk` creates fresh
    containers), the pool (not exhausted), the bound `K` on the nodes ever linked, and that no
    hand-over succeeds and no fault is raised — for every value: strong count + debt slots naming it
    = containers + handles + guards denoting it + units of the operations in flight. -/
theorem C02_ledger_env (K N T : Nat) (hK : 0 < K) (cfg : Cfg) (progs : Nat → List (String × Op))
    (sched : List (Nat × Bool)) (he : EnvRun K N T (State.initial cfg progs) sched) :
    Ledger K N T (run (State.initial cfg progs) sched) :=
  C02_ledger K N T cfg progs sched (GoodRun.of_env hK (Wf.initial K cfg progs) sched he)

/-- non-vacuity: a concrete execution (one thread creating a value) satisfies `EnvRun` -/
example : EnvRun 1 4 1 (State.initial {} (fun t => if t = 0 then [("new h0 5", .new 0 5)] else [])) [(0, false)] := by
  refine ⟨by decide, ⟨trivial, by decide, ?_, ?_, ?_, ?_, by decide⟩, trivial⟩
  · intro n j; simp [State.initial]
  · intro n j; simp [State.initial, microStep, beginOp, alloc]
  · intro v; rfl
  · intro txt o rest hp
    simp only [State.initial, ↓reduceIte, List.cons.injEq, Prod.mk.injEq] at hp
    obtain ⟨⟨_, rfl⟩, _⟩ := hp
    exact ⟨by show 0 < 4; decide, fun c h e => by cases e⟩

/-- a fault-free end means a fault-free execution -/
theorem run_fault_mono (st : State) (sched : List (Nat × Bool)) (h : (run st sched).sh.fault = none) :
    st.sh.fault = none := by
  induction sched generalizing st with
  | nil => exact h
  | cons x rest ih => obtain ⟨t, b⟩ := x; exact microStep_fault_mono st t b (ih _ h)

/-- `EnvOK` without the no-fault clause -/
structure EnvOK0 (K N : Nat) (st : State) (t : Nat) (b : Bool) : Prop where
  regs : (st.th t).op.okR N st.sh
  nodesBelow : (microStep st t b).1.sh.nNodes ≤ K
  noEnv : NoEnv st.sh
  noEnvAfter : NoEnv (microStep st t b).1.sh
  room : ∀ v, (st.sh.heap (alloc st.sh v).2.1).cnt = 0
  next : ∀ txt o rest, (st.th t).prog = (txt, o) :: rest → o.below N ∧ (∀ c h, o = .mk c h → st.sh.cells c = none)

def EnvRun0 (K N T : Nat) : State → List (Nat × Bool) → Prop
  | _, [] => True
  | st, (t, b) :: rest => t < T ∧ EnvOK0 K N st t b ∧ EnvRun0 K N T (microStep st t b).1 rest

theorem EnvRun.of_final {K N T : Nat} {st : State} (sched : List (Nat × Bool)) (he : EnvRun0 K N T st sched)
    (hf : (run st sched).sh.fault = none) : EnvRun K N T st sched := by
  induction sched generalizing st with
  | nil => trivial
  | cons x rest ih =>
    obtain ⟨t, b⟩ := x
    obtain ⟨ht, h1, hrest⟩ := he
    have hf1 : (microStep st t b).1.sh.fault = none := run_fault_mono _ rest hf
    exact ⟨ht, ⟨h1.regs, h1.nodesBelow, h1.noEnv, h1.noEnvAfter, h1.room, h1.next, hf1⟩, ih hrest hf⟩

/-- **C02, the global sum, for executions that end without a fault.** -/
theorem C02_ledger_final (K N T : Nat) (hK : 0 < K) (cfg : Cfg) (progs : Nat → List (String × Op))
    (sched : List (Nat × Bool)) (he : EnvRun0 K N T (State.initial cfg progs) sched)
    (hf : (run (State.initial cfg progs) sched).sh.fault = none) :
    Ledger K N T (run (State.initial cfg progs) sched) :=
  C02_ledger_env K N T hK cfg progs sched (EnvRun.of_final sched he hf)

end M
