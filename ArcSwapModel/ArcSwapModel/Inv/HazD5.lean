import ArcSwapModel.Inv.HazD4

/-!
# Guards held by an operation in flight: `rcu`'s closure dereferences a live value

The same four cases as for a guard in a register (`guard_value_alive_env`), for a claim held by a
thread's operation: what an operation holds on to while it runs — the guard `rcu` hands to its
closure — is alive.
-/

namespace M
open Consts

/-- **what an operation in flight holds is alive**: thread `t`'s operation accounts for a unit of
    `a` beyond its claims (it owns a reference), or claims a fast slot `(n, i)` for `a` that it is
    not itself still confirming (or claims twice: a paid guard and a fresh publication of the same
    value through the same slot) -/
theorem thread_held_alive (K N T : Nat) (hK : 0 < K) (cfg : Cfg) (progs : Nat → List (String × Op))
    (sched : List (Nat × Bool)) (he : EnvRun0 K N T (State.initial cfg progs) sched)
    (hf : (run (State.initial cfg progs) sched).sh.fault = none) (a : Nat) (ha : a ≠ 0)
    (t : Nat) (ht : t < T)
    (hcase : (((run (State.initial cfg progs) sched).th t).op.claims a ((run (State.initial cfg progs) sched).th t).loc).length + 1 ≤
          uOp ((run (State.initial cfg progs) sched).th t).op a ∨
        ∃ n i, n < K ∧ i < slotCnt ∧
          (n, i) ∈ ((run (State.initial cfg progs) sched).th t).op.claims a ((run (State.initial cfg progs) sched).th t).loc ∧
          (((run (State.initial cfg progs) sched).th t).loc.node = some n →
            Unc ((run (State.initial cfg progs) sched).th t).op.lp? a i →
            2 ≤ cnt2 (((run (State.initial cfg progs) sched).th t).op.claims a ((run (State.initial cfg progs) sched).th t).loc) n i)) :
    1 ≤ ((run (State.initial cfg progs) sched).sh.heap a).cnt ∧
      ((run (State.initial cfg progs) sched).sh.heap a).live = true := by
  suffices hcnt : 1 ≤ ((run (State.initial cfg progs) sched).sh.heap a).cnt from
    ⟨hcnt, HeapOk.reachable ⟨cfg, progs, sched, rfl⟩ a hcnt⟩
  have hG : sumN (fun g => (gClaims a ((run (State.initial cfg progs) sched).sh.greg g)).length) N ≤
      sumN (fun g => gU ((run (State.initial cfg progs) sched).sh.greg g) a) N :=
    sumN_le (fun g _ => gClaims_len _ a)
  rcases hcase with hstrict | ⟨n, i, hnK, hiS, hmem, hnu⟩
  · have h := count_plus_claims K N T hK cfg progs sched he hf a ha
    have hT : sumN (fun t => (((run (State.initial cfg progs) sched).th t).op.claims a
          ((run (State.initial cfg progs) sched).th t).loc).length) T + 1 ≤
        threadsU T (run (State.initial cfg progs) sched) a :=
      sumN_lt (fun m _ => OpSt.claims_len _ _ a) ht hstrict
    simp only [Shared.regs, regs] at h
    omega
  · have hl := C02_ledger_final K N T hK cfg progs sched he hf a ha
    have h1 := holdInv_of_env cfg progs sched he hf
    have h2 := HHoldInv.reachable ⟨cfg, progs, sched, rfl⟩ hf
    have hgb : GregBelow N (run (State.initial cfg progs) sched).sh.greg :=
      gregBelow_run N sched (RegRun.of_env he) (fun _ _ => rfl)
    have hib : IdleBeyond T (run (State.initial cfg progs) sched) :=
      idleBeyond_run sched he (fun _ _ => rfl)
    have hT : sumN (fun t => (((run (State.initial cfg progs) sched).th t).op.claims a
          ((run (State.initial cfg progs) sched).th t).loc).length) T ≤
        threadsU T (run (State.initial cfg progs) sched) a :=
      sumN_le (fun t _ => OpSt.claims_len _ _ a)
    have c1 : 1 ≤ cnt2 (((run (State.initial cfg progs) sched).th t).op.claims a
        ((run (State.initial cfg progs) sched).th t).loc) n i := cnt2_pos hmem
    have s1 := @sumN_term (fun t => cnt2 (((run (State.initial cfg progs) sched).th t).op.claims a
        ((run (State.initial cfg progs) sched).th t).loc) n i) T t ht
    have e0 : named ((run (State.initial cfg progs) sched).sh.nodes n) a i ≤ 1 := by
      simp only [named]; split <;> simp only [ind] <;> split <;> omega
    -- a claim nobody matches, or matched twice: the count is strictly larger
    have strict : named ((run (State.initial cfg progs) sched).sh.nodes n) a i + 1 ≤
        sumN (fun g => cnt2 (gClaims a ((run (State.initial cfg progs) sched).sh.greg g)) n i) N +
        sumN (fun t => cnt2 (((run (State.initial cfg progs) sched).th t).op.claims a
          ((run (State.initial cfg progs) sched).th t).loc) n i) T →
        1 ≤ ((run (State.initial cfg progs) sched).sh.heap a).cnt := by
      intro hover
      have hocc := occ_lt_claims K N T _ a h1 h2 hgb hib n i hnK (by omega) hover
      simp only [pot, Shared.regs, regs] at hl
      omega
    by_cases hs : ((run (State.initial cfg progs) sched).sh.nodes n).fast i = .ptr a
    · by_cases hu : ∃ o, ((run (State.initial cfg progs) sched).th o).loc.node = some n ∧
          Unc ((run (State.initial cfg progs) sched).th o).op.lp? a i
      · obtain ⟨o, hno, huo⟩ := hu
        by_cases hot' : o = t
        · subst hot'
          have := hnu hno huo
          exact strict (by omega)
        have hot : o ≠ t := hot'
        have hoT : o < T := by
          refine Nat.lt_of_not_le (fun hle => ?_)
          exact idle_not_unc (hib o hle) a i huo
        have c2 : 1 ≤ cnt2 (((run (State.initial cfg progs) sched).th o).op.claims a
            ((run (State.initial cfg progs) sched).th o).loc) n i :=
          cnt2_pos (OpSt.claims_of_holds (holds_of_unc _ n i a hno huo))
        -- two different threads claim the slot
        have two : 2 ≤ sumN (fun t => cnt2 (((run (State.initial cfg progs) sched).th t).op.claims a
            ((run (State.initial cfg progs) sched).th t).loc) n i) T := by
          have := @sumN_lt (fun u => if u = o then 0 else cnt2 (((run (State.initial cfg progs) sched).th u).op.claims a
              ((run (State.initial cfg progs) sched).th u).loc) n i)
            (fun u => cnt2 (((run (State.initial cfg progs) sched).th u).op.claims a
              ((run (State.initial cfg progs) sched).th u).loc) n i) T o
            (fun m _ => by split <;> omega) hoT (by simp only [↓reduceIte]; omega)
          have s3 := @sumN_term (fun u => if u = o then 0 else cnt2 (((run (State.initial cfg progs) sched).th u).op.claims a
              ((run (State.initial cfg progs) sched).th u).loc) n i) T t ht
          have : (if t = o then 0 else cnt2 (((run (State.initial cfg progs) sched).th t).op.claims a
              ((run (State.initial cfg progs) sched).th t).loc) n i) ≥ 1 := by
            have : ¬ t = o := fun e => hot e.symm
            simp only [this, ↓reduceIte]; exact c1
          omega
        exact strict (by omega)
      · exact (confirmed_slot_value_alive K N T hK cfg progs sched he (TameRun2.of_env he) hf a ha n i hiS hs
          (fun o hno huo => hu ⟨o, hno, huo⟩)).1
    · have e1 : named ((run (State.initial cfg progs) sched).sh.nodes n) a i = 0 := by
        simp only [named, hiS, ↓reduceIte, ind, hs]
      exact strict (by omega)

/-- **the closure of `rcu` is handed a live value**: at the step at which `rcu` evaluates the
    closure on the current value (`|v| v + 1` in the model: a dereference and an allocation), that
    value has not been destroyed — so the step raises no use-after-free fault, whatever the other
    threads have done since the value was loaded -/
theorem rcu_closure_value_alive (K N T : Nat) (hK : 0 < K) (cfg : Cfg) (progs : Nat → List (String × Op))
    (sched : List (Nat × Bool)) (he : EnvRun0 K N T (State.initial cfg progs) sched)
    (hf : (run (State.initial cfg progs) sched).sh.fault = none)
    (t : Nat) (ht : t < T) (c out tries : Nat) (cur : Guard) (hp : cur.ptr ≠ 0)
    (hop : ((run (State.initial cfg progs) sched).th t).op = .rcu c out tries (.attempt cur)) :
    ((run (State.initial cfg progs) sched).sh.heap cur.ptr).live = true := by
  have hwf := Wf.run0 hK (Wf.initial K cfg progs) sched he
  have hok := hwf.thL t
  rw [hop] at hok
  refine (thread_held_alive K N T hK cfg progs sched he hf cur.ptr hp t ht ?_).2
  rw [hop]
  cases hd : cur.debt with
  | none =>
    left
    simp [OpSt.claims, RP.claims, Guard.claims, hd, uOp, uRP, uG, u]
  | some ni =>
    obtain ⟨n, i⟩ := ni
    right
    obtain ⟨hnK, hiS⟩ := hok n i hd
    refine ⟨n, i, hnK, hiS, ?_, ?_⟩
    · simp only [OpSt.claims, RP.claims]
      exact Guard.claims_of_holds ⟨rfl, hd⟩
    · intro _ hu; exfalso; rcases hu with hu | hu <;> simp [OpSt.lp?, RP.lp?] at hu


/-- … hence evaluating the closure raises no fault -/
theorem rcu_attempt_no_fault (K N T : Nat) (hK : 0 < K) (cfg : Cfg) (progs : Nat → List (String × Op))
    (sched : List (Nat × Bool)) (he : EnvRun0 K N T (State.initial cfg progs) sched)
    (hf : (run (State.initial cfg progs) sched).sh.fault = none)
    (t : Nat) (ht : t < T) (b : Bool) (c out tries : Nat) (cur : Guard)
    (hop : ((run (State.initial cfg progs) sched).th t).op = .rcu c out tries (.attempt cur)) :
    (microStep (run (State.initial cfg progs) sched) t b).1.sh.fault = none := by
  by_cases hp : cur.ptr = 0
  · simp [microStep, hop, stepRP, hp, alloc, hf]
  · have hl := rcu_closure_value_alive K N T hK cfg progs sched he hf t ht c out tries cur hp hop
    simp [microStep, hop, stepRP, hl, alloc, hf]

end M
