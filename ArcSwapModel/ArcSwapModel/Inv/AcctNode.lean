import ArcSwapModel.Inv.AcctWf

/-!
# Node indices stay below `nNodes`; nodes beyond it stay untouched

What `microStep_cons` assumes about nodes — the stepping thread's node index is below `K`, nodes that
do not exist yet have no occupied slot — follows from flow facts proved invariant here: a thread's
node, once set, is a node that exists; a load past its first steps has its node set; slots are
written only in the thread's own node; a node index handed out by `Node::get` exists (a node that
does not exist yet looks `USED`, so it is never claimed).
-/

namespace M
open Consts

/-- nodes that do not exist yet look `USED` (part of `OwnInv`) -/
def InUseBeyond (s : Shared) : Prop := ∀ n, s.nNodes ≤ n → (s.nodes n).inUse = nodeUsed

def NG.okN (s : Shared) : NG → Prop
  | .done n => n < s.nNodes
  | .allocCas (some k) _ => k < s.nNodes
  | _ => True

theorem stepNG_okN (s : Shared) (b : Bool) (ng : NG) (hi : InUseBeyond s) (hb : Beyond s) (hk : ng.okN s) :
    (stepNG s b ng).2.1.okN (stepNG s b ng).1 ∧ InUseBeyond (stepNG s b ng).1 ∧ Beyond (stepNG s b ng).1 ∧
      s.nNodes ≤ (stepNG s b ng).1.nNodes := by
  have hd := Consts.node_states_distinct
  have frameI : ∀ (n : Nat) (v : Nat), (s.nodes n).inUse ≠ nodeUsed →
      InUseBeyond (s.setNode n fun nd => { nd with inUse := v }) := by
    intro n v hne m hm
    by_cases hmn : m = n
    · subst hmn; exact absurd (hi m hm) hne
    · simp only [setNode_nodes_other _ _ _ _ hmn]; exact hi m hm
  have frameB : ∀ (n : Nat) (v : Nat), Beyond (s.setNode n fun nd => { nd with inUse := v }) :=
    fun n v => hb.setNode_frame n _ (fun _ => ⟨rfl, rfl⟩)
  cases ng with
  | trav => simp only [stepNG]; exact ⟨by split <;> trivial, hi, hb, Nat.le_refl _⟩
  | cc0 n =>
    simp only [stepNG]; split
    · rename_i hv
      exact ⟨trivial, frameI n _ (by rw [hv]; exact hd.2.1.symm), frameB n _, Nat.le_refl _⟩
    · exact ⟨trivial, hi, hb, Nat.le_refl _⟩
  | cc1 n => simp only [stepNG]; exact ⟨trivial, hi, hb, Nat.le_refl _⟩
  | cc2 n idle =>
    simp only [stepNG]; split
    · rename_i hv
      exact ⟨trivial, frameI n _ (by rw [hv]; exact Consts.node_checking_distinct.1), frameB n _, Nat.le_refl _⟩
    · exact ⟨trivial, fun m hm => by simpa using hi m (by simpa using hm), fun m hm => by simpa using hb m (by simpa using hm), by simp⟩
  | claim n =>
    simp only [stepNG]; split
    · rename_i hv
      refine ⟨?_, frameI n _ (by rw [hv]; exact hd.1), frameB n _, Nat.le_refl _⟩
      show n < s.nNodes
      apply Classical.byContradiction; intro hge
      have := hi n (by omega)
      rw [hv] at this; exact hd.1 this
    · refine ⟨?_, hi, hb, Nat.le_refl _⟩
      unfold NG.afterNode; split <;> trivial
  | allocLoad => simp only [stepNG]; exact ⟨trivial, hi, hb, Nat.le_refl _⟩
  | allocCas me h =>
    cases me with
    | some k =>
      have hI : InUseBeyond (s.setNode k fun nd => { nd with next := h }) := by
        intro m hm
        by_cases hmk : m = k
        · subst hmk; simp only [setNode_nodes_same]; exact hi m hm
        · simp only [setNode_nodes_other _ _ _ _ hmk]; exact hi m hm
      have hB : Beyond (s.setNode k fun nd => { nd with next := h }) := hb.setNode_frame k _ (fun _ => ⟨rfl, rfl⟩)
      simp only [stepNG]
      split
      · exact ⟨hk, hI, hB, Nat.le_refl _⟩
      · exact ⟨hk, hI, hB, Nat.le_refl _⟩
    | none =>
      simp only [stepNG]
      split
      · refine ⟨by show s.nNodes < s.nNodes + 1; omega, ?_, ?_, by show s.nNodes ≤ s.nNodes + 1; omega⟩
        · intro m hm
          have hm' : s.nNodes + 1 ≤ m := hm
          have hne : m ≠ s.nNodes := by omega
          simp only [Shared.setNode, upd, hne, ↓reduceIte]
          exact hi m (by omega)
        · intro m hm
          have hm' : s.nNodes + 1 ≤ m := hm
          have hne : m ≠ s.nNodes := by omega
          simp only [Shared.setNode, upd, hne, ↓reduceIte]
          exact hb m (by omega)
      · refine ⟨by show s.nNodes < s.nNodes + 1; omega, ?_, ?_, by show s.nNodes ≤ s.nNodes + 1; omega⟩
        · intro m hm
          have hm' : s.nNodes + 1 ≤ m := hm
          have hne : m ≠ s.nNodes := by omega
          simp only [Shared.setNode, upd, hne, ↓reduceIte]
          exact hi m (by omega)
        · intro m hm
          have hm' : s.nNodes + 1 ≤ m := hm
          have hne : m ≠ s.nNodes := by omega
          simp only [Shared.setNode, upd, hne, ↓reduceIte]
          exact hb m (by omega)
  | done n => simp only [stepNG]; exact ⟨hk, hi, hb, Nat.le_refl _⟩

/-- the state of nodes that matters here: existing-node bookkeeping and emptiness beyond it -/
structure NodesOk (s : Shared) : Prop where
  inUse : InUseBeyond s
  slots : Beyond s

theorem NodesOk.of_nodes {s s' : Shared} (h : NodesOk s) (hn : s'.nodes = s.nodes) (hk : s'.nNodes = s.nNodes) :
    NodesOk s' := by
  refine ⟨fun n hm => ?_, fun n hm => ?_⟩
  · rw [hn]; exact h.inUse n (by omega)
  · rw [hn]; exact h.slots n (by omega)

theorem NodesOk.setFault {s : Shared} (h : NodesOk s) (f : Fault) : NodesOk (s.setFault f) :=
  h.of_nodes (by simp) (by simp)

theorem NodesOk.ite_setFault {s : Shared} (h : NodesOk s) (c : Prop) [Decidable c] (f : Fault) :
    NodesOk (if c then s else s.setFault f) := by
  split
  · exact h
  · exact h.setFault f

theorem NodesOk.dbg {s : Shared} (h : NodesOk s) (n : Nat) (site : String) : NodesOk (dbgInUse s n site) := by
  unfold dbgInUse; split
  · exact h
  · exact h.setFault _

theorem NodesOk.inc {s : Shared} (h : NodesOk s) (a : Nat) : NodesOk (incObj s a).1 :=
  h.of_nodes (by simp) (by simp)
theorem NodesOk.dec {s : Shared} (h : NodesOk s) (a : Nat) : NodesOk (decObj s a).1 :=
  h.of_nodes (by simp) (by simp)

/-- an update of a node that keeps `in_use` and keeps empty slots empty (a pay-off, a control
    word, a writer count, …) — of any node, existing or not -/
theorem NodesOk.setNode_pres {s : Shared} (h : NodesOk s) (n : Nat) (f : Node → Node)
    (hi : ∀ nd, (f nd).inUse = nd.inUse)
    (hs : ∀ nd, ((∀ i, nd.fast i = .none) ∧ nd.hslot = .none) → ((∀ i, (f nd).fast i = .none) ∧ (f nd).hslot = .none)) :
    NodesOk (s.setNode n f) := by
  refine ⟨fun m hm => ?_, fun m hm => ?_⟩
  · by_cases hmn : m = n
    · subst hmn; simp only [setNode_nodes_same, hi]; exact h.inUse m hm
    · simp only [setNode_nodes_other _ _ _ _ hmn]; exact h.inUse m hm
  · by_cases hmn : m = n
    · subst hmn; simp only [setNode_nodes_same]; exact hs _ (h.slots m hm)
    · simp only [setNode_nodes_other _ _ _ _ hmn]; exact h.slots m hm

/-- any update of a node that exists -/
theorem NodesOk.setNode_lt {s : Shared} (h : NodesOk s) (n : Nat) (f : Node → Node) (hn : n < s.nNodes) :
    NodesOk (s.setNode n f) := by
  refine ⟨fun m hm => ?_, fun m hm => ?_⟩
  · have hmn : m ≠ n := by have : s.nNodes ≤ m := hm; omega
    simp only [setNode_nodes_other _ _ _ _ hmn]; exact h.inUse m hm
  · have hmn : m ≠ n := by have : s.nNodes ≤ m := hm; omega
    simp only [setNode_nodes_other _ _ _ _ hmn]; exact h.slots m hm

theorem upd_none_keeps (f : Nat → Val) (i : Nat) (h : ∀ j, f j = .none) : ∀ j, upd f i .none j = .none := by
  intro j; by_cases hj : j = i <;> simp [upd, hj, h j]

def CD.okN (s : Shared) : CD → Prop
  | .res n | .swap n | .rel n => n < s.nNodes
  | .done => True

theorem stepCD_okN (s : Shared) (cd : CD) (h : NodesOk s) (hk : cd.okN s) :
    (stepCD s cd).2.1.okN (stepCD s cd).1 ∧ NodesOk (stepCD s cd).1 ∧ (stepCD s cd).1.nNodes = s.nNodes := by
  cases cd with
  | res n => simp only [stepCD]; exact ⟨hk, h.setNode_lt n _ hk, rfl⟩
  | swap n =>
    simp only [stepCD]
    refine ⟨?_, ?_, ?_⟩
    · split
      · exact hk
      · show n < (Shared.setFault _ _).nNodes
        have hk' : n < s.nNodes := hk
        simpa using hk'
    · exact (h.setNode_lt n _ hk).ite_setFault _ _
    · split <;> simp
  | rel n => simp only [stepCD]; exact ⟨trivial, h.setNode_lt n _ hk, rfl⟩
  | done => simp only [stepCD]; exact ⟨trivial, h, trivial⟩

/-- a load is past its first steps: its thread's node is set -/
def LP.early : LP → Bool
  | .start | .get _ => true
  | _ => false

/-- the thread's node exists; past the first steps of a load it is set; sub-machines are fine -/
def LP.okN (s : Shared) (l : Locals) (lp : LP) : Prop :=
  (∀ n, l.node = some n → n < s.nNodes) ∧ (lp.early = false → l.node.isSome = true) ∧
  (match lp with
    | .get ng | .reget ng => ng.okN s
    | .cool cd => cd.okN s
    | _ => True)

theorem getD_lt {l : Locals} {s : Shared} (h1 : ∀ n, l.node = some n → n < s.nNodes) (h2 : l.node.isSome = true) :
    l.node.getD 0 < s.nNodes := by
  cases hn : l.node with
  | none => rw [hn] at h2; cases h2
  | some n => exact h1 n hn

theorem stepLP_okN (cfg : Cfg) (c : Nat) (s : Shared) (l : Locals) (b : Bool) (lp : LP)
    (h : NodesOk s) (hk : lp.okN s l) :
    (stepLP cfg c s l b lp).2.2.1.okN (stepLP cfg c s l b lp).1 (stepLP cfg c s l b lp).2.1 ∧
      NodesOk (stepLP cfg c s l b lp).1 ∧ s.nNodes ≤ (stepLP cfg c s l b lp).1.nNodes := by
  obtain ⟨hlt, hset, hsub⟩ := hk
  -- the generic shape: the shared state keeps its nodes' bookkeeping, the locals are unchanged
  have keep : ∀ (s' : Shared) (lp' : LP), NodesOk s' → s'.nNodes = s.nNodes → (lp'.early = false → l.node.isSome = true) →
      (match lp' with | .get ng | .reget ng => ng.okN s' | .cool cd => cd.okN s' | _ => True) →
      lp'.okN s' l ∧ NodesOk s' ∧ s.nNodes ≤ s'.nNodes :=
    fun s' lp' h' hn he hm => ⟨⟨fun n hh => by rw [hn]; exact hlt n hh, he, hm⟩, h', by omega⟩
  have clr : ∀ (f : Node → Node), (∀ nd, (f nd).inUse = nd.inUse) →
      (∀ nd, ((∀ i, nd.fast i = .none) ∧ nd.hslot = .none) → ((∀ i, (f nd).fast i = .none) ∧ (f nd).hslot = .none)) →
      NodesOk (s.setNode (l.node.getD 0) f) := fun f h1 h2 => h.setNode_pres _ f h1 h2
  cases lp with
  | start =>
    simp only [stepLP]
    split
    · exact keep s _ h rfl (by simp [LP.early]) trivial
    · rename_i n hn
      split <;> exact keep s _ h rfl (fun _ => by simp [hn]) trivial
  | get ng =>
    obtain ⟨h1, h2, h3, h4⟩ := stepNG_okN s b ng h.inUse h.slots hsub
    simp only [stepLP]
    split
    · rename_i s' n evs heq
      simp only [heq] at h1 h2 h3 h4
      dsimp only
      refine ⟨⟨fun m hm => ?_, fun _ => rfl, ?_⟩, ⟨h2, h3⟩, h4⟩
      · simp only [Option.some.injEq] at hm; subst hm; exact h1
      · cases cfg.useFast <;> simp
    · rename_i s' ng' evs hne heq
      simp only [heq] at h1 h2 h3 h4
      dsimp only
      exact ⟨⟨fun m hm => Nat.lt_of_lt_of_le (hlt m hm) h4, by simp [LP.early], h1⟩, ⟨h2, h3⟩, h4⟩
  | reget ng =>
    obtain ⟨h1, h2, h3, h4⟩ := stepNG_okN s b ng h.inUse h.slots hsub
    simp only [stepLP]
    split
    · rename_i s' n evs heq
      simp only [heq] at h1 h2 h3 h4
      dsimp only
      refine ⟨⟨fun m hm => ?_, fun _ => rfl, trivial⟩, ⟨h2, h3⟩, h4⟩
      simp only [Option.some.injEq] at hm; subst hm; exact h1
    · rename_i s' ng' evs hne heq
      simp only [heq] at h1 h2 h3 h4
      dsimp only
      exact ⟨⟨fun m hm => Nat.lt_of_lt_of_le (hlt m hm) h4, fun _ => hset rfl, h1⟩, ⟨h2, h3⟩, h4⟩
  | cool cd =>
    obtain ⟨h1, h2, h3⟩ := stepCD_okN s cd h hsub
    simp only [stepLP]
    split
    · rename_i s' evs heq
      simp only [heq] at h1 h2 h3
      dsimp only
      exact ⟨⟨fun m hm => by rw [h3]; exact hlt m hm, fun _ => hset rfl, trivial⟩, h2, by omega⟩
    · rename_i s' cd' evs hne heq
      simp only [heq] at h1 h2 h3
      dsimp only
      exact ⟨⟨fun m hm => by rw [h3]; exact hlt m hm, fun _ => hset rfl, h1⟩, h2, by omega⟩
  | a1 =>
    simp only [stepLP]; split
    · exact keep s _ h rfl (fun _ => hset rfl) trivial
    · exact keep _ _ (h.setFault _) (by simp) (fun _ => hset rfl) trivial
  | nfDbg p =>
    simp only [stepLP]; split
    · exact keep _ _ (h.setFault _) (by simp) (fun _ => hset rfl) trivial
    · exact keep _ _ (h.dbg _ _) (by unfold dbgInUse; split <;> simp) (fun _ => hset rfl) trivial
  | probe p i =>
    simp only [stepLP]; (repeat' split) <;> exact keep s _ h rfl (fun _ => hset rfl) trivial
  | pswap p idx =>
    have hn := getD_lt hlt (hset rfl)
    simp only [stepLP]
    refine ⟨⟨fun m hm => ?_, fun _ => hset rfl, trivial⟩, ?_, ?_⟩
    · have : (if (s.nodes (l.node.getD 0)).fast idx = Val.none then
          (s.setNode (l.node.getD 0) fun nd => { nd with fast := upd nd.fast idx (.ptr p) })
        else (s.setNode (l.node.getD 0) fun nd => { nd with fast := upd nd.fast idx (.ptr p) }).setFault
          (.debugAssert "fast::get_debt: slot not NONE")).nNodes = s.nNodes := by split <;> simp
      rw [this]; exact hlt m hm
    · exact (h.setNode_lt _ _ hn).ite_setFault _ _
    · split <;> simp
  | a3 p idx =>
    simp only [stepLP]; split
    · split <;> exact keep s _ h rfl (fun _ => hset rfl) trivial
    · exact keep _ _ (h.setFault _) (by simp) (fun _ => hset rfl) trivial
  | a4 p idx =>
    simp only [stepLP]; split
    · exact keep _ _ (clr (fun nd => { nd with fast := upd nd.fast idx .none }) (fun _ => rfl)
        (fun nd hh => ⟨upd_none_keeps nd.fast idx hh.1, hh.2⟩)) rfl (fun _ => hset rfl) trivial
    · split <;> exact keep s _ h rfl (fun _ => hset rfl) trivial
  | a4dec p =>
    simp only [stepLP]
    exact keep _ _ (h.dec p) (by simp) (fun _ => hset rfl) trivial
  | nhDbg =>
    simp only [stepLP]; split
    · exact keep _ _ (h.setFault _) (by simp) (fun _ => hset rfl) trivial
    · rename_i n hn
      have hnl := hlt n hn
      have e : (dbgInUse s n "new_helping").nNodes = s.nNodes := by unfold dbgInUse; split <;> simp
      split
      · exact keep _ _ (h.dbg _ _) e (fun _ => hset rfl) (by show n < (dbgInUse s n "new_helping").nNodes; omega)
      · exact keep _ _ (h.dbg _ _) e (fun _ => hset rfl) trivial
  | f1 =>
    simp only [stepLP]
    exact ⟨⟨fun m hm => hlt m hm, fun _ => hset rfl, trivial⟩,
      clr (fun nd => { nd with activeAddr := some c }) (fun _ => rfl) (fun _ hh => hh), Nat.le_refl _⟩
  | f2 g =>
    simp only [stepLP]
    refine ⟨⟨fun m hm => ?_, fun _ => hset rfl, trivial⟩,
      (clr (fun nd => { nd with control := .gen g }) (fun _ => rfl) (fun _ hh => hh)).ite_setFault _ _, ?_⟩
    · have : (if (s.nodes (l.node.getD 0)).control = Ctl.idle then
          (s.setNode (l.node.getD 0) fun nd => { nd with control := .gen g })
        else (s.setNode (l.node.getD 0) fun nd => { nd with control := .gen g }).setFault
          (.debugAssert "helping::get_debt: Left control in wrong state")).nNodes = s.nNodes := by split <;> simp
      rw [this]; exact hlt m hm
    · split <;> simp
  | f3 g =>
    simp only [stepLP]; split
    · exact keep s _ h rfl (fun _ => hset rfl) trivial
    · exact keep _ _ (h.setFault _) (by simp) (fun _ => hset rfl) trivial
  | chDbg g cand =>
    simp only [stepLP]; split
    · exact keep _ _ (h.setFault _) (by simp) (fun _ => hset rfl) trivial
    · exact keep _ _ (h.dbg _ _) (by unfold dbgInUse; split <;> simp) (fun _ => hset rfl) trivial
  | f4 g cand =>
    have hn := getD_lt hlt (hset rfl)
    simp only [stepLP]
    refine ⟨⟨fun m hm => ?_, fun _ => hset rfl, trivial⟩, (h.setNode_lt _ _ hn).ite_setFault _ _, ?_⟩
    · have : (if (s.nodes (l.node.getD 0)).hslot = Val.none then
          (s.setNode (l.node.getD 0) fun nd => { nd with hslot := .ptr cand })
        else (s.setNode (l.node.getD 0) fun nd => { nd with hslot := .ptr cand }).setFault
          (.debugAssert "helping::confirm: slot not NONE")).nNodes = s.nNodes := by split <;> simp
      rw [this]; exact hlt m hm
    · split <;> simp
  | f5 g cand =>
    have hN := clr (fun nd => { nd with control := .idle }) (fun _ => rfl) (fun _ hh => hh)
    simp only [stepLP]
    (repeat' split) <;> first
      | exact keep _ _ hN rfl (fun _ => hset rfl) trivial
      | exact keep _ _ (hN.setFault _) (by simp) (fun _ => hset rfl) trivial
  | fokInc cand =>
    simp only [stepLP]; exact keep _ _ (h.inc cand) (by simp) (fun _ => hset rfl) trivial
  | fokPay cand =>
    simp only [stepLP]; split
    · exact keep _ _ (clr (fun nd => { nd with hslot := .none }) (fun _ => rfl) (fun nd hh => ⟨hh.1, rfl⟩)) rfl (fun _ => hset rfl) trivial
    · split <;> exact keep s _ h rfl (fun _ => hset rfl) trivial
  | fokDec cand =>
    simp only [stepLP]; exact keep _ _ (h.dec cand) (by simp) (fun _ => hset rfl) trivial
  | fr1 cand j =>
    simp only [stepLP]; split
    · exact keep s _ h rfl (fun _ => hset rfl) trivial
    · exact keep _ _ (h.setFault _) (by simp) (fun _ => hset rfl) trivial
  | fr2 cand j r =>
    simp only [stepLP]
    exact keep _ _ (clr (fun nd => { nd with spaceOffer := j }) (fun _ => rfl) (fun _ hh => hh)) rfl (fun _ => hset rfl) trivial
  | frPay cand r =>
    simp only [stepLP]; split
    · exact keep _ _ (clr (fun nd => { nd with hslot := .none }) (fun _ => rfl) (fun nd hh => ⟨hh.1, rfl⟩)) rfl (fun _ => hset rfl) trivial
    · split <;> exact keep s _ h rfl (fun _ => hset rfl) trivial
  | frDec cand r =>
    simp only [stepLP]; exact keep _ _ (h.dec cand) (by simp) (fun _ => hset rfl) trivial
  | done p d => simp only [stepLP]; exact keep s _ h rfl (fun _ => hset rfl) trivial

theorem stepGD_nodes (s : Shared) (gd : GD) (h : NodesOk s) :
    NodesOk (stepGD s gd).1 ∧ (stepGD s gd).1.nNodes = s.nNodes := by
  cases gd with
  | pay p n idx =>
    simp only [stepGD]; split
    · exact ⟨h.setNode_pres n (fun nd => { nd with fast := upd nd.fast idx .none }) (fun _ => rfl)
        (fun nd hh => ⟨upd_none_keeps nd.fast idx hh.1, hh.2⟩), rfl⟩
    · exact ⟨h, rfl⟩
  | dec p => simp only [stepGD]; exact ⟨h.dec p, by simp⟩
  | done => simp only [stepGD]; exact ⟨h, trivial⟩

theorem stepGI_nodes (s : Shared) (gi : GI) (h : NodesOk s) :
    NodesOk (stepGI s gi).1 ∧ (stepGI s gi).1.nNodes = s.nNodes := by
  cases gi with
  | inc p n idx => simp only [stepGI]; exact ⟨h.inc p, by simp⟩
  | pay p n idx =>
    simp only [stepGI]; split
    · exact ⟨h.setNode_pres n (fun nd => { nd with fast := upd nd.fast idx .none }) (fun _ => rfl)
        (fun nd hh => ⟨upd_none_keeps nd.fast idx hh.1, hh.2⟩), rfl⟩
    · exact ⟨h, rfl⟩
  | dec p => simp only [stepGI]; exact ⟨h.dec p, by simp⟩
  | done => simp only [stepGI]; exact ⟨h, trivial⟩

theorem NG.okN_mono {s s' : Shared} (hm : s.nNodes ≤ s'.nNodes) (ng : NG) (h : ng.okN s) : ng.okN s' := by
  cases ng with
  | done n => exact Nat.lt_of_lt_of_le h hm
  | allocCas me x => cases me with
    | some k => exact Nat.lt_of_lt_of_le h hm
    | none => trivial
  | _ => trivial

theorem CD.okN_mono {s s' : Shared} (hm : s.nNodes ≤ s'.nNodes) (cd : CD) (h : cd.okN s) : cd.okN s' := by
  cases cd <;> first | exact Nat.lt_of_lt_of_le h hm | trivial

theorem LP.okN_mono {s s' : Shared} (hm : s.nNodes ≤ s'.nNodes) (l : Locals) (lp : LP) (h : lp.okN s l) :
    lp.okN s' l := by
  obtain ⟨h1, h2, h3⟩ := h
  refine ⟨fun n hn => Nat.lt_of_lt_of_le (h1 n hn) hm, h2, ?_⟩
  cases lp <;> first | exact NG.okN_mono hm _ h3 | exact CD.okN_mono hm _ h3 | trivial

/-- the walk: the thread's node exists; nested sub-machines are fine -/
def PP.okN (s : Shared) (l : Locals) : PP → Prop
  | .get ng => (∀ n, l.node = some n → n < s.nNodes) ∧ ng.okN s
  | .hload _ ld => ld.okN s l
  | _ => ∀ n, l.node = some n → n < s.nNodes

theorem PP.okN_lt {s : Shared} {l : Locals} {pp : PP} (h : pp.okN s l) : ∀ n, l.node = some n → n < s.nNodes := by
  cases pp <;> first | exact h | exact h.1

theorem PP.okN_mono {s s' : Shared} (hm : s.nNodes ≤ s'.nNodes) (l : Locals) (pp : PP) (h : pp.okN s l) :
    pp.okN s' l := by
  cases pp with
  | get ng => exact ⟨fun n hn => Nat.lt_of_lt_of_le (h.1 n hn) hm, NG.okN_mono hm _ h.2⟩
  | hload x ld => exact LP.okN_mono hm l ld h
  | _ => exact fun n hn => Nat.lt_of_lt_of_le (h n hn) hm

theorem stepPP_okN (cfg : Cfg) (p c : Nat) (s : Shared) (l : Locals) (b : Bool) (pp : PP)
    (h : NodesOk s) (hk : pp.okN s l) :
    (stepPP cfg p c s l b pp).2.2.1.okN (stepPP cfg p c s l b pp).1 (stepPP cfg p c s l b pp).2.1 ∧
      NodesOk (stepPP cfg p c s l b pp).1 ∧ s.nNodes ≤ (stepPP cfg p c s l b pp).1.nNodes := by
  have hlt := PP.okN_lt hk
  -- shared state changes that keep bookkeeping and emptiness, locals unchanged, plain next state
  have keep : ∀ (s' : Shared) (pp' : PP), NodesOk s' → s'.nNodes = s.nNodes →
      (∀ ng, pp' ≠ .get ng) → (∀ x ld, pp' = .hload x ld → ld = .start) →
      pp'.okN s' l ∧ NodesOk s' ∧ s.nNodes ≤ s'.nNodes := by
    intro s' pp' h' hn h1 h2
    refine ⟨?_, h', by omega⟩
    have hlt' : ∀ n, l.node = some n → n < s'.nNodes := fun n hh => by rw [hn]; exact hlt n hh
    cases pp' with
    | get ng => exact absurd rfl (h1 ng)
    | hload x ld => rw [h2 x ld rfl]; exact ⟨hlt', by simp [LP.early], trivial⟩
    | _ => exact hlt'
  have pres : ∀ (n : Nat) (f : Node → Node), (∀ nd, (f nd).inUse = nd.inUse) →
      (∀ nd, ((∀ i, nd.fast i = .none) ∧ nd.hslot = .none) → ((∀ i, (f nd).fast i = .none) ∧ (f nd).hslot = .none)) →
      NodesOk (s.setNode n f) := fun n f h1 h2 => h.setNode_pres n f h1 h2
  cases pp with
  | start =>
    simp only [stepPP]; split
    · dsimp only; exact ⟨⟨hlt, trivial⟩, h, Nat.le_refl _⟩
    · split <;> exact keep s _ h rfl (fun _ => by simp) (fun _ _ e => by cases e)
  | get ng =>
    obtain ⟨h1, h2, h3, h4⟩ := stepNG_okN s b ng h.inUse h.slots hk.2
    simp only [stepPP]
    split
    · rename_i s' n evs heq
      simp only [heq] at h1 h2 h3 h4
      dsimp only
      refine ⟨?_, ⟨h2, h3⟩, h4⟩
      have : ∀ m, some n = some m → m < s'.nNodes := fun m hm => by cases hm; exact h1
      split <;> exact this
    · rename_i s' ng' evs hne heq
      simp only [heq] at h1 h2 h3 h4
      dsimp only
      exact ⟨⟨fun m hm => Nat.lt_of_lt_of_le (hlt m hm) h4, h1⟩, ⟨h2, h3⟩, h4⟩
  | inc => simp only [stepPP]; exact keep _ _ (h.inc p) (by simp) (fun _ => by simp) (fun _ _ e => by cases e)
  | trav => simp only [stepPP]; split <;> exact keep s _ h rfl (fun _ => by simp) (fun _ _ e => by cases e)
  | res n =>
    have hN := pres n (fun nd => { nd with writers := (s.nodes n).writers + 1 }) (fun _ => rfl) (fun _ hh => hh)
    simp only [stepPP]; split
    · exact keep _ _ (hN.setFault _) (by simp) (fun _ => by simp) (fun _ _ e => by cases e)
    · exact keep _ _ hN rfl (fun _ => by simp) (fun _ _ e => by cases e)
  | hDbg0 x =>
    simp only [stepPP]
    exact keep _ _ (h.dbg _ _) (by unfold dbgInUse; split <;> simp) (fun _ => by simp) (fun _ _ e => by cases e)
  | hDbg1 x =>
    simp only [stepPP]
    exact keep _ _ (h.ite_setFault _ _) (by split <;> simp) (fun _ => by simp) (fun _ _ e => by cases e)
  | h1 x =>
    simp only [stepPP]
    refine keep s _ h rfl (fun ng => ?_) (fun y ld e => ?_) <;> (unfold PP.dispatch at *; split at * <;> simp_all)
  | h2 x =>
    simp only [stepPP]
    by_cases ho : x.own = x.who
    · simp only [ho, ↓reduceIte]
      (repeat' split) <;> first
        | exact keep _ (.hload x .start) (h.setFault _) (by simp) (fun _ => by simp) (fun _ _ e => by cases e; rfl)
        | exact keep _ (.hres x) (h.setFault _) (by simp) (fun _ => by simp) (fun _ _ e => by cases e)
        | exact keep _ (.h3 x) (h.setFault _) (by simp) (fun _ => by simp) (fun _ _ e => by cases e)
    · simp only [ho, ↓reduceIte]
      (repeat' split) <;> first
        | exact keep s (.hload x .start) h rfl (fun _ => by simp) (fun _ _ e => by cases e; rfl)
        | exact keep s (.hres x) h rfl (fun _ => by simp) (fun _ _ e => by cases e)
        | exact keep s (.h3 x) h rfl (fun _ => by simp) (fun _ _ e => by cases e)
  | h3 x =>
    simp only [stepPP]
    split
    · exact keep s _ h rfl (fun _ => by simp) (fun _ _ e => by cases e)
    · refine keep s _ h rfl (fun ng => ?_) (fun y ld e => ?_) <;> (unfold PP.dispatch at *; split at * <;> simp_all)
  | hres x =>
    simp only [stepPP]
    exact keep _ (.hload { x with reserved := true } .start)
      (pres x.own (fun nd => { nd with writers := (s.nodes x.own).writers + 1 }) (fun _ => rfl) (fun _ hh => hh))
      rfl (fun _ => by simp) (fun _ _ e => by cases e; rfl)
  | hload x ld =>
    obtain ⟨h1, h2, h3⟩ := stepLP_okN cfg c s l b ld h hk
    simp only [stepPP]
    split
    · rename_i s' l' r d evs heq
      simp only [heq] at h1 h2 h3
      dsimp only
      refine ⟨?_, h2, h3⟩
      split <;> exact h1.1
    · rename_i s' l' ld' evs hne heq
      simp only [heq] at h1 h2 h3
      dsimp only
      exact ⟨h1, h2, h3⟩
  | hinto x r gi =>
    obtain ⟨h1, h2⟩ := stepGI_nodes s gi h
    simp only [stepPP]
    split
    · rename_i s' evs heq
      simp only [heq] at h1 h2
      exact keep _ _ h1 h2 (fun _ => by simp) (fun _ _ e => by cases e)
    · rename_i s' gi' evs hne heq
      simp only [heq] at h1 h2
      exact keep _ _ h1 h2 (fun _ => by simp) (fun _ _ e => by cases e)
  | h4 x r => simp only [stepPP]; exact keep s _ h rfl (fun _ => by simp) (fun _ _ e => by cases e)
  | h5 x r t' => simp only [stepPP]; exact keep s _ h rfl (fun _ => by simp) (fun _ _ e => by cases e)
  | h6 x r t' m =>
    simp only [stepPP]
    exact keep _ _ (pres m (fun nd => { nd with envelope := .ptr r }) (fun _ => rfl) (fun _ hh => hh)) rfl
      (fun _ => by simp) (fun _ _ e => by cases e)
  | h7 x r t' m =>
    simp only [stepPP]
    split
    · exact keep _ _ (pres x.who (fun nd => { nd with control := .env m }) (fun _ => rfl) (fun _ hh => hh)) rfl
        (fun _ => by simp) (fun _ _ e => by cases e)
    · split
      · refine keep s _ h rfl (fun ng => ?_) (fun y ld e => ?_) <;> (unfold PP.dispatch at *; split at * <;> simp_all)
      · exact keep s _ h rfl (fun _ => by simp) (fun _ _ e => by cases e)
  | h8 x t' =>
    simp only [stepPP]
    exact keep _ _ (pres x.own (fun nd => { nd with spaceOffer := t' }) (fun _ => rfl) (fun _ hh => hh)) rfl
      (fun _ => by simp) (fun _ _ e => by cases e)
  | hdrop x r =>
    simp only [stepPP]
    refine keep _ _ (h.dec r) (by simp) (fun ng => ?_) (fun y ld e => ?_) <;> (unfold PP.dispatch at *; split at * <;> simp_all)
  | hend x => simp only [stepPP]; split <;> exact keep s _ h rfl (fun _ => by simp) (fun _ _ e => by cases e)
  | hrel x =>
    simp only [stepPP]
    exact keep _ _ (pres x.own (fun nd => { nd with writers := (s.nodes x.own).writers - 1 }) (fun _ => rfl) (fun _ hh => hh))
      rfl (fun _ => by simp) (fun _ _ e => by cases e)
  | slot n j =>
    have e1 : ∀ ng, PP.nextSlot n j ≠ .get ng := fun ng => by unfold PP.nextSlot; split <;> simp
    have e2 : ∀ y ld, PP.nextSlot n j = .hload y ld → ld = .start := fun y ld e => by
      unfold PP.nextSlot at e; split at e <;> cases e
    simp only [stepPP]
    split
    · split
      · have hN := pres n (fun nd => { nd with fast := upd nd.fast j .none }) (fun _ => rfl)
          (fun nd hh => ⟨upd_none_keeps nd.fast j hh.1, hh.2⟩)
        split
        · exact keep _ _ hN rfl e1 e2
        · exact keep _ _ hN rfl (fun _ => by simp) (fun _ _ e => by cases e)
      · exact keep s _ h rfl e1 e2
    · split
      · have hN := pres n (fun nd => { nd with hslot := .none }) (fun _ => rfl) (fun nd hh => ⟨hh.1, rfl⟩)
        split
        · exact keep _ _ hN rfl e1 e2
        · exact keep _ _ hN rfl (fun _ => by simp) (fun _ _ e => by cases e)
      · exact keep s _ h rfl e1 e2
  | slotInc n j =>
    have e1 : ∀ ng, PP.nextSlot n j ≠ .get ng := fun ng => by unfold PP.nextSlot; split <;> simp
    have e2 : ∀ y ld, PP.nextSlot n j = .hload y ld → ld = .start := fun y ld e => by
      unfold PP.nextSlot at e; split at e <;> cases e
    simp only [stepPP]
    exact keep _ _ (h.inc p) (by simp) e1 e2
  | rel n =>
    simp only [stepPP]
    have hN := pres n (fun nd => { nd with writers := (s.nodes n).writers - 1 }) (fun _ => rfl) (fun _ hh => hh)
    split <;> exact keep _ _ hN rfl (fun _ => by simp) (fun _ _ e => by cases e)
  | fin => simp only [stepPP]; split <;> exact keep s _ h rfl (fun _ => by simp) (fun _ _ e => by cases e)
  | dec => simp only [stepPP]; exact keep _ _ (h.dec p) (by simp) (fun _ => by simp) (fun _ _ e => by cases e)
  | done => simp only [stepPP]; exact keep s _ h rfl (fun _ => by simp) (fun _ _ e => by cases e)

def NodeLt (s : Shared) (l : Locals) : Prop := ∀ n, l.node = some n → n < s.nNodes

theorem LP.okN_lt {s : Shared} {l : Locals} {lp : LP} (h : lp.okN s l) : NodeLt s l := h.1

theorem LP.okN_start {s : Shared} {l : Locals} (h : NodeLt s l) : LP.okN s l .start := ⟨h, by simp [LP.early], trivial⟩

def CP.okN (s : Shared) (l : Locals) : CP → Prop
  | .load ld => ld.okN s l
  | .pay _ pp => pp.okN s l
  | _ => NodeLt s l

theorem CP.okN_lt {s : Shared} {l : Locals} {cp : CP} (h : cp.okN s l) : NodeLt s l := by
  cases cp <;> first | exact h | exact LP.okN_lt h | exact PP.okN_lt h

theorem CP.okN_mono {s s' : Shared} (hm : s.nNodes ≤ s'.nNodes) (l : Locals) (cp : CP) (h : cp.okN s l) : cp.okN s' l := by
  cases cp with
  | load ld => exact LP.okN_mono hm l ld h
  | pay old pp => exact PP.okN_mono hm l pp h
  | _ => exact fun n hn => Nat.lt_of_lt_of_le (h n hn) hm

theorem stepCP_okN (cfg : Cfg) (c cur new : Nat) (s : Shared) (l : Locals) (b : Bool) (cp : CP)
    (h : NodesOk s) (hk : cp.okN s l) :
    (stepCP cfg c cur new s l b cp).2.2.1.okN (stepCP cfg c cur new s l b cp).1 (stepCP cfg c cur new s l b cp).2.1 ∧
      NodesOk (stepCP cfg c cur new s l b cp).1 ∧ s.nNodes ≤ (stepCP cfg c cur new s l b cp).1.nNodes := by
  have hlt := CP.okN_lt hk
  cases cp with
  | load ld =>
    obtain ⟨h1, h2, h3⟩ := stepLP_okN cfg c s l b ld h hk
    simp only [stepCP]
    split
    · rename_i s' l' p d evs heq
      simp only [heq] at h1 h2 h3
      dsimp only
      refine ⟨?_, h2, h3⟩
      (repeat' split) <;> exact h1.1
    · rename_i s' l' ld' evs hne heq
      simp only [heq] at h1 h2 h3
      exact ⟨h1, h2, h3⟩
  | dropNew old =>
    simp only [stepCP]
    exact ⟨fun n hn => by simpa using hlt n hn, h.dec new, by simp⟩
  | cx old =>
    simp only [stepCP]
    split
    · split
      · exact ⟨hlt, h.of_nodes rfl rfl, Nat.le_refl _⟩
      · split
        · exact ⟨LP.okN_start hlt, h, Nat.le_refl _⟩
        · exact ⟨hlt, h, Nat.le_refl _⟩
    · exact ⟨fun n hn => by simpa using hlt n hn, h.setFault _, by simp⟩
  | pay old pp =>
    obtain ⟨h1, h2, h3⟩ := stepPP_okN cfg old.ptr c s l b pp h hk
    simp only [stepCP]
    split
    · rename_i s' l' evs heq
      simp only [heq] at h1 h2 h3
      dsimp only
      refine ⟨?_, h2, h3⟩
      split <;> exact PP.okN_lt h1
    · rename_i s' l' pp' evs hne heq
      simp only [heq] at h1 h2 h3
      exact ⟨h1, h2, h3⟩
  | decOld old =>
    simp only [stepCP]
    exact ⟨fun n hn => by simpa using hlt n hn, h.dec old.ptr, by simp⟩
  | dropOld gd =>
    obtain ⟨h1, h2⟩ := stepGD_nodes s gd h
    simp only [stepCP]
    split
    · rename_i s' evs heq
      simp only [heq] at h1 h2
      exact ⟨LP.okN_start (fun n hn => by rw [h2]; exact hlt n hn), h1, Nat.le_of_eq h2.symm⟩
    · rename_i s' gd' evs hne heq
      simp only [heq] at h1 h2
      exact ⟨fun n hn => by rw [h2]; exact hlt n hn, h1, Nat.le_of_eq h2.symm⟩
  | done old => simp only [stepCP]; exact ⟨hlt, h, Nat.le_refl _⟩

def RP.okN (s : Shared) (l : Locals) : RP → Prop
  | .load ld => ld.okN s l
  | .cas _ _ cp => cp.okN s l
  | _ => NodeLt s l

theorem RP.okN_lt {s : Shared} {l : Locals} {rp : RP} (h : rp.okN s l) : NodeLt s l := by
  cases rp <;> first | exact h | exact LP.okN_lt h | exact CP.okN_lt h

theorem RP.okN_mono {s s' : Shared} (hm : s.nNodes ≤ s'.nNodes) (l : Locals) (rp : RP) (h : rp.okN s l) : rp.okN s' l := by
  cases rp with
  | load ld => exact LP.okN_mono hm l ld h
  | cas cur a cp => exact CP.okN_mono hm l cp h
  | _ => exact fun n hn => Nat.lt_of_lt_of_le (h n hn) hm

theorem stepRP_okN (cfg : Cfg) (c : Nat) (s : Shared) (l : Locals) (b : Bool) (tries : Nat) (rp : RP)
    (h : NodesOk s) (hk : rp.okN s l) :
    (stepRP cfg c s l b tries rp).2.2.1.okN (stepRP cfg c s l b tries rp).1 (stepRP cfg c s l b tries rp).2.1 ∧
      NodesOk (stepRP cfg c s l b tries rp).1 ∧ s.nNodes ≤ (stepRP cfg c s l b tries rp).1.nNodes := by
  have hlt := RP.okN_lt hk
  cases rp with
  | load ld =>
    obtain ⟨h1, h2, h3⟩ := stepLP_okN cfg c s l b ld h hk
    simp only [stepRP]
    split
    · rename_i s' l' p d evs heq
      simp only [heq] at h1 h2 h3
      exact ⟨h1.1, h2, h3⟩
    · rename_i s' l' ld' evs hne heq
      simp only [heq] at h1 h2 h3
      exact ⟨h1, h2, h3⟩
  | attempt cur =>
    simp only [stepRP]
    have hN : NodesOk (if cur.ptr ≠ 0 ∧ (!(s.heap cur.ptr).live) = true then s.setFault (.uaf "deref" cur.ptr) else s) := by
      split
      · exact h.setFault _
      · exact h
    have hn' : (if cur.ptr ≠ 0 ∧ (!(s.heap cur.ptr).live) = true then s.setFault (.uaf "deref" cur.ptr) else s).nNodes = s.nNodes := by
      split <;> simp
    refine ⟨LP.okN_start (fun n hn => ?_), hN.of_nodes rfl rfl, ?_⟩
    · show n < (alloc _ _).1.nNodes
      simp only [alloc, hn']; exact hlt n hn
    · show s.nNodes ≤ (alloc _ _).1.nNodes
      simp only [alloc, hn']; exact Nat.le_refl _
  | cas cur a cp =>
    obtain ⟨h1, h2, h3⟩ := stepCP_okN cfg c cur.ptr a s l b cp h hk
    simp only [stepRP]
    split
    · rename_i s' l' prev evs heq
      simp only [heq] at h1 h2 h3
      have hl := CP.okN_lt h1
      split
      · split
        · refine ⟨?_, h2, h3⟩
          split <;> exact hl
        · exact ⟨hl, h2, h3⟩
      · refine ⟨?_, h2, h3⟩
        split <;> exact hl
    · rename_i s' l' cp' evs hne heq
      simp only [heq] at h1 h2 h3
      exact ⟨h1, h2, h3⟩
  | intoPrev cur prev gi =>
    obtain ⟨h1, h2⟩ := stepGI_nodes s gi h
    simp only [stepRP]
    split
    · rename_i s' evs heq
      simp only [heq] at h1 h2
      dsimp only
      refine ⟨?_, h1, Nat.le_of_eq h2.symm⟩
      split <;> exact fun n hn => by rw [h2]; exact hlt n hn
    · rename_i s' gi' evs hne heq
      simp only [heq] at h1 h2
      exact ⟨fun n hn => by rw [h2]; exact hlt n hn, h1, Nat.le_of_eq h2.symm⟩
  | dropCur res gd =>
    obtain ⟨h1, h2⟩ := stepGD_nodes s gd h
    simp only [stepRP]
    split
    · rename_i s' evs heq
      simp only [heq] at h1 h2
      exact ⟨fun n hn => by rw [h2]; exact hlt n hn, h1, Nat.le_of_eq h2.symm⟩
    · rename_i s' gd' evs hne heq
      simp only [heq] at h1 h2
      exact ⟨fun n hn => by rw [h2]; exact hlt n hn, h1, Nat.le_of_eq h2.symm⟩
  | dropCurLoop prev gd =>
    obtain ⟨h1, h2⟩ := stepGD_nodes s gd h
    simp only [stepRP]
    split
    · rename_i s' evs heq
      simp only [heq] at h1 h2
      exact ⟨fun n hn => by rw [h2]; exact hlt n hn, h1, Nat.le_of_eq h2.symm⟩
    · rename_i s' gd' evs hne heq
      simp only [heq] at h1 h2
      exact ⟨fun n hn => by rw [h2]; exact hlt n hn, h1, Nat.le_of_eq h2.symm⟩
  | done r => simp only [stepRP]; exact ⟨hlt, h, Nat.le_refl _⟩

def OpSt.okN (s : Shared) (l : Locals) : OpSt → Prop
  | .load _ _ ld | .loadFull _ _ ld => ld.okN s l
  | .swapPay _ _ _ _ pp | .cinto _ _ _ pp | .dropc _ _ pp => pp.okN s l
  | .cas _ _ _ _ _ _ cp => cp.okN s l
  | .rcu _ _ _ rp => rp.okN s l
  | .exitCool cd => NodeLt s l ∧ cd.okN s
  | _ => NodeLt s l

theorem OpSt.okN_lt {s : Shared} {l : Locals} {op : OpSt} (h : op.okN s l) : NodeLt s l := by
  cases op <;> first | exact h | exact LP.okN_lt h | exact PP.okN_lt h | exact CP.okN_lt h | exact RP.okN_lt h | exact h.1

theorem OpSt.okN_mono {s s' : Shared} (hm : s.nNodes ≤ s'.nNodes) (l : Locals) (op : OpSt) (h : op.okN s l) :
    op.okN s' l := by
  cases op with
  | load c g ld => exact LP.okN_mono hm l ld h
  | loadFull c x ld => exact LP.okN_mono hm l ld h
  | swapPay c o old i pp => exact PP.okN_mono hm l pp h
  | cinto c x p pp => exact PP.okN_mono hm l pp h
  | dropc c p pp => exact PP.okN_mono hm l pp h
  | cas c cur k cp n g x => exact CP.okN_mono hm l x h
  | rcu c o tr rp => exact RP.okN_mono hm l rp h
  | exitCool cd => exact ⟨fun n hn => Nat.lt_of_lt_of_le (h.1 n hn) hm, CD.okN_mono hm cd h.2⟩
  | _ => exact fun n hn => Nat.lt_of_lt_of_le (h n hn) hm

theorem beginOp_okN (st : State) (t : Nat) (o : Op) (h : NodesOk st.sh) (hlt : NodeLt st.sh (st.th t).loc) :
    ((beginOp st t o).1.th t).op.okN (beginOp st t o).1.sh ((beginOp st t o).1.th t).loc ∧
      NodesOk (beginOp st t o).1.sh ∧ (beginOp st t o).1.sh.nNodes = st.sh.nNodes := by
  have st0 : LP.okN st.sh (st.th t).loc .start := LP.okN_start hlt
  cases o <;> simp only [beginOp] <;> (repeat' split) <;>
    (refine ⟨?_, h.of_nodes (by simp [alloc]) (by simp [alloc]), by simp [alloc]⟩) <;>
    simp only [upd_same] <;>
    first
      | exact hlt
      | exact st0
      | (show NodeLt _ _; intro n hn; simpa [alloc] using hlt n hn)

theorem microStep_okN (st : State) (t : Nat) (b : Bool) (h : NodesOk st.sh)
    (hk : (st.th t).op.okN st.sh (st.th t).loc) :
    ((microStep st t b).1.th t).op.okN (microStep st t b).1.sh ((microStep st t b).1.th t).loc ∧
      NodesOk (microStep st t b).1.sh ∧ st.sh.nNodes ≤ (microStep st t b).1.sh.nNodes := by
  have hlt := OpSt.okN_lt hk
  cases hop : (st.th t).op with
  | finished => simp only [microStep, hop]; exact ⟨hlt, h, Nat.le_refl _⟩
  | idle =>
    simp only [microStep, hop]
    split
    · refine ⟨?_, h, Nat.le_refl _⟩
      simp only [upd_same]
      split
      · rename_i n hn; exact ⟨hlt, hlt n hn⟩
      · exact hlt
    · rename_i txt o rest hp
      obtain ⟨h1, h2, h3⟩ := beginOp_okN { st with th := upd st.th t { prog := rest, op := .idle, loc := (st.th t).loc } } t o h
        (by simp only [upd_same]; exact hlt)
      exact ⟨h1, h2, Nat.le_of_eq h3.symm⟩
  | exitCool cd =>
    rw [hop] at hk
    obtain ⟨h1, h2, h3⟩ := stepCD_okN st.sh cd h hk.2
    simp only [microStep, hop]
    split
    · rename_i s' evs heq
      simp only [heq] at h1 h2 h3
      refine ⟨?_, h2, Nat.le_of_eq h3.symm⟩
      simp only [upd_same]
      intro n hn; cases hn
    · rename_i s' cd' evs hne heq
      simp only [heq] at h1 h2 h3
      refine ⟨?_, h2, Nat.le_of_eq h3.symm⟩
      simp only [upd_same]
      exact ⟨fun n hn => by rw [h3]; exact hlt n hn, h1⟩
  | load c g ld =>
    rw [hop] at hk
    obtain ⟨h1, h2, h3⟩ := stepLP_okN st.cfg c st.sh (st.th t).loc b ld h hk
    simp only [microStep, hop]
    split
    · rename_i s' l' p d evs heq
      simp only [heq] at h1 h2 h3
      exact ⟨by simp only [upd_same]; exact h1.1, h2.of_nodes rfl rfl, h3⟩
    · rename_i s' l' ld' evs hne heq
      simp only [heq] at h1 h2 h3
      exact ⟨by simp only [upd_same]; exact h1, h2, h3⟩
  | loadFull c x ld =>
    rw [hop] at hk
    obtain ⟨h1, h2, h3⟩ := stepLP_okN st.cfg c st.sh (st.th t).loc b ld h hk
    simp only [microStep, hop]
    split
    · rename_i s' l' p d evs heq
      simp only [heq] at h1 h2 h3
      split
      · exact ⟨by simp only [upd_same]; exact h1.1, h2.of_nodes rfl rfl, h3⟩
      · exact ⟨by simp only [upd_same]; exact h1.1, h2, h3⟩
    · rename_i s' l' ld' evs hne heq
      simp only [heq] at h1 h2 h3
      exact ⟨by simp only [upd_same]; exact h1, h2, h3⟩
  | loadFullInto c x r gi =>
    obtain ⟨h1, h2⟩ := stepGI_nodes st.sh gi h
    simp only [microStep, hop]
    split
    · rename_i s' evs heq
      simp only [heq] at h1 h2
      exact ⟨by simp only [upd_same]; exact (fun n hn => by rw [h2]; exact hlt n hn : NodeLt s' (st.th t).loc),
        h1.of_nodes rfl rfl, Nat.le_of_eq h2.symm⟩
    · rename_i s' gi' evs hne heq
      simp only [heq] at h1 h2
      exact ⟨by simp only [upd_same]; exact (fun n hn => by rw [h2]; exact hlt n hn : NodeLt s' (st.th t).loc),
        h1, Nat.le_of_eq h2.symm⟩
  | cloneh x y a =>
    simp only [microStep, hop]
    exact ⟨by simp only [upd_same]; exact (fun n hn => by simpa using hlt n hn : NodeLt (incObj st.sh a).1 (st.th t).loc),
      (h.inc a).of_nodes rfl rfl, by simp⟩
  | droph a =>
    simp only [microStep, hop]
    exact ⟨by simp only [upd_same]; exact (fun n hn => by simpa using hlt n hn : NodeLt (decObj st.sh a).1 (st.th t).loc),
      h.dec a, by simp⟩
  | dropg gd =>
    obtain ⟨h1, h2⟩ := stepGD_nodes st.sh gd h
    simp only [microStep, hop]
    split
    · rename_i s' evs heq
      simp only [heq] at h1 h2
      exact ⟨by simp only [upd_same]; exact (fun n hn => by rw [h2]; exact hlt n hn : NodeLt s' (st.th t).loc),
        h1, Nat.le_of_eq h2.symm⟩
    · rename_i s' gd' evs hne heq
      simp only [heq] at h1 h2
      exact ⟨by simp only [upd_same]; exact (fun n hn => by rw [h2]; exact hlt n hn : NodeLt s' (st.th t).loc),
        h1, Nat.le_of_eq h2.symm⟩
  | ginto x p gi =>
    obtain ⟨h1, h2⟩ := stepGI_nodes st.sh gi h
    simp only [microStep, hop]
    split
    · rename_i s' evs heq
      simp only [heq] at h1 h2
      exact ⟨by simp only [upd_same]; exact (fun n hn => by rw [h2]; exact hlt n hn : NodeLt s' (st.th t).loc),
        h1.of_nodes rfl rfl, Nat.le_of_eq h2.symm⟩
    · rename_i s' gi' evs hne heq
      simp only [heq] at h1 h2
      exact ⟨by simp only [upd_same]; exact (fun n hn => by rw [h2]; exact hlt n hn : NodeLt s' (st.th t).loc),
        h1, Nat.le_of_eq h2.symm⟩
  | swapSw c a out isStore =>
    simp only [microStep, hop]
    split
    · exact ⟨by simp only [upd_same]; exact hlt, h.of_nodes rfl rfl, Nat.le_refl _⟩
    · refine ⟨?_, h, Nat.le_refl _⟩
      show OpSt.okN st.sh (st.th t).loc (st.th t).op
      exact hk
  | swapPay c out old isStore pp =>
    rw [hop] at hk
    obtain ⟨h1, h2, h3⟩ := stepPP_okN st.cfg old c st.sh (st.th t).loc b pp h hk
    simp only [microStep, hop]
    split
    · rename_i s' l' evs heq
      simp only [heq] at h1 h2 h3
      have hl := PP.okN_lt h1
      (repeat' split) <;> first
        | exact ⟨by simp only [upd_same]; exact hl, h2.of_nodes rfl rfl, h3⟩
        | exact ⟨by simp only [upd_same]; exact hl, h2, h3⟩
    · rename_i s' l' pp' evs hne heq
      simp only [heq] at h1 h2 h3
      exact ⟨by simp only [upd_same]; exact h1, h2, h3⟩
  | swapDrop c old =>
    simp only [microStep, hop]
    exact ⟨by simp only [upd_same]; exact (fun n hn => by simpa using hlt n hn : NodeLt (decObj st.sh old).1 (st.th t).loc),
      (h.dec old).of_nodes rfl rfl, by simp⟩
  | cas c cur keep curPtr new g cp =>
    rw [hop] at hk
    obtain ⟨h1, h2, h3⟩ := stepCP_okN st.cfg c curPtr new st.sh (st.th t).loc b cp h hk
    simp only [microStep, hop]
    split
    · rename_i s' l' old evs heq
      simp only [heq] at h1 h2 h3
      have hl : NodeLt s' l' := CP.okN_lt h1
      cases cur <;> cases keep <;>
        exact ⟨by simp only [upd_same]; exact hl, h2.of_nodes rfl rfl, h3⟩
    · rename_i s' l' cp' evs hne heq
      simp only [heq] at h1 h2 h3
      exact ⟨by simp only [upd_same]; exact h1, h2, h3⟩
  | rcu c out tries rp =>
    rw [hop] at hk
    obtain ⟨h1, h2, h3⟩ := stepRP_okN st.cfg c st.sh (st.th t).loc b tries rp h hk
    simp only [microStep, hop]
    split
    · rename_i s' l' r tries' evs heq
      simp only [heq] at h1 h2 h3
      exact ⟨by simp only [upd_same]; exact (RP.okN_lt h1 : NodeLt s' l'), h2.of_nodes rfl rfl, h3⟩
    · rename_i s' l' rp' tries' evs hne heq
      simp only [heq] at h1 h2 h3
      exact ⟨by simp only [upd_same]; exact h1, h2, h3⟩
  | cinto c x p pp =>
    rw [hop] at hk
    obtain ⟨h1, h2, h3⟩ := stepPP_okN st.cfg p c st.sh (st.th t).loc b pp h hk
    simp only [microStep, hop]
    split
    · rename_i s' l' evs heq
      simp only [heq] at h1 h2 h3
      exact ⟨by simp only [upd_same]; exact (PP.okN_lt h1 : NodeLt s' l'), h2.of_nodes rfl rfl, h3⟩
    · rename_i s' l' pp' evs hne heq
      simp only [heq] at h1 h2 h3
      exact ⟨by simp only [upd_same]; exact h1, h2, h3⟩
  | dropc c p pp =>
    rw [hop] at hk
    obtain ⟨h1, h2, h3⟩ := stepPP_okN st.cfg p c st.sh (st.th t).loc b pp h hk
    simp only [microStep, hop]
    split
    · rename_i s' l' evs heq
      simp only [heq] at h1 h2 h3
      have hl := PP.okN_lt h1
      split
      · exact ⟨by simp only [upd_same]; exact hl, h2.of_nodes rfl rfl, h3⟩
      · exact ⟨by simp only [upd_same]; exact hl, h2, h3⟩
    · rename_i s' l' pp' evs hne heq
      simp only [heq] at h1 h2 h3
      exact ⟨by simp only [upd_same]; exact h1, h2, h3⟩
  | dropcDec c p =>
    simp only [microStep, hop]
    exact ⟨by simp only [upd_same]; exact (fun n hn => by simpa using hlt n hn : NodeLt (decObj st.sh p).1 (st.th t).loc),
      (h.dec p).of_nodes rfl rfl, by simp⟩

end M
