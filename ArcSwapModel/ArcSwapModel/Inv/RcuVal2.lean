import ArcSwapModel.Inv.RcuVal

/-!
# `RcuVal` holds along every execution
-/

namespace M
open Consts

theorem lowestFree_go_ge (heap : Nat → Obj) : ∀ fuel k, k ≤ lowestFree.go heap k fuel := by
  intro fuel
  induction fuel with
  | zero => intro k; simp [lowestFree.go]
  | succ f ih =>
    intro k
    simp only [lowestFree.go]
    split
    · exact Nat.le_trans (Nat.le_succ k) (ih (k + 1))
    · exact Nat.le_refl k

theorem alloc_ne_zero (s : Shared) (v : Nat) : (alloc s v).2.1 ≠ 0 := by
  have := lowestFree_go_ge s.heap 4096 1
  simp only [alloc, lowestFree]; omega

/-- the object an `rcu` has allocated and not yet installed is counted: the operation owns it -/
theorem rcu_new_counted (K N T : Nat) (hK : 0 < K) (cfg : Cfg) (progs : Nat → List (String × Op))
    (sched : List (Nat × Bool)) (he : EnvRun0 K N T (State.initial cfg progs) sched)
    (hf : (run (State.initial cfg progs) sched).sh.fault = none)
    (t c out tries : Nat) (cur : Guard) (a : Nat) (cp : CP) (ha : a ≠ 0)
    (hop : ((run (State.initial cfg progs) sched).th t).op = .rcu c out tries (.cas cur a cp))
    (hpre : cp.preWrite = true) :
    1 ≤ ((run (State.initial cfg progs) sched).sh.heap a).cnt := by
  have hib : IdleBeyond T (run (State.initial cfg progs) sched) := idleBeyond_run sched he (fun _ _ => rfl)
  have htT : t < T := by
    refine Nat.lt_of_not_le (fun hle => ?_)
    rw [hib t hle] at hop; cases hop
  refine unit_surplus_counted K N T hK cfg progs sched he hf a ha t htT ?_
  rw [hop]
  have hg := Guard.claims_len cur a
  simp only [OpSt.claims, RP.claims, uOp, uRP, List.length_append]
  cases cp with
  | load ld =>
    have := LP.claims_len ld ((run (State.initial cfg progs) sched).th t).loc a
    simp only [CP.claims, uCP, u, ↓reduceIte]; omega
  | cx old =>
    have := Guard.claims_len old a
    simp only [CP.claims, uCP, u, ↓reduceIte]; omega
  | dropOld gd =>
    have := GD.claims_len gd a
    simp only [CP.claims, uCP, u, ↓reduceIte]; omega
  | _ => cases hpre

theorem CP.holds_of_unc {cp : CP} {l : Locals} {n i a : Nat} (hn : l.node = some n) (h : Unc cp.lp? a i) :
    cp.holds n i a l := by
  rcases h with h | h
  · exact CP.holds_of_lp h (LP.holds_of_unc hn (Or.inl rfl))
  · exact CP.holds_of_lp h (LP.holds_of_unc hn (Or.inr rfl))

/-- the object an `rcu` gave to its closure stays counted until the exchange: the guard `cur` -/
theorem rcu_cur_counted (K N T : Nat) (hK : 0 < K) (cfg : Cfg) (progs : Nat → List (String × Op))
    (sched : List (Nat × Bool)) (he : EnvRun0 K N T (State.initial cfg progs) sched)
    (hf : (run (State.initial cfg progs) sched).sh.fault = none)
    (t c out tries : Nat) (cur : Guard) (a : Nat) (cp : CP) (hp : cur.ptr ≠ 0)
    (hop : ((run (State.initial cfg progs) sched).th t).op = .rcu c out tries (.cas cur a cp)) :
    1 ≤ ((run (State.initial cfg progs) sched).sh.heap cur.ptr).cnt := by
  have hib : IdleBeyond T (run (State.initial cfg progs) sched) := idleBeyond_run sched he (fun _ _ => rfl)
  have htT : t < T := by
    refine Nat.lt_of_not_le (fun hle => ?_)
    rw [hib t hle] at hop; cases hop
  have hwf := Wf.run0 hK (Wf.initial K cfg progs) sched he
  have hok := hwf.thL t
  rw [hop] at hok
  refine (thread_held_alive K N T hK cfg progs sched he hf cur.ptr hp t htT ?_).1
  rw [hop]
  cases hd : cur.debt with
  | none =>
    left
    have := CP.claims_len a cp ((run (State.initial cfg progs) sched).th t).loc cur.ptr
    simp only [OpSt.claims, RP.claims, Guard.claims, hd, uOp, uRP, uG, u, ↓reduceIte, List.nil_append]
    omega
  | some ni =>
    obtain ⟨n, i⟩ := ni
    right
    obtain ⟨hnK, hiS⟩ := hok.1 n i hd
    refine ⟨n, i, hnK, hiS, ?_, ?_⟩
    · simp only [OpSt.claims, RP.claims]
      exact List.mem_append_left _ (Guard.claims_of_holds ⟨rfl, hd⟩)
    · intro hn hu
      simp only [OpSt.lp?, RP.lp?] at hu
      simp only [OpSt.claims, RP.claims, cnt2_append]
      have c1 := cnt2_pos (Guard.claims_of_holds (g := cur) (n := n) (i := i) (a := cur.ptr) ⟨rfl, hd⟩)
      have c2 := cnt2_pos (CP.claims_of_holds (CP.holds_of_unc hn hu))
      omega

theorem list_snoc_induction {α : Type} (P : List α → Prop) (h0 : P [])
    (hs : ∀ pre x, P pre → P (pre ++ [x])) : ∀ l, P l := by
  have key : ∀ l : List α, P l.reverse := by
    intro l
    induction l with
    | nil => exact h0
    | cons x l ih => rw [List.reverse_cons]; exact hs _ x ih
  intro l
  have := key l.reverse
  rwa [List.reverse_reverse] at this

/-- the invariant, with the allocated address not null -/
def RcuVal2 (st : State) : Prop :=
  ∀ t c out tries cur a cp, (st.th t).op = .rcu c out tries (.cas cur a cp) → cp.preWrite = true →
    a ≠ 0 ∧ (st.sh.heap a).val = valOf st.sh cur.ptr + 1

theorem stepCP_preWrite (cfg : Cfg) (c cur new : Nat) (s : Shared) (l : Locals) (b : Bool) (cp : CP)
    (h : (stepCP cfg c cur new s l b cp).2.2.1.preWrite = true) : cp.preWrite = true := by
  cases cp with
  | load ld => rfl
  | cx old => rfl
  | dropOld gd => rfl
  | pay old pp => simp only [stepCP] at h; (repeat' split at h) <;> cases h
  | dropNew old => simp only [stepCP] at h; cases h
  | decOld old => simp only [stepCP] at h; cases h
  | done old => simp only [stepCP] at h; cases h

/-- **`RcuVal` along every execution** that satisfies the ledger's assumptions and ends without a
    fault: by induction over the execution, using at each prefix that the allocated object and the
    object given to the closure are counted (so the allocator does not hand their addresses out) -/
theorem rcuVal_run (K N T : Nat) (hK : 0 < K) (cfg : Cfg) (progs : Nat → List (String × Op)) :
    ∀ sched : List (Nat × Bool), EnvRun0 K N T (State.initial cfg progs) sched →
      (run (State.initial cfg progs) sched).sh.fault = none → RcuVal2 (run (State.initial cfg progs) sched) := by
  refine list_snoc_induction _ ?_ ?_
  · intro _ _ t c out tries cur a cp hop
    simp [run, State.initial] at hop
  · intro pre x ih
    obtain ⟨t, b⟩ := x
    intro he hf
    obtain ⟨hepre, hlast⟩ := EnvRun0.prefix he
    have hrun : run (State.initial cfg progs) (pre ++ [(t, b)]) = (microStep (run (State.initial cfg progs) pre) t b).1 := by
      rw [run_append]; rfl
    rw [hrun] at hf ⊢
    have hfpre : (run (State.initial cfg progs) pre).sh.fault = none := microStep_fault_mono _ t b hf
    have hI := ih hepre hfpre
    have hroom := hlast.2.1.room
    generalize hst : run (State.initial cfg progs) pre = st at *
    intro w c out tries cur a cp' hop hpre
    by_cases e : w = t
    · subst e
      rcases microStep_rcu_cas st w b c out tries cur a cp' hop with
        ⟨tries0, h0, _, ha, hv, hoth⟩ | ⟨cp, h0, hcp, hheap⟩
      · -- the closure has just been evaluated
        refine ⟨by rw [ha]; exact alloc_ne_zero _ _, ?_⟩
        rw [hv]
        by_cases hp : cur.ptr = 0
        · simp [valOf, hp]
        · have hcur : cur.ptr ≠ a := by
            intro e'
            -- the guard's object is counted, the allocator's address is not
            have hT : w < T := hlast.1
            have hl := rcu_closure_value_alive K N T hK cfg progs pre hepre (by rw [hst]; exact hfpre) w hT c out tries0 cur hp
              (by rw [hst]; exact h0)
            have hc : 1 ≤ ((run (State.initial cfg progs) pre).sh.heap cur.ptr).cnt := by
              have hwf := Wf.run0 hK (Wf.initial K cfg progs) pre hepre
              have := (thread_held_alive K N T hK cfg progs pre hepre (by rw [hst]; exact hfpre) cur.ptr hp w hT (by
                rw [hst, h0]
                have hok := hwf.thL w
                rw [hst, h0] at hok
                cases hd : cur.debt with
                | none => left; simp [OpSt.claims, RP.claims, Guard.claims, hd, uOp, uRP, uG, u]
                | some ni =>
                  obtain ⟨n, i⟩ := ni
                  right
                  obtain ⟨hnK, hiS⟩ := hok n i hd
                  refine ⟨n, i, hnK, hiS, ?_, ?_⟩
                  · simp only [OpSt.claims, RP.claims]; exact Guard.claims_of_holds ⟨rfl, hd⟩
                  · intro _ hu; exfalso; rcases hu with hu | hu <;> simp [OpSt.lp?, RP.lp?] at hu)).1
              exact this
            rw [hst] at hc
            have := hroom 0
            rw [← ha, ← e'] at this
            omega
          simp only [valOf, hp, ↓reduceIte]
          rw [hoth cur.ptr hcur]
      · -- a step of the `compare_and_swap`
        have hpre0 : cp.preWrite = true := by rw [hcp] at hpre; exact stepCP_preWrite _ _ _ _ _ _ _ _ hpre
        obtain ⟨ha, hv⟩ := hI w c out tries cur a cp h0 hpre0
        refine ⟨ha, ?_⟩
        have s1 := stepCP_same st.cfg c cur.ptr a st.sh (st.th w).loc b cp a
        rw [hheap, s1.2, hv]
        by_cases hp : cur.ptr = 0
        · simp [valOf, hp]
        · have s2 := stepCP_same st.cfg c cur.ptr a st.sh (st.th w).loc b cp cur.ptr
          simp only [valOf, hp, ↓reduceIte]
          rw [hheap, s2.2]
    · -- another thread's step: the two objects are counted, so they keep their content
      have hoth := (microStep_own st t b).2 w e
      rw [hoth] at hop
      obtain ⟨ha, hv⟩ := hI w c out tries cur a cp' hop hpre
      refine ⟨ha, ?_⟩
      have ca : 1 ≤ (st.sh.heap a).cnt := by
        have := rcu_new_counted K N T hK cfg progs pre hepre (by rw [hst]; exact hfpre) w c out tries cur a cp' ha
          (by rw [hst]; exact hop) hpre
        rw [hst] at this; exact this
      have s1 := counted_keeps_identity st t b a hroom ca
      rw [s1.2, hv]
      by_cases hp : cur.ptr = 0
      · simp [valOf, hp]
      · have cc : 1 ≤ (st.sh.heap cur.ptr).cnt := by
          have := rcu_cur_counted K N T hK cfg progs pre hepre (by rw [hst]; exact hfpre) w c out tries cur a cp' hp
            (by rw [hst]; exact hop)
          rw [hst] at this; exact this
        have s2 := counted_keeps_identity st t b cur.ptr hroom cc
        simp only [valOf, hp, ↓reduceIte, s2.2]


/-- **`rcu`'s exchange adds one**: at the step at which an `rcu` (closure `|v| v + 1`) exchanges
    the pointer — the container holds the address the closure was given — the container afterwards
    holds the allocated object, whose content is the content of the object replaced plus one; and
    the replaced object is the one the closure saw (it has been counted, hence not re-allocated,
    ever since).  Along every execution that satisfies the ledger's assumptions and has raised no
    fault. -/
theorem rcu_exchange_adds_one (K N T : Nat) (hK : 0 < K) (cfg : Cfg) (progs : Nat → List (String × Op))
    (sched : List (Nat × Bool)) (he : EnvRun0 K N T (State.initial cfg progs) sched)
    (hf : (run (State.initial cfg progs) sched).sh.fault = none)
    (t c out tries : Nat) (cur : Guard) (a : Nat) (old : Guard)
    (hop : ((run (State.initial cfg progs) sched).th t).op = .rcu c out tries (.cas cur a (.cx old)))
    (hq : (run (State.initial cfg progs) sched).sh.cells c = some cur.ptr) :
    (microStep (run (State.initial cfg progs) sched) t false).1.sh.cells c = some a ∧
      valOf (microStep (run (State.initial cfg progs) sched) t false).1.sh a =
        valOf (run (State.initial cfg progs) sched).sh cur.ptr + 1 := by
  obtain ⟨ha, hv⟩ := rcuVal_run K N T hK cfg progs sched he hf t c out tries cur a (.cx old) hop rfl
  generalize run (State.initial cfg progs) sched = st at *
  have h1 : (microStep st t false).1.sh = st.sh.writeCell c a := by
    simp [microStep, hop, stepRP, stepCP, hq]
  rw [h1]
  refine ⟨by simp [Shared.writeCell], ?_⟩
  simp only [valOf, ha, ↓reduceIte] at hv ⊢
  simpa [Shared.writeCell] using hv

end M
