import ArcSwapModel.Inv.HazD5

/-!
# Reference counts are touched only while the object is alive

`touch`: the object whose count the next step of an operation increments or decrements.  For every
such step but one — the increment of the fallback path's candidate (`LP.fokInc`), whose protection
is the helping protocol — the object is alive and counted, so the step raises no use-after-free or
double-free fault: the operation accounts for a reference of its own beyond its claims, or promotes
a confirmed borrowed guard (hazard clause), or is the destroyer of the container that still holds
the value.
-/

namespace M
open Consts

def LP.touch : LP → Option Nat
  | .a4dec p => some p
  | .fokInc c => some c
  | .fokDec c => some c
  | .frDec c _ => some c
  | _ => none
def GD.touch : GD → Option Nat
  | .dec p => some p
  | _ => none
def GI.touch : GI → Option Nat
  | .inc p _ _ => some p
  | .dec p => some p
  | _ => none
def PP.touch (p : Nat) : PP → Option Nat
  | .inc => some p
  | .slotInc _ _ => some p
  | .dec => some p
  | .hdrop _ r => some r
  | .hload _ ld => ld.touch
  | .hinto _ _ gi => gi.touch
  | _ => none
def CP.touch (new : Nat) : CP → Option Nat
  | .dropNew _ => some new
  | .decOld old => some old.ptr
  | .load ld => ld.touch
  | .pay old pp => pp.touch old.ptr
  | .dropOld gd => gd.touch
  | _ => none
def RP.touch : RP → Option Nat
  | .load ld => ld.touch
  | .cas _ a cp => cp.touch a
  | .intoPrev _ _ gi => gi.touch
  | .dropCur _ gd => gd.touch
  | .dropCurLoop _ gd => gd.touch
  | _ => none
/-- the object whose reference count the next step of the operation changes -/
def OpSt.touch : OpSt → Option Nat
  | .load _ _ ld | .loadFull _ _ ld => ld.touch
  | .loadFullInto _ _ _ gi | .ginto _ _ gi => gi.touch
  | .cloneh _ _ a => some a
  | .droph a => some a
  | .dropg gd => gd.touch
  | .swapPay _ _ old _ pp => pp.touch old
  | .swapDrop _ old => some old
  | .cas _ _ _ _ new _ cp => cp.touch new
  | .rcu _ _ _ rp => rp.touch
  | .cinto _ _ p pp | .dropc _ p pp => pp.touch p
  | .dropcDec _ p => some p
  | _ => none

/-! ## A touching step raises no fault if the object is alive and counted -/

theorem stepLP_touch_fault (cfg : Cfg) (c : Nat) (s : Shared) (l : Locals) (b : Bool) (lp : LP) (a : Nat)
    (h : lp.touch = some a) (hl : (s.heap a).live = true) (hc : 1 ≤ (s.heap a).cnt) (hf : s.fault = none) :
    (stepLP cfg c s l b lp).1.fault = none := by
  cases lp <;> first
    | (cases h; done)
    | (simp only [LP.touch, Option.some.injEq] at h; subst h; simp only [stepLP]
       first | exact decObj_no_fault s _ hl hc hf | exact incObj_no_fault s _ hl hf)

theorem stepGD_touch_fault (s : Shared) (gd : GD) (a : Nat)
    (h : gd.touch = some a) (hl : (s.heap a).live = true) (hc : 1 ≤ (s.heap a).cnt) (hf : s.fault = none) :
    (stepGD s gd).1.fault = none := by
  cases gd <;> first
    | (cases h; done)
    | (simp only [GD.touch, Option.some.injEq] at h; subst h; simp only [stepGD]; exact decObj_no_fault s _ hl hc hf)

theorem stepGI_touch_fault (s : Shared) (gi : GI) (a : Nat)
    (h : gi.touch = some a) (hl : (s.heap a).live = true) (hc : 1 ≤ (s.heap a).cnt) (hf : s.fault = none) :
    (stepGI s gi).1.fault = none := by
  cases gi <;> first
    | (cases h; done)
    | (simp only [GI.touch, Option.some.injEq] at h; subst h; simp only [stepGI]
       first | exact decObj_no_fault s _ hl hc hf | exact incObj_no_fault s _ hl hf)

theorem stepPP_touch_fault (cfg : Cfg) (p c : Nat) (s : Shared) (l : Locals) (b : Bool) (pp : PP) (a : Nat)
    (h : pp.touch p = some a) (hl : (s.heap a).live = true) (hc : 1 ≤ (s.heap a).cnt) (hf : s.fault = none) :
    (stepPP cfg p c s l b pp).1.fault = none := by
  cases pp with
  | hload x ld =>
    have h1 := stepLP_touch_fault cfg c s l b ld a h hl hc hf
    simp only [stepPP]; split
    · rename_i s' l' r d evs heq; rw [heq] at h1; exact h1
    · rename_i s' l' ld' evs hne heq; rw [heq] at h1; exact h1
  | hinto x r gi =>
    have h1 := stepGI_touch_fault s gi a h hl hc hf
    simp only [stepPP]; split
    · rename_i s' evs heq; rw [heq] at h1; exact h1
    · rename_i s' gi' evs hne heq; rw [heq] at h1; exact h1
  | inc => simp only [PP.touch, Option.some.injEq] at h; subst h; simp only [stepPP]; exact incObj_no_fault s _ hl hf
  | slotInc n j => simp only [PP.touch, Option.some.injEq] at h; subst h; simp only [stepPP]; exact incObj_no_fault s _ hl hf
  | dec => simp only [PP.touch, Option.some.injEq] at h; subst h; simp only [stepPP]; exact decObj_no_fault s _ hl hc hf
  | hdrop x r => simp only [PP.touch, Option.some.injEq] at h; subst h; simp only [stepPP]; exact decObj_no_fault s _ hl hc hf
  | _ => cases h

theorem stepCP_touch_fault (cfg : Cfg) (c cur new : Nat) (s : Shared) (l : Locals) (b : Bool) (cp : CP) (a : Nat)
    (h : cp.touch new = some a) (hl : (s.heap a).live = true) (hc : 1 ≤ (s.heap a).cnt) (hf : s.fault = none) :
    (stepCP cfg c cur new s l b cp).1.fault = none := by
  cases cp with
  | load ld =>
    have h1 := stepLP_touch_fault cfg c s l b ld a h hl hc hf
    simp only [stepCP]; split
    · rename_i s' l' r d evs heq; rw [heq] at h1; exact h1
    · rename_i s' l' ld' evs hne heq; rw [heq] at h1; exact h1
  | pay old pp =>
    have h1 := stepPP_touch_fault cfg old.ptr c s l b pp a h hl hc hf
    simp only [stepCP]; split
    · rename_i s' l' evs heq; rw [heq] at h1; exact h1
    · rename_i s' l' pp' evs hne heq; rw [heq] at h1; exact h1
  | dropOld gd =>
    have h1 := stepGD_touch_fault s gd a h hl hc hf
    simp only [stepCP]; split
    · rename_i s' evs heq; rw [heq] at h1; exact h1
    · rename_i s' gd' evs hne heq; rw [heq] at h1; exact h1
  | dropNew old => simp only [CP.touch, Option.some.injEq] at h; subst h; simp only [stepCP]; exact decObj_no_fault s _ hl hc hf
  | decOld old => simp only [CP.touch, Option.some.injEq] at h; subst h; simp only [stepCP]; exact decObj_no_fault s _ hl hc hf
  | _ => cases h

theorem stepRP_touch_fault (cfg : Cfg) (c : Nat) (s : Shared) (l : Locals) (b : Bool) (tries : Nat) (rp : RP) (a : Nat)
    (h : rp.touch = some a) (hl : (s.heap a).live = true) (hc : 1 ≤ (s.heap a).cnt) (hf : s.fault = none) :
    (stepRP cfg c s l b tries rp).1.fault = none := by
  cases rp with
  | load ld =>
    have h1 := stepLP_touch_fault cfg c s l b ld a h hl hc hf
    simp only [stepRP]; split
    · rename_i s' l' r d evs heq; rw [heq] at h1; exact h1
    · rename_i s' l' ld' evs hne heq; rw [heq] at h1; exact h1
  | cas cur x cp =>
    have h1 := stepCP_touch_fault cfg c cur.ptr x s l b cp a h hl hc hf
    simp only [stepRP]; split
    · rename_i s' l' prev evs heq; rw [heq] at h1; (repeat' split) <;> exact h1
    · rename_i s' l' cp' evs hne heq; rw [heq] at h1; exact h1
  | intoPrev cur prev gi =>
    have h1 := stepGI_touch_fault s gi a h hl hc hf
    simp only [stepRP]; split
    · rename_i s' evs heq; rw [heq] at h1; (repeat' split) <;> exact h1
    · rename_i s' gi' evs hne heq; rw [heq] at h1; exact h1
  | dropCur res gd =>
    have h1 := stepGD_touch_fault s gd a h hl hc hf
    simp only [stepRP]; split
    · rename_i s' evs heq; rw [heq] at h1; exact h1
    · rename_i s' gd' evs hne heq; rw [heq] at h1; exact h1
  | dropCurLoop prev gd =>
    have h1 := stepGD_touch_fault s gd a h hl hc hf
    simp only [stepRP]; split
    · rename_i s' evs heq; rw [heq] at h1; exact h1
    · rename_i s' gd' evs hne heq; rw [heq] at h1; exact h1
  | _ => cases h

theorem microStep_touch_fault (st : State) (t : Nat) (b : Bool) (a : Nat)
    (h : (st.th t).op.touch = some a) (hl : (st.sh.heap a).live = true) (hc : 1 ≤ (st.sh.heap a).cnt)
    (hf : st.sh.fault = none) : (microStep st t b).1.sh.fault = none := by
  cases hop : (st.th t).op with
  | load c g ld =>
    rw [hop] at h
    have h1 := stepLP_touch_fault st.cfg c st.sh (st.th t).loc b ld a h hl hc hf
    simp only [microStep, hop]; split
    · rename_i s' l' p d evs heq; rw [heq] at h1; exact h1
    · rename_i s' l' ld' evs hne heq; rw [heq] at h1; exact h1
  | loadFull c x ld =>
    rw [hop] at h
    have h1 := stepLP_touch_fault st.cfg c st.sh (st.th t).loc b ld a h hl hc hf
    simp only [microStep, hop]; split
    · rename_i s' l' p d evs heq; rw [heq] at h1; split <;> exact h1
    · rename_i s' l' ld' evs hne heq; rw [heq] at h1; exact h1
  | loadFullInto c x r gi =>
    rw [hop] at h
    have h1 := stepGI_touch_fault st.sh gi a h hl hc hf
    simp only [microStep, hop]; split
    · rename_i s' evs heq; rw [heq] at h1; exact h1
    · rename_i s' gi' evs hne heq; rw [heq] at h1; exact h1
  | ginto x p gi =>
    rw [hop] at h
    have h1 := stepGI_touch_fault st.sh gi a h hl hc hf
    simp only [microStep, hop]; split
    · rename_i s' evs heq; rw [heq] at h1; exact h1
    · rename_i s' gi' evs hne heq; rw [heq] at h1; exact h1
  | dropg gd =>
    rw [hop] at h
    have h1 := stepGD_touch_fault st.sh gd a h hl hc hf
    simp only [microStep, hop]; split
    · rename_i s' evs heq; rw [heq] at h1; exact h1
    · rename_i s' gd' evs hne heq; rw [heq] at h1; exact h1
  | cloneh x y a0 =>
    rw [hop] at h; simp only [OpSt.touch, Option.some.injEq] at h; subst h
    simp only [microStep, hop]; exact incObj_no_fault st.sh _ hl hf
  | droph a0 =>
    rw [hop] at h; simp only [OpSt.touch, Option.some.injEq] at h; subst h
    simp only [microStep, hop]; exact decObj_no_fault st.sh _ hl hc hf
  | swapDrop c a0 =>
    rw [hop] at h; simp only [OpSt.touch, Option.some.injEq] at h; subst h
    simp only [microStep, hop]; exact decObj_no_fault st.sh _ hl hc hf
  | dropcDec c a0 =>
    rw [hop] at h; simp only [OpSt.touch, Option.some.injEq] at h; subst h
    simp only [microStep, hop]; exact decObj_no_fault st.sh _ hl hc hf
  | swapPay c out old isStore pp =>
    rw [hop] at h
    have h1 := stepPP_touch_fault st.cfg old c st.sh (st.th t).loc b pp a h hl hc hf
    simp only [microStep, hop]; split
    · rename_i s' l' evs heq; rw [heq] at h1; (repeat' split) <;> exact h1
    · rename_i s' l' pp' evs hne heq; rw [heq] at h1; exact h1
  | cinto c x p pp =>
    rw [hop] at h
    have h1 := stepPP_touch_fault st.cfg p c st.sh (st.th t).loc b pp a h hl hc hf
    simp only [microStep, hop]; split
    · rename_i s' l' evs heq; rw [heq] at h1; exact h1
    · rename_i s' l' pp' evs hne heq; rw [heq] at h1; exact h1
  | dropc c p pp =>
    rw [hop] at h
    have h1 := stepPP_touch_fault st.cfg p c st.sh (st.th t).loc b pp a h hl hc hf
    simp only [microStep, hop]; split
    · rename_i s' l' evs heq; rw [heq] at h1; split <;> exact h1
    · rename_i s' l' pp' evs hne heq; rw [heq] at h1; exact h1
  | cas c cur keep curPtr new g cp =>
    rw [hop] at h
    have h1 := stepCP_touch_fault st.cfg c curPtr new st.sh (st.th t).loc b cp a h hl hc hf
    simp only [microStep, hop]; split
    · rename_i s' l' old evs heq; rw [heq] at h1; cases cur <;> cases keep <;> exact h1
    · rename_i s' l' cp' evs hne heq; rw [heq] at h1; exact h1
  | rcu c out tries rp =>
    rw [hop] at h
    have h1 := stepRP_touch_fault st.cfg c st.sh (st.th t).loc b tries rp a h hl hc hf
    simp only [microStep, hop]; split
    · rename_i s' l' r tries' evs heq; rw [heq] at h1; exact h1
    · rename_i s' l' rp' tries' evs hne heq; rw [heq] at h1; exact h1
  | _ => rw [hop] at h; cases h

end M
