import ArcSwapModel.Inv.Own

/-!
# The node list: prepend-only, acyclic, never loses a node

`LIST_HEAD` and the `next` pointers form a chain without repetition; one step of any thread either
leaves it alone or prepends the node that thread had allocated (`Node::get`'s compare-exchange on
`LIST_HEAD`).  So every node once linked stays linked, at the same distance from the end, and a
traversal that follows `next` from any linked node terminates (C09) and meets every node that was
linked before it started (C01); the number of nodes only grows by prepending (C11).
-/

namespace M
open Consts

/-- head and `next` pointers are what they were -/
def LSame (s s' : Shared) : Prop :=
  s'.head = s.head ∧ (∀ m, (s'.nodes m).next = (s.nodes m).next) ∧ s'.nNodes = s.nNodes

theorem LSame.refl (s : Shared) : LSame s s := ⟨rfl, fun _ => rfl, rfl⟩

theorem LSame.trans {s s' s'' : Shared} (h1 : LSame s s') (h2 : LSame s' s'') : LSame s s'' :=
  ⟨h2.1.trans h1.1, fun m => (h2.2.1 m).trans (h1.2.1 m), h2.2.2.trans h1.2.2⟩

theorem LSame.setNode (s : Shared) (n : Nat) (f : Node → Node) (hf : ∀ nd, (f nd).next = nd.next) :
    LSame s (s.setNode n f) := by
  refine ⟨rfl, fun m => ?_, rfl⟩
  by_cases hm : m = n
  · subst hm; simp [hf]
  · simp [hm]

theorem LSame.setFault (s : Shared) (f : Fault) : LSame s (s.setFault f) := ⟨by simp, fun _ => by simp, by simp⟩
theorem LSame.incObj (s : Shared) (a : Nat) : LSame s (incObj s a).1 := ⟨by simp, fun _ => by simp, by simp⟩
theorem LSame.decObj (s : Shared) (a : Nat) : LSame s (decObj s a).1 := ⟨by simp, fun _ => by simp, by simp⟩
theorem LSame.alloc (s : Shared) (v : Nat) : LSame s (alloc s v).1 := ⟨rfl, fun _ => rfl, rfl⟩
theorem LSame.dbg (s : Shared) (n : Nat) (site : String) : LSame s (dbgInUse s n site) := by
  unfold dbgInUse; split
  · exact LSame.refl s
  · exact LSame.setFault s _
theorem LSame.ite_setFault (s : Shared) (c : Prop) [Decidable c] (f : Fault) :
    LSame s (if c then s else s.setFault f) := by
  split
  · exact LSame.refl s
  · exact LSame.setFault s _
theorem LSame.ite_setFault_of {s x : Shared} (h : LSame s x) (c : Prop) [Decidable c] (f : Fault) :
    LSame s (if c then x else x.setFault f) := by
  split
  · exact h
  · exact h.trans (LSame.setFault x _)

/-- the step leaves the list alone: one primitive update -/
macro "lsame" : tactic =>
  `(tactic| (first
      | exact LSame.refl _
      | exact LSame.setNode _ _ _ (fun _ => rfl)
      | exact LSame.setFault _ _
      | exact LSame.incObj _ _
      | exact LSame.decObj _ _
      | exact LSame.alloc _ _
      | exact LSame.dbg _ _ _
      | exact LSame.ite_setFault _ _ _
      | exact LSame.ite_setFault_of (LSame.setNode _ _ _ (fun _ => rfl)) _ _
      | (refine LSame.trans ?_ (LSame.setFault _ _); exact LSame.setNode _ _ _ (fun _ => rfl))
      | (refine LSame.trans (LSame.setFault _ _) ?_; exact LSame.alloc _ _)
      | exact ⟨rfl, fun _ => rfl, rfl⟩
      | exact ⟨by simp [Shared.writeCell], fun _ => by simp [Shared.writeCell], by simp [Shared.writeCell]⟩))

theorem stepCD_lsame (s : Shared) (cd : CD) : LSame s (stepCD s cd).1 := by
  cases cd <;> simp only [stepCD] <;> (try split) <;> lsame

theorem stepGD_lsame (s : Shared) (gd : GD) : LSame s (stepGD s gd).1 := by
  cases gd <;> simp only [stepGD] <;> (repeat' split) <;> lsame

theorem stepGI_lsame (s : Shared) (gi : GI) : LSame s (stepGI s gi).1 := by
  cases gi <;> simp only [stepGI] <;> (repeat' split) <;> lsame

/-! ## `Node::get` and the list -/

/-- the node a `Node::get` in progress has allocated and not linked yet -/
def NG.pend : NG → Option Nat
  | .allocCas (some k) _ => some k
  | _ => none

/-- how one step changes the list, seen from the stepping thread (`pn`: its pending node) -/
inductive ListStep (s : Shared) (pn : Option Nat) (s' : Shared) (pn' : Option Nat) : Prop
  | same (h : LSame s s') (hp : pn' = pn)
  /-- a node is allocated (or its `next` re-pointed) and stays private -/
  | priv (k : Nat) (hk : (pn = some k ∧ s'.nNodes = s.nNodes) ∨ (pn = none ∧ k = s.nNodes ∧ s'.nNodes = s.nNodes + 1))
      (hhead : s'.head = s.head) (hnext : ∀ m, m ≠ k → (s'.nodes m).next = (s.nodes m).next)
      (hp : pn' = some k)
  /-- the private node is prepended -/
  | link (k : Nat) (hk : (pn = some k ∧ s'.nNodes = s.nNodes) ∨ (pn = none ∧ k = s.nNodes ∧ s'.nNodes = s.nNodes + 1))
      (hhead : s'.head = some k) (hknext : (s'.nodes k).next = s.head)
      (hnext : ∀ m, m ≠ k → (s'.nodes m).next = (s.nodes m).next)
      (hp : pn' = none)

theorem stepNG_list (s : Shared) (b : Bool) (ng : NG) :
    ListStep s ng.pend (stepNG s b ng).1 (stepNG s b ng).2.1.pend := by
  cases ng with
  | trav => simp only [stepNG]; refine .same (LSame.refl s) ?_; cases s.head <;> rfl
  | cc0 n =>
    simp only [stepNG]; split
    · exact .same (LSame.setNode _ _ _ (fun _ => rfl)) rfl
    · exact .same (LSame.refl s) rfl
  | cc1 n => simp only [stepNG]; exact .same (LSame.refl s) rfl
  | cc2 n idle =>
    simp only [stepNG]; split
    · exact .same (LSame.setNode _ _ _ (fun _ => rfl)) rfl
    · exact .same (LSame.setFault _ _) rfl
  | claim n =>
    simp only [stepNG]; split
    · exact .same (LSame.setNode _ _ _ (fun _ => rfl)) rfl
    · refine .same (LSame.refl s) ?_
      simp only [NG.afterNode]; cases (s.nodes n).next <;> rfl
  | allocLoad => simp only [stepNG]; exact .same (LSame.refl s) rfl
  | allocCas me h =>
    cases me with
    | some k =>
      simp only [stepNG]
      split
      · rename_i hc
        simp only [Bool.and_eq_true, Bool.not_eq_true', decide_eq_true_eq, setNode_head] at hc
        refine .link k (Or.inl ⟨rfl, rfl⟩) rfl ?_ (fun m hm => ?_) rfl
        · simp; exact (of_decide_eq_true hc.2).symm
        · simp [hm]
      · exact .priv k (Or.inl ⟨rfl, rfl⟩) rfl (fun m hm => by simp [hm]) rfl
    | none =>
      simp only [stepNG]
      split
      · rename_i hc
        simp only [Bool.and_eq_true, Bool.not_eq_true', decide_eq_true_eq, setNode_head] at hc
        refine .link s.nNodes (Or.inr ⟨rfl, rfl, rfl⟩) rfl ?_ (fun m hm => ?_) rfl
        · simp [Shared.setNode]; exact (of_decide_eq_true hc.2).symm
        · simp [Shared.setNode, upd, hm]
      · exact .priv s.nNodes (Or.inr ⟨rfl, rfl, rfl⟩) rfl (fun m hm => by simp [Shared.setNode, upd, hm]) rfl
  | done n => simp only [stepNG]; exact .same (LSame.refl s) rfl

theorem ListStep.cast {s s' : Shared} {p q p2 q2 : Option Nat} (h : ListStep s p s' q) (hp : p = p2) (hq : q = q2) :
    ListStep s p2 s' q2 := by subst hp hq; exact h

/-! ## Lifting through the sub-machines -/

def LP.pend : LP → Option Nat
  | .get ng | .reget ng => ng.pend
  | _ => none

def PP.pend : PP → Option Nat
  | .get ng => ng.pend
  | .hload _ ld => ld.pend
  | _ => none

def CP.pend : CP → Option Nat
  | .load ld => ld.pend
  | .pay _ pp => pp.pend
  | _ => none

def RP.pend : RP → Option Nat
  | .load ld => ld.pend
  | .cas _ _ cp => cp.pend
  | _ => none

def OpSt.pend : OpSt → Option Nat
  | .load _ _ ld | .loadFull _ _ ld => ld.pend
  | .swapPay _ _ _ _ pp | .cinto _ _ _ pp | .dropc _ _ pp => pp.pend
  | .cas _ _ _ _ _ _ cp => cp.pend
  | .rcu _ _ _ rp => rp.pend
  | _ => none

theorem stepLP_list (cfg : Cfg) (c : Nat) (s : Shared) (l : Locals) (b : Bool) (lp : LP) :
    ListStep s lp.pend (stepLP cfg c s l b lp).1 (stepLP cfg c s l b lp).2.2.1.pend := by
  cases lp with
  | get ng =>
    have h1 := stepNG_list s b ng
    simp only [stepLP]; split
    · rename_i s' n evs heq; simp only [heq] at h1
      exact h1.cast rfl (by dsimp only; split <;> rfl)
    · rename_i s' ng' evs hne heq; simp only [heq] at h1; exact h1
  | reget ng =>
    have h1 := stepNG_list s b ng
    simp only [stepLP]; split
    · rename_i s' n evs heq; simp only [heq] at h1; exact h1
    · rename_i s' ng' evs hne heq; simp only [heq] at h1; exact h1
  | cool cd =>
    have h1 := stepCD_lsame s cd
    simp only [stepLP]; split
    · rename_i s' evs heq; simp only [heq] at h1; exact .same h1 rfl
    · rename_i s' cd' evs hne heq; simp only [heq] at h1; exact .same h1 rfl
  | start => simp only [stepLP]; (repeat' split) <;> exact .same (LSame.refl s) rfl
  | _ =>
    simp only [stepLP]
    (repeat' split) <;> (refine .same ?_ rfl; lsame)

theorem PP.dispatch_pend (h : HL) : (PP.dispatch h).pend = none := by
  simp only [PP.dispatch]; split <;> rfl
theorem PP.nextSlot_pend (n j : Nat) : (PP.nextSlot n j).pend = none := by
  simp only [PP.nextSlot]; split <;> rfl

theorem stepPP_list (cfg : Cfg) (p c : Nat) (s : Shared) (l : Locals) (b : Bool) (pp : PP) :
    ListStep s pp.pend (stepPP cfg p c s l b pp).1 (stepPP cfg p c s l b pp).2.2.1.pend := by
  cases pp with
  | get ng =>
    have h1 := stepNG_list s b ng
    simp only [stepPP]; split
    · rename_i s' n evs heq; simp only [heq] at h1
      exact h1.cast rfl (by dsimp only; split <;> rfl)
    · rename_i s' ng' evs hne heq; simp only [heq] at h1; exact h1
  | hload x ld =>
    have h1 := stepLP_list cfg c s l b ld
    simp only [stepPP]; split
    · rename_i s' l' r d evs heq; simp only [heq] at h1
      exact h1.cast rfl (by dsimp only; split <;> rfl)
    · rename_i s' l' ld' evs hne heq; simp only [heq] at h1; exact h1
  | hinto x r gi =>
    have h1 := stepGI_lsame s gi
    simp only [stepPP]; split
    · rename_i s' evs heq; simp only [heq] at h1; exact .same h1 rfl
    · rename_i s' gi' evs hne heq; simp only [heq] at h1; exact .same h1 rfl
  | h2 x =>
    simp only [stepPP]
    by_cases ho : x.own = x.who
    · simp only [ho, ↓reduceIte]
      refine .same (LSame.setFault _ _) ?_
      (repeat' split) <;> rfl
    · simp only [ho, ↓reduceIte]
      refine .same (LSame.refl _) ?_
      (repeat' split) <;> rfl
  | _ =>
    simp only [stepPP]
    (repeat' split) <;>
      (refine .same ?_ ?_
       · lsame
       · first | rfl | exact PP.dispatch_pend _ | exact PP.nextSlot_pend _ _ | (show (PP.nextSlot _ _).pend = none; exact PP.nextSlot_pend _ _) | (show (PP.dispatch _).pend = none; exact PP.dispatch_pend _) | (split <;> rfl))

theorem stepCP_list (cfg : Cfg) (c cur new : Nat) (s : Shared) (l : Locals) (b : Bool) (cp : CP) :
    ListStep s cp.pend (stepCP cfg c cur new s l b cp).1 (stepCP cfg c cur new s l b cp).2.2.1.pend := by
  cases cp with
  | load ld =>
    have h1 := stepLP_list cfg c s l b ld
    simp only [stepCP]; split
    · rename_i s' l' r d evs heq; simp only [heq] at h1
      exact h1.cast rfl (by dsimp only; (repeat' split) <;> rfl)
    · rename_i s' l' ld' evs hne heq; simp only [heq] at h1; exact h1
  | pay old pp =>
    have h1 := stepPP_list cfg old.ptr c s l b pp
    simp only [stepCP]; split
    · rename_i s' l' evs heq; simp only [heq] at h1
      exact h1.cast rfl (by dsimp only; (repeat' split) <;> rfl)
    · rename_i s' l' pp' evs hne heq; simp only [heq] at h1; exact h1
  | dropOld gd =>
    have h1 := stepGD_lsame s gd
    simp only [stepCP]; split
    · rename_i s' evs heq; simp only [heq] at h1; exact .same h1 rfl
    · rename_i s' gd' evs hne heq; simp only [heq] at h1; exact .same h1 rfl
  | _ =>
    simp only [stepCP]
    (repeat' split) <;>
      (refine .same ?_ ?_
       · lsame
       · first | rfl | (split <;> rfl))

theorem stepRP_list (cfg : Cfg) (c : Nat) (s : Shared) (l : Locals) (b : Bool) (tries : Nat) (rp : RP) :
    ListStep s rp.pend (stepRP cfg c s l b tries rp).1 (stepRP cfg c s l b tries rp).2.2.1.pend := by
  cases rp with
  | load ld =>
    have h1 := stepLP_list cfg c s l b ld
    simp only [stepRP]; split
    · rename_i s' l' r d evs heq; simp only [heq] at h1; exact h1
    · rename_i s' l' ld' evs hne heq; simp only [heq] at h1; exact h1
  | attempt cur =>
    simp only [stepRP]
    refine .same ?_ rfl
    split
    · exact (LSame.setFault _ _).trans (LSame.alloc _ _)
    · exact LSame.alloc _ _
  | cas cur x cp =>
    have h1 := stepCP_list cfg c cur.ptr x s l b cp
    simp only [stepRP]; split
    · rename_i s' l' prev evs heq; simp only [heq] at h1
      (repeat' split) <;> exact h1.cast rfl rfl
    · rename_i s' l' cp' evs hne heq; simp only [heq] at h1; exact h1
  | intoPrev cur prev gi =>
    have h1 := stepGI_lsame s gi
    simp only [stepRP]; split
    · rename_i s' evs heq; simp only [heq] at h1; exact .same h1 (by dsimp only; split <;> rfl)
    · rename_i s' gi' evs hne heq; simp only [heq] at h1; exact .same h1 rfl
  | dropCur res gd =>
    have h1 := stepGD_lsame s gd
    simp only [stepRP]; split
    · rename_i s' evs heq; simp only [heq] at h1; exact .same h1 rfl
    · rename_i s' gd' evs hne heq; simp only [heq] at h1; exact .same h1 rfl
  | dropCurLoop prev gd =>
    have h1 := stepGD_lsame s gd
    simp only [stepRP]; split
    · rename_i s' evs heq; simp only [heq] at h1; exact .same h1 rfl
    · rename_i s' gd' evs hne heq; simp only [heq] at h1; exact .same h1 rfl
  | done r => simp only [stepRP]; exact .same (LSame.refl s) rfl

/-! ## Whole operations -/

theorem beginOp_list (st : State) (t : Nat) (o : Op) :
    LSame st.sh (beginOp st t o).1.sh ∧ ((beginOp st t o).1.th t).op.pend = none := by
  cases o <;> simp only [beginOp] <;> (repeat' split) <;>
    first
      | exact ⟨LSame.refl _, by simp [OpSt.pend, LP.pend, PP.pend, CP.pend, RP.pend]⟩
      | exact ⟨LSame.alloc _ _, by simp [OpSt.pend]⟩
      | (refine ⟨?_, ?_⟩
         · dsimp only; (try split) <;> first | exact LSame.refl _ | exact LSame.setFault _ _ | exact ⟨rfl, fun _ => rfl, rfl⟩
         · dsimp only; (try split) <;> simp [OpSt.pend, LP.pend, PP.pend, CP.pend, RP.pend])

theorem microStep_list (st : State) (t : Nat) (b : Bool) :
    ListStep st.sh (st.th t).op.pend (microStep st t b).1.sh ((microStep st t b).1.th t).op.pend := by
  cases hop : (st.th t).op with
  | finished => simp only [microStep, hop]; exact .same (LSame.refl _) rfl
  | idle =>
    simp only [microStep, hop]
    split
    · refine .same (LSame.refl _) ?_
      simp only [upd_same]; split <;> rfl
    · rename_i txt o rest hp
      obtain ⟨h1, h2⟩ := beginOp_list { st with th := upd st.th t { prog := rest, op := .idle, loc := (st.th t).loc } } t o
      exact .same h1 h2
  | exitCool cd =>
    have h1 := stepCD_lsame st.sh cd
    simp only [microStep, hop]; split
    · rename_i s' evs heq; simp only [heq] at h1; exact .same h1 (by simp [OpSt.pend])
    · rename_i s' cd' evs hne heq; simp only [heq] at h1; exact .same h1 (by simp [OpSt.pend])
  | load c g ld =>
    have h1 := stepLP_list st.cfg c st.sh (st.th t).loc b ld
    simp only [microStep, hop]; split
    · rename_i s' l' p d evs heq; simp only [heq] at h1
      cases h1 with
      | same h hp => exact .same ⟨h.1, h.2.1, h.2.2⟩ (by simpa [OpSt.pend, LP.pend] using hp)
      | priv k hk a1 a2 hp => simp [LP.pend] at hp
      | link k hk a1 a2 a3 hp => exact .link k hk a1 a2 a3 (by simp [OpSt.pend])
    · rename_i s' l' ld' evs hne heq; simp only [heq] at h1; simpa [OpSt.pend] using h1
  | loadFull c x ld =>
    have h1 := stepLP_list st.cfg c st.sh (st.th t).loc b ld
    simp only [microStep, hop]; split
    · rename_i s' l' p d evs heq; simp only [heq] at h1
      cases h1 with
      | same h hp =>
        refine .same ?_ ?_
        · split <;> exact ⟨h.1, h.2.1, h.2.2⟩
        · split <;> simpa [OpSt.pend, LP.pend] using hp
      | priv k hk a1 a2 hp => simp [LP.pend] at hp
      | link k hk a1 a2 a3 hp => split <;> exact .link k hk a1 a2 a3 (by simp [OpSt.pend])
    · rename_i s' l' ld' evs hne heq; simp only [heq] at h1; simpa [OpSt.pend] using h1
  | loadFullInto c x r gi =>
    have h1 := stepGI_lsame st.sh gi
    simp only [microStep, hop]; split
    · rename_i s' evs heq; simp only [heq] at h1; exact .same ⟨h1.1, h1.2.1, h1.2.2⟩ (by simp [OpSt.pend])
    · rename_i s' gi' evs hne heq; simp only [heq] at h1; exact .same h1 (by simp [OpSt.pend])
  | cloneh x y a0 =>
    simp only [microStep, hop]
    exact .same ⟨by simp, fun _ => by simp, by simp⟩ (by simp [OpSt.pend])
  | droph a0 =>
    simp only [microStep, hop]
    exact .same ⟨by simp, fun _ => by simp, by simp⟩ (by simp [OpSt.pend])
  | dropg gd =>
    have h1 := stepGD_lsame st.sh gd
    simp only [microStep, hop]; split
    · rename_i s' evs heq; simp only [heq] at h1; exact .same h1 (by simp [OpSt.pend])
    · rename_i s' gd' evs hne heq; simp only [heq] at h1; exact .same h1 (by simp [OpSt.pend])
  | ginto x p gi =>
    have h1 := stepGI_lsame st.sh gi
    simp only [microStep, hop]; split
    · rename_i s' evs heq; simp only [heq] at h1; exact .same ⟨h1.1, h1.2.1, h1.2.2⟩ (by simp [OpSt.pend])
    · rename_i s' gi' evs hne heq; simp only [heq] at h1; exact .same h1 (by simp [OpSt.pend])
  | swapSw c a0 out isStore =>
    simp only [microStep, hop]; split
    · exact .same ⟨by simp [Shared.writeCell], fun _ => by simp [Shared.writeCell], by simp [Shared.writeCell]⟩ (by simp [OpSt.pend, PP.pend])
    · exact .same (LSame.refl _) (by first | rfl | rw [hop])
  | swapPay c out old isStore pp =>
    have h1 := stepPP_list st.cfg old c st.sh (st.th t).loc b pp
    simp only [microStep, hop]; split
    · rename_i s' l' evs heq; simp only [heq] at h1
      cases h1 with
      | same h hp =>
        (repeat' split) <;> exact .same ⟨h.1, h.2.1, h.2.2⟩ (by simpa [OpSt.pend, PP.pend] using hp)
      | priv k hk a1 a2 hp => simp [PP.pend] at hp
      | link k hk a1 a2 a3 hp => (repeat' split) <;> exact .link k hk a1 a2 a3 (by simp [OpSt.pend])
    · rename_i s' l' pp' evs hne heq; simp only [heq] at h1; simpa [OpSt.pend] using h1
  | swapDrop c old =>
    simp only [microStep, hop]
    exact .same ⟨by simp, fun _ => by simp, by simp⟩ (by simp [OpSt.pend])
  | cas c cur keep curPtr new g cp =>
    have h1 := stepCP_list st.cfg c curPtr new st.sh (st.th t).loc b cp
    simp only [microStep, hop]; split
    · rename_i s' l' old evs heq; simp only [heq] at h1
      cases h1 with
      | same h hp =>
        refine .same ?_ (by simpa [OpSt.pend, CP.pend] using hp)
        cases cur <;> cases keep <;> exact ⟨h.1, h.2.1, h.2.2⟩
      | priv k hk a1 a2 hp => simp [CP.pend] at hp
      | link k hk a1 a2 a3 hp =>
        refine .link k ?_ ?_ ?_ ?_ (by simp [OpSt.pend])
        · cases cur <;> cases keep <;> exact hk
        · cases cur <;> cases keep <;> exact a1
        · cases cur <;> cases keep <;> exact a2
        · cases cur <;> cases keep <;> exact a3
    · rename_i s' l' cp' evs hne heq; simp only [heq] at h1; simpa [OpSt.pend] using h1
  | rcu c out tries rp =>
    have h1 := stepRP_list st.cfg c st.sh (st.th t).loc b tries rp
    simp only [microStep, hop]; split
    · rename_i s' l' r tries' evs heq; simp only [heq] at h1
      cases h1 with
      | same h hp => exact .same ⟨h.1, h.2.1, h.2.2⟩ (by simpa [OpSt.pend, RP.pend] using hp)
      | priv k hk a1 a2 hp => simp [RP.pend] at hp
      | link k hk a1 a2 a3 hp => exact .link k hk a1 a2 a3 (by simp [OpSt.pend])
    · rename_i s' l' rp' tries' evs hne heq; simp only [heq] at h1; simpa [OpSt.pend] using h1
  | cinto c x p pp =>
    have h1 := stepPP_list st.cfg p c st.sh (st.th t).loc b pp
    simp only [microStep, hop]; split
    · rename_i s' l' evs heq; simp only [heq] at h1
      cases h1 with
      | same h hp => exact .same ⟨h.1, h.2.1, h.2.2⟩ (by simpa [OpSt.pend, PP.pend] using hp)
      | priv k hk a1 a2 hp => simp [PP.pend] at hp
      | link k hk a1 a2 a3 hp => exact .link k hk a1 a2 a3 (by simp [OpSt.pend])
    · rename_i s' l' pp' evs hne heq; simp only [heq] at h1; simpa [OpSt.pend] using h1
  | dropc c p pp =>
    have h1 := stepPP_list st.cfg p c st.sh (st.th t).loc b pp
    simp only [microStep, hop]; split
    · rename_i s' l' evs heq; simp only [heq] at h1
      cases h1 with
      | same h hp =>
        (repeat' split) <;> exact .same ⟨h.1, h.2.1, h.2.2⟩ (by simpa [OpSt.pend, PP.pend] using hp)
      | priv k hk a1 a2 hp => simp [PP.pend] at hp
      | link k hk a1 a2 a3 hp => (repeat' split) <;> exact .link k hk a1 a2 a3 (by simp [OpSt.pend])
    · rename_i s' l' pp' evs hne heq; simp only [heq] at h1; simpa [OpSt.pend] using h1
  | dropcDec c p =>
    simp only [microStep, hop]
    exact .same ⟨by simp, fun _ => by simp, by simp⟩ (by simp [OpSt.pend])

/-! ## The invariant -/

theorem NG.owns_of_pend {ng : NG} {k : Nat} (h : ng.pend = some k) (base : Option Nat) : ownsNG base ng = some k := by
  cases ng with
  | allocCas me hd => cases me <;> simp [NG.pend] at h; subst h; rfl
  | _ => simp [NG.pend] at h
theorem LP.owns_of_pend {lp : LP} {l : Locals} {k : Nat} (h : lp.pend = some k) : ownsLP l lp = some k := by
  cases lp <;> first | exact NG.owns_of_pend h none | simp [LP.pend] at h
theorem PP.owns_of_pend {pp : PP} {l : Locals} {k : Nat} (h : pp.pend = some k) : ownsPP l pp = some k := by
  cases pp <;> first | exact NG.owns_of_pend h none | exact LP.owns_of_pend h | simp [PP.pend] at h
theorem CP.owns_of_pend {cp : CP} {l : Locals} {k : Nat} (h : cp.pend = some k) : ownsCP l cp = some k := by
  cases cp <;> first | exact LP.owns_of_pend h | exact PP.owns_of_pend h | simp [CP.pend] at h
theorem RP.owns_of_pend {rp : RP} {l : Locals} {k : Nat} (h : rp.pend = some k) : ownsRP l rp = some k := by
  cases rp <;> first | exact LP.owns_of_pend h | exact CP.owns_of_pend h | simp [RP.pend] at h
/-- the node a thread is about to link is a node it owns -/
theorem owns_of_pend (th : Thread) (k : Nat) (h : th.op.pend = some k) : ownsT th = some k := by
  unfold ownsT
  cases hop : th.op <;> rw [hop] at h <;>
    first
      | exact LP.owns_of_pend h
      | exact PP.owns_of_pend h
      | exact CP.owns_of_pend h
      | exact RP.owns_of_pend h
      | simp [OpSt.pend] at h

/-- `L` is the list: from `hd`, following `next`, without repetition, to the end -/
def chainFrom (next : Nat → Option Nat) : Option Nat → List Nat → Prop
  | none, [] => True
  | some n, m :: L => n = m ∧ n ∉ L ∧ chainFrom next (next n) L
  | _, _ => False

/-- `next` of nodes outside the chain does not matter -/
theorem chainFrom_congr {next next' : Nat → Option Nat} {hd : Option Nat} {L : List Nat}
    (h : chainFrom next hd L) (he : ∀ n, n ∈ L → next' n = next n) : chainFrom next' hd L := by
  induction L generalizing hd with
  | nil => cases hd <;> exact h
  | cons m L ih =>
    cases hd with
    | none => exact h
    | some n =>
      obtain ⟨h1, h2, h3⟩ := h
      subst h1
      refine ⟨rfl, h2, ?_⟩
      rw [he n (List.mem_cons_self ..)]
      exact ih h3 (fun x hx => he x (List.mem_cons_of_mem _ hx))

def nextOf (s : Shared) : Nat → Option Nat := fun n => (s.nodes n).next

/-- **the list invariant**: head and `next` form a chain without repetition over existing nodes,
    and no thread's not-yet-linked node is on it -/
def ListInv (st : State) (L : List Nat) : Prop :=
  chainFrom (nextOf st.sh) st.sh.head L ∧ (∀ n, n ∈ L → n < st.sh.nNodes) ∧
    ∀ t k, (st.th t).op.pend = some k → k ∉ L

theorem ListInv.initial (cfg : Cfg) (progs : Nat → List (String × Op)) : ListInv (State.initial cfg progs) [] := by
  refine ⟨trivial, ?_, ?_⟩
  · intro n h; cases h
  · intro t k _ h; cases h

/-- **one step: the list stays, or the stepping thread's node is prepended** -/
theorem ListInv.step {st : State} {L : List Nat} (h : ListInv st L) (ho : OwnInv st) (t : Nat) (b : Bool) :
    ListInv (microStep st t b).1 L ∨ ∃ k, k ∉ L ∧ ListInv (microStep st t b).1 (k :: L) := by
  obtain ⟨hc, hlt, hp⟩ := h
  have hoth := (microStep_own st t b).2
  have ho' := ho.step t b
  have pend_others : ∀ t' k, t' ≠ t → ((microStep st t b).1.th t').op.pend = some k → k ∉ L := by
    intro t' k ht hk; rw [hoth t' ht] at hk; exact hp t' k hk
  -- a node that is pending before or fresh is not on the list
  have priv_notin : ∀ (k : Nat) (s' : Shared), (((st.th t).op.pend = some k ∧ s'.nNodes = st.sh.nNodes) ∨
      ((st.th t).op.pend = none ∧ k = st.sh.nNodes ∧ s'.nNodes = st.sh.nNodes + 1)) →
      k ∉ L ∧ st.sh.nNodes ≤ s'.nNodes ∧ k < s'.nNodes := by
    intro k s' hk
    rcases hk with ⟨hk, e⟩ | ⟨_, rfl, e⟩
    · exact ⟨hp t k hk, by omega, by rw [e]; exact ho.lt t k (owns_of_pend _ k hk)⟩
    · exact ⟨fun hin => Nat.lt_irrefl _ (hlt _ hin), by omega, by omega⟩
  cases microStep_list st t b with
  | same hs hpn =>
    left
    refine ⟨?_, fun n hn => by rw [hs.2.2]; exact hlt n hn, fun t' k hk => ?_⟩
    · rw [hs.1]; exact chainFrom_congr hc (fun n _ => hs.2.1 n)
    · by_cases ht : t' = t
      · subst ht; rw [hpn] at hk; exact hp t' k hk
      · exact pend_others t' k ht hk
  | priv k hk hhead hnext hpn =>
    left
    obtain ⟨hkL, hmono, _⟩ := priv_notin k _ hk
    refine ⟨?_, fun n hn' => Nat.lt_of_lt_of_le (hlt n hn') hmono, fun t' k' hk' => ?_⟩
    · rw [hhead]
      exact chainFrom_congr hc (fun n hn' => hnext n (fun e => hkL (e ▸ hn')))
    · by_cases ht : t' = t
      · subst ht; rw [hpn] at hk'; cases hk'; exact hkL
      · exact pend_others t' k' ht hk'
  | link k hk hhead hknext hnext hpn =>
    right
    obtain ⟨hkL, hmono, hklt⟩ := priv_notin k _ hk
    refine ⟨k, hkL, ⟨?_, fun n hn' => ?_, fun t' k' hk' => ?_⟩⟩
    · rw [hhead]
      refine ⟨rfl, hkL, ?_⟩
      show chainFrom (nextOf (microStep st t b).1.sh) ((microStep st t b).1.sh.nodes k).next L
      rw [hknext]
      exact chainFrom_congr hc (fun n hn' => hnext n (fun e => hkL (e ▸ hn')))
    · rcases List.mem_cons.mp hn' with e | e
      · subst e; exact hklt
      · exact Nat.lt_of_lt_of_le (hlt n e) hmono
    · by_cases ht : t' = t
      · subst ht; rw [hpn] at hk'; cases hk'
      · have h1 := pend_others t' k' ht hk'
        intro hin
        rcases List.mem_cons.mp hin with e | e
        · -- two threads would own `k`
          subst e
          rw [hoth t' ht] at hk'
          have o1 : ownsT (st.th t') = some k' := owns_of_pend _ _ hk'
          rcases hk with ⟨hk, _⟩ | ⟨_, hk2, _⟩
          · exact ho.excl t' t k' ht o1 (owns_of_pend _ _ hk)
          · have := ho.lt t' k' o1; omega
        · exact h1 e

/-- **prepend-only**: along any execution the list only grows at the front -/
theorem ListInv.run {st : State} {L : List Nat} (h : ListInv st L) (ho : OwnInv st) (sched : List (Nat × Bool)) :
    ∃ pre, ListInv (run st sched) (pre ++ L) := by
  induction sched generalizing st L with
  | nil => exact ⟨[], h⟩
  | cons x rest ih =>
    obtain ⟨t, b⟩ := x
    rcases h.step ho t b with h1 | ⟨k, _, h1⟩
    · exact ih h1 (ho.step t b)
    · obtain ⟨pre, hpre⟩ := ih h1 (ho.step t b)
      refine ⟨pre ++ [k], ?_⟩
      have e : pre ++ [k] ++ L = pre ++ k :: L := by simp
      rw [e]; exact hpre

/-- in every reachable state the nodes form a list -/
theorem ListInv.reachable {st : State} (h : Reachable st) : ∃ L, ListInv st L := by
  obtain ⟨cfg, progs, sched, rfl⟩ := h
  obtain ⟨pre, hpre⟩ := (ListInv.initial cfg progs).run (OwnInv.initial cfg progs) sched
  exact ⟨pre ++ [], hpre⟩

/-- the chain has no repetition: the list is acyclic -/
theorem chainFrom_nodup {next : Nat → Option Nat} {hd : Option Nat} {L : List Nat} (h : chainFrom next hd L) : L.Nodup := by
  induction L generalizing hd with
  | nil => exact List.nodup_nil
  | cons m L ih =>
    cases hd with
    | none => exact h.elim
    | some n =>
      obtain ⟨h1, h2, h3⟩ := h
      subst h1
      exact List.nodup_cons.mpr ⟨h2, ih h3⟩

/-- following `next` from a node on the list stays on the list, strictly closer to the end: a
    traversal from any linked node terminates after at most `L.length` steps -/
theorem chainFrom_next {next : Nat → Option Nat} {hd : Option Nat} {L : List Nat} (h : chainFrom next hd L)
    (n : Nat) (hn : n ∈ L) : ∃ L1 L2, L = L1 ++ n :: L2 ∧ chainFrom next (next n) L2 := by
  induction L generalizing hd with
  | nil => cases hn
  | cons m L ih =>
    cases hd with
    | none => exact h.elim
    | some x =>
      obtain ⟨h1, h2, h3⟩ := h
      subst h1
      rcases List.mem_cons.mp hn with e | e
      · subst e; exact ⟨[], L, rfl, h3⟩
      · obtain ⟨L1, L2, e1, e2⟩ := ih h3 e
        exact ⟨x :: L1, L2, by rw [e1]; rfl, e2⟩

/-- the list never holds more nodes than were ever named -/
theorem ListInv.length_le {st : State} {L : List Nat} (h : ListInv st L) : L.length ≤ st.sh.nNodes := by
  have hnd := chainFrom_nodup h.1
  have hlt := h.2.1
  clear h
  generalize st.sh.nNodes = N at hlt
  induction N generalizing L with
  | zero =>
    cases L with
    | nil => exact Nat.le_refl _
    | cons x L => exact absurd (hlt x (List.mem_cons_self ..)) (Nat.not_lt_zero _)
  | succ k ih =>
    -- remove `k` (at most once) from the list
    have hl := ih (L := L.erase k) (hnd.erase k) (fun n hn => by
      have h1 := hlt n (List.mem_of_mem_erase hn)
      have h2 : n ≠ k := fun e => by subst e; exact (List.Nodup.not_mem_erase hnd) hn
      omega)
    have := List.length_erase_le (a := k) (l := L)
    by_cases hk : k ∈ L
    · rw [List.length_erase_of_mem hk] at hl; omega
    · rw [List.erase_of_not_mem hk] at hl; omega

end M
