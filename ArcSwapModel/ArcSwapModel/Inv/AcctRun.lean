import ArcSwapModel.Inv.AcctT
import ArcSwapModel.Inv.Own

/-!
# The ledger over whole executions

`Ledger K N T st`: for every value `a`, its strong count plus the debt slots naming it equals the
references held by the registers (containers, handles, guards) plus the units of the operations in
flight on the threads below `T`.  It holds initially and is preserved by every step that satisfies
`StepOK` (`Ledger.step`, from `microStep_cons`), hence along every execution all of whose steps do
(`Ledger.run`).  At quiescence — no operation in flight — it says: **strong count + occupied slots
= number of owners**, and with all slots empty, strong count = number of owners (`Ledger.quiescent`).

`StepOK` collects what `microStep_cons` assumes.  Part of it is about the program and the
environment and is meant to stay an assumption (registers are not raced on, `mk` creates fresh
containers, the value pool is not exhausted, no hand-over succeeds in this step — the hand-over
pair is stated separately in `Inv/Acct`); the rest is local well-formedness of program counters
that holds in every reachable state but whose invariance is not proved here yet (slot indices in
range, the thread's node index below `K`, nodes beyond `nNodes` untouched).
-/

namespace M
open Consts

def threadsU (T : Nat) (st : State) (a : Nat) : Nat := sumN (fun t => uOp (st.th t).op a) T

/-- the ledger balances -/
def Ledger (K N T : Nat) (st : State) : Prop :=
  ∀ a, a ≠ 0 → pot K st.sh a = st.sh.regs N a + threadsU T st a

/-- what one step of thread `t` needs for `microStep_cons` -/
structure StepOK (K N : Nat) (st : State) (t : Nat) (b : Bool) : Prop where
  ok : (st.th t).op.ok K N st.sh
  node : (st.th t).loc.node.getD 0 < K
  beyond : Beyond st.sh
  nodesBelow : st.sh.nNodes ≤ K
  noHandover : ∀ h r x m, (st.th t).op.pp? = some (.h7 h r x m) → (st.sh.nodes h.who).control ≠ h.ctl
  room : ∀ v, (st.sh.heap (alloc st.sh v).2.1).cnt = 0
  next : ∀ txt o rest, (st.th t).prog = (txt, o) :: rest → o.below N ∧ (∀ c h, o = .mk c h → st.sh.cells c = none)
  noFault : (microStep st t b).1.sh.fault = none

theorem Ledger.step {K N T : Nat} {st : State} (h : Ledger K N T st) (t : Nat) (b : Bool) (ht : t < T)
    (hs : StepOK K N st t b) : Ledger K N T (microStep st t b).1 := by
  intro a ha
  have hc := microStep_cons K N st t b hs.ok hs.node hs.beyond hs.nodesBelow hs.noHandover hs.room hs.next hs.noFault a ha
  have hoth := (microStep_own st t b).2
  have hsum := @sumN_upd (fun t' => uOp (st.th t').op a) (fun t' => uOp ((microStep st t b).1.th t').op a) T t ht
    (fun m hm => by rw [hoth m hm])
  have h0 := h a ha
  simp only [threadsU] at h0 ⊢
  omega

/-- executions all of whose steps are `StepOK` (threads below `T`) -/
def GoodRun (K N T : Nat) : State → List (Nat × Bool) → Prop
  | _, [] => True
  | st, (t, b) :: rest => t < T ∧ StepOK K N st t b ∧ GoodRun K N T (microStep st t b).1 rest

theorem Ledger.run {K N T : Nat} {st : State} (h : Ledger K N T st) (sched : List (Nat × Bool))
    (hg : GoodRun K N T st sched) : Ledger K N T (run st sched) := by
  induction sched generalizing st with
  | nil => exact h
  | cons x rest ih =>
    obtain ⟨t, b⟩ := x
    obtain ⟨ht, hs, hrest⟩ := hg
    exact ih (h.step t b ht hs) hrest

theorem sumN_zero (K : Nat) : sumN (fun _ => 0) K = 0 := by
  induction K with
  | zero => rfl
  | succ k ih => simp [sumN, ih]

theorem Ledger.initial (K N T : Nat) (cfg : Cfg) (progs : Nat → List (String × Op)) :
    Ledger K N T (State.initial cfg progs) := by
  intro a ha
  have e1 : pot K (State.initial cfg progs).sh a = 0 := by
    simp only [pot, State.initial, occ, occN]
    have : ∀ k, sumN (fun i => ind ((({} : Node).fast i) = Val.ptr a)) k = 0 := by
      intro k; induction k with
      | zero => rfl
      | succ j ih => simp [sumN, ind, sumN_zero]
    simp [ind, sumN_zero]
  have e2 : (State.initial cfg progs).sh.regs N a = 0 := by
    simp only [Shared.regs, M.regs, State.initial, gU, ind]
    simp [sumN_zero]
  have e3 : threadsU T (State.initial cfg progs) a = 0 := by
    simp only [threadsU, State.initial, uOp]
    exact sumN_zero T
  omega

/-- **C02, the global sum (conditional).**  Along every execution from the initial state all of
    whose steps are `StepOK`, the ledger balances. -/
theorem C02_ledger (K N T : Nat) (cfg : Cfg) (progs : Nat → List (String × Op)) (sched : List (Nat × Bool))
    (hg : GoodRun K N T (State.initial cfg progs) sched) :
    Ledger K N T (run (State.initial cfg progs) sched) :=
  (Ledger.initial K N T cfg progs).run sched hg

/-- at quiescence (no operation in flight on any thread below `T`, no debt slot naming the value) the
    strong count of every value is exactly the number of containers, handles and guards denoting it -/
theorem Ledger.quiescent {K N T : Nat} {st : State} (h : Ledger K N T st)
    (hidle : ∀ t, t < T → uOp (st.th t).op = fun _ => 0)
    (a : Nat) (ha : a ≠ 0)
    (hslots : ∀ n i, (st.sh.nodes n).fast i ≠ .ptr a ∧ (st.sh.nodes n).hslot ≠ .ptr a) :
    (st.sh.heap a).cnt = st.sh.regs N a := by
  have h0 := h a ha
  have e1 : threadsU T st a = 0 := by
    simp only [threadsU]
    rw [sumN_congr (g := fun _ => 0) (fun t ht => by rw [hidle t ht])]
    exact sumN_zero T
  have e2 : occ K st.sh.nodes a = 0 := by
    simp only [occ]
    rw [sumN_congr (g := fun _ => 0) (fun n _ => by
      simp only [occN, (hslots n 0).2]
      rw [sumN_congr (g := fun _ => 0) (fun i _ => by simp [(hslots n i).1, ind])]
      simp [sumN_zero, ind])]
    exact sumN_zero K
  simp only [pot, e2] at h0
  omega

end M

namespace M

/-- non-vacuity: a concrete execution (one thread creating a value) satisfies `GoodRun` -/
example : GoodRun 1 4 1 (State.initial {} (fun t => if t = 0 then [("new h0 5", .new 0 5)] else [])) [(0, false)] := by
  refine ⟨by decide, ⟨trivial, by decide, ?_, by decide, ?_, ?_, ?_, by decide⟩, trivial⟩
  · intro n _; exact ⟨fun _ => rfl, rfl⟩
  · intro h r x m hh; simp [State.initial, OpSt.pp?] at hh
  · intro v; rfl
  · intro txt o rest hp
    simp only [State.initial, ↓reduceIte, List.cons.injEq, Prod.mk.injEq, and_true] at hp
    obtain ⟨⟨_, rfl⟩, _⟩ := hp
    exact ⟨by show 0 < 4; decide, fun c h e => by cases e⟩

end M
