import ArcSwapModel.Inv.Haz5

/-!
# The borrowed guard of a thread between operations

The statement a user of `load` relies on: while a thread holds a borrowed guard and is not itself
inside an operation, the guard's value stays alive whatever the other threads do.
-/

namespace M
open Consts

theorem PP.owns_of_lp {pp : PP} {l : Locals} {lp : LP} (h : pp.lp? = some lp) : ownsPP l pp = ownsLP l lp := by
  cases pp <;> first | (cases h; done) | (simp only [PP.lp?, Option.some.injEq] at h; subst h; rfl)

theorem CP.owns_of_lp {cp : CP} {l : Locals} {lp : LP} (h : cp.lp? = some lp) : ownsCP l cp = ownsLP l lp := by
  cases cp with
  | load ld => simp only [CP.lp?, Option.some.injEq] at h; subst h; rfl
  | pay old pp => exact PP.owns_of_lp (pp := pp) h
  | _ => cases h

theorem RP.owns_of_lp {rp : RP} {l : Locals} {lp : LP} (h : rp.lp? = some lp) : ownsRP l rp = ownsLP l lp := by
  cases rp with
  | load ld => simp only [RP.lp?, Option.some.injEq] at h; subst h; rfl
  | cas cur x cp => exact CP.owns_of_lp (cp := cp) h
  | _ => cases h

theorem owns_of_lp (th : Thread) (lp : LP) (h : th.op.lp? = some lp) : ownsT th = ownsLP th.loc lp := by
  unfold ownsT
  cases hop : th.op with
  | load c g ld => rw [hop] at h; simp only [OpSt.lp?, Option.some.injEq] at h; subst h; rfl
  | loadFull c x ld => rw [hop] at h; simp only [OpSt.lp?, Option.some.injEq] at h; subst h; rfl
  | swapPay c out old isStore pp => rw [hop] at h; exact PP.owns_of_lp (pp := pp) h
  | cinto c x p pp => rw [hop] at h; exact PP.owns_of_lp (pp := pp) h
  | dropc c p pp => rw [hop] at h; exact PP.owns_of_lp (pp := pp) h
  | cas c cur keep curPtr new g cp => rw [hop] at h; exact CP.owns_of_lp (cp := cp) h
  | rcu c out tries rp => rw [hop] at h; exact RP.owns_of_lp (rp := rp) h
  | _ => rw [hop] at h; cases h

/-- a thread that has not confirmed a slot yet owns its node -/
theorem owns_of_unc (th : Thread) (a i : Nat) (h : Unc th.op.lp? a i) : ownsT th = th.loc.node := by
  rcases h with h | h <;> (rw [owns_of_lp th _ h]; rfl)

/-- **the borrowed guard of a thread between operations.**  Thread `o` owns node `n` and is not
    inside an operation; slot `i` of `n` names `a` (a borrowed guard of `o`).  Then `a` is alive:
    its count is positive and it has not been destroyed — along every execution that satisfies the
    assumptions of the ledger, in which containers are created on fresh cells only and none is
    destroyed, and that has raised no fault. -/
theorem borrowed_guard_of_resting_thread_alive (K N T : Nat) (hK : 0 < K) (cfg : Cfg) (progs : Nat → List (String × Op))
    (sched : List (Nat × Bool)) (he : EnvRun0 K N T (State.initial cfg progs) sched)
    (ht : TameRun N (State.initial cfg progs) sched)
    (hf : (run (State.initial cfg progs) sched).sh.fault = none) (a : Nat) (ha : a ≠ 0)
    (o n i : Nat) (hi : i < slotCnt)
    (hidle : ((run (State.initial cfg progs) sched).th o).op = .idle)
    (hnode : ((run (State.initial cfg progs) sched).th o).loc.node = some n)
    (hs : ((run (State.initial cfg progs) sched).sh.nodes n).fast i = .ptr a) :
    1 ≤ ((run (State.initial cfg progs) sched).sh.heap a).cnt ∧
      ((run (State.initial cfg progs) sched).sh.heap a).live = true := by
  refine borrowed_value_alive K N T hK cfg progs sched he ht hf a ha n i hi hs (fun o' hn' hu => ?_)
  have hown := OwnInv.reachable ⟨cfg, progs, sched, rfl⟩
  have h1 : ownsT ((run (State.initial cfg progs) sched).th o') = some n := by rw [owns_of_unc _ a i hu]; exact hn'
  have h2 : ownsT ((run (State.initial cfg progs) sched).th o) = some n := by
    unfold ownsT; rw [hidle]; exact hnode
  by_cases e : o' = o
  · subst e; exact idle_not_unc hidle a i hu
  · exact hown.excl o' o n e h1 h2

/-! ## Non-vacuity -/

instance (N : Nat) (o : Op) : Decidable (o.below N) := by
  cases o with
  | cas c cur nw g => cases cur <;> (simp only [Op.below]; infer_instance)
  | _ => simp only [Op.below] <;> infer_instance

def tameB (N : Nat) (st : State) (t : Nat) : Bool :=
  match (st.th t).op, (st.th t).prog with
  | .idle, (_, o) :: _ =>
    decide (o.below N) &&
      (match o with
       | .mk c _ => (st.sh.cells c).isNone
       | .cinto _ _ => false
       | .dropc _ => false
       | _ => true)
  | _, _ => true

theorem tame_of_tameB {N : Nat} {st : State} {t : Nat} (h : tameB N st t = true) : Tame N st t := by
  intro hidle txt o rest hp
  simp only [tameB, hidle, hp, Bool.and_eq_true, decide_eq_true_eq] at h
  refine ⟨h.1, ?_⟩
  have h2 := h.2
  cases o <;> first | trivial | (simpa using h2) | (simp at h2)

def tameRunB (N : Nat) : State → List (Nat × Bool) → Bool
  | _, [] => true
  | st, (t, b) :: rest => tameB N st t && tameRunB N (microStep st t b).1 rest

theorem tameRun_of_B {N : Nat} {st : State} {sched : List (Nat × Bool)} (h : tameRunB N st sched = true) :
    TameRun N st sched := by
  induction sched generalizing st with
  | nil => trivial
  | cons x rest ih =>
    obtain ⟨t, b⟩ := x
    simp only [tameRunB, Bool.and_eq_true] at h
    exact ⟨tame_of_tameB h.1, ih h.2⟩

/-- thread 0 creates a value and a container and loads from it; thread 1 creates another value and
    starts storing it -/
def hazEx : State := State.initial {} (fun t =>
  if t = 0 then [("new h0 5", .new 0 5), ("mk c0 h0", .mk 0 0), ("load c0 g0", .load 0 0)]
  else if t = 1 then [("new h1 6", .new 1 6), ("store c0 h1", .store 0 1)] else [])
def hazSched : List (Nat × Bool) := List.replicate 12 (0, false) ++ List.replicate 3 (1, false)

/-- non-vacuity: after thread 0's load and the exchange of thread 1's store, thread 0 rests with a
    borrowed guard (slot 0 of its node 0 names value 1), value 1 is in no container any more (the
    container holds 2), thread 1 is at the start of its walk for value 1, and the execution is tame
    and fault-free — the situation `borrowed_value_protected` and
    `borrowed_guard_of_resting_thread_alive` are about -/
example : TameRun 4 hazEx hazSched ∧ ((run hazEx hazSched).th 0).op = .idle ∧
    ((run hazEx hazSched).th 0).loc.node = some 0 ∧ ((run hazEx hazSched).sh.nodes 0).fast 0 = .ptr 1 ∧
    (run hazEx hazSched).sh.cells 0 = some 2 ∧ (run hazEx hazSched).sh.fault = none ∧
    ((run hazEx hazSched).th 1).op.walk? = some (1, .start) :=
  ⟨tameRun_of_B (by decide +kernel), by decide +kernel, by decide +kernel, by decide +kernel, by decide +kernel,
   by decide +kernel, by decide +kernel⟩

end M
