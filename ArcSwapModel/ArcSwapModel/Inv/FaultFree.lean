import ArcSwapModel.Inv.HazH4
import ArcSwapModel.Inv.AssertFree2
import ArcSwapModel.Inv.LpBack
import ArcSwapModel.Inv.NonNull

/-!
# A step that touches no count can only raise an assertion

`UF s s'`: the step from `s` to `s'` raises no use-after-free, no double free and no stuck state —
if it raises a fault at all, it is an assertion of the crate.  This holds for every step that
touches no reference count (`touch = none`), given the container it works on exists, it is not at
the receiving end of a hand-over, and — for `rcu`'s closure — the value it dereferences is alive.
With `no_assertion_fires` (no assertion fires either) such a step raises no fault at all.
-/

namespace M
open Consts

/-- the step raises nothing but, possibly, an assertion -/
def UF (s s' : Shared) : Prop := s.fault = none → ∀ f, s'.fault = some f → f.isAssert = true

theorem UF.same {s s' : Shared} (h : s'.fault = s.fault) : UF s s' := by
  intro hf f hf'; rw [h, hf] at hf'; cases hf'

theorem UF.setFault (s : Shared) (f0 : Fault) (h : f0.isAssert = true) : UF s (s.setFault f0) := by
  intro hf f hf'
  rw [setFault_fault_of_none _ _ hf] at hf'; cases hf'; exact h

theorem UF.of_eq {s s' s'' : Shared} (h : UF s s') (e : s''.fault = s'.fault) : UF s s'' := by
  intro hf f hf'; rw [e] at hf'; exact h hf f hf'

theorem UF.setFault_of {s s1 : Shared} (f0 : Fault) (h : f0.isAssert = true) (e : s1.fault = s.fault) :
    UF s (s1.setFault f0) := by
  intro hf f hf'
  rw [setFault_fault_of_none _ _ (by rw [e]; exact hf)] at hf'; cases hf'; exact h

macro "uf_close" : tactic => `(tactic| first
  | (refine UF.same ?_; first | rfl | (simp; done) | (simp [Shared.setNode]; done))
  | (refine UF.setFault _ _ ?_; rfl)
  | (refine UF.setFault_of _ ?_ ?_ <;> first | rfl | (simp; done)))

theorem stepNG_uf (s : Shared) (b : Bool) (ng : NG) : UF s (stepNG s b ng).1 := by
  cases ng with
  | allocCas me hd =>
    simp only [stepNG]
    (repeat' split) <;> uf_close
  | _ => simp only [stepNG] <;> (repeat' split) <;> uf_close

theorem stepCD_uf (s : Shared) (cd : CD) : UF s (stepCD s cd).1 := by
  cases cd <;> simp only [stepCD] <;> (repeat' split) <;> uf_close

theorem stepGD_uf (s : Shared) (gd : GD) (h : gd.touch = none) : UF s (stepGD s gd).1 := by
  cases gd with
  | dec p => cases h
  | _ => simp only [stepGD] <;> (repeat' split) <;> uf_close

theorem stepGI_uf (s : Shared) (gi : GI) (h : gi.touch = none) : UF s (stepGI s gi).1 := by
  cases gi with
  | inc p n i => cases h
  | dec p => cases h
  | _ => simp only [stepGI] <;> (repeat' split) <;> uf_close

def LP.preU (s : Shared) (c : Nat) : LP → Prop
  | .a1 | .a3 _ _ | .f3 _ => s.cells c ≠ none
  | .fr1 _ _ => False
  | _ => True

theorem stepLP_uf (cfg : Cfg) (c : Nat) (s : Shared) (l : Locals) (b : Bool) (lp : LP) (ht : lp.touch = none)
    (h : lp.preU s c) : UF s (stepLP cfg c s l b lp).1 := by
  cases lp with
  | get ng =>
    have h1 := stepNG_uf s b ng
    simp only [stepLP]; split
    · rename_i s' n evs heq; rw [heq] at h1; exact h1
    · rename_i s' ng' evs hne heq; rw [heq] at h1; exact h1
  | reget ng =>
    have h1 := stepNG_uf s b ng
    simp only [stepLP]; split
    · rename_i s' n evs heq; rw [heq] at h1; exact h1
    · rename_i s' ng' evs hne heq; rw [heq] at h1; exact h1
  | cool cd =>
    have h1 := stepCD_uf s cd
    simp only [stepLP]; split
    · rename_i s' evs heq; rw [heq] at h1; exact h1
    · rename_i s' cd' evs hne heq; rw [heq] at h1; exact h1
  | a1 =>
    have h' : s.cells c ≠ none := h
    simp only [stepLP]; split
    · exact UF.same rfl
    · rename_i hq; exact absurd hq h'
  | a3 p i =>
    have h' : s.cells c ≠ none := h
    simp only [stepLP]; split
    · exact UF.same rfl
    · rename_i hq; exact absurd hq h'
  | f3 g =>
    have h' : s.cells c ≠ none := h
    simp only [stepLP]; split
    · exact UF.same rfl
    · rename_i hq; exact absurd hq h'
  | fr1 cand j => exact h.elim
  | a4dec p => cases ht
  | fokInc p => cases ht
  | fokDec p => cases ht
  | frDec p r => cases ht
  | nfDbg p => simp only [stepLP, dbgInUse]; (repeat' split) <;> uf_close
  | nhDbg => simp only [stepLP, dbgInUse]; (repeat' split) <;> uf_close
  | chDbg g cand => simp only [stepLP, dbgInUse]; (repeat' split) <;> uf_close
  | _ => simp only [stepLP] <;> (repeat' split) <;> uf_close


def PP.preU (s : Shared) (c : Nat) : PP → Prop
  | .hload _ ld => ld.preU s c
  | _ => True

theorem stepPP_uf (cfg : Cfg) (p c : Nat) (s : Shared) (l : Locals) (b : Bool) (pp : PP) (ht : pp.touch p = none)
    (h : pp.preU s c) : UF s (stepPP cfg p c s l b pp).1 := by
  cases pp with
  | get ng =>
    have h1 := stepNG_uf s b ng
    simp only [stepPP]; split
    · rename_i s' n evs heq; rw [heq] at h1; exact h1
    · rename_i s' ng' evs hne heq; rw [heq] at h1; exact h1
  | hload x ld =>
    have h1 := stepLP_uf cfg c s l b ld ht h
    simp only [stepPP]; split
    · rename_i s' l' r d evs heq; rw [heq] at h1; exact h1
    · rename_i s' l' ld' evs hne heq; rw [heq] at h1; exact h1
  | hinto x r gi =>
    have h1 := stepGI_uf s gi ht
    simp only [stepPP]; split
    · rename_i s' evs heq; rw [heq] at h1; exact h1
    · rename_i s' gi' evs hne heq; rw [heq] at h1; exact h1
  | inc => cases ht
  | slotInc n j => cases ht
  | dec => cases ht
  | hdrop x r => cases ht
  | hDbg0 x => simp only [stepPP, dbgInUse]; (repeat' split) <;> uf_close
  | _ => simp only [stepPP] <;> (repeat' split) <;> uf_close

def CP.preU (s : Shared) (c : Nat) : CP → Prop
  | .load ld => ld.preU s c
  | .pay _ pp => pp.preU s c
  | .cx _ => s.cells c ≠ none
  | _ => True

theorem stepCP_uf (cfg : Cfg) (c cur new : Nat) (s : Shared) (l : Locals) (b : Bool) (cp : CP)
    (ht : cp.touch new = none) (h : cp.preU s c) : UF s (stepCP cfg c cur new s l b cp).1 := by
  cases cp with
  | load ld =>
    have h1 := stepLP_uf cfg c s l b ld ht h
    simp only [stepCP]; split
    · rename_i s' l' r d evs heq; rw [heq] at h1; exact h1
    · rename_i s' l' ld' evs hne heq; rw [heq] at h1; exact h1
  | pay old pp =>
    have h1 := stepPP_uf cfg old.ptr c s l b pp ht h
    simp only [stepCP]; split
    · rename_i s' l' evs heq; rw [heq] at h1; exact h1
    · rename_i s' l' pp' evs hne heq; rw [heq] at h1; exact h1
  | dropOld gd =>
    have h1 := stepGD_uf s gd ht
    simp only [stepCP]; split
    · rename_i s' evs heq; rw [heq] at h1; exact h1
    · rename_i s' gd' evs hne heq; rw [heq] at h1; exact h1
  | dropNew old => cases ht
  | decOld old => cases ht
  | cx old =>
    have h' : s.cells c ≠ none := h
    simp only [stepCP]
    split
    · split <;> refine UF.same ?_ <;> simp [Shared.writeCell]
    · rename_i hq; exact absurd hq h'
  | done old => simp only [stepCP]; exact UF.same rfl

def RP.preU (s : Shared) (c : Nat) : RP → Prop
  | .load ld => ld.preU s c
  | .cas _ _ cp => cp.preU s c
  | .attempt cur => cur.ptr ≠ 0 → (s.heap cur.ptr).live = true
  | _ => True

theorem stepRP_uf (cfg : Cfg) (c : Nat) (s : Shared) (l : Locals) (b : Bool) (tries : Nat) (rp : RP)
    (ht : rp.touch = none) (h : rp.preU s c) : UF s (stepRP cfg c s l b tries rp).1 := by
  cases rp with
  | load ld =>
    have h1 := stepLP_uf cfg c s l b ld ht h
    simp only [stepRP]; split
    · rename_i s' l' r d evs heq; rw [heq] at h1; exact h1
    · rename_i s' l' ld' evs hne heq; rw [heq] at h1; exact h1
  | cas cur x cp =>
    have h1 := stepCP_uf cfg c cur.ptr x s l b cp ht h
    simp only [stepRP]; split
    · rename_i s' l' prev evs heq; rw [heq] at h1; (repeat' split) <;> exact h1
    · rename_i s' l' cp' evs hne heq; rw [heq] at h1; exact h1
  | intoPrev cur prev gi =>
    have h1 := stepGI_uf s gi ht
    simp only [stepRP]; split
    · rename_i s' evs heq; rw [heq] at h1; (repeat' split) <;> exact h1
    · rename_i s' gi' evs hne heq; rw [heq] at h1; exact h1
  | dropCur res gd =>
    have h1 := stepGD_uf s gd ht
    simp only [stepRP]; split
    · rename_i s' evs heq; rw [heq] at h1; exact h1
    · rename_i s' gd' evs hne heq; rw [heq] at h1; exact h1
  | dropCurLoop prev gd =>
    have h1 := stepGD_uf s gd ht
    simp only [stepRP]; split
    · rename_i s' evs heq; rw [heq] at h1; exact h1
    · rename_i s' gd' evs hne heq; rw [heq] at h1; exact h1
  | attempt cur =>
    have h' : cur.ptr ≠ 0 → (s.heap cur.ptr).live = true := h
    simp only [stepRP]
    split
    · rename_i hq; exfalso; have := h' hq.1; simp [this] at hq
    · exact UF.same (by simp [alloc])
  | done r => simp only [stepRP]; exact UF.same rfl

def OpSt.preU (s : Shared) : OpSt → Prop
  | .load c _ ld | .loadFull c _ ld => ld.preU s c
  | .swapPay c _ _ _ pp | .cinto c _ _ pp | .dropc c _ pp => pp.preU s c
  | .cas c _ _ _ _ _ cp => cp.preU s c
  | .rcu c _ _ rp => rp.preU s c
  | _ => True

/-- **a step of an operation in progress that touches no count raises nothing but, possibly, an
    assertion** -/
theorem microStep_uf (st : State) (t : Nat) (b : Bool) (hni : (st.th t).op ≠ .idle)
    (ht : (st.th t).op.touch = none) (h : (st.th t).op.preU st.sh) : UF st.sh (microStep st t b).1.sh := by
  cases hop : (st.th t).op with
  | finished => simp only [microStep, hop]; exact UF.same rfl
  | idle => exact absurd hop hni
  | exitCool cd =>
    have h1 := stepCD_uf st.sh cd
    simp only [microStep, hop]; split
    · rename_i s' evs heq; rw [heq] at h1; exact h1
    · rename_i s' cd' evs hne heq; rw [heq] at h1; exact h1
  | load c g ld =>
    rw [hop] at h ht
    have h1 := stepLP_uf st.cfg c st.sh (st.th t).loc b ld ht h
    simp only [microStep, hop]; split
    · rename_i s' l' p d evs heq; rw [heq] at h1; exact h1
    · rename_i s' l' ld' evs hne heq; rw [heq] at h1; exact h1
  | loadFull c x ld =>
    rw [hop] at h ht
    have h1 := stepLP_uf st.cfg c st.sh (st.th t).loc b ld ht h
    simp only [microStep, hop]; split
    · rename_i s' l' p d evs heq; rw [heq] at h1; split <;> exact h1
    · rename_i s' l' ld' evs hne heq; rw [heq] at h1; exact h1
  | loadFullInto c x r gi =>
    rw [hop] at ht
    have h1 := stepGI_uf st.sh gi ht
    simp only [microStep, hop]; split
    · rename_i s' evs heq; rw [heq] at h1; exact h1
    · rename_i s' gi' evs hne heq; rw [heq] at h1; exact h1
  | ginto x p gi =>
    rw [hop] at ht
    have h1 := stepGI_uf st.sh gi ht
    simp only [microStep, hop]; split
    · rename_i s' evs heq; rw [heq] at h1; exact h1
    · rename_i s' gi' evs hne heq; rw [heq] at h1; exact h1
  | dropg gd =>
    rw [hop] at ht
    have h1 := stepGD_uf st.sh gd ht
    simp only [microStep, hop]; split
    · rename_i s' evs heq; rw [heq] at h1; exact h1
    · rename_i s' gd' evs hne heq; rw [heq] at h1; exact h1
  | cloneh x y a0 => rw [hop] at ht; cases ht
  | droph a0 => rw [hop] at ht; cases ht
  | swapDrop c a0 => rw [hop] at ht; cases ht
  | dropcDec c a0 => rw [hop] at ht; cases ht
  | swapSw c a0 out isStore =>
    simp only [microStep, hop]; split
    · exact UF.same (by simp [Shared.writeCell])
    · exact UF.same rfl
  | swapPay c out old isStore pp =>
    rw [hop] at h ht
    have h1 := stepPP_uf st.cfg old c st.sh (st.th t).loc b pp ht h
    simp only [microStep, hop]; split
    · rename_i s' l' evs heq; rw [heq] at h1; (repeat' split) <;> exact h1
    · rename_i s' l' pp' evs hne heq; rw [heq] at h1; exact h1
  | cinto c x p pp =>
    rw [hop] at h ht
    have h1 := stepPP_uf st.cfg p c st.sh (st.th t).loc b pp ht h
    simp only [microStep, hop]; split
    · rename_i s' l' evs heq; rw [heq] at h1; exact h1
    · rename_i s' l' pp' evs hne heq; rw [heq] at h1; exact h1
  | dropc c p pp =>
    rw [hop] at h ht
    have h1 := stepPP_uf st.cfg p c st.sh (st.th t).loc b pp ht h
    simp only [microStep, hop]; split
    · rename_i s' l' evs heq; rw [heq] at h1; split <;> exact h1
    · rename_i s' l' pp' evs hne heq; rw [heq] at h1; exact h1
  | cas c cur keep curPtr new g cp =>
    rw [hop] at h ht
    have h1 := stepCP_uf st.cfg c curPtr new st.sh (st.th t).loc b cp ht h
    simp only [microStep, hop]; split
    · rename_i s' l' old evs heq; rw [heq] at h1; cases cur <;> cases keep <;> exact h1
    · rename_i s' l' cp' evs hne heq; rw [heq] at h1; exact h1
  | rcu c out tries rp =>
    rw [hop] at h ht
    have h1 := stepRP_uf st.cfg c st.sh (st.th t).loc b tries rp ht h
    simp only [microStep, hop]; split
    · rename_i s' l' r tries' evs heq; rw [heq] at h1; exact h1
    · rename_i s' l' rp' tries' evs hne heq; rw [heq] at h1; exact h1

/-- beginning an operation other than `gderef` raises no fault -/
theorem beginOp_fault (st : State) (t : Nat) (o : Op) (h : ∀ g, o ≠ .gderef g) :
    (beginOp st t o).1.sh.fault = st.sh.fault := by
  cases o with
  | gderef g => exact absurd rfl (h g)
  | _ =>
    simp only [beginOp] <;> (repeat' split) <;>
      first
        | rfl
        | (simp [alloc]; done)
        | (dsimp only; (try split) <;> first | rfl | (simp; done))


/-! ## The preconditions hold along the executions of the ledger -/

theorem LP.preU_of {s : Shared} {c : Nat} {lp : LP} (hc : s.cells c ≠ none) (hfr : lp.isFr = false) : lp.preU s c := by
  cases lp <;> first | exact hc | trivial | (cases hfr; done)

theorem PP.preU_of {s : Shared} {c : Nat} {pp : PP} (hc : s.cells c ≠ none)
    (hfr : ∀ lp, pp.lp? = some lp → lp.isFr = false) : pp.preU s c := by
  cases pp <;> first | trivial | exact LP.preU_of hc (hfr _ rfl)

theorem CP.preU_of {s : Shared} {c : Nat} {cp : CP} (hc : s.cells c ≠ none)
    (hfr : ∀ lp, cp.lp? = some lp → lp.isFr = false) : cp.preU s c := by
  cases cp <;> first | trivial | exact hc | exact LP.preU_of hc (hfr _ rfl) | exact PP.preU_of hc hfr

theorem BusyInv.cell_exists {N T : Nat} {st : State} (hb : BusyInv N T st) (t c : Nat)
    (h : (st.th t).op.cell? = some c) : st.sh.cells c ≠ none := by
  cases hcb : (st.th t).op.cons with
  | false => exact (hb.free t c h hcb).1
  | true =>
    cases hop : (st.th t).op with
    | cinto c0 x p pp =>
      rw [hop] at h; simp only [OpSt.cell?, Option.some.injEq] at h; subst h
      rw [hb.ccell t c0 p (Or.inl ⟨x, pp, hop⟩)]; simp
    | dropc c0 p pp =>
      rw [hop] at h; simp only [OpSt.cell?, Option.some.injEq] at h; subst h
      rw [hb.ccell t c0 p (Or.inr ⟨pp, hop⟩)]; simp
    | dropcDec c0 p =>
      rw [hop] at h; simp only [OpSt.cell?, Option.some.injEq] at h; subst h
      rw [hb.cdec t c0 p hop]; simp
    | _ => rw [hop] at hcb; cases hcb

theorem OpSt.preU_of {s : Shared} {op : OpSt} (hc : ∀ c, op.cell? = some c → s.cells c ≠ none)
    (hfr : ∀ lp, op.lp? = some lp → lp.isFr = false)
    (hat : ∀ c out tries cur, op = .rcu c out tries (.attempt cur) → cur.ptr ≠ 0 → (s.heap cur.ptr).live = true) :
    op.preU s := by
  cases op with
  | load c g ld => exact LP.preU_of (hc c rfl) (hfr _ rfl)
  | loadFull c x ld => exact LP.preU_of (hc c rfl) (hfr _ rfl)
  | swapPay c out old isStore pp => exact PP.preU_of (hc c rfl) hfr
  | cinto c x p pp => exact PP.preU_of (hc c rfl) hfr
  | dropc c p pp => exact PP.preU_of (hc c rfl) hfr
  | cas c cur keep curPtr new g cp => exact CP.preU_of (hc c rfl) hfr
  | rcu c out tries rp =>
    cases rp with
    | load ld => exact LP.preU_of (hc c rfl) (hfr _ rfl)
    | cas cur x cp => exact CP.preU_of (hc c rfl) hfr
    | attempt cur => exact hat c out tries cur rfl
    | _ => trivial
  | _ => trivial

/-- **the next step raises no fault** — whatever thread takes it, whatever it does: along every
    execution that satisfies the ledger's assumptions and has raised no fault so far -/
theorem env_step_no_fault (K N T : Nat) (hK : 0 < K) (cfg : Cfg) (progs : Nat → List (String × Op))
    (sched : List (Nat × Bool)) (he : EnvRun0 K N T (State.initial cfg progs) sched)
    (hf : (run (State.initial cfg progs) sched).sh.fault = none) (t : Nat) (ht : t < T) (b : Bool)
    (hnext : ∀ txt o rest, ((run (State.initial cfg progs) sched).th t).prog = (txt, o) :: rest → o.below N) :
    (microStep (run (State.initial cfg progs) sched) t b).1.sh.fault = none := by
  by_cases hidle : ((run (State.initial cfg progs) sched).th t).op = .idle
  · cases hp : ((run (State.initial cfg progs) sched).th t).prog with
    | nil => simp only [microStep, hidle, hp]; exact hf
    | cons x rest =>
      obtain ⟨txt, o⟩ := x
      by_cases hg : ∃ g, o = .gderef g
      · obtain ⟨g, rfl⟩ := hg
        have hgN : g < N := hnext txt _ rest hp
        exact gderef_no_fault_env K N T hK cfg progs sched he hf t g hgN b txt rest hidle hp
      · simp only [microStep, hidle, hp]
        rw [beginOp_fault _ t o (fun g e => hg ⟨g, e⟩)]; exact hf
  · cases htc : ((run (State.initial cfg progs) sched).th t).op.touch with
    | some a =>
      have ha := touch_nonnull ⟨cfg, progs, sched, rfl⟩ t a htc
      exact count_step_no_fault_all K N T hK cfg progs sched he hf a ha t ht b htc
    | none =>
      obtain ⟨L, hL⟩ := (HazAllD.initial N T cfg progs).run sched (TameRun2.of_env he)
      have hpre : ((run (State.initial cfg progs) sched).th t).op.preU (run (State.initial cfg progs) sched).sh :=
        OpSt.preU_of (fun c hc => hL.busy.cell_exists t c hc)
          (fun lp hlp => noFr_of_env K N T cfg progs sched he t lp hlp)
          (fun c out tries cur hop hp =>
            rcu_closure_value_alive K N T hK cfg progs sched he hf t ht c out tries cur hp hop)
      have hU := microStep_uf _ t b hidle htc hpre hf
      have hA := no_assertion_fires ⟨cfg, progs, sched, rfl⟩ hf t b
      cases hq : (microStep (run (State.initial cfg progs) sched) t b).1.sh.fault with
      | none => rfl
      | some f =>
        have h1 := hU f hq
        have h2 := hA f hq
        rw [h1] at h2; cases h2

/-- **no execution that satisfies the ledger's assumptions ever raises a fault** — no
    use-after-free, no double free, no assertion or `expect` of the crate, no stuck state: for any
    number of threads below `T`, any programs over registers and containers below `N`, any schedule,
    as long as the program discipline holds (registers are not raced on, containers are created on
    fresh cells), the pool has room, at most `K` nodes are linked and no hand-over succeeds. -/
theorem env_run_fault_free (K N T : Nat) (hK : 0 < K) (cfg : Cfg) (progs : Nat → List (String × Op))
    (sched : List (Nat × Bool)) (he : EnvRun0 K N T (State.initial cfg progs) sched) :
    (run (State.initial cfg progs) sched).sh.fault = none := by
  revert he
  refine list_snoc_induction (fun sched => EnvRun0 K N T (State.initial cfg progs) sched →
    (run (State.initial cfg progs) sched).sh.fault = none) ?_ ?_ sched
  · intro _; rfl
  · intro pre x ih he
    obtain ⟨t, b⟩ := x
    obtain ⟨h1, ht, hok, _⟩ := EnvRun0.prefix he
    have hrun : run (State.initial cfg progs) (pre ++ [(t, b)]) = (microStep (run (State.initial cfg progs) pre) t b).1 := by
      rw [run_append]; rfl
    rw [hrun]
    exact env_step_no_fault K N T hK cfg progs pre h1 (ih h1) t ht b (fun txt o rest hp => (hok.next txt o rest hp).1)

end M
