import ArcSwapModel.Inv.Haz4
import ArcSwapModel.Inv.Surplus

/-!
# The hazard invariant along executions, and what it gives a borrowed guard

`TameRun`: an execution in which containers are created on fresh cells only and none is destroyed.
Along every such execution from the initial state the hazard invariant holds
(`HazAll.run`), so a confirmed slot that names a value protects it
(`borrowed_value_protected`); with the assumptions of the ledger (`EnvRun0`) the value's count is
positive and the value has not been destroyed (`borrowed_value_alive`).
-/

namespace M
open Consts

def TameRun (N : Nat) : State → List (Nat × Bool) → Prop
  | _, [] => True
  | st, (t, b) :: rest => Tame N st t ∧ TameRun N (microStep st t b).1 rest

structure HazAll (N : Nat) (st : State) (L : List Nat) : Prop where
  haz : HazInv N st L
  own : OwnInv st
  node : NodeInv st
  walk : WalkNode st
  cx : ∀ t, (st.th t).op.cxok
  nc : NoCons st
  oc : OpCell N st

theorem HazAll.initial (N : Nat) (cfg : Cfg) (progs : Nat → List (String × Op)) : HazAll N (State.initial cfg progs) [] :=
  ⟨HazInv.initial N cfg progs, OwnInv.initial cfg progs, NodeInv.initial cfg progs,
   (fun t a pp hw => by cases hw), (fun _ => trivial), (fun _ => rfl), (fun t c h => by cases h)⟩

theorem HazAll.step {N : Nat} {st : State} {L : List Nat} (h : HazAll N st L) (t : Nat) (b : Bool)
    (htame : Tame N st t) : ∃ pre, HazAll N (microStep st t b).1 (pre ++ L) := by
  obtain ⟨pre, hpre⟩ := h.haz.step h.own h.node h.walk h.cx h.nc h.oc t b htame
  refine ⟨pre, hpre, h.own.step t b, h.node.step t b, h.walk.step t b, fun u => ?_, h.nc.step t b htame,
    h.oc.step h.nc h.cx t b htame⟩
  by_cases e : u = t
  · subst e; exact microStep_cxok st u b (h.cx u)
  · rw [(microStep_own st t b).2 u e]; exact h.cx u

theorem HazAll.run {N : Nat} {st : State} {L : List Nat} (h : HazAll N st L) (sched : List (Nat × Bool))
    (ht : TameRun N st sched) : ∃ L', HazAll N (run st sched) L' := by
  induction sched generalizing st L with
  | nil => exact ⟨L, h⟩
  | cons x rest ih =>
    obtain ⟨t, b⟩ := x
    obtain ⟨pre, hpre⟩ := h.step t b ht.1
    exact ih hpre ht.2

/-- **a confirmed slot protects the value it names**: along every execution in which containers are
    created on fresh cells only and none is destroyed, a fast slot that names `a`, and that its
    owner is not still in the middle of confirming or taking back, has `a` still stored in a
    container, or some thread that took `a` out of a container is walking the list for it and has
    this slot still ahead of it -/
theorem borrowed_value_protected (N : Nat) (cfg : Cfg) (progs : Nat → List (String × Op)) (sched : List (Nat × Bool))
    (ht : TameRun N (State.initial cfg progs) sched) (n i a : Nat) (hi : i < slotCnt)
    (hs : ((run (State.initial cfg progs) sched).sh.nodes n).fast i = .ptr a)
    (hconf : ∀ o, ((run (State.initial cfg progs) sched).th o).loc.node = some n →
      ¬ Unc ((run (State.initial cfg progs) sched).th o).op.lp? a i) :
    (∃ c, c < N ∧ (run (State.initial cfg progs) sched).sh.cells c = some a) ∨
      ∃ w pp L, ((run (State.initial cfg progs) sched).th w).op.walk? = some (a, pp) ∧ pp.ahead L n i := by
  obtain ⟨L, hL⟩ := (HazAll.initial N cfg progs).run sched ht
  rcases hL.haz.haz n i a hi hs with h | ⟨w, pp, h1, h2⟩ | ⟨o, h1, h2⟩
  · exact Or.inl h
  · exact Or.inr ⟨w, pp, L, h1, h2⟩
  · exact absurd h2 (hconf o h1)

/-! ## A thread walking the list for a value holds a reference to it -/

theorem CP.claims_lt (new : Nat) (cp : CP) (l : Locals) (a : Nat) (pp : PP) (h : cp.walk? = some (a, pp)) :
    (cp.claims a l).length + 1 ≤ uCP new cp a := by
  cases cp with
  | pay old pp0 =>
    simp only [CP.walk?, Option.some.injEq, Prod.mk.injEq] at h
    obtain ⟨rfl, rfl⟩ := h
    have h1 := Guard.claims_len old old.ptr
    have h2 := PP.claims_len old.ptr pp0 l old.ptr
    have h3 : uG old old.ptr = 1 := by simp [uG, u]
    simp only [CP.claims, uCP, List.length_append]; omega
  | _ => cases h

theorem RP.claims_lt (rp : RP) (l : Locals) (a : Nat) (pp : PP) (h : rp.walk? = some (a, pp)) :
    (rp.claims a l).length + 1 ≤ uRP rp a := by
  cases rp with
  | cas cur x cp =>
    have h1 := Guard.claims_len cur a
    have h2 := CP.claims_lt x cp l a pp h
    simp only [RP.claims, uRP, List.length_append]; omega
  | _ => cases h

theorem OpSt.claims_lt (op : OpSt) (l : Locals) (a : Nat) (pp : PP) (h : op.walk? = some (a, pp)) :
    (op.claims a l).length + 1 ≤ uOp op a := by
  cases op with
  | swapPay c out old isStore pp0 =>
    simp only [OpSt.walk?, Option.some.injEq, Prod.mk.injEq] at h
    obtain ⟨rfl, rfl⟩ := h
    have := PP.claims_len old pp0 l old
    simp only [OpSt.claims, uOp, u, ↓reduceIte]; omega
  | cas c cur keep curPtr new g cp =>
    have h1 := CP.claims_lt new cp l a pp h
    have h2 := gClaims_len keep a
    simp only [OpSt.claims, uOp, List.length_append]; omega
  | rcu c out tries rp => exact RP.claims_lt rp l a pp h
  | _ => cases h

/-- the value a thread is walking the list for is counted (the walker holds the reference it took
    out of the container) -/
theorem walked_value_counted (K N T : Nat) (hK : 0 < K) (cfg : Cfg) (progs : Nat → List (String × Op))
    (sched : List (Nat × Bool)) (he : EnvRun0 K N T (State.initial cfg progs) sched)
    (hf : (run (State.initial cfg progs) sched).sh.fault = none) (a : Nat) (ha : a ≠ 0)
    (w : Nat) (pp : PP) (hw : ((run (State.initial cfg progs) sched).th w).op.walk? = some (a, pp)) :
    1 ≤ ((run (State.initial cfg progs) sched).sh.heap a).cnt := by
  have hT' : IdleBeyond T (run (State.initial cfg progs) sched) := idleBeyond_run sched he (fun _ _ => rfl)
  have hwT : w < T := by
    refine Nat.lt_of_not_le (fun hle => ?_)
    rw [hT' w hle] at hw; cases hw
  have h := count_plus_claims K N T hK cfg progs sched he hf a ha
  have hG : sumN (fun g => (gClaims a ((run (State.initial cfg progs) sched).sh.greg g)).length) N ≤
      sumN (fun g => gU ((run (State.initial cfg progs) sched).sh.greg g) a) N :=
    sumN_le (fun g _ => gClaims_len _ a)
  have hT : sumN (fun t => (((run (State.initial cfg progs) sched).th t).op.claims a
        ((run (State.initial cfg progs) sched).th t).loc).length) T + 1 ≤
      threadsU T (run (State.initial cfg progs) sched) a :=
    sumN_lt (fun m _ => OpSt.claims_len _ _ a) hwT (OpSt.claims_lt _ _ a pp hw)
  simp only [Shared.regs, regs] at h
  omega

/-- **the value of a borrowed guard is alive.**  Along every execution that satisfies the
    assumptions of the ledger, in which containers are created on fresh cells only and none is
    destroyed, and that has raised no fault: a fast slot that names a value `a` (a borrowed guard's
    debt), and that its owner is not still confirming or taking back, keeps `a` alive — its count
    is positive and it has not been destroyed — whatever the other threads do. -/
theorem borrowed_value_alive (K N T : Nat) (hK : 0 < K) (cfg : Cfg) (progs : Nat → List (String × Op))
    (sched : List (Nat × Bool)) (he : EnvRun0 K N T (State.initial cfg progs) sched)
    (ht : TameRun N (State.initial cfg progs) sched)
    (hf : (run (State.initial cfg progs) sched).sh.fault = none) (a : Nat) (ha : a ≠ 0)
    (n i : Nat) (hi : i < slotCnt) (hs : ((run (State.initial cfg progs) sched).sh.nodes n).fast i = .ptr a)
    (hconf : ∀ o, ((run (State.initial cfg progs) sched).th o).loc.node = some n →
      ¬ Unc ((run (State.initial cfg progs) sched).th o).op.lp? a i) :
    1 ≤ ((run (State.initial cfg progs) sched).sh.heap a).cnt ∧
      ((run (State.initial cfg progs) sched).sh.heap a).live = true := by
  have hcnt : 1 ≤ ((run (State.initial cfg progs) sched).sh.heap a).cnt := by
    rcases borrowed_value_protected N cfg progs sched ht n i a hi hs hconf with ⟨c, hc, hcell⟩ | ⟨w, pp, _, hw, _⟩
    · exact stored_value_counted K N T hK cfg progs sched he hf a ha c hc hcell
    · exact walked_value_counted K N T hK cfg progs sched he hf a ha w pp hw
  exact ⟨hcnt, HeapOk.reachable ⟨cfg, progs, sched, rfl⟩ a hcnt⟩

/-- the owner between two operations: nothing of its is unconfirmed -/
theorem idle_not_unc {st : State} {o : Nat} (h : (st.th o).op = .idle) (a i : Nat) : ¬ Unc (st.th o).op.lp? a i := by
  rw [h]; intro hu; rcases hu with hu | hu <;> cases hu

end M
