import ArcSwapModel.Inv.Haz7

/-!
# The harness's `busy` discipline: a container is destroyed only when nobody works on it

`into_inner` and `Drop` take the container by value: in Rust nobody else can be inside an
operation on it.  In the model that is the register discipline of the harness: an operation
counts itself in `busy c` while it runs, `cinto`/`dropc` begin only when `busy c = 0`, and mark
the container taken so that no operation begins on it afterwards.
-/

namespace M
open Consts

/-! ## The sub-machines do not touch `busy` -/

theorem stepNG_busy (s : Shared) (b : Bool) (ng : NG) : (stepNG s b ng).1.busy = s.busy := by
  cases ng <;> simp only [stepNG] <;> (repeat' split) <;> simp [Shared.setNode]

theorem stepCD_busy (s : Shared) (cd : CD) : (stepCD s cd).1.busy = s.busy := by
  cases cd <;> simp only [stepCD] <;> (repeat' split) <;> simp

theorem stepGD_busy (s : Shared) (gd : GD) : (stepGD s gd).1.busy = s.busy := by
  cases gd <;> simp only [stepGD] <;> (repeat' split) <;> simp

theorem stepGI_busy (s : Shared) (gi : GI) : (stepGI s gi).1.busy = s.busy := by
  cases gi <;> simp only [stepGI] <;> (repeat' split) <;> simp

theorem stepLP_busy (cfg : Cfg) (c : Nat) (s : Shared) (l : Locals) (b : Bool) (lp : LP) :
    (stepLP cfg c s l b lp).1.busy = s.busy := by
  cases lp with
  | get ng => have := stepNG_busy s b ng; simp only [stepLP]; split <;> simp_all
  | reget ng => have := stepNG_busy s b ng; simp only [stepLP]; split <;> simp_all
  | cool cd => have := stepCD_busy s cd; simp only [stepLP]; split <;> simp_all
  | _ => simp only [stepLP] <;> (repeat' split) <;> simp [dbgInUse] <;> (repeat' split) <;> simp

theorem stepPP_busy (cfg : Cfg) (p c : Nat) (s : Shared) (l : Locals) (b : Bool) (pp : PP) :
    (stepPP cfg p c s l b pp).1.busy = s.busy := by
  cases pp with
  | get ng => have := stepNG_busy s b ng; simp only [stepPP]; split <;> simp_all
  | hload h ld => have := stepLP_busy cfg c s l b ld; simp only [stepPP]; split <;> simp_all
  | hinto h r gi => have := stepGI_busy s gi; simp only [stepPP]; split <;> simp_all
  | _ => simp only [stepPP] <;> (repeat' split) <;> simp [dbgInUse] <;> (repeat' split) <;> simp

theorem stepCP_busy (cfg : Cfg) (c cur new : Nat) (s : Shared) (l : Locals) (b : Bool) (cp : CP) :
    (stepCP cfg c cur new s l b cp).1.busy = s.busy := by
  cases cp with
  | load ld => have := stepLP_busy cfg c s l b ld; simp only [stepCP]; split <;> simp_all
  | pay old pp => have := stepPP_busy cfg old.ptr c s l b pp; simp only [stepCP]; split <;> simp_all
  | dropOld gd => have := stepGD_busy s gd; simp only [stepCP]; split <;> simp_all
  | _ => simp only [stepCP] <;> (repeat' split) <;> simp [Shared.writeCell]

theorem stepRP_busy (cfg : Cfg) (c : Nat) (s : Shared) (l : Locals) (b : Bool) (tries : Nat) (rp : RP) :
    (stepRP cfg c s l b tries rp).1.busy = s.busy := by
  cases rp with
  | load ld => have := stepLP_busy cfg c s l b ld; simp only [stepRP]; split <;> simp_all
  | cas cur x cp =>
    have := stepCP_busy cfg c cur.ptr x s l b cp
    simp only [stepRP]; split
    · rename_i s' l' prev evs heq; rw [heq] at this; (repeat' split) <;> exact this
    · rename_i s' l' cp' evs hne heq; rw [heq] at this; exact this
  | intoPrev cur prev gi =>
    have := stepGI_busy s gi
    simp only [stepRP]; split
    · rename_i s' evs heq; rw [heq] at this; (repeat' split) <;> exact this
    · rename_i s' gi' evs hne heq; rw [heq] at this; exact this
  | dropCur res gd => have := stepGD_busy s gd; simp only [stepRP]; split <;> simp_all
  | dropCurLoop prev gd => have := stepGD_busy s gd; simp only [stepRP]; split <;> simp_all
  | attempt cur => simp only [stepRP]; split <;> simp [alloc]
  | done r => simp only [stepRP]

end M

namespace M
open Consts

/-- does the operation count in `busy c`? -/
def OpSt.nb (op : OpSt) (c : Nat) : Nat := if op.cell? = some c ∧ op.cons = false then 1 else 0

theorem OpSt.nb_le_one (op : OpSt) (c : Nat) : op.nb c ≤ 1 := by
  unfold OpSt.nb; split <;> omega

theorem beginOp_busy (st : State) (t : Nat) (o : Op) (c : Nat) :
    (beginOp st t o).1.sh.busy c = st.sh.busy c + ((beginOp st t o).1.th t).op.nb c := by
  have close : ∀ (c0 : Nat) (busy : Nat → Nat) (op : OpSt), op.cell? = some c0 → op.cons = false →
      upd busy c0 (busy c0 + 1) c = busy c + op.nb c := by
    intro c0 busy op h1 h2
    by_cases e : c0 = c
    · subst e; simp [OpSt.nb, h1, h2]
    · have : c ≠ c0 := fun x => e x.symm
      simp [OpSt.nb, h1, h2, upd, this, e]
  cases o with
  | load c0 g =>
    simp only [beginOp]; (repeat' split) <;>
      first | (simp [OpSt.nb, OpSt.cell?]; done) | (simp only [upd_same]; exact close c0 _ _ rfl rfl)
  | loadfull c0 g =>
    simp only [beginOp]; (repeat' split) <;>
      first | (simp [OpSt.nb, OpSt.cell?]; done) | (simp only [upd_same]; exact close c0 _ _ rfl rfl)
  | store c0 g =>
    simp only [beginOp]; (repeat' split) <;>
      first | (simp [OpSt.nb, OpSt.cell?]; done) | (simp only [upd_same]; exact close c0 _ _ rfl rfl)
  | swap c0 g out =>
    simp only [beginOp]; (repeat' split) <;>
      first | (simp [OpSt.nb, OpSt.cell?]; done) | (simp only [upd_same]; exact close c0 _ _ rfl rfl)
  | cas c0 cur new g =>
    simp only [beginOp]; (repeat' split) <;>
      first | (simp [OpSt.nb, OpSt.cell?]; done) | (simp only [upd_same]; exact close c0 _ _ rfl rfl)
  | rcu c0 out =>
    simp only [beginOp]; (repeat' split) <;>
      first | (simp [OpSt.nb, OpSt.cell?]; done) | (simp only [upd_same]; exact close c0 _ _ rfl rfl)
  | _ =>
    simp only [beginOp] <;> (repeat' split) <;>
      first
        | (simp [OpSt.nb, OpSt.cell?, OpSt.cons, alloc]; done)
        | (dsimp only; (try split) <;> simp [OpSt.nb, OpSt.cell?, OpSt.cons, alloc]; done)

end M

namespace M
open Consts

theorem unbusy_close (c0 c : Nat) (busy : Nat → Nat) (op : OpSt) (h1 : op.cell? = some c0) (h2 : op.cons = false)
    (h : op.nb c ≤ busy c) : upd busy c0 (busy c0 - 1) c + op.nb c = busy c + OpSt.idle.nb c := by
  have hz : OpSt.idle.nb c = 0 := by simp [OpSt.nb, OpSt.cell?]
  rw [hz]
  by_cases e : c0 = c
  · subst e
    have : op.nb c0 = 1 := by simp [OpSt.nb, h1, h2]
    rw [this] at h ⊢
    simp only [upd_same]; omega
  · have hne : c ≠ c0 := fun x => e x.symm
    have : op.nb c = 0 := by simp [OpSt.nb, h1, e]
    simp [this, upd, hne]

theorem nb_same (op op' : OpSt) (c : Nat) (h1 : op'.cell? = op.cell?) (h2 : op'.cons = op.cons) : op'.nb c = op.nb c := by
  simp [OpSt.nb, h1, h2]

/-- **the bookkeeping of `busy`**: one step of a thread changes `busy c` by exactly the change of
    whether the thread's operation counts on `c` -/
theorem microStep_busy (st : State) (t : Nat) (b : Bool) (c : Nat) (h : (st.th t).op.nb c ≤ st.sh.busy c) :
    (microStep st t b).1.sh.busy c + (st.th t).op.nb c =
      st.sh.busy c + ((microStep st t b).1.th t).op.nb c := by
  cases hop : (st.th t).op with
  | finished => simp only [microStep, hop]
  | idle =>
    simp only [microStep, hop]
    split
    · simp only [upd_same]; split <;> simp [OpSt.nb, OpSt.cell?]
    · rename_i txt o rest hp
      have := beginOp_busy { st with th := upd st.th t { prog := rest, op := .idle, loc := (st.th t).loc } } t o c
      simp only [OpSt.nb, OpSt.cell?] at this ⊢
      simpa using this
  | exitCool cd =>
    have hb := stepCD_busy st.sh cd
    simp only [microStep, hop]
    split
    · rename_i s' evs heq; rw [heq] at hb; dsimp only at hb ⊢; simp [hb, OpSt.nb, OpSt.cell?]
    · rename_i s' cd' evs hne heq; rw [heq] at hb; dsimp only at hb ⊢; simp [hb, OpSt.nb, OpSt.cell?]
  | load c0 g ld =>
    have hb := stepLP_busy st.cfg c0 st.sh (st.th t).loc b ld
    rw [hop] at h
    simp only [microStep, hop]
    split
    · rename_i s' l' p d evs heq; rw [heq] at hb; dsimp only at hb ⊢; simp only [upd_same, hb]
      exact unbusy_close c0 c st.sh.busy _ rfl rfl h
    · rename_i s' l' ld' evs hne heq; rw [heq] at hb; dsimp only at hb ⊢; simp only [upd_same, hb]
      simp only [OpSt.nb, OpSt.cell?, OpSt.cons]
  | loadFull c0 x ld =>
    have hb := stepLP_busy st.cfg c0 st.sh (st.th t).loc b ld
    rw [hop] at h
    simp only [microStep, hop]
    split
    · rename_i s' l' p d evs heq; rw [heq] at hb; dsimp only at hb ⊢
      split
      · simp only [upd_same, hb]; exact unbusy_close c0 c st.sh.busy _ rfl rfl h
      · simp only [upd_same, hb]; simp only [OpSt.nb, OpSt.cell?, OpSt.cons]
    · rename_i s' l' ld' evs hne heq; rw [heq] at hb; dsimp only at hb ⊢; simp only [upd_same, hb]
      simp only [OpSt.nb, OpSt.cell?, OpSt.cons]
  | loadFullInto c0 x r gi =>
    have hb := stepGI_busy st.sh gi
    rw [hop] at h
    simp only [microStep, hop]
    split
    · rename_i s' evs heq; rw [heq] at hb; dsimp only at hb ⊢; simp only [upd_same, hb]
      exact unbusy_close c0 c st.sh.busy _ rfl rfl h
    · rename_i s' gi' evs hne heq; rw [heq] at hb; dsimp only at hb ⊢; simp only [upd_same, hb]
      simp only [OpSt.nb, OpSt.cell?, OpSt.cons]
  | cloneh x y a0 => simp only [microStep, hop]; simp [OpSt.nb, OpSt.cell?]
  | droph a0 => simp only [microStep, hop]; simp [OpSt.nb, OpSt.cell?]
  | dropg gd =>
    have hb := stepGD_busy st.sh gd
    simp only [microStep, hop]
    split
    · rename_i s' evs heq; rw [heq] at hb; dsimp only at hb ⊢; simp [hb, OpSt.nb, OpSt.cell?]
    · rename_i s' gd' evs hne heq; rw [heq] at hb; dsimp only at hb ⊢; simp [hb, OpSt.nb, OpSt.cell?]
  | ginto x p gi =>
    have hb := stepGI_busy st.sh gi
    simp only [microStep, hop]
    split
    · rename_i s' evs heq; rw [heq] at hb; dsimp only at hb ⊢; simp [hb, OpSt.nb, OpSt.cell?]
    · rename_i s' gi' evs hne heq; rw [heq] at hb; dsimp only at hb ⊢; simp [hb, OpSt.nb, OpSt.cell?]
  | swapSw c0 a0 out isStore =>
    simp only [microStep, hop]
    split
    · simp only [upd_same, Shared.writeCell]; simp only [OpSt.nb, OpSt.cell?, OpSt.cons]
    · rw [hop]
  | swapPay c0 out old isStore pp =>
    have hb := stepPP_busy st.cfg old c0 st.sh (st.th t).loc b pp
    rw [hop] at h
    simp only [microStep, hop]
    split
    · rename_i s' l' evs heq; rw [heq] at hb; dsimp only at hb ⊢
      (repeat' split)
      · simp only [upd_same, hb]; exact unbusy_close c0 c st.sh.busy _ rfl rfl h
      · simp only [upd_same, hb]; simp only [OpSt.nb, OpSt.cell?, OpSt.cons]
      · simp only [upd_same, hb]; exact unbusy_close c0 c st.sh.busy _ rfl rfl h
    · rename_i s' l' pp' evs hne heq; rw [heq] at hb; dsimp only at hb ⊢; simp only [upd_same, hb]
      simp only [OpSt.nb, OpSt.cell?, OpSt.cons]
  | swapDrop c0 old =>
    rw [hop] at h
    simp only [microStep, hop, upd_same, decObj_busy]
    exact unbusy_close c0 c st.sh.busy _ rfl rfl h
  | cas c0 cur keep curPtr new g cp =>
    have hb := stepCP_busy st.cfg c0 curPtr new st.sh (st.th t).loc b cp
    rw [hop] at h
    simp only [microStep, hop]
    split
    · rename_i s' l' old evs heq; rw [heq] at hb; dsimp only at hb ⊢
      cases cur <;> cases keep <;>
        (simp only [upd_same, hb]; exact unbusy_close c0 c st.sh.busy _ rfl rfl h)
    · rename_i s' l' cp' evs hne heq; rw [heq] at hb; dsimp only at hb ⊢; simp only [upd_same, hb]
      simp only [OpSt.nb, OpSt.cell?, OpSt.cons]
  | rcu c0 out tries rp =>
    have hb := stepRP_busy st.cfg c0 st.sh (st.th t).loc b tries rp
    rw [hop] at h
    simp only [microStep, hop]
    split
    · rename_i s' l' r tries' evs heq; rw [heq] at hb; dsimp only at hb ⊢; simp only [upd_same, hb]
      exact unbusy_close c0 c st.sh.busy _ rfl rfl h
    · rename_i s' l' rp' tries' evs hne heq; rw [heq] at hb; dsimp only at hb ⊢; simp only [upd_same, hb]
      simp only [OpSt.nb, OpSt.cell?, OpSt.cons]
  | cinto c0 x p pp =>
    have hb := stepPP_busy st.cfg p c0 st.sh (st.th t).loc b pp
    simp only [microStep, hop]
    split
    · rename_i s' l' evs heq; rw [heq] at hb; dsimp only at hb ⊢; simp [hb, OpSt.nb, OpSt.cell?, OpSt.cons]
    · rename_i s' l' pp' evs hne heq; rw [heq] at hb; dsimp only at hb ⊢; simp [hb, OpSt.nb, OpSt.cell?, OpSt.cons]
  | dropc c0 p pp =>
    have hb := stepPP_busy st.cfg p c0 st.sh (st.th t).loc b pp
    simp only [microStep, hop]
    split
    · rename_i s' l' evs heq; rw [heq] at hb; dsimp only at hb ⊢
      split <;> simp [hb, OpSt.nb, OpSt.cell?, OpSt.cons]
    · rename_i s' l' pp' evs hne heq; rw [heq] at hb; dsimp only at hb ⊢; simp [hb, OpSt.nb, OpSt.cell?, OpSt.cons]
  | dropcDec c0 p => simp only [microStep, hop]; simp [OpSt.nb, OpSt.cell?, OpSt.cons]

end M
