import ArcSwapModel.M.Frame

/-!
# Node ownership: per-thread bookkeeping is never shared (C11), `start_cooldown`'s assertion (C13)

`owns` is the node a thread may write debts and generations into: the node in its `LocalNode`
(unless it has just sent it to cooldown), or the node it has allocated and is linking into the
list.  Every step of every sub-machine changes the `in_use` words and a thread's `owns` in one of
five ways (`OwnStep`); the invariant `OwnInv` (an owned node is `USED`; no two threads own the same
node; owned nodes exist) is preserved by each of them.
-/

namespace M
open Consts

/-- how one step may change the node states and the moving thread's ownership -/
inductive OwnStep (s : Shared) (o : Option Nat) (s' : Shared) (o' : Option Nat) : Prop
  | same (hiu : ∀ m, (s'.nodes m).inUse = (s.nodes m).inUse) (hn : s'.nNodes = s.nNodes) (ho : o' = o)
  | release (n : Nat) (h : (s.nodes n).inUse = nodeCooldown)
      (hiu : ∀ m, (s'.nodes m).inUse = if m = n then nodeUnused else (s.nodes m).inUse)
      (hn : s'.nNodes = s.nNodes) (ho : o' = o)
  | claim (n : Nat) (h : (s.nodes n).inUse = nodeUnused) (hlt : n < s.nNodes ∨ True)
      (hiu : ∀ m, (s'.nodes m).inUse = if m = n then nodeUsed else (s.nodes m).inUse)
      (hn : s'.nNodes = s.nNodes) (hob : o = none) (ho : o' = some n)
  | fresh (hiu : ∀ m, (s'.nodes m).inUse = if m = s.nNodes then nodeUsed else (s.nodes m).inUse)
      (hn : s'.nNodes = s.nNodes + 1) (hob : o = none) (ho : o' = some s.nNodes)
  | cool (n : Nat) (hob : o = some n)
      (hiu : ∀ m, (s'.nodes m).inUse = if m = n then nodeCooldown else (s.nodes m).inUse)
      (hn : s'.nNodes = s.nNodes) (ho : o' = none)

/-- ownership as seen from a `Node::get` in progress (`base` = what the thread owns otherwise) -/
def ownsNG (base : Option Nat) : NG → Option Nat
  | .allocCas (some k) _ => some k
  | .done n => some n
  | _ => base

theorem stepNG_own (s : Shared) (b : Bool) (ng : NG) (hnd : ∀ n, ng ≠ .done n) :
    OwnStep s (ownsNG none ng) (stepNG s b ng).1 (ownsNG none (stepNG s b ng).2.1) := by
  cases ng with
  | trav =>
    simp only [stepNG]
    cases s.head <;> exact .same (fun _ => rfl) rfl rfl
  | cc0 n =>
    simp only [stepNG]
    split <;> exact .same (fun _ => rfl) rfl rfl
  | cc1 n =>
    simp only [stepNG]
    split <;> exact .same (fun _ => rfl) rfl rfl
  | cc2 n =>
    simp only [stepNG]
    split
    · rename_i h
      refine .release n h (fun m => ?_) rfl rfl
      by_cases hm : m = n
      · subst hm; simp
      · simp [hm]
    · exact .same (fun _ => rfl) rfl rfl
  | claim n =>
    simp only [stepNG]
    split
    · rename_i h
      refine .claim n h (Or.inr trivial) (fun m => ?_) rfl rfl rfl
      by_cases hm : m = n
      · subst hm; simp
      · simp [hm]
    · simp only [NG.afterNode]
      cases (s.nodes n).next <;> exact .same (fun _ => rfl) rfl rfl
  | allocLoad => exact .same (fun _ => rfl) rfl rfl
  | allocCas me h =>
    cases me with
    | some k =>
      simp only [stepNG]
      split
      · refine .same (fun m => ?_) rfl rfl
        by_cases hm : m = k
        · subst hm; simp
        · simp [hm]
      · refine .same (fun m => ?_) rfl rfl
        by_cases hm : m = k
        · subst hm; simp
        · simp [hm]
    | none =>
      simp only [stepNG]
      split
      · refine .fresh (fun m => ?_) rfl rfl rfl
        by_cases hm : m = s.nNodes
        · subst hm; simp [Shared.setNode, upd]
        · simp [Shared.setNode, upd, hm]
      · refine .fresh (fun m => ?_) rfl rfl rfl
        by_cases hm : m = s.nNodes
        · subst hm; simp [Shared.setNode, upd]
        · simp [Shared.setNode, upd, hm]
  | done n => exact absurd rfl (hnd n)

end M
